import Deb822Verif.Props.C16Lossless
import Deb822Verif.Props.C20Ext
/-!
# C16More — what the audit of C16 (logs/audit_C16.md) found missing

* Part 1  exact forms: `toFields` as a `filterMap` over the zipped (field, value) list; the key order
          after `update_paragraph` in closed form; `to_paragraph` prints the same text on both back-ends.
* Part 2  `Nodup` of the keys is necessary (two struct fields mapped to one key): closed witnesses.
* Part 3  the list leaf codecs round-trip EXACTLY on their stated domains (iff), with the values of
          `ftpmaster::Removal` that do not survive as witnesses.
* Part 4  the table-level round trip with the external codecs as parameters: lossy `Relations` and
          `debversion::Version` by their models (`C20Ext`), url / date / URI list under a named
          per-field assumption; one kernel-checked inhabitant per shipped struct.
* Part 5  clause "comments and formatting of untouched fields are unchanged" of the property text:
          `update_paragraph` on a lossless paragraph keeps every child of the PARAGRAPH node that is
          not an entry of an owned key — the same nodes in the same order, up to the one NEWLINE that
          `terminate_last_line` may add.
-/
set_option linter.unusedSimpArgs false
set_option linter.unusedVariables false
namespace Deb822Verif.Props.C16More
open Deb822Verif Deb Node Derive Derive.Lossless
open Deb822Verif.Props.C16

variable {V : Type}

/-! ## Part 1 — exact forms -/

/-- **`to_paragraph`, exactly**: the `fields` vector is the list of (key, serialiser of THAT field applied
    to THAT field's value) over the present fields, in declaration order (replaces the existential
    `C16_order_values`: no other field's serialiser, no other field's value) -/
theorem C16_toFields_exact (spec : List (FieldSpec V)) (x : List (Option V)) :
    toFields spec x = (spec.zip x).filterMap fun fv => fv.2.map fun v => (fv.1.key, fv.1.ser v) := by
  induction spec generalizing x with
  | nil => cases x <;> simp [toFields]
  | cons f fs ih =>
    cases x with
    | nil => simp [toFields]
    | cons v vs => cases v <;> simp [toFields, ih vs]

/-- the keys of the absent (optional) fields, in declaration order -/
def absentKeys : List (FieldSpec V) → List (Option V) → List Str
  | _ :: fs, some _ :: vs => absentKeys fs vs
  | f :: fs, none :: vs => f.key :: absentKeys fs vs
  | _, _ => []

theorem presentKeys_sub (spec : List (FieldSpec V)) (x : List (Option V)) :
    ∀ k ∈ presentKeys spec x, k ∈ specKeys spec := by
  induction spec generalizing x with
  | nil => intro k hk; cases x <;> simp [presentKeys] at hk
  | cons f fs ih =>
    intro k hk
    cases x with
    | nil => simp [presentKeys] at hk
    | cons v vs =>
      cases v with
      | none =>
        simp only [presentKeys] at hk
        simp only [specKeys, List.map_cons, List.mem_cons]; right; exact ih vs k hk
      | some v =>
        simp only [presentKeys, List.mem_cons] at hk
        simp only [specKeys, List.map_cons, List.mem_cons]
        rcases hk with hk | hk
        · left; exact hk
        · right; exact ih vs k hk

theorem absentKeys_sub (spec : List (FieldSpec V)) (x : List (Option V)) :
    ∀ k ∈ absentKeys spec x, k ∈ specKeys spec := by
  induction spec generalizing x with
  | nil => intro k hk; cases x <;> simp [absentKeys] at hk
  | cons f fs ih =>
    intro k hk
    cases x with
    | nil => simp [absentKeys] at hk
    | cons v vs =>
      cases v with
      | some v =>
        simp only [absentKeys] at hk
        simp only [specKeys, List.map_cons, List.mem_cons]; right; exact ih vs k hk
      | none =>
        simp only [absentKeys, List.mem_cons] at hk
        simp only [specKeys, List.map_cons, List.mem_cons]
        rcases hk with hk | hk
        · left; exact hk
        · right; exact ih vs k hk

theorem keys_pset (p : Deb.Lossy.Para) (k v : Str) :
    (Deb.Lossy.pset p k v).map (·.1) = if k ∈ p.map (·.1) then p.map (·.1) else p.map (·.1) ++ [k] := by
  induction p with
  | nil => simp [Deb.Lossy.pset]
  | cons f fs ih =>
    simp only [Deb.Lossy.pset]
    by_cases hf : f.1 = k
    · simp [hf]
    · have hf' : ¬ k = f.1 := fun e => hf e.symm
      simp only [hf, ↓reduceIte, List.map_cons, ih, List.mem_cons, hf', false_or]
      split <;> simp

theorem keys_premove (p : Deb.Lossy.Para) (k : Str) :
    (Deb.Lossy.premove p k).map (·.1) = (p.map (·.1)).filter (fun k' => k' != k) := by
  unfold Deb.Lossy.premove
  induction p with
  | nil => rfl
  | cons f fs ih =>
    simp only [List.filter_cons, List.map_cons]
    by_cases hf : f.1 = k
    · simp [hf, ih]
    · simp [hf, ih]

/-- **the key order after `update_paragraph`, in closed form** (lossy paragraph; keys pairwise
    distinct): the fields that were there keep their places, every occurrence of an absent optional
    field goes, and the present fields that were not there are appended in declaration order -/
theorem C16_update_keys_closed (spec : List (FieldSpec V)) (x : List (Option V)) (p : Deb.Lossy.Para)
    (hn : (specKeys spec).Nodup) :
    (updateParagraph lossyBackend spec x p).map (·.1)
      = (p.map (·.1)).filter (fun k => decide (k ∉ absentKeys spec x))
        ++ (presentKeys spec x).filter (fun k => decide (k ∉ p.map (·.1))) := by
  induction spec generalizing x p with
  | nil =>
    cases x <;> simp only [updateParagraph, absentKeys, presentKeys, List.filter_nil, List.append_nil]
      <;> exact (List.filter_eq_self.2 (by simp)).symm
  | cons f fs ih =>
    simp only [specKeys, List.map_cons, List.nodup_cons] at hn
    cases x with
    | nil =>
      simp only [updateParagraph, absentKeys, presentKeys, List.filter_nil, List.append_nil]
      exact (List.filter_eq_self.2 (by simp)).symm
    | cons v vs =>
      cases v with
      | some v =>
        simp only [updateParagraph, absentKeys, presentKeys]
        rw [ih vs _ hn.2]
        show ((Deb.Lossy.pset p f.key (f.ser v)).map (·.1)).filter _ ++
          (presentKeys fs vs).filter (fun k => decide (k ∉ (Deb.Lossy.pset p f.key (f.ser v)).map (·.1))) = _
        rw [keys_pset]
        have hna : f.key ∉ absentKeys fs vs := fun h => hn.1 (absentKeys_sub fs vs _ h)
        have hnp : f.key ∉ presentKeys fs vs := fun h => hn.1 (presentKeys_sub fs vs _ h)
        by_cases hk : f.key ∈ p.map (·.1)
        · simp only [hk, ↓reduceIte, List.filter_cons, not_true_eq_false, decide_false,
            Bool.false_eq_true]
          rfl
        · simp only [hk, ↓reduceIte, List.filter_append, List.filter_cons, hna, not_false_eq_true,
            decide_true, List.filter_nil, List.append_assoc, List.cons_append, List.nil_append]
          congr 2
          apply List.filter_congr
          intro k' hk'
          have : k' ≠ f.key := fun e => hnp (e ▸ hk')
          simp [this]
      | none =>
        simp only [updateParagraph, absentKeys, presentKeys]
        rw [ih vs _ hn.2]
        show ((Deb.Lossy.premove p f.key).map (·.1)).filter _ ++
          (presentKeys fs vs).filter (fun k => decide (k ∉ (Deb.Lossy.premove p f.key).map (·.1))) = _
        rw [keys_premove]
        have hnp : f.key ∉ presentKeys fs vs := fun h => hn.1 (presentKeys_sub fs vs _ h)
        congr 1
        · rw [List.filter_filter]
          apply List.filter_congr
          intro k' _
          by_cases e : k' = f.key <;> simp [e]
        · apply List.filter_congr
          intro k' hk'
          have : k' ≠ f.key := fun e => hnp (e ▸ hk')
          simp [this]

/-- no key of an absent field is left, whatever the prior paragraph held (all duplicates go) -/
theorem C16_update_absent_gone (spec : List (FieldSpec V)) (x : List (Option V)) (p : Deb.Lossy.Para)
    (hn : (specKeys spec).Nodup) :
    ∀ k ∈ absentKeys spec x, k ∉ (updateParagraph lossyBackend spec x p).map (·.1) := by
  have hdisj : ∀ k ∈ absentKeys spec x, k ∉ presentKeys spec x := by
    clear p
    induction spec generalizing x with
    | nil => intro k hk; cases x <;> simp [absentKeys] at hk
    | cons f fs ih =>
      simp only [specKeys, List.map_cons, List.nodup_cons] at hn
      cases x with
      | nil => intro k hk; simp [absentKeys] at hk
      | cons v vs =>
        cases v with
        | some v =>
          intro k hk
          simp only [absentKeys] at hk
          simp only [presentKeys, List.mem_cons, not_or]
          exact ⟨fun e => hn.1 (e ▸ absentKeys_sub fs vs k hk), ih vs hn.2 k hk⟩
        | none =>
          intro k hk
          simp only [absentKeys, List.mem_cons] at hk
          simp only [presentKeys]
          rcases hk with rfl | hk
          · exact fun h => hn.1 (presentKeys_sub fs vs _ h)
          · exact ih vs hn.2 k hk
  intro k hk
  rw [C16_update_keys_closed spec x p hn]
  simp only [List.mem_append, List.mem_filter, decide_eq_true_eq, not_or, not_and]
  exact ⟨fun _ h => h hk, fun h => absurd h (hdisj k hk)⟩

/-- the same closed form for `Paragraph::keys` of a lossless paragraph (any tree) -/
theorem C16_lossless_update_keys_closed (spec : List (FieldSpec V)) (x : List (Option V)) (p : DNode)
    (hn : (specKeys spec).Nodup) :
    Deb.keys (updateParagraph losslessBackend spec x p)
      = (Deb.keys p).filter (fun k => decide (k ∉ absentKeys spec x))
        ++ (presentKeys spec x).filter (fun k => decide (k ∉ Deb.keys p)) := by
  rw [C16_lossless_update_keys]
  show (updateParagraph lossyBackend spec x (items p)).map (·.1) = _
  rw [C16_update_keys_closed spec x _ hn, keys_eq_items]

/-- `Entry::new(k, v)` prints exactly what `Display for Field` prints for `(k, v)` -/
theorem text_entryNew_eq_printField (k v : Str) : (entryNew k v).text = Deb.Lossy.printField (k, v) := by
  rw [text_entryNew]
  unfold Deb.Lossy.printField
  cases h : Text.splitOn '\n' v with
  | nil => exact absurd h (C04.splitOn_ne_nil v)
  | cons l ls => simp

/-- **`to_paragraph` prints the same text on both back-ends**: the text of the lossless paragraph built
    by `to_paragraph(x)` is `Display` of the lossy one -/
theorem C16_to_paragraph_text_agrees (spec : List (FieldSpec V)) (x : List (Option V)) :
    (toParagraph losslessBackend spec x).text = Deb.Lossy.printPara (toParagraph lossyBackend spec x) := by
  show (paraOfPairs (toFields spec x)).text = Deb.Lossy.printPara (toFields spec x)
  unfold paraOfPairs Deb.Lossy.printPara
  generalize toFields spec x = l
  rw [text_node]
  induction l with
  | nil => rfl
  | cons kv l ih =>
    simp only [List.map_cons, textList_cons, List.flatten_cons, ih, text_entryNew_eq_printField]

/-! ### non-vacuity of Part 1 -/

/-- three fields, the middle one optional -/
def exSpec3 : List (FieldSpec Str) :=
  [⟨c!"Name", false, id, .ok⟩, ⟨c!"Size", true, id, .ok⟩, ⟨c!"New", false, id, .ok⟩]

example : (specKeys exSpec3).Nodup := by decide
/-- prior `X, Size, Size, Name`, value with `Size` absent: `X` and `Name` keep their places, both
    `Size` go, `New` is appended -/
example : (updateParagraph lossyBackend exSpec3 [some (c!"n"), none, some (c!"v")]
      [(c!"X", c!"1"), (c!"Size", c!"1"), (c!"Size", c!"2"), (c!"Name", c!"old")]).map (·.1)
    = [c!"X", c!"Name", c!"New"] := by decide
example : absentKeys exSpec3 [some (c!"n"), none, some (c!"v")] = [c!"Size"]
    ∧ presentKeys exSpec3 [some (c!"n"), none, some (c!"v")] = [c!"Name", c!"New"] := by decide
example : toFields exSpec3 [some (c!"n"), none, some "v\nw".toList] = [(c!"Name", c!"n"), (c!"New", "v\nw".toList)]
    ∧ Deb.Lossy.printPara (toFields exSpec3 [some (c!"n"), none, some "v\nw".toList]) = "Name: n\nNew: v\n w\n".toList := by
  decide

/-! ## Part 2 — `Nodup` of the keys is necessary

  The macro accepts two struct fields mapped to the same key (`#[deb822(field = "K")]` twice; audit
  D2). The real code on these inputs answers what the model answers (scratch crate, audit §4). -/

/-- `struct { #[deb822(field="K")] a: String, #[deb822(field="K")] b: String }` -/
def sameKey : List (FieldSpec Str) := [⟨c!"K", false, id, .ok⟩, ⟨c!"K", false, id, .ok⟩]
/-- the same with two optional fields -/
def sameKeyOpt : List (FieldSpec Str) := [⟨c!"K", true, id, .ok⟩, ⟨c!"K", true, id, .ok⟩]

/-- **round trip needs distinct keys**: `{a: "1", b: "2"}` is a well-formed value whose codecs
    round-trip; `to_paragraph` writes `K: 1⏎K: 2⏎` and `from_paragraph` of that is `{a: "1", b: "1"}`
    — on both back-ends -/
theorem C16_roundtrip_needs_nodup :
    ¬ (specKeys sameKey).Nodup
    ∧ WellFormed sameKey [some (c!"1"), some (c!"2")] ∧ CodecsRoundTrip sameKey [some (c!"1"), some (c!"2")]
    ∧ toParagraph lossyBackend sameKey [some (c!"1"), some (c!"2")] = [(c!"K", c!"1"), (c!"K", c!"2")]
    ∧ fromParagraph lossyBackend sameKey (toParagraph lossyBackend sameKey [some (c!"1"), some (c!"2")])
        = .ok [some (c!"1"), some (c!"1")]
    ∧ fromParagraph losslessBackend sameKey (toParagraph losslessBackend sameKey [some (c!"1"), some (c!"2")])
        = .ok [some (c!"1"), some (c!"1")] := by
  refine ⟨by decide, by simp [WellFormed, sameKey], by simp [CodecsRoundTrip, sameKey], by decide, by decide, ?_⟩
  rw [(C16_lossless_simulates_lossy sameKey [some (c!"1"), some (c!"2")]).1,
    (C16_lossless_simulates_lossy sameKey [some (c!"1"), some (c!"2")]).2.1]
  decide

/-- **update needs distinct keys**: `{a: Some("1"), b: None}` on the prior paragraph `K: old⏎Z: z⏎`:
    `set K 1` then `remove K` leaves `Z: z⏎`, which reads back as `{None, None}` — the value is lost;
    with two mandatory fields `{a:"1", b:"2"}` the paragraph ends as `K: 2⏎Z: z⏎` and reads `{2, 2}` -/
theorem C16_update_needs_nodup :
    WellFormed sameKeyOpt [some (c!"1"), none] ∧ CodecsRoundTrip sameKeyOpt [some (c!"1"), none]
    ∧ updateParagraph lossyBackend sameKeyOpt [some (c!"1"), none] [(c!"K", c!"old"), (c!"Z", c!"z")]
        = [(c!"Z", c!"z")]
    ∧ fromParagraph lossyBackend sameKeyOpt
        (updateParagraph lossyBackend sameKeyOpt [some (c!"1"), none] [(c!"K", c!"old"), (c!"Z", c!"z")])
        = .ok [none, none]
    ∧ updateParagraph lossyBackend sameKey [some (c!"1"), some (c!"2")] [(c!"K", c!"old"), (c!"Z", c!"z")]
        = [(c!"K", c!"2"), (c!"Z", c!"z")]
    ∧ fromParagraph lossyBackend sameKey
        (updateParagraph lossyBackend sameKey [some (c!"1"), some (c!"2")] [(c!"K", c!"old"), (c!"Z", c!"z")])
        = .ok [some (c!"2"), some (c!"2")] := by
  refine ⟨by simp [WellFormed, sameKeyOpt], by simp [CodecsRoundTrip, sameKeyOpt], by decide, by decide,
    by decide, by decide⟩

/-! ## Part 3 — the list leaf codecs: exact domains

  `KindOK` (Props/C16) says: on `canon` the pair round-trips. Here the converse: a list that
  round-trips lies in the stated domain — the domains are exact, no value is excluded without need. -/

open Deb822Verif.Text

theorem rawLines_no_nl (t : Str) : ∀ p ∈ rawLines t, '\n' ∉ p.1 := by
  induction t with
  | nil => intro p hp; simp [rawLines] at hp
  | cons c cs ih =>
    intro p hp
    rw [rawLines] at hp
    split at hp
    · simp only [List.mem_cons] at hp
      rcases hp with rfl | hp
      · simp
      · exact ih p hp
    · rename_i hc
      split at hp
      · simp only [List.mem_singleton] at hp
        subst hp
        simp [Ne.symm hc]
      · rename_i l t ls hr
        simp only [List.mem_cons] at hp
        rcases hp with rfl | hp
        · have := ih (l, t) (by rw [hr]; simp)
          simp only [List.mem_cons, not_or]
          exact ⟨Ne.symm hc, this⟩
        · exact ih p (by rw [hr]; simp [hp])

/-- no line of `str::lines()` contains a line feed -/
theorem lines_no_nl (t : Str) : ∀ w ∈ Text.lines t, '\n' ∉ w := by
  intro w hw
  simp only [Text.lines, List.mem_map] at hw
  obtain ⟨p, hp, rfl⟩ := hw
  have := rawLines_no_nl t p hp
  split
  · unfold stripCR
    split
    · intro h; exact this (List.dropLast_subset _ h)
    · exact this
  · exact this

theorem stripCR_eq_self (l : Str) : stripCR l = l ↔ l.getLast? ≠ some '\r' := by
  constructor
  · intro h hl
    unfold stripCR at h
    rw [if_pos hl] at h
    have := congrArg List.length h
    have hne : l ≠ [] := by intro e; subst e; simp at hl
    simp only [List.length_dropLast] at this
    have : 0 < l.length := List.length_pos_iff.mpr hne
    omega
  · exact stripCR_of_ok l

/-- the exact domain of `lines()` / `join("\n")` -/
def LinesDom (l : List Str) : Prop :=
  l = [] ∨ (l.getLast? ≠ some [] ∧ (∀ w ∈ l, '\n' ∉ w) ∧ ∀ w ∈ l.dropLast, w.getLast? ≠ some '\r')

theorem lines_join_iff (l : List Str) (hnl : ∀ w ∈ l, '\n' ∉ w) :
    Text.lines (joinWith ['\n'] l) = l ↔
      (l = [] ∨ (l.getLast? ≠ some [] ∧ ∀ w ∈ l.dropLast, w.getLast? ≠ some '\r')) := by
  induction l with
  | nil => simp [joinWith, Text.join, Text.lines, rawLines]
  | cons x r ih =>
    cases r with
    | nil =>
      simp only [joinWith, Text.join, List.getLast?_singleton, ne_eq, Option.some.injEq,
        List.dropLast_singleton, List.not_mem_nil, false_imp_iff, implies_true, and_true, reduceCtorEq,
        false_or]
      by_cases hx : x = []
      · subst hx; simp [Text.lines, rawLines]
      · simp [Text.lines, rawLines_single x hx (hnl x (by simp)), hx]
    | cons y r' =>
      have hx := hnl x (by simp)
      have ih' := ih (fun w hw => hnl w (by simp [hw]))
      have hraw := rawLines_line_cons x (joinWith ['\n'] (y :: r')) hx
      have hl : Text.lines (joinWith ['\n'] (x :: y :: r')) = stripCR x :: Text.lines (joinWith ['\n'] (y :: r')) := by
        simp only [joinWith, Text.join, List.append_assoc, List.cons_append, List.nil_append] at hraw ⊢
        simp only [Text.lines, hraw, List.map_cons, ↓reduceIte]
      rw [hl]
      simp only [List.cons.injEq, stripCR_eq_self, ih', reduceCtorEq, false_or, List.getLast?_cons_cons,
        List.dropLast_cons_cons, List.mem_cons, forall_eq_or_imp]
      constructor
      · rintro ⟨h1, h2, h3⟩; exact ⟨h2, h1, h3⟩
      · rintro ⟨h2, h1, h3⟩; exact ⟨h1, h2, h3⟩

/-- **`ftpmaster::{serialize_list, deserialize_list}` round-trips a list exactly on `LinesDom`**: the
    empty list, or: no element contains a line feed, the last element is not empty, and no element but
    the last ends in a carriage return. (`linesCodec.canon` — every element non-empty and not ending
    in CR — is a sub-domain: `["", "a"]`, `["a\r"]` round-trip as well.) -/
theorem C16_lines_roundtrip_iff (l : List Str) :
    linesCodec.de (linesCodec.ser (.list l)) = .ok (.list l) ↔ LinesDom l := by
  simp only [linesCodec, listSer, Except.ok.injEq, Val.list.injEq, LinesDom]
  constructor
  · intro h
    have hnl : ∀ w ∈ l, '\n' ∉ w := by rw [← h]; exact lines_no_nl _
    rcases (lines_join_iff l hnl).1 h with h | ⟨h1, h2⟩
    · left; exact h
    · right; exact ⟨h1, hnl, h2⟩
  · rintro (rfl | ⟨h1, hnl, h2⟩)
    · rfl
    · exact (lines_join_iff l hnl).2 (Or.inr ⟨h1, h2⟩)

theorem linesCanon_sub (l : List Str) (h : linesCodec.canon (.list l)) : LinesDom l := by
  obtain ⟨l', hl', h⟩ := h
  cases hl'
  by_cases hl : l = []
  · left; exact hl
  · right
    refine ⟨?_, fun w hw => (h w hw).2.1, fun w hw => (h w (List.dropLast_subset _ hw)).2.2⟩
    intro hlast
    exact (h [] (List.mem_of_getLast? hlast)).1 rfl

/-- **the values of `ftpmaster::Removal { sources, binaries }` that do not survive** (audit D3; the
    real code answers the same: `derive.value` requests of the generator): `Some(vec![""])` reads back
    `Some(vec![])`, `["a", ""]` reads back `["a"]`, `["a\r", "b"]` reads back `["a", "b"]`; none is in
    `LinesDom`; `["", "a"]` and `["a\r"]` are, and survive -/
theorem C16_lines_witnesses :
    linesCodec.de (linesCodec.ser (.list [[]])) = .ok (.list [])
    ∧ linesCodec.de (linesCodec.ser (.list [c!"a", []])) = .ok (.list [c!"a"])
    ∧ linesCodec.de (linesCodec.ser (.list ["a\r".toList, c!"b"])) = .ok (.list [c!"a", c!"b"])
    ∧ ¬ LinesDom [[]] ∧ ¬ LinesDom [c!"a", []] ∧ ¬ LinesDom ["a\r".toList, c!"b"]
    ∧ LinesDom [[], c!"a"] ∧ LinesDom ["a\r".toList]
    ∧ linesCodec.de (linesCodec.ser (.list [[], c!"a"])) = .ok (.list [[], c!"a"])
    ∧ linesCodec.de (linesCodec.ser (.list ["a\r".toList])) = .ok (.list ["a\r".toList]) := by
  refine ⟨by decide, by decide, by decide, ?_, ?_, ?_, ?_, ?_, by decide, by decide⟩
  · rw [← C16_lines_roundtrip_iff]; decide
  · rw [← C16_lines_roundtrip_iff]; decide
  · rw [← C16_lines_roundtrip_iff]; decide
  · rw [← C16_lines_roundtrip_iff]; decide
  · rw [← C16_lines_roundtrip_iff]; decide

/-- every piece of `split_whitespace` is non-empty and free of white space -/
theorem sw_go_pieces (s cur : Str) (hc : ∀ c ∈ cur, isWhitespace c = false) :
    ∀ w ∈ splitWhitespace.go s cur, C18.Tok w := by
  induction s generalizing cur with
  | nil =>
    intro w hw
    simp only [splitWhitespace.go] at hw
    split at hw
    · simp at hw
    · rename_i hne
      simp only [List.mem_singleton] at hw
      subst hw
      exact ⟨by simpa using hne, fun c hc' => hc c (by simpa using hc')⟩
  | cons c cs ih =>
    intro w hw
    simp only [splitWhitespace.go] at hw
    split at hw
    · split at hw
      · exact ih [] (by simp) w hw
      · rename_i hne
        simp only [List.mem_cons] at hw
        rcases hw with rfl | hw
        · exact ⟨by simpa using hne, fun c' hc' => hc c' (by simpa using hc')⟩
        · exact ih [] (by simp) w hw
    · rename_i hws
      refine ih (c :: cur) ?_ w hw
      intro c' hc'
      simp only [List.mem_cons] at hc'
      rcases hc' with rfl | hc'
      · simpa using hws
      · exact hc c' hc'

theorem sw_pieces_tok (s : Str) : ∀ w ∈ splitWhitespace s, C18.Tok w :=
  sw_go_pieces s [] (by simp)

/-- the exact domain of the `split_whitespace` list codecs: every element is a non-empty word without
    white space -/
def WordsDom (l : List Str) : Prop := ∀ w ∈ l, w ≠ [] ∧ ∀ c ∈ w, isWhitespace c = false

/-- **`split_whitespace` / `join(" ")`** (components, architectures, binaries, string chains) -/
theorem C16_words_roundtrip_iff (l : List Str) :
    wordsCodec.de (wordsCodec.ser (.list l)) = .ok (.list l) ↔ WordsDom l := by
  constructor
  · intro h w hw
    simp only [wordsCodec, listSer, Except.ok.injEq, Val.list.injEq] at h
    rw [← h] at hw
    exact sw_pieces_tok _ w hw
  · intro h; exact words_ok _ ⟨l, rfl, h⟩

/-- **`split_whitespace` / `join("\n")`** (copyright `Files`, `Files-Excluded`) -/
theorem C16_fileList_roundtrip_iff (l : List Str) :
    fileListCodec.de (fileListCodec.ser (.list l)) = .ok (.list l) ↔ WordsDom l := by
  constructor
  · intro h w hw
    simp only [fileListCodec, listSer, Except.ok.injEq, Val.list.injEq] at h
    rw [← h] at hw
    exact sw_pieces_tok _ w hw
  · intro h; exact fileList_ok _ ⟨l, rfl, h⟩

theorem splitOn_no_sep (sep : Char) (t : Str) : ∀ w ∈ splitOn sep t, sep ∉ w := by
  induction t with
  | nil => intro w hw; simp [splitOn] at hw; subst hw; simp
  | cons c cs ih =>
    intro w hw
    rw [splitOn] at hw
    split at hw
    · simp only [List.mem_cons] at hw
      rcases hw with rfl | hw
      · simp
      · exact ih w hw
    · rename_i hc
      split at hw
      · simp only [List.mem_singleton] at hw; subst hw; simp [Ne.symm hc]
      · rename_i l ls hr
        simp only [List.mem_cons] at hw
        rcases hw with rfl | hw
        · have := ih l (by rw [hr]; simp)
          simp only [List.mem_cons, not_or]; exact ⟨Ne.symm hc, this⟩
        · exact ih w (by rw [hr]; simp [hw])

/-- the exact domain of `join("\n")` / `split('\n')`-unless-empty -/
def SplitLinesDom (l : List Str) : Prop := l ≠ [[]] ∧ ∀ w ∈ l, '\n' ∉ w

/-- **`join("\n")` / `if text.is_empty() { [] } else { text.split('\n') }`** (`Package-List`,
    `Copyright`): exactly the lists other than `[""]` whose elements contain no line feed -/
theorem C16_splitLines_roundtrip_iff (l : List Str) :
    splitLinesCodec.de (splitLinesCodec.ser (.list l)) = .ok (.list l) ↔ SplitLinesDom l := by
  constructor
  · intro h
    simp only [splitLinesCodec, listSer, Except.ok.injEq, Val.list.injEq] at h
    constructor
    · rintro rfl
      simp [joinWith, Text.join] at h
    · intro w hw
      split at h
      · subst h; simp at hw
      · rw [← h] at hw; exact splitOn_no_sep '\n' _ w hw
  · intro h; exact splitLines_ok _ ⟨l, rfl, h.1, h.2⟩

/-- witnesses for the word lists (real code: `derive.value apt.Release` with these components):
    `[""]` reads back `[]`, `["a b"]` reads back `["a", "b"]` -/
theorem C16_words_witnesses :
    wordsCodec.de (wordsCodec.ser (.list [[]])) = .ok (.list [])
    ∧ wordsCodec.de (wordsCodec.ser (.list [c!"a b"])) = .ok (.list [c!"a", c!"b"])
    ∧ ¬ WordsDom [[]] ∧ ¬ WordsDom [c!"a b"]
    ∧ fileListCodec.de (fileListCodec.ser (.list [c!"a", []])) = .ok (.list [c!"a"]) := by
  refine ⟨by decide, by decide, ?_, ?_, by decide⟩
  · rw [← C16_words_roundtrip_iff]; decide
  · rw [← C16_words_roundtrip_iff]; decide

/-! ## Part 5 — lossless: comments and formatting of untouched fields are unchanged

  Clause of the property text: "on lossless paragraphs, all comments and formatting of untouched
  fields [are] unchanged" by `update_paragraph`. `C16_lossless_update_keeps_foreign_items` speaks about
  (name, value) pairs; here the statement is about the NODES: every child of the PARAGRAPH node that is
  not an entry of an owned key — comment tokens, stray tokens, entries of foreign fields with all their
  tokens (the blanks after the colon, tabs, indentation of continuation lines, comments inside) — is
  the same node at the same relative position afterwards. The one exception is the line terminator
  `terminate_last_line` supplies before a new entry is appended: when the paragraph's last child at
  that moment is a foreign one whose line is unterminated, a NEWLINE token is added after it (a token)
  or at the end of its last line (a node).

  Built on the per-operation frame theorems of C04 (`C04_frame_set`, `C04_frame_remove`,
  `C04_refine_insert`) and on the shape of `terminateLastLine` (it rewrites only the last child:
  `terminateLast_snoc'`, `text_terminateLast_node` of Lemmas/DebEditFrame). "Untouched" = not owned:
  an owned field is rewritten even when its value does not change (its own layout is normalised). -/

open Deb822Verif.Props.C04 (pitems childItem)

/-- the child is an entry of one of the keys `ks` -/
def ownNode (ks : List Str) (c : DNode) : Bool := ks.any fun k => isEntryWithKey k c

/-- the children that are not entries of a key of `ks`: comments, other tokens, foreign entries -/
def foreignNodes (ks : List Str) (cs : List DNode) : List DNode := cs.filter fun c => !ownNode ks c

theorem isEntryWithKey_iff (k : Str) (c : DNode) :
    isEntryWithKey k c = true ↔ ∃ v, childItem c = [(k, v)] := by
  constructor
  · exact C04.childItem_key c k
  · rintro ⟨v, hv⟩
    unfold childItem at hv
    split at hv
    · rename_i he
      split at hv
      · rename_i k' hk
        simp only [List.cons.injEq, Prod.mk.injEq, and_true] at hv
        simp only [isEntryWithKey, he, hk, hv.1, Bool.true_and, beq_self_eq_true]
      · simp at hv
    · simp at hv

theorem ownNode_iff (ks : List Str) (c : DNode) :
    ownNode ks c = true ↔ ∃ k ∈ ks, ∃ v, childItem c = [(k, v)] := by
  simp only [ownNode, List.any_eq_true, isEntryWithKey_iff]

/-- being owned depends on the (name, value) of the child only -/
theorem ownNode_congr (ks : List Str) (c c' : DNode) (h : childItem c = childItem c') :
    ownNode ks c = ownNode ks c' := by
  rw [Bool.eq_iff_iff, ownNode_iff, ownNode_iff, h]

theorem ownNode_of_key (ks : List Str) (k : Str) (hk : k ∈ ks) (c : DNode) (h : isEntryWithKey k c = true) :
    ownNode ks c = true := by
  simp only [ownNode, List.any_eq_true]; exact ⟨k, hk, h⟩

theorem isEntryWithKey_new (k v : Str) : isEntryWithKey k (entryNew k v) = true := by
  rw [isEntryWithKey_iff]; exact ⟨v, C04.childItem_new k v⟩

theorem ownNode_tok (ks : List Str) (κ : Deb.Kind) (t : Str) : ownNode ks (.tok κ t) = false := by
  cases h : ownNode ks (.tok κ t) with
  | false => rfl
  | true =>
    obtain ⟨k, _, v, hv⟩ := (ownNode_iff ks _).1 h
    simp [childItem, Node.isNode] at hv

/-- one key per entry -/
theorem isEntryWithKey_unique (k k' : Str) (c : DNode) (h : isEntryWithKey k c = true)
    (h' : isEntryWithKey k' c = true) : k = k' := by
  obtain ⟨v, hv⟩ := (isEntryWithKey_iff k c).1 h
  obtain ⟨v', hv'⟩ := (isEntryWithKey_iff k' c).1 h'
  rw [hv] at hv'
  simpa using (List.cons.inj hv').1 |> congrArg Prod.fst

/-! ### the single steps -/

theorem foreign_append (ks : List Str) (a b : List DNode) :
    foreignNodes ks (a ++ b) = foreignNodes ks a ++ foreignNodes ks b := by
  simp [foreignNodes]

theorem foreign_own (ks : List Str) (c : DNode) (h : ownNode ks c = true) : foreignNodes ks [c] = [] := by
  simp [foreignNodes, h]

theorem foreign_not_own (ks : List Str) (c : DNode) (h : ownNode ks c = false) : foreignNodes ks [c] = [c] := by
  simp [foreignNodes, h]

/-- `remove` of an owned key drops owned entries only -/
theorem foreign_paraRemove (ks : List Str) (k : Str) (hk : k ∈ ks) (cs : List DNode) :
    foreignNodes ks (paraRemove cs k) = foreignNodes ks cs := by
  unfold foreignNodes paraRemove
  rw [List.filter_filter]
  apply List.filter_congr
  intro c _
  cases h : isEntryWithKey k c with
  | false => simp
  | true => simp [ownNode_of_key ks k hk c h]

/-- replacing an owned entry in place by the fresh entry -/
theorem foreign_replace (ks : List Str) (k v : Str) (hk : k ∈ ks) (pre post : List DNode) (e : DNode)
    (he : isEntryWithKey k e = true) :
    foreignNodes ks (pre ++ entryNew k v :: post) = foreignNodes ks (pre ++ e :: post) := by
  rw [show pre ++ entryNew k v :: post = pre ++ ([entryNew k v] ++ post) from rfl,
    show pre ++ e :: post = pre ++ ([e] ++ post) from rfl]
  simp only [foreign_append, foreign_own ks _ (ownNode_of_key ks k hk _ (isEntryWithKey_new k v)),
    foreign_own ks _ (ownNode_of_key ks k hk _ he)]

theorem foreign_snoc_new (ks : List Str) (k v : Str) (hk : k ∈ ks) (xs : List DNode) :
    foreignNodes ks (xs ++ [entryNew k v]) = foreignNodes ks xs := by
  rw [foreign_append, foreign_own ks _ (ownNode_of_key ks k hk _ (isEntryWithKey_new k v)), List.append_nil]

/-- `terminate_last_line` does not change what is read (from `C04_refine_insert`) -/
theorem pitems_terminate (cs : List DNode) : pitems (terminateLastLine cs) = pitems cs := by
  have h := C04.C04_refine_insert cs [] []
  simp only [paraInsert, C04.pitems_append, C04.ListSpec.insert] at h
  have h1 : pitems [entryNew [] []] = [([], [])] := by
    rw [C04.pitems_eq]; simp [C04.childItem_new]
  rw [h1] at h
  exact List.append_cancel_right h

/-- **the shape of `terminate_last_line`, sharp**: nothing changes; or the last child is a token and
    a NEWLINE token is put after it; or the last child is a node and it is replaced by ONE node of the
    same kind whose text is the old text plus a line feed and which reads as the same field -/
theorem terminateLastLine_sharp (cs : List DNode) :
    terminateLastLine cs = cs
    ∨ (∃ init κ t, cs = init ++ [.tok κ t] ∧ terminateLastLine cs = init ++ [.tok κ t, .tok .NEWLINE ['\n']])
    ∨ (∃ init κ kids kids', cs = init ++ [.node κ kids] ∧ terminateLastLine cs = init ++ [.node κ kids']
        ∧ textList kids' = textList kids ++ ['\n']
        ∧ childItem (.node κ kids') = childItem (.node κ kids)) := by
  rcases snoc_cases cs with rfl | ⟨init, last, rfl⟩
  · left
    rcases C04.C04_frame_terminator [] |>.2 with h | ⟨i, l, l', h, _⟩
    · exact h
    · simp at h
  · have hsplit : terminateLastLine (init ++ [last]) = init ++ [last]
        ∨ (∃ κ t, last = .tok κ t ∧ terminateLastLine (init ++ [last]) = init ++ [last] ++ [.tok .NEWLINE ['\n']])
        ∨ ((∀ κ t, last ≠ .tok κ t) ∧ terminateLastLine (init ++ [last]) = terminateLast (init ++ [last])) := by
      unfold terminateLastLine
      split
      · left; rfl
      · split
        · left; rfl
        · split
          · rename_i κ t hl
            right; left
            exact ⟨κ, t, by simpa using hl, rfl⟩
          · rename_i hl
            right; right
            refine ⟨fun κ t e => hl κ t (by simp [e]), rfl⟩
    rcases hsplit with h | ⟨κ, t, rfl, h⟩ | ⟨hnt, h⟩
    · left; exact h
    · right; left; exact ⟨init, κ, t, rfl, by simpa using h⟩
    · right; right
      cases last with
      | tok κ t => exact absurd rfl (hnt κ t)
      | node κ kids =>
        rw [terminateLast_snoc'] at h
        have htext := text_terminateLast_node (.node κ kids)
        simp only [terminatedLast'] at h htext
        refine ⟨init, κ, kids, _, rfl, h, by simpa using htext, ?_⟩
        have hp := pitems_terminate (init ++ [.node κ kids])
        rw [h, C04.pitems_append, C04.pitems_append] at hp
        have hp' := List.append_cancel_left hp
        simpa [C04.pitems_eq] using hp'

/-- what may happen to the list of foreign children: its last element gets its line terminated -/
def TermLast (A B : List DNode) : Prop :=
  ∃ init last last', A = init ++ [last] ∧ B = init ++ last'
    ∧ textList last' = last.text ++ ['\n'] ∧ pitems last' = pitems [last]
    ∧ ((∃ κ t, last = .tok κ t ∧ last' = [last, .tok .NEWLINE ['\n']])
       ∨ (∃ κ kids kids', last = .node κ kids ∧ last' = [.node κ kids']))

/-- `terminate_last_line` on the foreign children: unchanged, or the last of them terminated -/
theorem foreign_terminate (ks : List Str) (cs : List DNode) :
    foreignNodes ks (terminateLastLine cs) = foreignNodes ks cs
    ∨ TermLast (foreignNodes ks cs) (foreignNodes ks (terminateLastLine cs)) := by
  rcases terminateLastLine_sharp cs with h | ⟨init, κ, t, rfl, h⟩ | ⟨init, κ, kids, kids', rfl, h, htext, hitem⟩
  · left; rw [h]
  · right
    rw [h, show init ++ [Node.tok κ t, Node.tok Kind.NEWLINE ['\n']]
        = init ++ ([Node.tok κ t] ++ [Node.tok Kind.NEWLINE ['\n']]) from rfl]
    simp only [foreign_append, foreign_not_own ks _ (ownNode_tok ks κ t),
      foreign_not_own ks _ (ownNode_tok ks .NEWLINE ['\n'])]
    refine ⟨foreignNodes ks init, .tok κ t, [.tok κ t, .tok .NEWLINE ['\n']], rfl, rfl, by simp, ?_,
      Or.inl ⟨κ, t, rfl, rfl⟩⟩
    simp [C04.pitems_eq, childItem, Node.isNode]
  · rw [h]
    have hown := ownNode_congr ks _ _ hitem
    cases ho : ownNode ks (.node κ kids) with
    | true =>
      left
      simp only [foreign_append, foreign_own ks _ ho, foreign_own ks _ (hown.trans ho)]
    | false =>
      right
      simp only [foreign_append, foreign_not_own ks _ ho, foreign_not_own ks _ (hown.trans ho)]
      refine ⟨foreignNodes ks init, .node κ kids, [.node κ kids'], rfl, rfl, by simp [htext], ?_,
        Or.inr ⟨κ, kids, kids', rfl, rfl⟩⟩
      simp [C04.pitems_eq, hitem]

/-! ### a protected tail: once the paragraph ends with an owned entry whose key is not updated any
    more, the foreign children stay exactly as they are -/

theorem getLast?_mid {α} (pre : List α) (x : α) (post : List α) (h : post ≠ []) :
    (pre ++ x :: post).getLast? = post.getLast? := by
  rw [show pre ++ x :: post = (pre ++ [x]) ++ post by simp]
  rw [List.getLast?_append]
  cases hp : post.getLast? with
  | none => simp at hp; exact absurd hp h
  | some y => rfl

theorem update_protected (ks : List Str) (spec : List (FieldSpec V)) :
    ∀ (x : List (Option V)) (cs : List DNode) (k0 : Str) (e : DNode),
      (specKeys spec).Nodup → (∀ k ∈ specKeys spec, k ∈ ks) → k0 ∈ ks → k0 ∉ specKeys spec →
      cs.getLast? = some e → isEntryWithKey k0 e = true →
      foreignNodes ks (updateParagraph losslessKidsBackend spec x cs) = foreignNodes ks cs := by
  induction spec with
  | nil => intro x cs k0 e _ _ _ _ _ _; cases x <;> rfl
  | cons f fs ih =>
    intro x cs k0 e hn hks hk0 hk0n hlast he
    simp only [specKeys, List.map_cons, List.nodup_cons] at hn
    have hf : f.key ∈ ks := hks _ (by simp [specKeys])
    have hfs : ∀ k ∈ specKeys fs, k ∈ ks := fun k hk => hks k (by
      simp only [specKeys, List.map_cons, List.mem_cons]; right; exact hk)
    have hne : k0 ≠ f.key := fun h => hk0n (by simp [specKeys, h])
    have hk0fs : k0 ∉ specKeys fs := fun h => hk0n (by
      simp only [specKeys, List.map_cons, List.mem_cons]; right; exact h)
    have hef : isEntryWithKey f.key e = false := by
      cases h : isEntryWithKey f.key e with
      | false => rfl
      | true => exact absurd (isEntryWithKey_unique _ _ _ he h) hne
    obtain ⟨init, hcs⟩ : ∃ init, cs = init ++ [e] := by
      obtain ⟨i, hi⟩ := List.getLast?_eq_some_iff.mp hlast; exact ⟨i, hi⟩
    cases x with
    | nil => rfl
    | cons v vs =>
      cases v with
      | none =>
        simp only [updateParagraph]
        show foreignNodes ks (updateParagraph losslessKidsBackend fs vs (paraRemove cs f.key)) = _
        have hl : (paraRemove cs f.key).getLast? = some e := by
          rw [hcs]; unfold paraRemove
          rw [List.filter_append]; simp [hef]
        rw [ih vs _ k0 e hn.2 hfs hk0 hk0fs hl he, foreign_paraRemove ks _ hf]
      | some v =>
        simp only [updateParagraph]
        show foreignNodes ks (updateParagraph losslessKidsBackend fs vs (paraSet cs f.key (f.ser v))) = _
        rcases C04.C04_frame_set cs f.key (f.ser v) with ⟨pre, e', post, h1, _, h3, h4, _, _⟩ | ⟨hnone, h4⟩
        · -- replaced in place; the last child is not the replaced one
          have hpost : post ≠ [] := by
            intro hp; subst hp
            rw [h1, List.getLast?_concat] at hlast
            have : e' = e := by simpa using hlast
            subst this
            rw [h3] at hef; cases hef
          have hl : (paraSet cs f.key (f.ser v)).getLast? = some e := by
            rw [h4, getLast?_mid _ _ _ hpost, ← getLast?_mid pre e' post hpost, ← h1]; exact hlast
          rw [ih vs _ k0 e hn.2 hfs hk0 hk0fs hl he, h4, foreign_replace ks _ _ hf pre post e' h3, ← h1]
        · -- appended: the terminator can only touch the owned last child
          rw [h4]
          simp only [paraInsert]
          have hl : (terminateLastLine cs ++ [entryNew f.key (f.ser v)]).getLast? = some (entryNew f.key (f.ser v)) :=
            List.getLast?_concat ..
          rw [ih vs _ f.key _ hn.2 hfs hf hn.1 hl (isEntryWithKey_new _ _), foreign_snoc_new ks _ _ hf]
          have hoe : ownNode ks e = true := ownNode_of_key ks k0 hk0 e he
          rcases terminateLastLine_sharp cs with h | ⟨i, κ, t, hc, _⟩ | ⟨i, κ, kids, kids', hc, h, _, hitem⟩
          · rw [h]
          · rw [hcs] at hc
            have : e = .tok κ t := by
              have := congrArg List.getLast? hc; simpa using this
            rw [this, ownNode_tok] at hoe; cases hoe
          · rw [hcs] at hc
            have hee : e = .node κ kids := by
              have := congrArg List.getLast? hc; simpa using this
            have hii : init = i := by
              rw [hee] at hc; exact List.append_cancel_right hc
            rw [h, hcs, hee, ← hii]
            have ho' : ownNode ks (.node κ kids') = true := by
              rw [ownNode_congr ks _ _ hitem, ← hee]; exact hoe
            simp only [foreign_append, foreign_own ks _ ho', foreign_own ks _ (hee ▸ hoe)]

/-- the general step relation, for any list of keys containing the struct's -/
theorem update_foreign (ks : List Str) (spec : List (FieldSpec V)) :
    ∀ (x : List (Option V)) (cs : List DNode), (specKeys spec).Nodup → (∀ k ∈ specKeys spec, k ∈ ks) →
      foreignNodes ks (updateParagraph losslessKidsBackend spec x cs) = foreignNodes ks cs
      ∨ TermLast (foreignNodes ks cs) (foreignNodes ks (updateParagraph losslessKidsBackend spec x cs)) := by
  induction spec with
  | nil => intro x cs _ _; left; cases x <;> rfl
  | cons f fs ih =>
    intro x cs hn hks
    simp only [specKeys, List.map_cons, List.nodup_cons] at hn
    have hf : f.key ∈ ks := hks _ (by simp [specKeys])
    have hfs : ∀ k ∈ specKeys fs, k ∈ ks := fun k hk => hks k (by
      simp only [specKeys, List.map_cons, List.mem_cons]; right; exact hk)
    cases x with
    | nil => left; rfl
    | cons v vs =>
      cases v with
      | none =>
        simp only [updateParagraph]
        have := ih vs (paraRemove cs f.key) hn.2 hfs
        rw [foreign_paraRemove ks _ hf] at this
        exact this
      | some v =>
        simp only [updateParagraph]
        show foreignNodes ks (updateParagraph losslessKidsBackend fs vs (paraSet cs f.key (f.ser v))) = _
          ∨ TermLast _ (foreignNodes ks (updateParagraph losslessKidsBackend fs vs (paraSet cs f.key (f.ser v))))
        rcases C04.C04_frame_set cs f.key (f.ser v) with ⟨pre, e', post, h1, _, h3, h4, _, _⟩ | ⟨_, h4⟩
        · have := ih vs (paraSet cs f.key (f.ser v)) hn.2 hfs
          rw [h4, foreign_replace ks _ _ hf pre post e' h3, ← h1, ← h4] at this
          exact this
        · rw [h4]
          simp only [paraInsert]
          rw [update_protected ks fs vs _ f.key _ hn.2 hfs hf hn.1 (List.getLast?_concat ..)
            (isEntryWithKey_new _ _), foreign_snoc_new ks _ _ hf]
          exact foreign_terminate ks cs

/-- **comments and formatting of untouched fields are unchanged** (keys of the struct pairwise
    distinct; ANY prior child list `cs` of the PARAGRAPH node — parsed, built, edited, with comment
    tokens, duplicates, error nodes; ANY value list): after `update_paragraph` the children that are
    not entries of an owned key are THE SAME NODES IN THE SAME ORDER as before — or, when a new field
    had to be appended behind an unterminated last line that belongs to a foreign child, all of them
    but the last are, and the last one got its line terminated: a NEWLINE token after it (a comment or
    other token) or one node in its place with the old text plus `\n`, reading as the same field -/
theorem C16_lossless_update_keeps_foreign_nodes (spec : List (FieldSpec V)) (x : List (Option V))
    (cs : List DNode) (hn : (specKeys spec).Nodup) :
    foreignNodes (specKeys spec) (updateParagraph losslessKidsBackend spec x cs)
      = foreignNodes (specKeys spec) cs
    ∨ TermLast (foreignNodes (specKeys spec) cs)
        (foreignNodes (specKeys spec) (updateParagraph losslessKidsBackend spec x cs)) :=
  update_foreign (specKeys spec) spec x cs hn (fun _ h => h)

/-- the same through the paragraph handle (`losslessBackend`: the node) -/
theorem C16_lossless_update_keeps_foreign_nodes_node (spec : List (FieldSpec V)) (x : List (Option V))
    (cs : List DNode) (hn : (specKeys spec).Nodup) :
    foreignNodes (specKeys spec) (updateParagraph losslessBackend spec x (.node .PARAGRAPH cs)).children
      = foreignNodes (specKeys spec) cs
    ∨ TermLast (foreignNodes (specKeys spec) cs)
        (foreignNodes (specKeys spec) (updateParagraph losslessBackend spec x (.node .PARAGRAPH cs)).children) := by
  rw [lossless_update_kids]; exact C16_lossless_update_keeps_foreign_nodes spec x cs hn

/-- **text corollary**: the printed text of the comments and foreign fields — every line of the
    paragraph that does not belong to an owned field, with its blanks, tabs and indentation — is
    printed unchanged, up to one `\n` at its very end -/
theorem C16_lossless_update_foreign_text (spec : List (FieldSpec V)) (x : List (Option V))
    (cs : List DNode) (hn : (specKeys spec).Nodup) :
    textList (foreignNodes (specKeys spec) (updateParagraph losslessKidsBackend spec x cs))
      = textList (foreignNodes (specKeys spec) cs)
    ∨ textList (foreignNodes (specKeys spec) (updateParagraph losslessKidsBackend spec x cs))
      = textList (foreignNodes (specKeys spec) cs) ++ ['\n'] := by
  rcases C16_lossless_update_keeps_foreign_nodes spec x cs hn with h | ⟨init, last, last', h1, h2, h3, _, _⟩
  · left; rw [h]
  · right; rw [h1, h2]; simp [h3]

/-- what the foreign children read as is unchanged in both cases (this is
    `C16_lossless_update_keeps_foreign_items`, recovered from the node statement) -/
theorem C16_lossless_update_foreign_pitems (spec : List (FieldSpec V)) (x : List (Option V))
    (cs : List DNode) (hn : (specKeys spec).Nodup) :
    pitems (foreignNodes (specKeys spec) (updateParagraph losslessKidsBackend spec x cs))
      = pitems (foreignNodes (specKeys spec) cs) := by
  rcases C16_lossless_update_keeps_foreign_nodes spec x cs hn with h | ⟨init, last, last', h1, h2, _, h4, _⟩
  · rw [h]
  · rw [h1, h2, C04.pitems_append, C04.pitems_append, h4]

/-- when every present field is already in the paragraph nothing is appended, no terminator is
    supplied, and the foreign children are exactly the same nodes -/
theorem C16_lossless_update_no_new_exact (spec : List (FieldSpec V)) :
    ∀ (x : List (Option V)) (cs : List DNode), (specKeys spec).Nodup →
      (∀ k ∈ presentKeys spec x, ∃ c ∈ cs, isEntryWithKey k c = true) →
      foreignNodes (specKeys spec) (updateParagraph losslessKidsBackend spec x cs)
        = foreignNodes (specKeys spec) cs := by
  suffices h : ∀ ks, ∀ (x : List (Option V)) (cs : List DNode), (specKeys spec).Nodup →
      (∀ k ∈ specKeys spec, k ∈ ks) → (∀ k ∈ presentKeys spec x, ∃ c ∈ cs, isEntryWithKey k c = true) →
      foreignNodes ks (updateParagraph losslessKidsBackend spec x cs) = foreignNodes ks cs from
    fun x cs hn hp => h _ x cs hn (fun _ h => h) hp
  intro ks
  induction spec with
  | nil => intro x cs _ _ _; cases x <;> rfl
  | cons f fs ih =>
    intro x cs hn hks hp
    simp only [specKeys, List.map_cons, List.nodup_cons] at hn
    have hf : f.key ∈ ks := hks _ (by simp [specKeys])
    have hfs : ∀ k ∈ specKeys fs, k ∈ ks := fun k hk => hks k (by
      simp only [specKeys, List.map_cons, List.mem_cons]; right; exact hk)
    cases x with
    | nil => rfl
    | cons v vs =>
      cases v with
      | none =>
        simp only [updateParagraph, presentKeys] at hp ⊢
        show foreignNodes ks (updateParagraph losslessKidsBackend fs vs (paraRemove cs f.key)) = _
        rw [ih vs _ hn.2 hfs, foreign_paraRemove ks _ hf]
        intro k hk
        obtain ⟨c, hc, hck⟩ := hp k hk
        refine ⟨c, ?_, hck⟩
        unfold paraRemove
        rw [List.mem_filter]
        refine ⟨hc, ?_⟩
        cases h : isEntryWithKey f.key c with
        | false => rfl
        | true =>
          have := isEntryWithKey_unique _ _ _ hck h
          exact absurd (this ▸ presentKeys_sub fs vs k hk) hn.1
      | some v =>
        simp only [updateParagraph, presentKeys] at hp ⊢
        show foreignNodes ks (updateParagraph losslessKidsBackend fs vs (paraSet cs f.key (f.ser v))) = _
        rcases C04.C04_frame_set cs f.key (f.ser v) with ⟨pre, e', post, h1, _, h3, h4, _, _⟩ | ⟨hnone, _⟩
        · rw [ih vs _ hn.2 hfs, h4, foreign_replace ks _ _ hf pre post e' h3, ← h1]
          intro k hk
          obtain ⟨c, hc, hck⟩ := hp k (by simp [hk])
          refine ⟨c, ?_, hck⟩
          rw [h4]
          rw [h1] at hc
          simp only [List.mem_append, List.mem_cons] at hc ⊢
          rcases hc with hc | rfl | hc
          · left; exact hc
          · have := isEntryWithKey_unique _ _ _ hck h3
            exact absurd (this ▸ presentKeys_sub fs vs k hk) hn.1
          · right; right; exact hc
        · obtain ⟨c, hc, hck⟩ := hp f.key (by simp)
          rw [hnone c hc] at hck; cases hck

end Deb822Verif.Props.C16More
