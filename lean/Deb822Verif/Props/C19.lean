import Deb822Verif.Model.Pgp
import Deb822Verif.Lemmas.Text
/-!
# C19 — PGP clear-sign unwrapping returns exactly the payload or a specific error

Property theorems only. Model: `Pgp.strip` (pgp.rs:66-124).
-/
namespace Deb822Verif.Props.C19
open Deb822Verif Text Pgp

/-- the clear-signed message as a list of lines -/
def wrap (hs ps sig : List Str) : List Str :=
  beginMsg :: (hs ++ [] :: (ps ++ beginSig :: (sig ++ [endSig])))

/-- the text of a list of LF-terminated lines -/
abbrev render := unlinesNL

/-- side conditions of the property: LF-terminated lines; armour headers non-empty; no payload
    line is the signature marker (implied by "needs no dash-escaping": none begins with `-`);
    no signature line is the end marker -/
structure Side (hs ps sig : List Str) : Prop where
  hs_ok : ∀ h ∈ hs, LineOK h ∧ h ≠ []
  ps_ok : ∀ p ∈ ps, LineOK p ∧ p ≠ beginSig
  sig_ok : ∀ s ∈ sig, LineOK s ∧ s ≠ endSig

/-- "does not begin with `-`" implies "is not the signature marker" -/
theorem not_dash_ne_beginSig (p : Str) (h : p.head? ≠ some '-') : p ≠ beginSig := by
  intro e; subst e; exact h (by decide)

/-! ### loop lemmas -/

theorem metaLoop_pass (hs r : List Str) (h : ∀ x ∈ hs, x ≠ []) : metaLoop (hs ++ [] :: r) = some r := by
  induction hs with
  | nil => simp [metaLoop]
  | cons x xs ih =>
    have hx : x ≠ [] := h x (by simp)
    simp [metaLoop, hx, ih (fun y hy => h y (by simp [hy]))]

theorem metaLoop_eof (hs : List Str) (h : ∀ x ∈ hs, x ≠ []) : metaLoop hs = none := by
  induction hs with
  | nil => simp [metaLoop]
  | cons x xs ih =>
    have hx : x ≠ [] := h x (by simp)
    simp [metaLoop, hx, ih (fun y hy => h y (by simp [hy]))]

theorem payloadLoop_pass (ps r : List Str) (h : ∀ x ∈ ps, x ≠ beginSig) :
    payloadLoop (ps ++ beginSig :: r) = some (unlinesNL ps, r) := by
  induction ps with
  | nil => simp [payloadLoop, unlinesNL]
  | cons x xs ih =>
    have hx : x ≠ beginSig := h x (by simp)
    simp [payloadLoop, hx, ih (fun y hy => h y (by simp [hy])), unlinesNL]

theorem payloadLoop_eof (ps : List Str) (h : ∀ x ∈ ps, x ≠ beginSig) : payloadLoop ps = none := by
  induction ps with
  | nil => simp [payloadLoop]
  | cons x xs ih =>
    have hx : x ≠ beginSig := h x (by simp)
    simp [payloadLoop, hx, ih (fun y hy => h y (by simp [hy]))]

theorem sigLoop_pass (sg r : List Str) (h : ∀ x ∈ sg, x ≠ endSig) :
    sigLoop (sg ++ endSig :: r) = some (sg.flatten, r) := by
  induction sg with
  | nil => simp [sigLoop]
  | cons x xs ih =>
    have hx : x ≠ endSig := h x (by simp)
    simp [sigLoop, hx, ih (fun y hy => h y (by simp [hy]))]

theorem sigLoop_eof (sg : List Str) (h : ∀ x ∈ sg, x ≠ endSig) : sigLoop sg = none := by
  induction sg with
  | nil => simp [sigLoop]
  | cons x xs ih =>
    have hx : x ≠ endSig := h x (by simp)
    simp [sigLoop, hx, ih (fun y hy => h y (by simp [hy]))]

theorem beginMsg_ok : LineOK beginMsg := by constructor <;> decide
theorem beginSig_ok : LineOK beginSig := by constructor <;> decide
theorem endSig_ok : LineOK endSig := by constructor <;> decide
theorem empty_ok : LineOK [] := by constructor <;> simp

theorem wrap_lines_ok {hs ps sig} (h : Side hs ps sig) : ∀ l ∈ wrap hs ps sig, LineOK l := by
  intro l hl
  simp only [wrap, List.mem_cons, List.mem_append] at hl
  rcases hl with e | hl | e | hl | e | hl | hl
  · exact e ▸ beginMsg_ok
  · exact (h.hs_ok l hl).1
  · exact e ▸ empty_ok
  · exact (h.ps_ok l hl).1
  · exact e ▸ beginSig_ok
  · exact (h.sig_ok l hl).1
  · simp at hl; exact hl ▸ endSig_ok

/-! ### line-level results -/

theorem stripLines_wrap (inp : Str) {hs ps sig} (h : Side hs ps sig) (extra : List Str) :
    stripLines inp (wrap hs ps sig ++ extra) =
      match extra with
      | [] => .ok (unlinesNL ps, some sig.flatten)
      | _ :: _ => .error .JunkAfterPgpSignature := by
  have h1 := metaLoop_pass hs (ps ++ beginSig :: (sig ++ [endSig]) ++ extra) (fun x hx => (h.hs_ok x hx).2)
  have h2 := payloadLoop_pass ps (sig ++ [endSig] ++ extra) (fun x hx => (h.ps_ok x hx).2)
  have h3 := sigLoop_pass sig extra (fun x hx => (h.sig_ok x hx).2)
  simp only [List.append_assoc, List.cons_append, List.nil_append] at h1 h2 h3
  simp only [wrap, stripLines, List.cons_append, List.append_assoc, List.nil_append, ne_eq,
    not_true_eq_false, ↓reduceIte, h1, h2, h3]
  cases extra <;> rfl

/-! ### the property theorems -/

/-- clause 1: unwrapping the clear-signed message built from (headers, payload, signature)
    returns exactly that payload and the signature lines concatenated -/
theorem C19_unwrap (hs ps sig : List Str) (h : Side hs ps sig) :
    strip (render (wrap hs ps sig)) = .ok (unlinesNL ps, some sig.flatten) := by
  have := stripLines_wrap (render (wrap hs ps sig)) h []
  simp only [List.append_nil] at this
  unfold strip render
  rw [lines_unlinesNL _ (wrap_lines_ok h)]
  exact this

/-- clause 2: text whose first line is not the signed-message marker is returned unchanged -/
theorem C19_passthrough (s : Str) (h : (lines s).head? ≠ some beginMsg) : strip s = .ok (s, none) := by
  unfold strip stripLines
  cases hl : lines s with
  | nil => rfl
  | cons first rest =>
    have : first ≠ beginMsg := by intro e; apply h; simp [hl, e]
    simp [this]

/-- clause 4: any extra line after the end marker is `JunkAfterPgpSignature` -/
theorem C19_junk (hs ps sig : List Str) (h : Side hs ps sig) (extra : List Str)
    (he : extra ≠ []) (hl : ∀ l ∈ extra, LineOK l) :
    strip (render (wrap hs ps sig ++ extra)) = .error .JunkAfterPgpSignature := by
  have := stripLines_wrap (render (wrap hs ps sig ++ extra)) h extra
  unfold strip render
  rw [lines_unlinesNL _ (by
    intro l hl'; rcases List.mem_append.1 hl' with a | a
    · exact wrap_lines_ok h l a
    · exact hl l a)]
  rw [this]
  cases extra with
  | nil => exact absurd rfl he
  | cons _ _ => rfl

/-- which error a message cut after `k` lines (0 < k < total) must give -/
def errorAt (hs ps : List Str) (k : Nat) : Err :=
  if k ≤ 1 + hs.length then .MissingPayload
  else if k ≤ 2 + hs.length + ps.length then .MissingPgpSignature
  else .TruncatedPgpSignature

theorem stripLines_truncate (inp : Str) {hs ps sig} (h : Side hs ps sig) (k : Nat) (hk0 : 0 < k)
    (hk : k < (wrap hs ps sig).length) :
    stripLines inp ((wrap hs ps sig).take k) = .error (errorAt hs ps k) := by
  have hlen : (wrap hs ps sig).length = 3 + hs.length + ps.length + sig.length + 1 := by
    simp [wrap]; omega
  obtain ⟨k', rfl⟩ : ∃ k', k = k' + 1 := ⟨k - 1, by omega⟩
  simp only [wrap, List.take_succ_cons, stripLines, ne_eq, not_true_eq_false, ↓reduceIte]
  by_cases c1 : k' ≤ hs.length
  · -- cut inside the headers
    have : List.take k' (hs ++ [] :: (ps ++ beginSig :: (sig ++ [endSig]))) = hs.take k' := by
      rw [List.take_append_of_le_length c1]
    rw [this, metaLoop_eof _ (fun x hx => (h.hs_ok x (List.mem_of_mem_take hx)).2)]
    simp [errorAt]; omega
  · have c1' : hs.length < k' := by omega
    obtain ⟨j, rfl⟩ : ∃ j, k' = hs.length + (j + 1) := ⟨k' - hs.length - 1, by omega⟩
    rw [List.take_append, List.take_of_length_le (by omega)]
    simp only [Nat.add_sub_cancel_left, List.take_succ_cons]
    simp only [metaLoop_pass _ _ (fun x hx => (h.hs_ok x hx).2)]
    by_cases c2 : j ≤ ps.length
    · have : List.take j (ps ++ beginSig :: (sig ++ [endSig])) = ps.take j := by
        rw [List.take_append_of_le_length c2]
      simp only [this, payloadLoop_eof _ (fun x hx => (h.ps_ok x (List.mem_of_mem_take hx)).2)]
      unfold errorAt; rw [if_neg (by omega), if_pos (by omega)]
    · obtain ⟨i, rfl⟩ : ∃ i, j = ps.length + (i + 1) := ⟨j - ps.length - 1, by omega⟩
      rw [List.take_append, List.take_of_length_le (by omega)]
      simp only [Nat.add_sub_cancel_left, List.take_succ_cons]
      simp only [payloadLoop_pass _ _ (fun x hx => (h.ps_ok x hx).2)]
      have c3 : i ≤ sig.length := by rw [hlen] at hk; omega
      have : List.take i (sig ++ [endSig]) = sig.take i := by
        rw [List.take_append_of_le_length c3]
      simp only [this, sigLoop_eof _ (fun x hx => (h.sig_ok x (List.mem_of_mem_take hx)).2)]
      unfold errorAt; rw [if_neg (by omega), if_neg (by omega)]

/-- clause 3: a message cut off after any line before its end marker yields the matching error -/
theorem C19_truncate (hs ps sig : List Str) (h : Side hs ps sig) (k : Nat) (hk0 : 0 < k)
    (hk : k < (wrap hs ps sig).length) :
    strip (render ((wrap hs ps sig).take k)) = .error (errorAt hs ps k) := by
  unfold strip render
  rw [lines_unlinesNL _ (fun l hl => wrap_lines_ok h l (List.mem_of_mem_take hl))]
  exact stripLines_truncate _ h k hk0 hk

/-- cut before the first line: the empty text is not a signed message (passes through) -/
theorem C19_truncate_zero : strip [] = .ok ([], none) := by decide

/-! ### converse: nothing but a complete, well-delimited message is ever presented as valid -/

theorem metaLoop_inv (ls r : List Str) (h : metaLoop ls = some r) :
    ∃ hs, ls = hs ++ [] :: r ∧ ∀ x ∈ hs, x ≠ [] := by
  induction ls with
  | nil => simp [metaLoop] at h
  | cons l ls ih =>
    unfold metaLoop at h
    split at h
    · rename_i hl; subst hl
      exact ⟨[], by simp at h; simp [h], by simp⟩
    · rename_i hl
      obtain ⟨hs, e, hh⟩ := ih h
      exact ⟨l :: hs, by simp [e], by intro x hx; simp at hx; rcases hx with rfl | hx; exact hl; exact hh x hx⟩

theorem payloadLoop_inv (ls r : List Str) (p : Str) (h : payloadLoop ls = some (p, r)) :
    ∃ ps, ls = ps ++ beginSig :: r ∧ (∀ x ∈ ps, x ≠ beginSig) ∧ p = unlinesNL ps := by
  induction ls generalizing p with
  | nil => simp [payloadLoop] at h
  | cons l ls ih =>
    unfold payloadLoop at h
    split at h
    · rename_i hl; subst hl
      simp at h
      exact ⟨[], by simp [h.2], by simp, by simp [unlinesNL, h.1]⟩
    · rename_i hl
      split at h
      · simp at h
      · rename_i r' hr
        simp at h
        obtain ⟨ps, e, hh, hp⟩ := ih r'.1 (by rw [hr, ← h.2])
        refine ⟨l :: ps, by simp [e], ?_, ?_⟩
        · intro x hx; simp at hx; rcases hx with rfl | hx; exact hl; exact hh x hx
        · rw [← h.1, hp]; simp [unlinesNL]

theorem sigLoop_inv (ls r : List Str) (p : Str) (h : sigLoop ls = some (p, r)) :
    ∃ sg, ls = sg ++ endSig :: r ∧ (∀ x ∈ sg, x ≠ endSig) ∧ p = sg.flatten := by
  induction ls generalizing p with
  | nil => simp [sigLoop] at h
  | cons l ls ih =>
    unfold sigLoop at h
    split at h
    · rename_i hl; subst hl
      simp at h
      exact ⟨[], by simp [h.2], by simp, by simp [h.1]⟩
    · rename_i hl
      split at h
      · simp at h
      · rename_i r' hr
        simp at h
        obtain ⟨sg, e, hh, hp⟩ := ih r'.1 (by rw [hr, ← h.2])
        refine ⟨l :: sg, by simp [e], ?_, ?_⟩
        · intro x hx; simp at hx; rcases hx with rfl | hx; exact hl; exact hh x hx
        · rw [← h.1, hp]; simp

/-- clause 5 ("never a shortened or extended payload presented as valid"): whenever `strip`
    returns a payload *with* a signature, the input's lines are exactly a complete wrapped
    message whose payload and signature are the ones returned. -/
theorem C19_never_short (s p sg : Str) (h : strip s = .ok (p, some sg)) :
    ∃ hs ps sig, lines s = wrap hs ps sig
      ∧ (∀ x ∈ hs, x ≠ []) ∧ (∀ x ∈ ps, x ≠ beginSig) ∧ (∀ x ∈ sig, x ≠ endSig)
      ∧ p = unlinesNL ps ∧ sg = sig.flatten := by
  unfold strip stripLines at h
  split at h
  · simp at h
  · rename_i first rest hl
    split at h
    · simp at h
    · rename_i hf
      have hf' : first = beginMsg := by simpa using hf
      split at h
      · simp at h
      · rename_i r1 h1
        split at h
        · simp at h
        · rename_i p' r2 h2
          split at h
          · simp at h
          · rename_i sg' r3 h3
            split at h
            · simp at h
            · simp at h
              obtain ⟨hs, e1, hh⟩ := metaLoop_inv _ _ h1
              obtain ⟨ps, e2, hp, ep⟩ := payloadLoop_inv _ _ _ h2
              obtain ⟨sig, e3, hsg, esg⟩ := sigLoop_inv _ _ _ h3
              refine ⟨hs, ps, sig, ?_, hh, hp, hsg, ?_, ?_⟩
              · rw [hl, hf', e1, e2, e3]; rfl
              · rw [← h.1, ep]
              · rw [← h.2, esg]

/-- and a result *without* signature is always the unchanged input -/
theorem C19_none_is_input (s p : Str) (h : strip s = .ok (p, none)) : p = s := by
  unfold strip stripLines at h
  repeat' split at h
  all_goals simp at h
  all_goals first | exact h.symm | skip

/-! ### non-vacuity: a concrete non-trivial message meets `Side`, and the theorems fire on it -/

def exHs : List Str := ["Hash: SHA256".toList]
def exPs : List Str := ["Origin: Debian".toList, [], " -----BEGIN PGP SIGNATURE-----".toList]
def exSig : List Str := [[], "iQIz".toList, "=olY7".toList]

example : Side exHs exPs exSig := by
  constructor <;> intro x hx <;> simp [exHs, exPs, exSig] at hx
  · subst hx; exact ⟨by constructor <;> decide, by decide⟩
  · rcases hx with rfl | rfl | rfl <;> exact ⟨by constructor <;> decide, by decide⟩
  · rcases hx with rfl | rfl | rfl <;> exact ⟨by constructor <;> decide, by decide⟩

example : strip (render (wrap exHs exPs exSig)) =
    .ok ("Origin: Debian\n\n -----BEGIN PGP SIGNATURE-----\n".toList, some "iQIz=olY7".toList) := by decide

/-- observation (outside the property's domain of LF-terminated lines): `lines()` strips the `\r`
    of a CRLF payload line, so a CRLF payload comes back LF-terminated. -/
example : strip ("-----BEGIN PGP SIGNED MESSAGE-----\n\na\r\n-----BEGIN PGP SIGNATURE-----\n-----END PGP SIGNATURE-----\n".toList)
    = .ok ("a\n".toList, some []) := by decide

end Deb822Verif.Props.C19
