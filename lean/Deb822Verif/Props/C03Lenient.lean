import Deb822Verif.Props.C03Exact
import Deb822Verif.Lemmas.DebLenientLex
/-!
# C03 — the exact acceptance set of the strict lossless reader, at line level

`C03_accept_iff_lenient`: for EVERY list `ls` of LF/CR-free lines, with or without a final newline,
the strict reader accepts the rendered text with content `c` iff `lenient ls = some c`
(`lenient` of Props/C03Exact.lean: the grammar of C03 plus a white-space-only line or an indented `#`
line directly after a field / continuation line, and blanks between a field name and its colon).
`C03_reject_exact`: the strict reader fails iff `lenient ls = none`. This supersedes the bounded
table `C03Exact.C03_lenient_small_scope`.

Route (no document AST): (1) `Lemmas/DebLenientLex`: the lexer restarts after every LF, so the token
list of a line list is the concatenation of the per-line token lists; (2) `sem`: the lenient grammar
as a SUFFIX semantics (what a line list contributes to the value being continued, to the open
paragraph and to the following paragraphs) — `lenientAux_sem` ties the accumulator form `lenientAux`
to it; (3) `lineT_*`: the tokens of a line of each kind; (4) `step`: one induction on the line list,
three statements in lock-step with the parser's three loops (`rootLoop`: between paragraphs,
`paraLoop`: inside a paragraph, `entryLines`: inside a value).
-/
namespace Deb822Verif.Props.C03Lenient
open Deb822Verif Deb Node Spec
open Deb822Verif.Props.C03 Deb822Verif.Props.C03Exact Deb822Verif.Deb.Lenient

/-! ### 1. the lenient grammar as a suffix semantics -/

def optV (v : Str) : List Str := if v = [] then [] else [v]

def consPara (es : List (Str × Str)) (ps : List (List (Str × Str))) : List (List (Str × Str)) :=
  if es = [] then ps else es :: ps

/-- what a suffix of the line list contributes: further lines of the value being continued, further
    fields of the open paragraph, further paragraphs -/
abbrev Suf := List Str × List (Str × Str) × List (List (Str × Str))

/-- `prev` = a value can be continued (as in `lenientAux`) -/
def sem : List Str → Bool → Option Suf
  | [], _ => some ([], [], [])
  | l :: ls, prev =>
    match lkind l with
    | .blank => (sem ls false).map fun r => ([], [], consPara r.2.1 r.2.2)
    | .comment => (sem ls false).map fun r => ([], r.2.1, r.2.2)
    | .field k v =>
      (sem ls true).map fun r => ([], (k, Text.join ['\n'] (optV v ++ r.1)) :: r.2.1, r.2.2)
    | .cont v => if prev then (sem ls true).map fun r => (optV v ++ r.1, r.2.1, r.2.2) else none
    | .skip => if prev then sem ls true else none
    | .bad => none

theorem sem_false_vs (ls : List Str) (r : Suf) (h : sem ls false = some r) : r.1 = [] := by
  cases ls with
  | nil => simp [sem] at h; rw [← h]
  | cons l ls =>
    simp only [sem] at h
    split at h <;> simp at h
    all_goals (obtain ⟨a, b, w, _, rfl⟩ := h; rfl)

theorem sem_vs_ne (ls : List Str) : ∀ (prev : Bool) (r : Suf), sem ls prev = some r → ∀ x ∈ r.1, x ≠ [] := by
  induction ls with
  | nil => intro prev r h; simp [sem] at h; rw [← h]; simp
  | cons l ls ih =>
    intro prev r h
    simp only [sem] at h
    split at h
    · simp at h; obtain ⟨a, b, w, _, rfl⟩ := h; simp
    · simp at h; obtain ⟨a, b, w, _, rfl⟩ := h; simp
    · simp at h; obtain ⟨a, b, w, _, rfl⟩ := h; simp
    · rename_i v _
      cases prev with
      | false => simp at h
      | true =>
        simp only [↓reduceIte, Option.map_eq_some_iff] at h
        obtain ⟨a, ha, rfl⟩ := h
        intro x hx
        simp only [List.mem_append] at hx
        rcases hx with hx | hx
        · unfold optV at hx; split at hx <;> simp at hx; subst hx; assumption
        · exact ih true a ha x hx
    · cases prev with
      | false => simp at h
      | true => exact ih true r h
    · simp at h

def pushLines (cur : List (Str × List Str)) (vs : List Str) : List (Str × List Str) := vs.foldl pushLine cur

theorem pushLines_nil (vs : List Str) : pushLines [] vs = [] := by
  induction vs with
  | nil => rfl
  | cons v vs ih => simpa [pushLines, pushLine] using ih

theorem pushLines_cons (k : Str) (cur : List (Str × List Str)) (vs : List Str) :
    ∀ l0 : List Str, (∀ x ∈ vs, x ≠ []) → pushLines ((k, l0) :: cur) vs = (k, vs.reverse ++ l0) :: cur := by
  induction vs with
  | nil => intro l0 _; rfl
  | cons v vs ih =>
    intro l0 h
    have hv : v ≠ [] := h v (by simp)
    have := ih (v :: l0) (fun x hx => h x (by simp [hx]))
    simp only [pushLines, List.foldl_cons, pushLine, hv, ↓reduceIte] at this ⊢
    rw [this]; simp

theorem pushLines_optV (cur : List (Str × List Str)) (v : Str) (vs : List Str) :
    pushLines cur (optV v ++ vs) = pushLines (pushLine cur v) vs := by
  unfold optV
  split
  · rename_i hv
    subst hv
    cases cur with
    | nil => simp [pushLines_nil, pushLine]
    | cons c cur => simp [pushLine]
  · simp [pushLines]

theorem finishPara_cons (k : Str) (l0 : List Str) (cur : List (Str × List Str)) :
    finishPara ((k, l0) :: cur) = finishPara cur ++ [(k, Text.join ['\n'] l0.reverse)] := by
  simp [finishPara]

theorem finishPara_eq_nil (cur : List (Str × List Str)) : finishPara cur = [] ↔ cur = [] := by
  simp [finishPara]

/-- the document a suffix contribution `r` gives after the state `(done, cur)` of `lenientAux` -/
def comb (done : List (List (Str × Str))) (cur : List (Str × List Str)) (r : Suf) :
    List (List (Str × Str)) :=
  done.reverse ++ consPara (finishPara (pushLines cur r.1) ++ r.2.1) r.2.2

/-- **accumulator form = suffix form** -/
theorem lenientAux_sem (ls : List Str) : ∀ (prev : Bool) (done : List (List (Str × Str)))
    (cur : List (Str × List Str)), lenientAux ls prev done cur = (sem ls prev).map (comb done cur) := by
  induction ls with
  | nil =>
    intro prev done cur
    simp only [lenientAux, sem, Option.map_some, comb, pushLines, List.foldl_nil, List.append_nil,
      consPara, finishPara_eq_nil]
    split <;> simp
  | cons l ls ih =>
    intro prev done cur
    cases hk : lkind l with
    | blank =>
      simp only [lenientAux, sem, hk, ih, Option.map_map]
      cases hs : sem ls false with
      | none => rfl
      | some r =>
        simp only [Option.map_some, Function.comp, comb, pushLines_nil]
        simp only [pushLines, List.foldl_nil, consPara, finishPara_eq_nil]
        by_cases hc : cur = [] <;> simp [hc, finishPara]
    | comment =>
      simp only [lenientAux, sem, hk, ih, Option.map_map]
      cases hs : sem ls false with
      | none => rfl
      | some r =>
        have := sem_false_vs ls r hs
        simp only [Option.map_some, Function.comp, comb, this]
    | field k v =>
      simp only [lenientAux, sem, hk, ih, Option.map_map]
      cases hs : sem ls true with
      | none => rfl
      | some r =>
        have hne := sem_vs_ne ls true r hs
        simp only [Option.map_some, Function.comp, comb, pushLines, List.foldl_nil]
        have := pushLines_cons k cur r.1 (optV v) hne
        simp only [pushLines] at this
        show _ = some _
        have hov : (if v = [] then [] else [v]) = optV v := rfl
        rw [hov, this, finishPara_cons]
        have hrev : (optV v).reverse = optV v := by unfold optV; split <;> rfl
        simp [hrev]
    | cont v =>
      cases prev with
      | false => simp [lenientAux, sem, hk]
      | true =>
        simp only [lenientAux, sem, hk, ih, ↓reduceIte, Option.map_map]
        cases hs : sem ls true with
        | none => rfl
        | some r => simp only [Option.map_some, Function.comp, comb, pushLines_optV]
    | skip =>
      cases prev with
      | false => simp [lenientAux, sem, hk]
      | true => simp only [lenientAux, sem, hk, ih, ↓reduceIte]
    | bad => simp [lenientAux, sem, hk]

/-- the lenient grammar in suffix form -/
theorem lenient_sem (ls : List Str) :
    lenient ls = (sem ls false).map fun r => consPara r.2.1 r.2.2 := by
  rw [lenient, lenientAux_sem]
  cases hs : sem ls false with
  | none => rfl
  | some r =>
    have := sem_false_vs ls r hs
    simp [comb, this, pushLines, finishPara]

/-! ### 2. the tokens of a line of each kind -/

theorem validKey_all (k : Str) (hk : ValidKey k) : ∀ x ∈ k, isKeyChar x = true := by
  obtain ⟨c, cs, rfl, hc, _, hcs⟩ := hk
  intro x hx
  simp only [List.mem_cons] at hx
  rcases hx with rfl | hx
  · exact initialKeyChar_keyChar _ hc
  · exact hcs x hx

theorem shape_comment (t : Str) (hn : NoNl ('#' :: t)) : lineT ('#' :: t) = [(.COMMENT, '#' :: t)] := by
  have := lex_commentLine t [] (fun x hx => hn x (by simp [hx])) lineEnd_nil
  simpa [lineT, lexAux_nil] using this

theorem shape_ws (l : Str) (h : WsOnlyLine l) : lineT l = [(.INDENT, l)] := by
  obtain ⟨hne, hall⟩ := h
  cases l with
  | nil => exact absurd rfl hne
  | cons c cs =>
    have := step_indent c cs [] initState rfl (hall c (by simp)) (fun x hx => hall x (by simp [hx]))
      (headFails_nil _)
    rw [List.append_nil] at this
    rw [lineT, lexAux_cons, this]
    simp [lexAux_nil]

theorem shape_hash (ws cs : Str) (hne : ws ≠ []) (hall : AllIndent ws) (hn : NoNl cs) :
    lineT (ws ++ '#' :: cs) = [(.INDENT, ws), (.COMMENT, '#' :: cs)] := by
  cases ws with
  | nil => exact absurd rfl hne
  | cons w ws' =>
    have h1 := step_indent w ws' ('#' :: cs) initState rfl (hall w (by simp))
      (fun x hx => hall x (by simp [hx])) (headFails_cons _ _ _ (by decide))
    have h2 := step_comment cs [] { initState with indent := (w :: ws').length } rfl hn lineEnd_nil
    rw [List.append_nil] at h2
    rw [lineT, List.cons_append, lexAux_cons, h1]
    simp only
    rw [lexAux_cons, h2]
    simp [lexAux_nil]

theorem shape_cont (ws : Str) (c : Char) (cs : Str) (hne : ws ≠ []) (hall : AllIndent ws)
    (hc : isIndent c = false) (hh : c ≠ '#') (hn : NoNl (c :: cs)) :
    lineT (ws ++ c :: cs) = [(.INDENT, ws), (.VALUE, c :: cs)] := by
  have := lex_contLine ws (c :: cs) [] hne hall ⟨hn, c, cs, rfl, hc, hh⟩ lineEnd_nil
  rw [List.append_nil] at this
  rw [lineT, this]
  simp [lexAux_nil]

theorem shape_field (k ws r : Str) (hk : ValidKey k) (hall : AllIndent ws) (hr : NoNl r) :
    lineT (k ++ (ws ++ ':' :: r)) = (.KEY, k) :: (optTok .WHITESPACE ws ++ (.COLON, [':']) :: lineToks r) := by
  have hinl : lexAux stLine r = lineToks r := lexInline_line r hr
  obtain ⟨c, cs, rfl, hc, hh, hcs⟩ := hk
  have hf : HeadFails isKeyChar (ws ++ ':' :: r) := by
    cases ws with
    | nil => exact headFails_keyChar_colon r
    | cons w ws' => exact headFails_cons _ _ _ (indent_not_keyChar w (hall w (by simp)))
  rw [lineT, List.cons_append, lexAux_cons, step_key c cs _ initState rfl rfl hc hh hcs hf]
  simp only [initState, List.cons.injEq, true_and]
  cases ws with
  | nil =>
    rw [List.nil_append, lexAux_cons, step_colon _ _ rfl rfl]
    simp only [optTok, ↓reduceIte, List.nil_append, List.cons.injEq, true_and]
    exact hinl
  | cons w ws' =>
    rw [List.cons_append, lexAux_cons,
      step_ws w ws' (':' :: r) _ rfl (hall w (by simp)) (fun x hx => hall x (by simp [hx]))
        (headFails_cons _ _ _ (by decide))]
    simp only
    rw [lexAux_cons, step_colon _ _ rfl rfl]
    simp only [optTok, List.cons_ne_nil, ↓reduceIte, List.cons_append, List.nil_append, List.cons.injEq,
      true_and]
    exact hinl

/-- the kind and the tokens of a line, from its class -/
theorem lkind_blank (l : Str) (hn : NoNl l) (h : lkind l = .blank) : lineT l = [] := by
  have hh := lineClass_holds l hn
  unfold lkind at h
  cases hc : lineClass l <;> simp only [hc, LineClass.Holds] at hh h <;> (try split at h) <;>
    (try (simp at h; done))
  subst hh; simp [lineT, lexAux_nil]

theorem lkind_comment (l : Str) (hn : NoNl l) (h : lkind l = .comment) : ∃ s, lineT l = [(.COMMENT, s)] := by
  have hh := lineClass_holds l hn
  unfold lkind at h
  cases hc : lineClass l <;> simp only [hc, LineClass.Holds] at hh h <;> (try split at h) <;>
    (try (simp at h; done))
  obtain ⟨t, rfl⟩ := hh
  exact ⟨_, shape_comment t hn⟩

theorem lkind_skip (l : Str) (hn : NoNl l) (h : lkind l = .skip) :
    ∃ i, lineT l = [(.INDENT, i)] ∨ ∃ s, lineT l = [(.INDENT, i), (.COMMENT, s)] := by
  have hh := lineClass_holds l hn
  unfold lkind at h
  cases hc : lineClass l <;> simp only [hc, LineClass.Holds] at hh h <;> (try split at h) <;>
    (try (simp at h; done))
  · exact ⟨l, Or.inl (shape_ws l hh)⟩
  · rename_i hhead
    obtain ⟨ws, c, cs, rfl, hne, hall, hci⟩ := hh
    rw [dropWhile_app isIndent ws (c :: cs) hall (headFails_cons _ _ _ hci)] at hhead
    simp only [List.head?_cons, Option.some.injEq] at hhead
    subst hhead
    exact ⟨ws, Or.inr ⟨_, shape_hash ws cs hne hall (fun x hx => hn x (by simp [hx]))⟩⟩

theorem lkind_cont (l v : Str) (hn : NoNl l) (h : lkind l = .cont v) :
    v ≠ [] ∧ ∃ i, lineT l = [(.INDENT, i), (.VALUE, v)] := by
  have hh := lineClass_holds l hn
  unfold lkind at h
  cases hc : lineClass l <;> simp only [hc, LineClass.Holds] at hh h <;> (try split at h) <;>
    (try (simp at h; done))
  rename_i hhead
  obtain ⟨ws, c, cs, rfl, hne, hall, hci⟩ := hh
  rw [dropWhile_app isIndent ws (c :: cs) hall (headFails_cons _ _ _ hci)] at hhead h
  simp only [List.head?_cons, Option.some.injEq, LKind.cont.injEq] at hhead h
  subst h
  exact ⟨by simp, ws, shape_cont ws c cs hne hall hci hhead (fun x hx => hn x (by simp [hx]))⟩

theorem lkind_field (l k v : Str) (hn : NoNl l) (h : lkind l = .field k v) :
    ∃ w1 w2, lineT l = (.KEY, k) :: (optTok .WHITESPACE w1 ++ (.COLON, [':']) :: (optTok .WHITESPACE w2
      ++ optTok .VALUE v)) := by
  have hh := lineClass_holds l hn
  unfold lkind at h
  cases hc : lineClass l <;> simp only [hc, LineClass.Holds] at hh h <;> (try split at h) <;>
    (try (simp at h; done))
  · obtain ⟨k0, r, rfl, hk⟩ := hh
    have hr : NoNl r := fun x hx => hn x (by simp [hx])
    have e1 := takeWhile_app isKeyChar k0 (':' :: r) (validKey_all k0 hk) (headFails_keyChar_colon r)
    have e2 := dropWhile_app isKeyChar k0 (':' :: r) (validKey_all k0 hk) (headFails_keyChar_colon r)
    rw [e1, e2] at h
    simp only [List.drop_succ_cons, List.drop_zero, LKind.field.injEq] at h
    obtain ⟨rfl, rfl⟩ := h
    exact ⟨[], r.takeWhile isIndent, by
      have := shape_field k0 [] r hk (by intro x hx; simp at hx) hr
      simpa [lineToks] using this⟩
  · obtain ⟨k0, ws, r, rfl, hk, hne, hall⟩ := hh
    have hr : NoNl r := fun x hx => hn x (by simp [hx])
    have hf : HeadFails isKeyChar (ws ++ ':' :: r) := by
      cases ws with
      | nil => exact headFails_keyChar_colon r
      | cons w ws' => exact headFails_cons _ _ _ (indent_not_keyChar w (hall w (by simp)))
    have e1 := takeWhile_app isKeyChar k0 _ (validKey_all k0 hk) hf
    have e2 := dropWhile_app isKeyChar k0 _ (validKey_all k0 hk) hf
    have e3 := dropWhile_app isIndent ws (':' :: r) hall (headFails_cons _ _ _ (by decide))
    rw [e1, e2, e3] at h
    simp only [List.drop_succ_cons, List.drop_zero, LKind.field.injEq] at h
    obtain ⟨rfl, rfl⟩ := h
    exact ⟨ws, r.takeWhile isIndent, by
      have := shape_field k0 ws r hk hall hr
      simpa [lineToks] using this⟩

theorem lkind_bad (l : Str) (hn : NoNl l) (h : lkind l = .bad) : BadLine l := by
  have hh := lineClass_holds l hn
  unfold lkind at h
  cases hc : lineClass l <;> simp only [hc, LineClass.Holds] at hh h <;> (try split at h) <;>
    (try (simp at h; done))
  exact hh

/-! ### 3. the parser's three loops as suffix semantics on token lists -/

def mk {α} (errs : List String) (a : α) : Option α := if errs = [] then some a else none

theorem mk_map {α β} (errs : List String) (a : α) (f : α → β) : (mk errs a).map f = mk errs (f a) := by
  unfold mk; split <;> rfl

theorem mk_err {α} (errs : List String) (a : α) (h : errs ≠ []) : mk errs a = none := by simp [mk, h]

/-- between paragraphs (`rootLoop`): the paragraphs still to come -/
def semR (ts : List Tok) : Option (List (List (Str × Str))) :=
  mk (rootLoop ts).errs (dItems (rootLoop ts).nodes)

/-- inside a paragraph (`paraLoop`, then `rootLoop`): further fields of the paragraph, further paragraphs -/
def semP (ts : List Tok) : Option (List (Str × Str) × List (List (Str × Str))) :=
  mk ((paraLoop ts).errs ++ (rootLoop (paraLoop ts).rest).errs)
    (pItems (paraLoop ts).nodes, dItems (rootLoop (paraLoop ts).rest).nodes)

/-- a parser fragment inside a value, followed by `paraLoop` and `rootLoop` -/
def semX (e : PR) : Option Suf :=
  mk (e.errs ++ ((paraLoop e.rest).errs ++ (rootLoop (paraLoop e.rest).rest).errs))
    (valTexts e.nodes, pItems (paraLoop e.rest).nodes, dItems (rootLoop (paraLoop e.rest).rest).nodes)

/-- inside a value, on a line (`entryLines`) -/
def semE (ts : List Tok) : Option Suf := semX (entryLines ts)
/-- inside a value, after the NEWLINE (`afterNl`: an INDENT token continues the value) -/
def semA (ts : List Tok) : Option Suf := semX (afterNl ts)

theorem semR_nil : semR [] = some [] := by simp [semR, rootLoop_nil, mk]

theorem untilNl_nl (r : List Tok) : untilNl (NL :: r) = ([tk NL], r) := by simp [untilNl]

theorem semR_nl (r : List Tok) : semR (NL :: r) = semR r := by
  unfold semR
  rw [rootLoop_blank NL r (by decide), untilNl_nl]
  simp only [dItems_empty]

theorem semR_comment_nl (s : Str) (r : List Tok) : semR ((.COMMENT, s) :: NL :: r) = semR r := by
  unfold semR
  rw [rootLoop_blank _ _ rfl]
  have : untilNl ((Kind.COMMENT, s) :: NL :: r) = ([tk (.COMMENT, s), tk NL], r) := by simp [untilNl]
  rw [this]
  simp only [dItems_empty]

theorem semR_comment_eof (s : Str) : semR [(.COMMENT, s)] = some [] := by
  unfold semR
  rw [rootLoop_blank _ _ rfl]
  have : untilNl [(Kind.COMMENT, s)] = ([tk (.COMMENT, s)], []) := by simp [untilNl]
  rw [this]
  simp [dItems_empty, rootLoop_nil, mk]

theorem semR_start (t : Tok) (ts : List Tok) (hb : isBlankStart t.1 = false) :
    semR (t :: ts) = (semP (t :: ts)).map fun p => p.1 :: p.2 := by
  unfold semR semP
  rw [rootLoop_start t ts hb, mk_map]
  simp only [dItems_para]

theorem semP_nil : semP [] = some ([], []) := by simp [semP, paraLoop_nil, rootLoop_nil, mk]

theorem semP_nl (r : List Tok) : semP (NL :: r) = (semR r).map fun ps => ([], ps) := by
  rw [← semR_nl r]
  unfold semP semR
  rw [paraLoop_newline NL r rfl, mk_map]
  simp

theorem semP_comment_nl (s : Str) (r : List Tok) : semP ((.COMMENT, s) :: NL :: r) = semP r := by
  unfold semP
  rw [paraLoop_comment]
  simp only [pItems_tk]

theorem semP_comment_eof (s : Str) : semP [(.COMMENT, s)] = some ([], []) := by
  unfold semP
  rw [paraLoop_step _ _ (by simp), parseEntry_comment_eof]
  simp [paraLoop_nil, rootLoop_nil, mk, pItems_tk]

theorem semP_err (R : List Tok) (h : (paraLoop R).errs ≠ []) : semP R = none := by
  unfold semP
  exact mk_err _ _ (by simp [h])

theorem valTexts_optVal (v : Str) : valTexts ((optTok .VALUE v).map tk) = optV v := by
  unfold optTok optV
  split <;> simp [valTexts_value]

theorem valTexts_optWs (w : Str) (ns : List DNode) :
    valTexts ((optTok .WHITESPACE w).map tk ++ ns) = valTexts ns := by
  unfold optTok
  split
  · simp
  · simp [valTexts_other]

theorem semP_field (k w1 w2 : Str) (X : List Tok) (hX : HeadNot [.WHITESPACE, .COMMENT] X) :
    semP ((.KEY, k) :: (optTok .WHITESPACE w1 ++ (.COLON, [':']) :: (optTok .WHITESPACE w2 ++ X)))
      = (semE X).map fun r => ((k, Text.join ['\n'] r.1) :: r.2.1, r.2.2) := by
  have hk : keyPart ((.KEY, k) :: (optTok .WHITESPACE w1 ++ (.COLON, [':']) :: (optTok .WHITESPACE w2 ++ X)))
      = ⟨tk (.KEY, k) :: (optTok .WHITESPACE w1).map tk, [],
          (.COLON, [':']) :: (optTok .WHITESPACE w2 ++ X)⟩ := by
    simp only [keyPart, ↓reduceIte]
    rw [skipWs_optWs _ _ (headNot_cons _ _ _ (by simp))]
  have hc : colonPart ((.COLON, [':']) :: (optTok .WHITESPACE w2 ++ X))
      = ⟨tk (.COLON, [':']) :: (optTok .WHITESPACE w2).map tk, [], X⟩ := by
    simp only [colonPart, ↓reduceIte]
    rw [skipWs_optWs _ _ hX]
  unfold semP semE semX
  rw [paraLoop_step _ _ (by simp), parseEntry_key _ _ rfl]
  simp only [entryBody, hk, hc, mk_map, List.nil_append, List.cons_append]
  rw [pItems_entry]
  simp only [valTexts_other _ _ (show ((Kind.KEY, k) : Tok).1 ≠ .VALUE by simp), valTexts_optWs,
    valTexts_other _ _ (show ((Kind.COLON, [':']) : Tok).1 ≠ .VALUE by simp), List.append_assoc,
    List.cons_append]

theorem semE_eof (v : Str) : semE (optTok .VALUE v) = some (optV v, [], []) := by
  have hb := bumpVals_optVal v [] (headNot_nil _)
  rw [List.append_nil] at hb
  unfold semE semX
  rw [entryLines_of_nil _ _ hb]
  simp [paraLoop_nil, rootLoop_nil, mk, valTexts_optVal]

theorem semE_nl (v : Str) (R : List Tok) :
    semE (optTok .VALUE v ++ NL :: R) = (semA R).map fun r => (optV v ++ r.1, r.2.1, r.2.2) := by
  have hb := bumpVals_optVal v (NL :: R) (headNot_cons _ _ _ (by simp))
  unfold semE semA semX
  rw [entryLines_of_cons _ _ _ _ hb, mk_map]
  simp only [nlNodes_nl, nlErrs_nl, List.nil_append, valTexts_append, valTexts_optVal,
    valTexts_other _ _ (show NL.1 ≠ .VALUE by simp), List.append_assoc, List.cons_append]

theorem semA_stop (R : List Tok) (h : HeadNot [.INDENT] R) : semA R = (semP R).map fun p => ([], p.1, p.2) := by
  have : afterNl R = ⟨[], [], R⟩ := by
    cases R with
    | nil => rfl
    | cons i r =>
      have : i.1 ≠ .INDENT := by simpa using h i (by simp)
      simp [afterNl, this]
  unfold semA semX semP
  rw [this, mk_map]
  simp

theorem semA_indent (i : Str) (cs X : List Tok) (hcs : ∀ c ∈ cs, c.1 = .COMMENT)
    (hX : HeadNot [.WHITESPACE, .COMMENT] X) : semA ((.INDENT, i) :: (cs ++ X)) = semE X := by
  unfold semA semE semX
  rw [afterNl_indent i cs X hcs hX]
  simp only [valTexts_afterNl_indent i cs _ hcs]

/-! ### 4. lock-step: the parser on the tokens of a line list = the suffix semantics -/

theorem genR (T0 : List Tok) (s : Option Suf) (t : Tok) (ts : List Tok) (h : T0 = t :: ts)
    (hb : isBlankStart t.1 = false) (hP : semP T0 = s.map fun r => (r.2.1, r.2.2))
    (hne : ∀ r, s = some r → r.2.1 ≠ []) : semR T0 = s.map fun r => consPara r.2.1 r.2.2 := by
  subst h
  rw [semR_start t ts hb, hP, Option.map_map]
  cases s with
  | none => rfl
  | some r => simp [consPara, hne r rfl]

theorem genA (T0 : List Tok) (s : Option Suf) (hI : HeadNot [.INDENT] T0)
    (hP : semP T0 = s.map fun r => (r.2.1, r.2.2)) (hv : ∀ r, s = some r → r.1 = []) : semA T0 = s := by
  rw [semA_stop _ hI, hP, Option.map_map]
  cases s with
  | none => rfl
  | some r =>
    obtain ⟨a, b, c⟩ := r
    have := hv _ rfl
    simp only at this
    subst this
    rfl

theorem headNot_valTail (v : Str) (ls : List Str) (fnl : Bool) :
    HeadNot [.WHITESPACE, .COMMENT] (optTok .VALUE v ++ tailT ls fnl) := by
  unfold optTok
  split
  · rcases tailT_cases ls fnl with ⟨_, _, h⟩ | h <;> rw [h]
    · exact headNot_nil _
    · exact headNot_cons _ _ _ (by simp)
  · exact headNot_cons _ _ _ (by simp)

theorem headNot_indent_tail (ls : List Str) (fnl : Bool) : HeadNot [.INDENT] (tailT ls fnl) := by
  rcases tailT_cases ls fnl with ⟨_, _, h⟩ | h <;> rw [h]
  · exact headNot_nil _
  · exact headNot_cons _ _ _ (by simp)

/-- **the simulation**: on the tokens of any list of LF/CR-free lines, between paragraphs, inside a
    paragraph, and inside a value after a line end, the parser computes the suffix semantics -/
theorem step (fnl : Bool) : ∀ ls : List Str, (∀ l ∈ ls, NoNl l) →
    semR (toks ls fnl) = (sem ls false).map (fun r => consPara r.2.1 r.2.2)
    ∧ semP (toks ls fnl) = (sem ls false).map (fun r => (r.2.1, r.2.2))
    ∧ semA (toks ls fnl) = sem ls true := by
  intro ls
  induction ls with
  | nil =>
    intro _
    refine ⟨by simp [toks, semR_nil, sem, consPara], by simp [toks, semP_nil, sem], ?_⟩
    simp [toks, semA_stop [] (headNot_nil _), semP_nil, sem]
  | cons l ls ih =>
    intro hall
    have hn : NoNl l := hall l (by simp)
    have hls : ∀ x ∈ ls, NoNl x := fun x hx => hall x (by simp [hx])
    obtain ⟨ihR, ihP, ihA⟩ := ih hls
    -- inside a value, up to the end of the current line
    have hE : ∀ v, semE (optTok .VALUE v ++ tailT ls fnl)
        = (sem ls true).map fun r => (optV v ++ r.1, r.2.1, r.2.2) := by
      intro v
      rcases tailT_cases ls fnl with ⟨h1, _, h3⟩ | h3
      · subst h1; rw [h3, List.append_nil, semE_eof]; simp [sem]
      · rw [h3, semE_nl, ihA]
    rw [toks_cons]
    cases hk : lkind l with
    | blank =>
      have hT := lkind_blank l hn hk
      have hsem : ∀ b, sem (l :: ls) b = (sem ls false).map fun r => ([], [], consPara r.2.1 r.2.2) := by
        intro b; simp only [sem, hk]
      have hP : semP (lineT l ++ tailT ls fnl) = (sem (l :: ls) false).map (fun r => (r.2.1, r.2.2)) := by
        rw [hT, List.nil_append, hsem, Option.map_map]
        rcases tailT_cases ls fnl with ⟨h1, _, h3⟩ | h3
        · subst h1; rw [h3, semP_nil]; simp [sem, consPara]
        · rw [h3, semP_nl, ihR, Option.map_map]; rfl
      refine ⟨?_, hP, ?_⟩
      · rw [hT, List.nil_append, hsem, Option.map_map]
        rcases tailT_cases ls fnl with ⟨h1, _, h3⟩ | h3
        · subst h1; rw [h3, semR_nil]; simp [sem, consPara]
        · rw [h3, semR_nl, ihR]
          cases sem ls false <;> simp [consPara]
      · rw [hsem true, ← hsem false]
        apply genA _ _ _ hP (fun r hr => sem_false_vs _ r hr)
        rw [hT, List.nil_append]; exact headNot_indent_tail ls fnl
    | comment =>
      obtain ⟨c, hT⟩ := lkind_comment l hn hk
      have hsem : ∀ b, sem (l :: ls) b = (sem ls false).map fun r => ([], r.2.1, r.2.2) := by
        intro b; simp only [sem, hk]
      have hP : semP (lineT l ++ tailT ls fnl) = (sem (l :: ls) false).map (fun r => (r.2.1, r.2.2)) := by
        rw [hT, hsem, Option.map_map]
        rcases tailT_cases ls fnl with ⟨h1, _, h3⟩ | h3
        · subst h1; rw [h3]; simp [semP_comment_eof, sem]
        · rw [h3]; simp only [List.cons_append, List.nil_append]; rw [semP_comment_nl, ihP]; rfl
      refine ⟨?_, hP, ?_⟩
      · rw [hT, hsem, Option.map_map]
        rcases tailT_cases ls fnl with ⟨h1, _, h3⟩ | h3
        · subst h1; rw [h3]; simp [semR_comment_eof, sem, consPara]
        · rw [h3]; simp only [List.cons_append, List.nil_append]; rw [semR_comment_nl, ihR]; rfl
      · rw [hsem true, ← hsem false]
        apply genA _ _ _ hP (fun r hr => sem_false_vs _ r hr)
        rw [hT]; exact headNot_cons _ _ _ (by simp)
    | field k v =>
      obtain ⟨w1, w2, hT⟩ := lkind_field l k v hn hk
      have hsem : ∀ b, sem (l :: ls) b = (sem ls true).map fun r =>
          ([], (k, Text.join ['\n'] (optV v ++ r.1)) :: r.2.1, r.2.2) := by
        intro b; simp only [sem, hk]
      have hshape : lineT l ++ tailT ls fnl = (.KEY, k) :: (optTok .WHITESPACE w1 ++ (.COLON, [':']) ::
          (optTok .WHITESPACE w2 ++ (optTok .VALUE v ++ tailT ls fnl))) := by
        rw [hT]; simp
      have hP : semP (lineT l ++ tailT ls fnl) = (sem (l :: ls) false).map (fun r => (r.2.1, r.2.2)) := by
        rw [hshape, semP_field k w1 w2 _ (headNot_valTail v ls fnl), hE, hsem, Option.map_map,
          Option.map_map]
        rfl
      refine ⟨?_, hP, ?_⟩
      · apply genR _ _ _ _ hshape rfl hP
        intro r hr
        rw [hsem] at hr
        simp only [Option.map_eq_some_iff] at hr
        obtain ⟨a, _, rfl⟩ := hr
        simp
      · rw [hsem true, ← hsem false]
        apply genA _ _ _ hP (fun r hr => sem_false_vs _ r hr)
        rw [hshape]; exact headNot_cons _ _ _ (by simp)
    | cont v =>
      obtain ⟨hv, i, hT⟩ := lkind_cont l v hn hk
      have hsemF : sem (l :: ls) false = none := by simp [sem, hk]
      have hshape : lineT l ++ tailT ls fnl = (.INDENT, i) :: ([] ++ (optTok .VALUE v ++ tailT ls fnl)) := by
        rw [hT]; simp [optTok, hv]
      have hP : semP (lineT l ++ tailT ls fnl) = (sem (l :: ls) false).map (fun r => (r.2.1, r.2.2)) := by
        rw [hsemF, hshape]
        exact semP_err _ (List.ne_nil_of_mem (paraLoop_indent _ rfl))
      refine ⟨?_, hP, ?_⟩
      · exact genR _ _ _ _ hshape rfl hP (fun r hr => by rw [hsemF] at hr; cases hr)
      · rw [hshape, semA_indent i [] _ (by simp) (headNot_valTail v ls fnl), hE]
        simp only [sem, hk, ↓reduceIte]
    | skip =>
      obtain ⟨i, hT⟩ := lkind_skip l hn hk
      have hsemF : sem (l :: ls) false = none := by simp [sem, hk]
      have hsemT : sem (l :: ls) true = sem ls true := by simp [sem, hk]
      have hE0 : semE (tailT ls fnl) = sem ls true := by
        have := hE []
        simp only [optTok, ↓reduceIte, List.nil_append, optV] at this
        rw [this]
        cases sem ls true <;> rfl
      have hX : HeadNot [.WHITESPACE, .COMMENT] (tailT ls fnl) := by
        have := headNot_valTail [] ls fnl
        simpa [optTok] using this
      obtain ⟨cs, hcs, hshape⟩ : ∃ cs : List Tok, (∀ c ∈ cs, c.1 = .COMMENT)
          ∧ lineT l ++ tailT ls fnl = (.INDENT, i) :: (cs ++ tailT ls fnl) := by
        rcases hT with hT | ⟨s, hT⟩
        · exact ⟨[], by simp, by rw [hT]; simp⟩
        · exact ⟨[(.COMMENT, s)], by simp, by rw [hT]; simp⟩
      have hP : semP (lineT l ++ tailT ls fnl) = (sem (l :: ls) false).map (fun r => (r.2.1, r.2.2)) := by
        rw [hsemF, hshape]
        exact semP_err _ (List.ne_nil_of_mem (paraLoop_indent _ rfl))
      refine ⟨?_, hP, ?_⟩
      · exact genR _ _ _ _ hshape rfl hP (fun r hr => by rw [hsemF] at hr; cases hr)
      · rw [hshape, semA_indent i cs _ hcs hX, hE0, hsemT]
    | bad =>
      have hb := lkind_bad l hn hk
      have hsem : ∀ b, sem (l :: ls) b = none := by intro b; simp [sem, hk]
      obtain ⟨tail, hle, heq⟩ := lineT_tail l ls fnl hn hls
      have hbs : BadStart (lineT l ++ tailT ls fnl) := by rw [heq]; exact lex_bad l tail hb hle
      obtain ⟨t, ts, hshape, hkd⟩ := badStart_head hbs
      have hP : semP (lineT l ++ tailT ls fnl) = (sem (l :: ls) false).map (fun r => (r.2.1, r.2.2)) := by
        rw [hsem]; exact semP_err _ (paraLoop_bad _ hbs)
      refine ⟨?_, hP, ?_⟩
      · apply genR _ _ _ _ hshape _ hP (fun r hr => by rw [hsem] at hr; cases hr)
        rcases hkd with e | e | e <;> rw [e] <;> rfl
      · rw [hsem true, ← hsem false]
        exact genA _ _ (badStart_headNot_indent hbs) hP (fun r hr => by rw [hsem] at hr; cases hr)

/-! ### 5. the theorems -/

/-- the strict reader in terms of `semR` -/
theorem readStrict_semR (s : Str) (c : List (List (Str × Str))) :
    (∃ t, readStrict s = .ok t ∧ docItems t = c) ↔ semR (lex s) = some c := by
  unfold readStrict parse parseTokens semR mk
  simp only []
  by_cases h : (rootLoop (lex s)).errs = []
  · simp [h, docItems_root]
  · have : (rootLoop (lex s)).errs.isEmpty = false := by simpa using h
    simp [h, this]

theorem semR_render (ls : List Str) (fnl : Bool) (h : ∀ l ∈ ls, NoNl l) :
    semR (lex (render (ls.map .raw) fnl)) = lenient ls := by
  have : lex (render (ls.map .raw) fnl) = toks ls fnl := lex_render ls fnl h
  rw [this, (step fnl ls h).1, lenient_sem]

/-- **C03, exact acceptance set at line level.** For EVERY list `ls` of LF/CR-free lines, rendered
    with or without a final newline: the strict lossless reader accepts the text and exposes the
    content `c` (paragraphs, field names in order, values) iff `ls` is in the lenient grammar with
    content `c` — the grammar of C03 plus (a) a white-space-only line or an indented `#` line
    directly after a field / continuation / such line (adds nothing, keeps the paragraph open) and
    (b) blanks between a field name and its colon -/
theorem C03_accept_iff_lenient (ls : List Str) (fnl : Bool) (h : ∀ l ∈ ls, NoNl l)
    (c : List (List (Str × Str))) :
    (∃ t, readStrict (render (ls.map .raw) fnl) = .ok t ∧ docItems t = c) ↔ lenient ls = some c := by
  rw [readStrict_semR, semR_render ls fnl h]

/-- **acceptance on the code's full accepted language** (the "if" direction with the tolerant reader):
    every line list of the lenient grammar is accepted by the strict reader with exactly the content
    the grammar assigns, and the tolerant reader returns the same tree without error -/
theorem C03_accept_lenient (ls : List Str) (fnl : Bool) (h : ∀ l ∈ ls, NoNl l)
    (c : List (List (Str × Str))) (hc : lenient ls = some c) :
    ∃ t, readStrict (render (ls.map .raw) fnl) = .ok t ∧ docItems t = c
      ∧ readRelaxed (render (ls.map .raw) fnl) = (t, []) := by
  obtain ⟨t, ht, htc⟩ := (C03_accept_iff_lenient ls fnl h c).2 hc
  refine ⟨t, ht, htc, ?_⟩
  unfold readStrict at ht
  split at ht
  · rename_i he
    simp only [Except.ok.injEq] at ht
    simp only [readRelaxed, ht, Prod.mk.injEq, true_and]
    simpa using he
  · cases ht

/-- **C03, exact rejection set at line level**: the strict reader fails — equivalently the tolerant
    reader reports at least one error — iff the line list is outside the lenient grammar. In
    particular a line that is neither field, continuation, comment nor blank makes the strict reader
    fail EXCEPT in the cases (a), (b) of `C03_accept_iff_lenient`, wherever it stands -/
theorem C03_reject_exact (ls : List Str) (fnl : Bool) (h : ∀ l ∈ ls, NoNl l) :
    ((∀ t, readStrict (render (ls.map .raw) fnl) ≠ .ok t) ↔ lenient ls = none)
    ∧ ((readRelaxed (render (ls.map .raw) fnl)).2 ≠ [] ↔ lenient ls = none) := by
  have key : (parse (render (ls.map .raw) fnl)).errors ≠ [] ↔ lenient ls = none := by
    rw [← semR_render ls fnl h]
    unfold parse parseTokens semR mk
    simp only []
    by_cases he : (rootLoop (lex (render (ls.map .raw) fnl))).errs = [] <;> simp [he]
  refine ⟨?_, by simpa [readRelaxed] using key⟩
  rw [← key]
  constructor
  · intro hr he
    exact hr _ (readStrict_of_no_errors _ he)
  · intro he
    exact (readers_of_parse_error _ he).2

/-- **the same line list with and without final newline** is accepted or rejected alike, with the
    same content -/
theorem C03_final_newline_irrelevant (ls : List Str) (h : ∀ l ∈ ls, NoNl l) (c : List (List (Str × Str))) :
    (∃ t, readStrict (render (ls.map .raw) true) = .ok t ∧ docItems t = c)
      ↔ (∃ t, readStrict (render (ls.map .raw) false) = .ok t ∧ docItems t = c) := by
  rw [C03_accept_iff_lenient ls true h, C03_accept_iff_lenient ls false h]

/-! ### the grammar of C03 inside the lenient grammar -/

theorem render_map_text (ls : List Line) (fnl : Bool) :
    render ((ls.map Line.text).map .raw) fnl = render ls fnl := by
  induction ls with
  | nil => rfl
  | cons l ls ih =>
    cases ls with
    | nil => simp [render, Line.text]
    | cons m ls =>
      simp only [List.map_cons, render, Line.text] at ih ⊢
      rw [ih]

theorem linesWFFrom_noNl : ∀ (ls : List Line) (prev : Bool), LinesWFFrom prev ls → ∀ l ∈ ls.map Line.text, NoNl l := by
  intro ls
  induction ls with
  | nil => intro _ _ l hl; simp at hl
  | cons x xs ih =>
    intro prev h l hl
    simp only [List.map_cons, List.mem_cons] at hl
    rcases hl with rfl | hl
    · exact ((validLine_iff x.text).1 ⟨x, h.1, rfl⟩).1
    · exact ih _ h.2.2 l hl

/-- **the lenient grammar extends the grammar of C03, with the same content** -/
theorem C03_lenient_extends (ls : List Line) (h : LinesWF ls) :
    lenient (ls.map Line.text) = some (content ls) := by
  obtain ⟨t, ht, hc, _⟩ := C03_accept_lines ls true h
  refine (C03_accept_iff_lenient (ls.map Line.text) true (linesWFFrom_noNl ls false h) _).1 ⟨t, ?_, hc⟩
  rw [render_map_text]; exact ht

example : lenient (exLines.map Line.text) = some (content exLines) := C03_lenient_extends exLines (by decide)

/-! ### non-vacuity -/

/-- nine lines: a comment, a spaced-colon field, a white-space-only line inside the value, a
    continuation line, an indented `#` line, a second field, a blank line, a second paragraph -/
def exLenient : List Str :=
  ["# lead".toList, "Source : foo".toList, " \t".toList, " :x é".toList, "  #c".toList, "A:".toList,
   "".toList, "Package:\tbar".toList]

example : ∀ l ∈ exLenient, NoNl l := by decide

example : lenient exLenient
    = some [[("Source".toList, "foo\n:x é".toList), ("A".toList, [])], [("Package".toList, "bar".toList)]] := by
  decide +kernel

/-- `C03_accept_iff_lenient` fires on a text that is outside the grammar of C03 (three lenient lines) -/
example : ∃ t, readStrict "# lead\nSource : foo\n \t\n :x é\n  #c\nA:\n\nPackage:\tbar".toList = .ok t
    ∧ docItems t
      = [[("Source".toList, "foo\n:x é".toList), ("A".toList, [])], [("Package".toList, "bar".toList)]] := by
  have := (C03_accept_iff_lenient exLenient false (by decide) _).2 (by decide +kernel :
    lenient exLenient = some [[("Source".toList, "foo\n:x é".toList), ("A".toList, [])],
      [("Package".toList, "bar".toList)]])
  have e : render (exLenient.map .raw) false
      = "# lead\nSource : foo\n \t\n :x é\n  #c\nA:\n\nPackage:\tbar".toList := by decide
  rwa [e] at this

/-- `C03_reject_exact` fires: the white-space-only line after the blank line puts the list outside the
    lenient grammar -/
example : ∀ t, readStrict "A: b\n\n \nC: d\n".toList ≠ .ok t := by
  have := (C03_reject_exact ["A: b".toList, "".toList, " ".toList, "C: d".toList] true (by decide)).1.2
    (by decide +kernel)
  have e : render (["A: b".toList, "".toList, " ".toList, "C: d".toList].map .raw) true
      = "A: b\n\n \nC: d\n".toList := by decide
  rwa [e] at this

/-- and in the other direction: an accepted text is inside the lenient grammar -/
example : lenient ["A: b".toList, " ".toList, "C: d".toList]
    = some [[("A".toList, "b".toList), ("C".toList, "d".toList)]] := by
  obtain ⟨⟨t, h1, h2⟩, _⟩ := C03_wsline_continues
  have e : render (["A: b".toList, " ".toList, "C: d".toList].map .raw) true = "A: b\n \nC: d\n".toList := by
    decide
  exact (C03_accept_iff_lenient _ true (by decide) _).1 ⟨t, by rw [e]; exact h1, h2⟩

end Deb822Verif.Props.C03Lenient
