import Deb822Verif.Props.C03Exact
import Deb822Verif.Lemmas.DebLenientLex
/-!
# C03 — the exact acceptance set of the strict lossless reader, at line level

`C03_accept_iff_lenient`: for EVERY list `ls` of LF/CR-free lines, with or without a final newline,
the strict reader accepts the rendered text with content `c` iff `lenient ls = some c`
(`lenient` of Props/C03Exact.lean: the grammar of C03 plus a white-space-only line or an indented `#`
line directly after a field / continuation line, and blanks between a field name and its colon).
`C03_reject_exact`: the strict reader fails iff `lenient ls = none`. This supersedes the bounded
table `C03Exact.C03_lenient_small_scope`.

Route (no document AST): (1) `Lemmas/DebLenientLex`: the lexer restarts after every LF, so the token
list of a line list is the concatenation of the per-line token lists; (2) `sem`: the lenient grammar
as a SUFFIX semantics (what a line list contributes to the value being continued, to the open
paragraph and to the following paragraphs) — `lenientAux_sem` ties the accumulator form `lenientAux`
to it; (3) `lineT_*`: the tokens of a line of each kind; (4) `step`: one induction on the line list,
three statements in lock-step with the parser's three loops (`rootLoop`: between paragraphs,
`paraLoop`: inside a paragraph, `entryLines`: inside a value).
-/
namespace Deb822Verif.Props.C03Lenient
open Deb822Verif Deb Node Spec
open Deb822Verif.Props.C03 Deb822Verif.Props.C03Exact Deb822Verif.Deb.Lenient

/-! ### 1. the lenient grammar as a suffix semantics -/

def optV (v : Str) : List Str := if v = [] then [] else [v]

def consPara (es : List (Str × Str)) (ps : List (List (Str × Str))) : List (List (Str × Str)) :=
  if es = [] then ps else es :: ps

/-- what a suffix of the line list contributes: further lines of the value being continued, further
    fields of the open paragraph, further paragraphs -/
abbrev Suf := List Str × List (Str × Str) × List (List (Str × Str))

/-- `prev` = a value can be continued (as in `lenientAux`) -/
def sem : List Str → Bool → Option Suf
  | [], _ => some ([], [], [])
  | l :: ls, prev =>
    match lkind l with
    | .blank => (sem ls false).map fun r => ([], [], consPara r.2.1 r.2.2)
    | .comment => (sem ls false).map fun r => ([], r.2.1, r.2.2)
    | .field k v =>
      (sem ls true).map fun r => ([], (k, Text.join ['\n'] (optV v ++ r.1)) :: r.2.1, r.2.2)
    | .cont v => if prev then (sem ls true).map fun r => (optV v ++ r.1, r.2.1, r.2.2) else none
    | .skip => if prev then sem ls true else none
    | .bad => none

theorem sem_false_vs (ls : List Str) (r : Suf) (h : sem ls false = some r) : r.1 = [] := by
  cases ls with
  | nil => simp [sem] at h; rw [← h]
  | cons l ls =>
    simp only [sem] at h
    split at h <;> simp at h
    all_goals (obtain ⟨a, b, w, _, rfl⟩ := h; rfl)

theorem sem_vs_ne (ls : List Str) : ∀ (prev : Bool) (r : Suf), sem ls prev = some r → ∀ x ∈ r.1, x ≠ [] := by
  induction ls with
  | nil => intro prev r h; simp [sem] at h; rw [← h]; simp
  | cons l ls ih =>
    intro prev r h
    simp only [sem] at h
    split at h
    · simp at h; obtain ⟨a, b, w, _, rfl⟩ := h; simp
    · simp at h; obtain ⟨a, b, w, _, rfl⟩ := h; simp
    · simp at h; obtain ⟨a, b, w, _, rfl⟩ := h; simp
    · rename_i v _
      cases prev with
      | false => simp at h
      | true =>
        simp only [↓reduceIte, Option.map_eq_some_iff] at h
        obtain ⟨a, ha, rfl⟩ := h
        intro x hx
        simp only [List.mem_append] at hx
        rcases hx with hx | hx
        · unfold optV at hx; split at hx <;> simp at hx; subst hx; assumption
        · exact ih true a ha x hx
    · cases prev with
      | false => simp at h
      | true => exact ih true r h
    · simp at h

def pushLines (cur : List (Str × List Str)) (vs : List Str) : List (Str × List Str) := vs.foldl pushLine cur

theorem pushLines_nil (vs : List Str) : pushLines [] vs = [] := by
  induction vs with
  | nil => rfl
  | cons v vs ih => simpa [pushLines, pushLine] using ih

theorem pushLines_cons (k : Str) (cur : List (Str × List Str)) (vs : List Str) :
    ∀ l0 : List Str, (∀ x ∈ vs, x ≠ []) → pushLines ((k, l0) :: cur) vs = (k, vs.reverse ++ l0) :: cur := by
  induction vs with
  | nil => intro l0 _; rfl
  | cons v vs ih =>
    intro l0 h
    have hv : v ≠ [] := h v (by simp)
    have := ih (v :: l0) (fun x hx => h x (by simp [hx]))
    simp only [pushLines, List.foldl_cons, pushLine, hv, ↓reduceIte] at this ⊢
    rw [this]; simp

theorem pushLines_optV (cur : List (Str × List Str)) (v : Str) (vs : List Str) :
    pushLines cur (optV v ++ vs) = pushLines (pushLine cur v) vs := by
  unfold optV
  split
  · rename_i hv
    subst hv
    cases cur with
    | nil => simp [pushLines_nil, pushLine]
    | cons c cur => simp [pushLine]
  · simp [pushLines]

theorem finishPara_cons (k : Str) (l0 : List Str) (cur : List (Str × List Str)) :
    finishPara ((k, l0) :: cur) = finishPara cur ++ [(k, Text.join ['\n'] l0.reverse)] := by
  simp [finishPara]

theorem finishPara_eq_nil (cur : List (Str × List Str)) : finishPara cur = [] ↔ cur = [] := by
  simp [finishPara]

/-- the document a suffix contribution `r` gives after the state `(done, cur)` of `lenientAux` -/
def comb (done : List (List (Str × Str))) (cur : List (Str × List Str)) (r : Suf) :
    List (List (Str × Str)) :=
  done.reverse ++ consPara (finishPara (pushLines cur r.1) ++ r.2.1) r.2.2

/-- **accumulator form = suffix form** -/
theorem lenientAux_sem (ls : List Str) : ∀ (prev : Bool) (done : List (List (Str × Str)))
    (cur : List (Str × List Str)), lenientAux ls prev done cur = (sem ls prev).map (comb done cur) := by
  induction ls with
  | nil =>
    intro prev done cur
    simp only [lenientAux, sem, Option.map_some, comb, pushLines, List.foldl_nil, List.append_nil,
      consPara, finishPara_eq_nil]
    split <;> simp
  | cons l ls ih =>
    intro prev done cur
    cases hk : lkind l with
    | blank =>
      simp only [lenientAux, sem, hk, ih, Option.map_map]
      cases hs : sem ls false with
      | none => rfl
      | some r =>
        simp only [Option.map_some, Function.comp, comb, pushLines_nil]
        simp only [pushLines, List.foldl_nil, consPara, finishPara_eq_nil]
        by_cases hc : cur = [] <;> simp [hc, finishPara]
    | comment =>
      simp only [lenientAux, sem, hk, ih, Option.map_map]
      cases hs : sem ls false with
      | none => rfl
      | some r =>
        have := sem_false_vs ls r hs
        simp only [Option.map_some, Function.comp, comb, this]
    | field k v =>
      simp only [lenientAux, sem, hk, ih, Option.map_map]
      cases hs : sem ls true with
      | none => rfl
      | some r =>
        have hne := sem_vs_ne ls true r hs
        simp only [Option.map_some, Function.comp, comb, pushLines, List.foldl_nil]
        have := pushLines_cons k cur r.1 (optV v) hne
        simp only [pushLines] at this
        show _ = some _
        have hov : (if v = [] then [] else [v]) = optV v := rfl
        rw [hov, this, finishPara_cons]
        have hrev : (optV v).reverse = optV v := by unfold optV; split <;> rfl
        simp [hrev]
    | cont v =>
      cases prev with
      | false => simp [lenientAux, sem, hk]
      | true =>
        simp only [lenientAux, sem, hk, ih, ↓reduceIte, Option.map_map]
        cases hs : sem ls true with
        | none => rfl
        | some r => simp only [Option.map_some, Function.comp, comb, pushLines_optV]
    | skip =>
      cases prev with
      | false => simp [lenientAux, sem, hk]
      | true => simp only [lenientAux, sem, hk, ih, ↓reduceIte]
    | bad => simp [lenientAux, sem, hk]

/-- the lenient grammar in suffix form -/
theorem lenient_sem (ls : List Str) :
    lenient ls = (sem ls false).map fun r => consPara r.2.1 r.2.2 := by
  rw [lenient, lenientAux_sem]
  cases hs : sem ls false with
  | none => rfl
  | some r =>
    have := sem_false_vs ls r hs
    simp [comb, this, pushLines, finishPara]

end Deb822Verif.Props.C03Lenient
