import Deb822Verif.Model.RelParse
/-!
# C09 — the lossless relationship-field reader reproduces every input byte-for-byte

Model: `Rel.lex` (debian-control/src/relations.rs:124-255), `Rel.parse`
(debian-control/src/lossless/relations.rs:74-384), `Display` = `Node.text`,
`Relations::parse_relaxed` = `readRelaxed`, `FromStr for Relations/Entry/Relation` =
`readStrict` / `readEntry` / `readRelation`.
Quantifier: all texts (`List Char` = all sequences of Unicode scalar values = all UTF-8 strings),
both values of `allow_substvar`.
-/
namespace Deb822Verif.Props.C09
open Deb822Verif Rel Node PR

/-! ### lexer: each step returns a non-empty prefix and continues with the exact suffix -/

theorem lexStep_text (c rest) : (lexStep c rest).1.2 ++ (lexStep c rest).2 = c :: rest := by
  unfold lexStep
  (repeat' split) <;> simp [List.takeWhile_append_dropWhile]

theorem lexStep_nonempty (c rest) : (lexStep c rest).1.2 ≠ [] := by
  unfold lexStep
  (repeat' split) <;> simp

theorem lex_text (input) : tokText (lex input) = input := by
  fun_induction lex input with
  | case1 => simp
  | case2 c rest ih =>
    simp only [tokText_cons, ih]; exact lexStep_text c rest

theorem lex_nonempty (input) : ∀ t ∈ lex input, t.2 ≠ [] := by
  fun_induction lex input with
  | case1 => simp
  | case2 c rest ih =>
    intro t ht
    simp only [List.mem_cons] at ht
    rcases ht with rfl | ht
    · exact lexStep_nonempty c rest
    · exact ih t ht

/-- the token texts partition the input, and no token is empty -/
theorem C09_lex_partition (s : Str) : tokText (lex s) = s ∧ ∀ t ∈ lex s, t.2 ≠ [] :=
  ⟨lex_text _, lex_nonempty _⟩

/-! ### parser: every token is copied into the tree exactly once, in order -/

/-- for ANY token list (not only lexer output) and both values of `allow_substvar`, the leaves of
    the parse tree are exactly that list: each token is bumped once, in order, whatever recovery
    branch is taken -/
theorem C09_tokens_once (allow : Bool) (ts : List Tok) : (parseTokens allow ts).tree.leaves = ts := by
  have h1 := skipWs_ok ts
  have h2 := rootLoop_ok allow (skipWs ts).rest
  simp only [PR.Ok] at h1 h2
  rw [rootLoop_rest] at h2
  simp only [parseTokens, leaves_node, leavesList_append]
  rw [List.append_nil] at h2
  rw [h2]; exact h1

/-- the root loop only exits at end of input: no token is left behind (termination itself is part
    of the definitions: every loop is a well-founded recursion with a proved decrease) -/
theorem C09_total (allow : Bool) (ts : List Tok) : (rootLoop allow ts).rest = [] := rootLoop_rest allow ts

/-- the parser is total on arbitrary token lists and never drops or invents text -/
theorem C09_parse_text (allow : Bool) (ts : List Tok) :
    (parseTokens allow ts).tree.text = tokText ts := by
  rw [← tokText_leaves, C09_tokens_once]

/-- tolerant reader (`Relations::parse_relaxed`), substitution variables allowed or not:
    printing the result yields exactly the original text -/
theorem C09_roundtrip (s : Str) (allow : Bool) : (readRelaxed s allow).1.text = s := by
  have := C09_parse_text allow (lex s)
  rw [(C09_lex_partition s).1] at this
  exact this

/-- the strict reader succeeds exactly when the tolerant reader (substvars disallowed) reports
    no error -/
theorem C09_strict_iff (s : Str) :
    (∃ t, readStrict s = .ok t) ↔ (readRelaxed s false).2 = [] := by
  unfold readStrict readRelaxed
  cases h : (parse s false).errors with
  | nil => simp
  | cons e es => simp

/-- the strict reader, when it succeeds, returns the tolerant reader's tree … -/
theorem C09_strict_same_tree (s : Str) (t : RNode) (h : readStrict s = .ok t) :
    t = (readRelaxed s false).1 := by
  unfold readStrict at h
  split at h
  · simp at h; exact h.symm
  · simp at h

/-- … and therefore prints exactly the original text -/
theorem C09_strict_roundtrip (s : Str) (t : RNode) (h : readStrict s = .ok t) : t.text = s := by
  rw [C09_strict_same_tree s t h]; exact C09_roundtrip s false

/-! ### single-entry and single-relation readers -/

theorem text_infix_of_mem {κ} {n : Node κ} {cs : List (Node κ)} (h : n ∈ cs) :
    n.text <:+: textList cs := by
  induction cs with
  | nil => simp at h
  | cons c cs ih =>
    simp only [List.mem_cons] at h
    rcases h with rfl | h
    · simp only [textList_cons]; exact (List.prefix_append _ _).isInfix
    · simp only [textList_cons]
      exact List.IsInfix.trans (ih h) (List.suffix_append _ _).isInfix

/-- a child (node or token) prints an infix of what its parent prints -/
theorem child_text_infix {κ} {n p : Node κ} (h : n ∈ p.children) : n.text <:+: p.text := by
  cases p with
  | tok k t => simp [Node.children] at h
  | node k cs => simp only [Node.children] at h; simpa using text_infix_of_mem h

theorem childNodes_mem {k n c} (h : c ∈ childNodes k n) : c ∈ n.children ∧ c.kind = k ∧ c.isNode := by
  simp only [childNodes, List.mem_filter, Bool.and_eq_true, beq_iff_eq] at h
  exact ⟨h.1, h.2.2, h.2.1⟩

/-- `Entry::from_str`, when `Ok`, is an ENTRY child of the strict reader's root -/
theorem readEntry_ok {s e} (h : readEntry s = .ok e) :
    ∃ root, readStrict s = .ok root ∧ childNodes .ENTRY root = [e] := by
  unfold readEntry at h
  split at h
  · simp at h
  · rename_i root hr
    split at h
    · simp at h
    · rename_i e' he
      simp at h; subst h
      exact ⟨root, hr, he⟩
    · simp at h

/-- `Relation::from_str`, when `Ok`, is the only RELATION child of `Entry::from_str`'s entry -/
theorem readRelation_ok {s r} (h : readRelation s = .ok r) :
    ∃ e, readEntry s = .ok e ∧ childNodes .RELATION e = [r] := by
  unfold readRelation at h
  split at h
  · simp at h
  · rename_i e he
    split at h
    · simp at h
    · rename_i r' hr'
      simp at h; subst h
      exact ⟨e, he, hr'⟩
    · simp at h

/-- `Entry::from_str`, when it accepts, prints a substring of the input -/
theorem C09_entry_substring (s : Str) (e : RNode) (h : readEntry s = .ok e) : e.text <:+: s := by
  obtain ⟨root, hr, he⟩ := readEntry_ok h
  have hm : e ∈ childNodes .ENTRY root := by rw [he]; simp
  have := child_text_infix (childNodes_mem hm).1
  rwa [C09_strict_roundtrip s root hr] at this

/-- `Relation::from_str`, when it accepts, prints a substring of the input -/
theorem C09_relation_substring (s : Str) (r : RNode) (h : readRelation s = .ok r) : r.text <:+: s := by
  obtain ⟨e, he, hr⟩ := readRelation_ok h
  have hm : r ∈ childNodes .RELATION e := by rw [hr]; simp
  exact List.IsInfix.trans (child_text_infix (childNodes_mem hm).1) (C09_entry_substring s e he)

/-- the single-entry reader accepts only what the strict field reader accepts … -/
theorem C09_entry_implies_strict (s : Str) (e : RNode) (h : readEntry s = .ok e) :
    (readRelaxed s false).2 = [] := by
  obtain ⟨root, hr, _⟩ := readEntry_ok h
  exact (C09_strict_iff s).1 ⟨root, hr⟩

/-- … and so does the single-relation reader -/
theorem C09_relation_implies_strict (s : Str) (r : RNode) (h : readRelation s = .ok r) :
    (readRelaxed s false).2 = [] := by
  obtain ⟨e, he, _⟩ := readRelation_ok h
  exact C09_entry_implies_strict s e he

/-! ### `allow_substvar` only matters for texts that contain a `$` -/

theorem ite_some_ne {p : Prop} [Decidable p] {a b : Kind} {x : Option Kind} (hab : a ≠ b)
    (h : (if p then some a else x) = some b) : x = some b := by
  split at h
  · simp at h; exact absurd h hab
  · exact h

theorem punct_dollar (c : Char) (h : punct c = some .DOLLAR) : c = '$' := by
  unfold punct at h
  iterate 8 replace h := ite_some_ne (by decide) h
  by_cases hd : (c == '$') = true
  · simpa using hd
  · rw [if_neg hd] at h
    iterate 6 replace h := ite_some_ne (by decide) h
    simp at h

theorem lexStep_dollar (c rest) (h : (lexStep c rest).1.1 = .DOLLAR) : c = '$' := by
  unfold lexStep at h
  split at h
  · rename_i k hk
    simp only at h; subst h
    exact punct_dollar c hk
  · (repeat' split at h) <;> simp at h

/-- the lexer produces a DOLLAR token only from a `$` character -/
theorem lex_dollar (s : Str) : ∀ t ∈ lex s, t.1 = .DOLLAR → '$' ∈ s := by
  fun_induction lex s with
  | case1 => simp
  | case2 c rest ih =>
    intro t ht hk
    simp only [List.mem_cons] at ht
    rcases ht with rfl | ht
    · simp [lexStep_dollar c rest hk]
    · have := ih t ht hk
      rw [← lexStep_text c rest]
      exact List.mem_append_right _ this

theorem rootFirst_allow (t : Tok) (r) (h : t.1 ≠ .DOLLAR) : rootFirst true t r = rootFirst false t r := by
  unfold rootFirst; simp [h]

theorem mem_rest_of_ok {p : PR} {ts} (h : p.Ok ts) : ∀ t ∈ p.rest, t ∈ ts := by
  intro t ht
  rw [← h]; exact List.mem_append_right _ ht

theorem rootLoop_allow (ts : List Tok) (h : ∀ t ∈ ts, t.1 ≠ .DOLLAR) :
    rootLoop true ts = rootLoop false ts := by
  fun_induction rootLoop false ts
  next => simp [rootLoop]
  next t r hm =>
    have hf := rootFirst_allow t r (h t (by simp))
    rw [rootLoop]
    split
    · rw [hf]
    · rename_i c r2 hm2
      rw [hf] at hm2; rw [hm] at hm2; simp at hm2
  next t r c r2 hm ih =>
    have hf := rootFirst_allow t r (h t (by simp))
    rw [rootLoop]
    split
    · rename_i hm2
      rw [hf] at hm2; rw [hm] at hm2; simp at hm2
    · rename_i c' r2' hm2
      rw [hf] at hm2; rw [hm] at hm2
      simp at hm2
      obtain ⟨rfl, rfl⟩ := hm2
      have hmem : ∀ t' ∈ (skipWs r2).rest, t'.1 ≠ .DOLLAR := by
        intro t' ht'
        apply h
        have a1 := mem_rest_of_ok (skipWs_ok r2) t' ht'
        have a2 : t' ∈ (skipWs (rootFirst false t r).rest).rest := by rw [hm]; simp [a1]
        have a3 := mem_rest_of_ok (skipWs_ok _) t' a2
        exact mem_rest_of_ok (rootFirst_ok false t r) t' a3
      rw [ih hmem, hf]

/-- on a token list without DOLLAR the two settings build the same tree and the same errors -/
theorem C09_allow_irrelevant_tokens (ts : List Tok) (h : ∀ t ∈ ts, t.1 ≠ .DOLLAR) :
    parseTokens true ts = parseTokens false ts := by
  have hmem : ∀ t ∈ (skipWs ts).rest, t.1 ≠ .DOLLAR :=
    fun t ht => h t (mem_rest_of_ok (skipWs_ok ts) t ht)
  simp only [parseTokens, rootLoop_allow _ hmem]

/-- on a text without `$`, allowing substitution variables changes nothing: same tree, same errors -/
theorem C09_allow_irrelevant (s : Str) (h : '$' ∉ s) : readRelaxed s true = readRelaxed s false := by
  have : parse s true = parse s false :=
    C09_allow_irrelevant_tokens (lex s) fun t ht hk => h (lex_dollar s t ht hk)
  simp only [readRelaxed, this]

/-! ### every reported error has its ERROR node, and vice versa -/

mutual
/-- number of ERROR *nodes* in a tree (ERROR tokens of the lexer do not count) -/
def errNodes : RNode → Nat
  | .tok _ _ => 0
  | .node k cs => (if k = .ERROR then 1 else 0) + errNodesList cs
def errNodesList : List RNode → Nat
  | [] => 0
  | n :: ns => errNodes n + errNodesList ns
end

@[simp] theorem errNodesList_nil : errNodesList [] = 0 := by simp [errNodesList]
@[simp] theorem errNodesList_cons (n ns) : errNodesList (n :: ns) = errNodes n + errNodesList ns := by
  simp [errNodesList]
@[simp] theorem errNodes_tok (k t) : errNodes (.tok k t) = 0 := by simp [errNodes]
@[simp] theorem errNodes_node (k cs) :
    errNodes (.node k cs) = (if k = .ERROR then 1 else 0) + errNodesList cs := by simp [errNodes]
@[simp] theorem errNodesList_append (a b) : errNodesList (a ++ b) = errNodesList a + errNodesList b := by
  induction a with
  | nil => simp
  | cons x xs ih => simp [ih]; omega

/-- the fragment pushed exactly one error per ERROR node it built -/
def Bal (p : PR) : Prop := errNodesList p.nodes = p.errs.length

theorem bal_nil (ts) : Bal (PR.nil ts) := by simp [Bal, PR.nil]
theorem bal_andThen {a : PR} {f : List Tok → PR} (ha : Bal a) (hf : ∀ x, Bal (f x)) :
    Bal (a.andThen f) := by
  have h := hf a.rest
  simp only [Bal, PR.andThen, errNodesList_append, List.length_append] at *
  omega
theorem bal_wrap {a : PR} (k : Kind) (hk : k ≠ .ERROR) (ha : Bal a) : Bal (a.wrap k) := by
  simp only [Bal, PR.wrap] at *
  simp [hk, ha]

theorem skipWs_errs (ts) : (skipWs ts).errs = [] := by
  cases ts with
  | nil => simp [skipWs]
  | cons a b => unfold skipWs; split <;> rfl

theorem skipWs_bal (ts) : Bal (skipWs ts) := by
  induction ts with
  | nil => simp [skipWs, Bal]
  | cons t ts ih =>
    simp only [Bal, skipWs_errs] at ih
    unfold skipWs; split <;> simp [Bal, ih]

theorem skipWs_errNodes (ts) : errNodesList (skipWs ts).nodes = 0 := by
  have := skipWs_bal ts; simp only [Bal, skipWs_errs] at this; simpa using this

theorem bump1_bal (ts) : Bal (bump1 ts) := by cases ts <;> simp [bump1, Bal]
theorem errorTok_bal (msg ts) : Bal (errorTok msg ts) := by cases ts <;> simp [errorTok, Bal]
theorem expect_bal (k msg ts) : Bal (expect k msg ts) := by
  unfold expect; split
  · exact bump1_bal ts
  · exact errorTok_bal msg ts

theorem substLoop_bal (ts) : Bal (substLoop ts) := by
  induction ts with
  | nil => simp [substLoop, Bal]
  | cons t ts ih =>
    simp only [Bal] at ih
    unfold substLoop; (repeat' split) <;> simp [Bal, ih] <;> omega

theorem substOpen_bal (ts) : Bal (substOpen ts) := by
  unfold substOpen; split
  · exact errorTok_bal _ ts
  · exact bump1_bal ts
theorem substClose_bal (ts) : Bal (substClose ts) := by
  unfold substClose; split
  · exact errorTok_bal _ ts
  · exact bump1_bal ts

theorem parseSubstvar_bal (ts) : Bal (parseSubstvar ts) :=
  bal_wrap _ (by decide) (bal_andThen (bump1_bal _) fun _ => bal_andThen (substOpen_bal _) fun _ =>
    bal_andThen (substLoop_bal _) substClose_bal)

theorem archqualPart_bal (ts) : Bal (archqualPart ts) := by
  unfold archqualPart; (repeat' split)
  · exact bal_andThen (skipWs_bal _) fun _ =>
      bal_andThen (bal_wrap _ (by decide) (bal_andThen (bump1_bal _) fun _ =>
        bal_andThen (skipWs_bal _) (expect_bal _ _))) skipWs_bal
  · exact bal_nil ts
  · exact skipWs_bal ts
  · exact bal_andThen (skipWs_bal _) (errorTok_bal _)

theorem constraintLoop_bal (ts) : Bal (constraintLoop ts) := by
  induction ts with
  | nil => simp [constraintLoop, Bal]
  | cons t ts ih =>
    have he : (constraintLoop ts).errs = [] := by
      cases ts with
      | nil => simp [constraintLoop]
      | cons a b => unfold constraintLoop; split <;> rfl
    simp only [Bal, he] at ih
    unfold constraintLoop; split <;> simp [Bal, ih]

theorem versionLoop_bal (ts) : Bal (versionLoop ts) := by
  fun_induction versionLoop ts <;> simp_all [Bal] <;> omega

theorem versionTok_bal (ts) : Bal (versionTok ts) := by
  unfold versionTok; split
  · exact bal_andThen (bump1_bal _) versionLoop_bal
  · exact errorTok_bal _ ts

theorem versionPart_bal (ts) : Bal (versionPart ts) := by
  unfold versionPart; split
  · exact bal_andThen (skipWs_bal _) fun _ => bal_wrap _ (by decide) (bal_andThen (bump1_bal _) fun _ =>
      bal_andThen (skipWs_bal _) fun _ => bal_andThen (bal_wrap _ (by decide) (constraintLoop_bal _)) fun _ =>
      bal_andThen (skipWs_bal _) fun _ => bal_andThen (versionTok_bal _) fun _ =>
      bal_andThen (skipWs_bal _) (expect_bal _ _))
  · exact bal_nil ts

theorem archLoop_bal (ts) : Bal (archLoop ts) := by
  fun_induction archLoop ts <;> simp_all [Bal, skipWs_errNodes] <;> omega

theorem archPart_bal (ts) : Bal (archPart ts) := by
  unfold archPart; split
  · exact bal_andThen (skipWs_bal _) fun _ => bal_wrap _ (by decide) (bal_andThen (bump1_bal _) archLoop_bal)
  · exact bal_nil ts

theorem notTail_bal (ts) : Bal (notTail ts) := bal_andThen (skipWs_bal _) (expect_bal _ _)

theorem profLoop_bal (ts) : Bal (profLoop ts) := by
  fun_induction profLoop ts
  next => simp [Bal, skipWs_errNodes]
  next x t r h hk ih => simp_all [Bal, skipWs_errNodes]
  next x t r h hk hn ih =>
    have h2 := notTail_bal r
    simp only [Bal] at h2 ih ⊢
    simp [skipWs_errNodes, ih, h2]
  next => simp [Bal, skipWs_errNodes]
  next x t r h hk hn hb ih =>
    simp only [Bal] at ih ⊢
    simp [skipWs_errNodes, ih]; omega

theorem profBlock_bal (ts) : Bal (profBlock ts) :=
  bal_andThen (skipWs_bal _) fun _ => bal_wrap _ (by decide) (bal_andThen (bump1_bal _) profLoop_bal)

theorem profilesLoop_bal (ts) : Bal (profilesLoop ts) := by
  fun_induction profilesLoop ts
  next x h ih =>
    have h1 := profBlock_bal x
    simp only [Bal] at h1 ih ⊢
    simp [h1, ih]
  next x h => exact bal_nil x

theorem parseRelation_bal (ts) : Bal (parseRelation ts) :=
  bal_wrap _ (by decide) (bal_andThen (expect_bal _ _ _) fun _ => bal_andThen (archqualPart_bal _) fun _ =>
    bal_andThen (versionPart_bal _) fun _ => bal_andThen (archPart_bal _) profilesLoop_bal)

theorem pipeSep_bal (ts) : Bal (pipeSep ts) :=
  bal_andThen (skipWs_bal _) fun _ => bal_andThen (bump1_bal _) skipWs_bal
theorem popErr_bal (ts) : Bal (popErr ts) := by cases ts <;> simp [popErr, Bal]
theorem junkSep_bal (ts) : Bal (junkSep ts) := bal_andThen (skipWs_bal _) popErr_bal

theorem entryLoop_bal (ts) : Bal (entryLoop ts) := by
  fun_induction entryLoop ts
  next x hc => exact parseRelation_bal x
  next x hc hp ih =>
    have h1 := parseRelation_bal x
    have h2 := pipeSep_bal (parseRelation x).rest
    simp only [Bal] at h1 h2 ih ⊢
    simp [h1, h2, ih]
  next x hc hp hn => exact bal_andThen (parseRelation_bal x) skipWs_bal
  next x hc hp hn ih =>
    have h1 := parseRelation_bal x
    have h2 := junkSep_bal (parseRelation x).rest
    simp only [Bal] at h1 h2 ih ⊢
    simp [h1, h2, ih]

theorem parseEntry_bal (ts) : Bal (parseEntry ts) :=
  bal_andThen (skipWs_bal _) fun _ => bal_wrap _ (by decide) (entryLoop_bal _)

theorem rootFirst_bal (allow t r) : Bal (rootFirst allow t r) := by
  unfold rootFirst; (repeat' split)
  · exact parseEntry_bal _
  · exact parseSubstvar_bal _
  · exact errorTok_bal _ _
  · exact bal_nil _
  · exact errorTok_bal _ _

theorem rootSep_bal (c : Tok) : errNodesList (rootSep c).1 = (rootSep c).2.length := by
  unfold rootSep; split <;> simp

theorem rootLoop_bal (allow ts) : Bal (rootLoop allow ts) := by
  fun_induction rootLoop allow ts
  next => simp [Bal]
  next t r h =>
    have h1 := rootFirst_bal allow t r
    simp only [Bal] at h1 ⊢
    simp [h1, skipWs_errNodes]
  next t r c r2 h ih =>
    have h1 := rootFirst_bal allow t r
    simp only [Bal] at h1 ih ⊢
    simp [h1, ih, skipWs_errNodes, rootSep_bal]

/-- the number of reported errors is the number of ERROR nodes of the tree, for any token list:
    every site that pushes an error builds one ERROR node and vice versa -/
theorem C09_errors_eq_error_nodes (allow : Bool) (ts : List Tok) :
    (parseTokens allow ts).errors.length = errNodes (parseTokens allow ts).tree := by
  have h := rootLoop_bal allow (skipWs ts).rest
  simp only [Bal] at h
  simp [parseTokens, skipWs_errNodes, h]

/-- the strict reader accepts exactly the texts whose (tolerant) tree has no ERROR node -/
theorem C09_strict_iff_no_error_node (s : Str) :
    (∃ t, readStrict s = .ok t) ↔ errNodes (readRelaxed s false).1 = 0 := by
  rw [C09_strict_iff]
  have := C09_errors_eq_error_nodes false (lex s)
  simp only [readRelaxed, parse] at *
  rw [← this]; exact List.length_eq_zero_iff.symm
/-- no `bump()` of the parser can hit the `pop().unwrap()` panic: wherever the code does
    `peek_past_ws() == Some(k)` … `skip_ws(); bump()`, a token of kind `k` is there -/
theorem C09_bump_guarded (ts : List Tok) (k : Kind) (h : peekPastWs ts = some k) :
    ∃ t r, (skipWs ts).rest = t :: r ∧ t.1 = k := peek_some h

/-! ### non-vacuity / sanity -/

example : (readRelaxed "a (>= 1) [!b] <!c d>, ${x:y} | é\n $".toList true).1.text
    = "a (>= 1) [!b] <!c d>, ${x:y} | é\n $".toList := C09_roundtrip _ _

example : (readRelaxed "a (>= 1) [!b] <!c d> | e:any, f".toList false).2 = [] := by decide +kernel
example : (readRelaxed "${x}".toList false).2 ≠ [] := by decide +kernel
example : (readRelaxed "${x}".toList true).2 = [] := by decide +kernel
/-- the hypotheses of the strict / entry / relation theorems are satisfiable -/
example : (match readStrict "a, b".toList with | .ok t => t.text == "a, b".toList | _ => false) = true := by
  decide +kernel
example : (match readEntry " a | b ,".toList with | .ok e => e.text == "a | b".toList | _ => false) = true := by
  decide +kernel
example : (match readRelation "\n a (= 1),".toList with | .ok r => r.text == "a (= 1)".toList | _ => false)
    = true := by decide +kernel
example : (match readEntry "a, b".toList with | .ok _ => true | _ => false) = false := by decide +kernel
example : (match readRelation "a | b".toList with | .ok _ => true | _ => false) = false := by decide +kernel
/-- hypotheses of `C09_bump_guarded` are satisfiable -/
example : peekPastWs [(.WHITESPACE, [' ']), (.COLON, [':'])] = some .COLON := by decide
/-- … and `C09_allow_irrelevant` needs its hypothesis: with a `$` the two settings differ -/
example : (readRelaxed "${x}".toList true).2 ≠ (readRelaxed "${x}".toList false).2 := by decide +kernel
example : '$' ∉ "a (>= 1)".toList := by decide
example : ∀ t ∈ [((.IDENT, ['a']) : Tok), (.COMMA, [','])], t.1 ≠ .DOLLAR := by decide
/-- `C09_errors_eq_error_nodes` on a text with three errors; ERROR *tokens* (`é`) are not counted -/
example : (readRelaxed "é a (".toList false).2.length = 3 ∧ errNodes (readRelaxed "é a (".toList false).1 = 3 := by
  decide +kernel

end Deb822Verif.Props.C09
