import Deb822Verif.Props.C02
import Deb822Verif.Lemmas.TotalWorkDeb
import Deb822Verif.Lemmas.TotalWorkRel
import Deb822Verif.Lemmas.TotalWorkDepth
/-!
# C02 (work and stack) — round counts of the two lossless parsers and the two lexers, tree depth

`Props/C02.lean` bounds the *size of the result* of the two lossless parsers
(`C02_deb_parse_bound`, `C02_rel_parse_bound`: leaves of the tree ≤ characters).  That would also hold
of a parser that rescans its input.  This file bounds the **work**:

* instrumented twins (`Lemmas/TotalWorkDeb.lean`, `Lemmas/TotalWorkRel.lean`) of every function of
  `Model/DebParse.lean` and `Model/RelParse.lean` return the model's result together with a counter
  that is incremented once per execution of the body of **every** `while` / `loop` of the Rust
  parser (a round that `break`s counts; the last, failing evaluation of a `while` condition does
  not).  For the relation parser this includes the rounds of `peek_past_ws` (relations.rs:379-389),
  which looks at tokens without consuming them;
* `…_twin`: the result component *is* the model function the drivers run;
* `…_work_toks` / `…_work`: counter ≤ `c · tokens + d`; `…_work_bound`: ≤ `c · characters + d`;
* the two lexers: one round of the lexer loop per token, and every inner scan looks at the
  characters of the token it emits plus one look-ahead character;
* **stack**: no function of the two parsers is recursive in the Rust code (see `C02_deb_depth`,
  `C02_rel_depth` for the per-function inventory); the recursive *consumers* of the tree recurse once
  per node level, and the trees have depth ≤ 4 / ≤ 5 for every input.

What is *not* counted: cost per round (a `String` push, a `format!` of an error message, a rowan
builder call — one per round), the one-pass library calls around the loops (`collect`, `reverse`,
`GreenNodeBuilder::finish`).  Wall-clock time, stack bytes and heap are measured by the harness.
-/
namespace Deb822Verif.Props.C02Work
open Deb822Verif

/-! ## 1. lossless deb822 parser (`parse`, src/lossless.rs:125-288) -/

/-- the instrumented parser returns what `parse(text)` (model `Deb.parse`, run by `deb.str`,
    `deb.relaxed`, … ) returns -/
theorem C02_deb_parse_twin (s : Str) : (Deb.Work.parseC s).1 = Deb.parse s :=
  Deb.Work.parseC_fst s

theorem C02_deb_parse_twin_toks (ts : List Deb.Tok) :
    (Deb.Work.parseTokensC ts).1 = Deb.parseTokens ts :=
  Deb.Work.parseTokensC_fst ts

/-- on *any* token list (also one the lexer never produces) the rounds of all eight `while` / `loop`
    constructs of the parser together — root loop (230), `skip_ws_and_newlines` outer (262) and inner
    (267), paragraph loop (221), comment loop (139), the `loop` of `parse_entry` (190), its value loop
    (191), `skip_ws` (257, at its three call sites) — are at most
    tokens + 2.  Every round bumps a token that no other round bumps, except: the one round of the
    `loop` of `parse_entry` (or of the inner blank-line loop) that meets the end of the input, and —
    paid by the key and the colon, bumped outside any loop — the root round and the paragraph round
    of a paragraph. -/
theorem C02_deb_parse_work_toks (ts : List Deb.Tok) :
    (Deb.Work.parseTokensC ts).2 ≤ ts.length + 2 :=
  Deb.Work.rootLoopC_cost ts

/-- lossless deb822 parser: loop rounds ≤ tokens of the text + 2  (c = 1, d = 2) -/
theorem C02_deb_parse_work (s : Str) : (Deb.Work.parseC s).2 ≤ (Deb.lex s).length + 2 :=
  Deb.Work.rootLoopC_cost _

/-- lossless deb822 parser: loop rounds ≤ characters of the text + 2 -/
theorem C02_deb_parse_work_bound (s : Str) : (Deb.Work.parseC s).2 ≤ s.length + 2 :=
  Nat.le_trans (C02_deb_parse_work s) (Nat.add_le_add_right (C02.C02_deb_lex_bound s) 2)

/-- the bound is attained: one token, three rounds (root, paragraph, the `loop` of `parse_entry`
    that finds no token); and the empty text takes no round -/
theorem C02_deb_parse_work_attained :
    (Deb.Work.parseC "A".toList).2 = 3 ∧ (Deb.lex "A".toList).length = 1
      ∧ (Deb.Work.parseC []).2 = 0 := by decide +kernel

/-- a realistic document: 21 tokens, 19 rounds -/
example : (Deb.Work.parseC "Source: a\nDepends: b,\n c\n\n# x\nPackage: a\n".toList).2 = 19
    ∧ (Deb.lex "Source: a\nDepends: b,\n c\n\n# x\nPackage: a\n".toList).length = 21 := by
  decide +kernel

/-- a token list the lexer never produces (a VALUE first, two COLONs in a row): 4 tokens, 4 rounds -/
example : (Deb.Work.parseTokensC
    [(.VALUE, ['v']), (.COLON, [':']), (.COLON, [':']), (.INDENT, [' '])]).2 = 4 := by
  decide +kernel

/-! ## 2. deb822 lexer (`lex_`, src/lex.rs:32-97) -/

theorem C02_deb_lex_twin (s : Str) : (Deb.Work.lexC s).1 = Deb.lex s := Deb.Work.lexC_fst s

/-- rounds of the lexer loop (calls of the `from_fn` closure that return a token; every round emits
    exactly one token) ≤ characters of the text -/
theorem C02_deb_lex_rounds (s : Str) :
    (Deb.Work.lexC s).2.rounds = (Deb.lex s).length ∧ (Deb.Work.lexC s).2.rounds ≤ s.length := by
  have h := Deb.Work.lexAuxC_rounds Deb.initState s
  exact ⟨h, by rw [Deb.Work.lexC, h]; exact C02.C02_deb_lex_bound s⟩

/-- character visits of all rounds together — per round the characters of the emitted token (the
    first character and what the inner scan `find(|c| !pred(c))` accepts) and one look-ahead character
    — are characters + tokens, hence ≤ 2 · characters: the inner scans do not rescan -/
theorem C02_deb_lex_visits (s : Str) :
    (Deb.Work.lexC s).2.visits = s.length + (Deb.lex s).length
      ∧ (Deb.Work.lexC s).2.visits ≤ 2 * s.length := by
  have h := Deb.Work.lexAuxC_visits Deb.initState s
  have hp := (C01.C01_lex_partition s).1
  have hb := C02.C02_deb_lex_bound s
  simp only [Deb.lex] at hp hb
  rw [hp] at h
  exact ⟨h, by rw [Deb.Work.lexC, h]; omega⟩

example : (Deb.Work.lexC "A: b\n c\n".toList).2.rounds = 8
    ∧ (Deb.Work.lexC "A: b\n c\n".toList).2.visits = 16 := by decide +kernel

/-! ## 3. lossless relation parser (`parse`, debian-control/src/lossless/relations.rs:74-401) -/

/-- the instrumented parser returns what `parse(text, allow_substvar)` (model `Rel.parse`, run by
    `rel.str`, `rel.relaxed`, `rel.substvar`, … ) returns, for both values of the flag -/
theorem C02_rel_parse_twin (s : Str) (allow : Bool) : (Rel.Work.parseC s allow).1 = Rel.parse s allow :=
  Rel.Work.parseC_fst s allow

theorem C02_rel_parse_twin_toks (allow : Bool) (ts : List Rel.Tok) :
    (Rel.Work.parseTokensC allow ts).1 = Rel.parseTokens allow ts :=
  Rel.Work.parseTokensC_fst allow ts

/-- on *any* token list and for both flag values: the rounds of all loops of the parser together —
    root loop, every `skip_ws`, every `peek_past_ws`, the `loop` of `parse_substvar`, the `loop` of
    `parse_entry`, constraint loop, version loop, architecture loop, the outer and inner profile
    loops — are at most 6 · tokens + 1.  A token is bumped by one round and looked at by at most
    five `peek_past_ws` calls (after a package name: the archqual, version, architectures, profiles
    and separator tests all peek from the same position over the same blank tokens). -/
theorem C02_rel_parse_work_toks (allow : Bool) (ts : List Rel.Tok) :
    (Rel.Work.parseTokensC allow ts).2 ≤ 6 * ts.length + 1 :=
  Rel.Work.parseTokensC_cost allow ts

/-- lossless relation parser: loop rounds ≤ 6 · tokens of the text + 1  (c = 6, d = 1) -/
theorem C02_rel_parse_work (s : Str) (allow : Bool) :
    (Rel.Work.parseC s allow).2 ≤ 6 * (Rel.lex s).length + 1 :=
  Rel.Work.parseTokensC_cost allow _

/-- lossless relation parser: loop rounds ≤ 6 · characters of the text + 1 -/
theorem C02_rel_parse_work_bound (s : Str) (allow : Bool) :
    (Rel.Work.parseC s allow).2 ≤ 6 * s.length + 1 := by
  have h1 := C02_rel_parse_work s allow
  have h2 := C02.C02_rel_lex_bound s
  omega

/-- the factor 6 cannot be replaced by 5: a name, twenty newlines, a comma — 22 tokens, 127 rounds
    (5 · 22 + 1 = 111); five peeks and one `skip_ws` walk over the twenty newlines -/
theorem C02_rel_parse_work_witness :
    (Rel.Work.parseC ("a" ++ String.ofList (List.replicate 20 '\n') ++ ",").toList false).2 = 127
      ∧ (Rel.lex ("a" ++ String.ofList (List.replicate 20 '\n') ++ ",").toList).length = 22 := by
  decide +kernel

example : (Rel.Work.parseC "foo (>= 1.0) [amd64 !i386] <!nocheck>, b | c".toList false).2 = 41
    ∧ (Rel.lex "foo (>= 1.0) [amd64 !i386] <!nocheck>, b | c".toList).length = 27 := by
  decide +kernel

/-- unterminated groups and a substvar: the rounds that meet the end of the input are counted -/
example : (Rel.Work.parseC "a [".toList false).2 = 8 ∧ (Rel.Work.parseC "a <".toList false).2 = 10
    ∧ (Rel.Work.parseC "${".toList true).2 = 2 ∧ (Rel.Work.parseC "${".toList false).2 = 1 := by
  decide +kernel

/-! ## 4. relation lexer (`Lexer::next_token`, debian-control/src/relations.rs:124-255) -/

theorem C02_rel_lex_twin (s : Str) : (Rel.Work.lexC s).1 = Rel.lex s := Rel.Work.lexC_fst s

/-- rounds of the lexer loop (`next_token` calls that return a token) ≤ characters -/
theorem C02_rel_lex_rounds (s : Str) :
    (Rel.Work.lexC s).2.rounds = (Rel.lex s).length ∧ (Rel.Work.lexC s).2.rounds ≤ s.length := by
  have h := Rel.Work.lexC_rounds s
  exact ⟨h, by rw [h]; exact C02.C02_rel_lex_bound s⟩

/-- character visits (characters of the token + one look-ahead per `read_while`) ≤ 2 · characters -/
theorem C02_rel_lex_visits (s : Str) :
    (Rel.Work.lexC s).2.visits = s.length + (Rel.lex s).length
      ∧ (Rel.Work.lexC s).2.visits ≤ 2 * s.length := by
  have h := Rel.Work.lexC_visits s
  have hp := (C09.C09_lex_partition s).1
  have hb := C02.C02_rel_lex_bound s
  rw [hp] at h
  exact ⟨h, by rw [h]; omega⟩

example : (Rel.Work.lexC "foo (>= 1.0)".toList).2.rounds = 8
    ∧ (Rel.Work.lexC "foo (>= 1.0)".toList).2.visits = 20 := by decide +kernel

/-! ## 5. stack: depth of the trees

No parser function is recursive in the Rust code (checked by reading every function body):

* `src/lossless.rs`: `parse_entry` 138-217 calls `current`, `bump`, `skip_ws`; `parse_paragraph`
  219-225 calls `parse_entry`; `Parser::parse` 227-246 calls `skip_ws_and_newlines`,
  `parse_paragraph`; `bump` 248-251, `current` 253-255, `skip_ws` 256-260, `skip_ws_and_newlines`
  261-275 call only `current` / `bump`.  The call graph is a DAG of depth 4; all repetition is
  `while` / `loop`.  `lex_` (src/lex.rs:32-97) is a `from_fn` closure without a self-call.
* `debian-control/src/lossless/relations.rs`: `parse_substvar` 89-116, `error` 157-164,
  `parse_relation` 166-314 call `current`, `bump`, `skip_ws`, `peek_past_ws`, `error`; `parse_entry`
  118-155 calls `skip_ws`, `parse_relation`, `peek_past_ws`, `bump`; `Parser::parse` 316-363 calls
  `skip_ws`, `parse_entry`, `parse_substvar`, `error`, `bump`; `bump` 365-368, `current` 370-372,
  `skip_ws` 373-377, `peek_past_ws` 379-389 are leaves.  A DAG of depth 4.  `Lexer::next_token`
  (debian-control/src/relations.rs:161-240) calls `read_while` 145-159 (a `while let`), no self-call.

Recursive are the *consumers* of a tree: `inject` (src/lossless.rs:648-660,
debian-control/src/lossless/relations.rs:1047-1059: one self-call per child node), and inside rowan
`Display` for `SyntaxNode` (preorder walk), `Drop` of `GreenNode` / `SyntaxNode` (one level per
node).  Their recursion depth is the depth of the tree, bounded below for every input. -/

/-- every deb822 parse tree has at most 4 nested node levels (ROOT > PARAGRAPH > ENTRY > ERROR;
    tokens hang below), on any token list -/
theorem C02_deb_depth_toks (ts : List Deb.Tok) : (Deb.parseTokens ts).tree.depth ≤ 4 :=
  Deb.Depth.parseTokens_depth ts

theorem C02_deb_depth (s : Str) : (Deb.parse s).tree.depth ≤ 4 :=
  Deb.Depth.parseTokens_depth _

/-- depth 4 is attained (a key without colon: ROOT > PARAGRAPH > ENTRY > ERROR), and a well-formed
    paragraph has depth 3 -/
theorem C02_deb_depth_attained :
    (Deb.parse "A".toList).tree.depth = 4 ∧ (Deb.parse "A: b\n".toList).tree.depth = 3
      ∧ (Deb.parse []).tree.depth = 1 := by decide +kernel

/-- every relation parse tree has at most 5 nested node levels (ROOT > ENTRY > RELATION > VERSION >
    CONSTRAINT, or … > ARCHQUAL / VERSION / ARCHITECTURES / PROFILES > ERROR), on any token list and
    for both values of `allow_substvar` -/
theorem C02_rel_depth_toks (allow : Bool) (ts : List Rel.Tok) :
    (Rel.parseTokens allow ts).tree.depth ≤ 5 :=
  Rel.Depth.parseTokens_depth allow ts

theorem C02_rel_depth (s : Str) (allow : Bool) : (Rel.parse s allow).tree.depth ≤ 5 :=
  Rel.Depth.parseTokens_depth allow _

/-- depth 5 is attained by a versioned relation, with either flag; a bare name has depth 3 -/
theorem C02_rel_depth_attained :
    (Rel.parse "a (>= 1)".toList false).tree.depth = 5 ∧ (Rel.parse "a (>= 1)".toList true).tree.depth = 5
      ∧ (Rel.parse "a".toList false).tree.depth = 3
      ∧ (Rel.parse "${a}".toList true).tree.depth = 2 := by decide +kernel

end Deb822Verif.Props.C02Work
