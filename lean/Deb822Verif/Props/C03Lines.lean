import Deb822Verif.Props.C03Orphan
import Deb822Verif.Lemmas.DocLinesIndent
import Deb822Verif.Lemmas.DocLinesConv
/-!
# C03 — the flat line grammar tied to `DocS`; kinds of lines; prefixes; white-space-only lines

The property and the generator speak about line lists (`Spec.Line`, `render`, `content` of
Spec/DocGrammar.lean), the theorems of Props/C03.lean about the structured `DocS`; the driver bridges
the two with a `partial def` checked at run time. Here the bridge is a total function and a theorem:

1. `LinesWF` (Lemmas/DocLines.lean): every line is a legal blank / comment / field / continuation
   line and every continuation line directly follows a field or continuation line.
   `C03_lines_complete`: `docOfLines` (total) turns such a list into a `DocS` that is `WF`, is written
   as `render` writes the lines and has the content of the flat grammar. `C03_accept_lines`,
   `C03_lookup_lines`: the acceptance clause for every well-formed line list.
2. `C03_line_classify`: an LF/CR-free line is of exactly one of seven kinds; `C03_badline_iff`,
   `C03_illegal_line`: `BadLine` and the complement of the legal lines.
3. `C03_wf_prefix`: every prefix of a well-formed line list (all lines terminated) is again
   well-formed and fully terminated; `C03_reject_replace`, `C03_reject_insert`: single-line corruption.
4. `C03_reject_wsline`, `C03_reject_indent_start` (and on line lists: `C03_reject_indented_lines`);
   witnesses for the white-space-only line after a field, `A : b`, CRLF.
-/
namespace Deb822Verif.Props.C03
open Deb822Verif Deb Node Spec

/-! ### 1. well-formed line lists are well-formed documents -/

/-- **completeness of the bridge**: every well-formed line list, with or without final newline, is
    turned by the total function `docOfLines` into a structured document that is well-formed
    (`DocS.WF`), whose text is the rendered line list and whose content is the content the flat
    grammar assigns to the line list -/
theorem C03_lines_complete (ls : List Line) (fnl : Bool) (h : LinesWF ls) :
    ∃ d, docOfLines ls fnl = some d ∧ d.WF ∧ d.str = render ls fnl ∧ d.content = content ls :=
  docOfLines_spec ls fnl h

/-- **acceptance, on line lists**: the strict reader accepts the rendering of every well-formed line
    list and exposes exactly `content ls`; the tolerant reader returns the same tree and no error -/
theorem C03_accept_lines (ls : List Line) (fnl : Bool) (h : LinesWF ls) :
    ∃ t, readStrict (render ls fnl) = .ok t ∧ docItems t = content ls
      ∧ readRelaxed (render ls fnl) = (t, []) := by
  obtain ⟨d, _, hwf, hstr, hc⟩ := C03_lines_complete ls fnl h
  refine ⟨d.tree, ?_, ?_, ?_⟩
  · rw [← hstr]; exact (C03_accept d hwf).1
  · rw [← hc]; exact (C03_accept d hwf).2
  · rw [← hstr]; exact C03_accept_relaxed d hwf

/-- **lookups, on line lists**: there are as many paragraphs as `content ls` has, and on the i-th one
    the field names, the first-value lookup, the all-values lookup and the membership test are those
    of the i-th paragraph of `content ls` -/
theorem C03_lookup_lines (ls : List Line) (fnl : Bool) (h : LinesWF ls) :
    ∃ t, readStrict (render ls fnl) = .ok t ∧ (paragraphs t).length = (content ls).length ∧
      ∀ (i : Nat) (p : DNode) (c : List (Str × Str)),
        (paragraphs t)[i]? = some p → (content ls)[i]? = some c →
        ∀ k, keys p = c.map (·.1)
          ∧ Deb.get p k = (c.find? (·.1 == k)).map (·.2)
          ∧ getAll p k = (c.filter (·.1 == k)).map (·.2)
          ∧ containsKey p k = (c.find? (·.1 == k)).isSome := by
  obtain ⟨t, ht, hitems, _⟩ := C03_accept_lines ls fnl h
  refine ⟨t, ht, ?_, ?_⟩
  · rw [← hitems]; simp [docItems]
  · intro i p c hp hc k
    have hpc : items p = c := by
      rw [← hitems] at hc
      simp only [docItems, List.getElem?_map, hp, Option.map_some, Option.some.injEq] at hc
      exact hc
    refine ⟨?_, ?_, ?_, ?_⟩
    · rw [C03_keys_items, hpc]
    · rw [C03_get_first, hpc]
    · rw [C03_getAll_items, hpc]
    · rw [C03_contains, C03_get_first, hpc]; simp

/-- **`LinesWF` is exactly the domain of the C03 theorems**: a line list is well-formed iff the bridge
    `docOfLines` turns it into a structured document that satisfies `DocS.WF` (what the driver reports
    as `wf=1`) -/
theorem C03_lines_wf_iff (ls : List Line) (fnl : Bool) :
    LinesWF ls ↔ ∃ d, docOfLines ls fnl = some d ∧ d.WF :=
  docOfLines_wf_iff ls fnl

/-- **`Paragraph::from_str`, on line lists**: it fails with "no paragraphs" when the line list has no
    field, and otherwise returns a paragraph whose items are the first paragraph of `content ls` -/
theorem C03_paragraph_from_str_lines (ls : List Line) (fnl : Bool) (h : LinesWF ls) :
    (content ls = [] → paragraphFromStr (render ls fnl) = .error ["no paragraphs"])
    ∧ ∀ c cs, content ls = c :: cs → ∃ p, paragraphFromStr (render ls fnl) = .ok p ∧ items p = c := by
  obtain ⟨d, _, hwf, hstr, hc⟩ := C03_lines_complete ls fnl h
  have hp := C03_paragraph_from_str d hwf
  rw [hstr] at hp
  rw [← hc]
  cases hps : d.paras with
  | nil =>
    rw [hps] at hp
    exact ⟨fun _ => hp, fun c cs e => by simp [DocS.content, hps] at e⟩
  | cons pg ps =>
    rw [hps] at hp
    refine ⟨fun e => by simp [DocS.content, hps] at e, fun c cs e => ⟨pg.1.node, hp, ?_⟩⟩
    simp only [DocS.content, hps, List.map_cons, List.cons.injEq] at e
    rw [items_para]; exact e.1

/-! ### 2. the kinds of lines -/

/-- **every LF/CR-free line is of exactly one kind**: empty; comment `#…`; white-space-only;
    indentation followed by text; field line `name ':' …`; spaced-colon line `name` blanks `':' …`;
    or `BadLine`. (Second part: no line satisfies the predicates of two different kinds.) -/
theorem C03_line_classify (l : Str) (h : NoNl l) :
    (l = [] ∨ CommentLine l ∨ WsOnlyLine l ∨ IndentedLine l ∨ FieldLine l ∨ SpacedColonLine l ∨ BadLine l)
    ∧ ∀ k k' : LineClass, k.Holds l → k'.Holds l → k = k' := by
  refine ⟨?_, fun k k' => lineClass_unique l k k'⟩
  have := lineClass_holds l h
  cases hk : lineClass l <;> rw [hk] at this <;> simp only [LineClass.Holds] at this
  · exact Or.inl this
  · exact Or.inr (Or.inl this)
  · exact Or.inr (Or.inr (Or.inl this))
  · exact Or.inr (Or.inr (Or.inr (Or.inl this)))
  · exact Or.inr (Or.inr (Or.inr (Or.inr (Or.inl this))))
  · exact Or.inr (Or.inr (Or.inr (Or.inr (Or.inr (Or.inl this)))))
  · exact Or.inr (Or.inr (Or.inr (Or.inr (Or.inr (Or.inr this)))))

/-- the kind is computed by `lineClass` -/
theorem C03_line_class_computed (l : Str) (h : NoNl l) (k : LineClass) : lineClass l = k ↔ k.Holds l :=
  lineClass_iff l h k

/-- **`BadLine` is exactly the complement of the six other kinds** -/
theorem C03_badline_iff (l : Str) (h : NoNl l) :
    BadLine l ↔ ¬ (l = [] ∨ CommentLine l ∨ WsOnlyLine l ∨ IndentedLine l ∨ FieldLine l ∨ SpacedColonLine l) := by
  constructor
  · intro hb hx
    have e := lineClass_of_bad l hb
    rcases hx with hx | hx | hx | hx | hx | hx
    · have := lineClass_of_holds .empty l hx; rw [e] at this; cases this
    · have := lineClass_of_holds .comment l hx; rw [e] at this; cases this
    · have := lineClass_of_holds .wsOnly l hx; rw [e] at this; cases this
    · have := lineClass_of_holds .indented l hx; rw [e] at this; cases this
    · have := lineClass_of_holds .field l hx; rw [e] at this; cases this
    · have := lineClass_of_holds .spacedColon l hx; rw [e] at this; cases this
  · intro hx
    rcases (C03_line_classify l h).1 with h1 | h1 | h1 | h1 | h1 | h1 | h1
    · exact absurd (Or.inl h1) hx
    · exact absurd (Or.inr (Or.inl h1)) hx
    · exact absurd (Or.inr (Or.inr (Or.inl h1))) hx
    · exact absurd (Or.inr (Or.inr (Or.inr (Or.inl h1)))) hx
    · exact absurd (Or.inr (Or.inr (Or.inr (Or.inr (Or.inl h1))))) hx
    · exact absurd (Or.inr (Or.inr (Or.inr (Or.inr (Or.inr h1))))) hx
    · exact h1

/-- **the legal lines**: a text is the text of a valid line of the grammar (`Line.Valid`) iff it is
    LF/CR-free and empty, a comment line, a field line or a continuation-shaped line (`OrphanLine`:
    indentation followed by text that does not begin with '#') -/
theorem C03_legal_line_iff (l : Str) :
    (∃ ln : Line, ln.Valid ∧ l = ln.text) ↔
      (NoNl l ∧ (l = [] ∨ CommentLine l ∨ FieldLine l ∨ OrphanLine l)) :=
  validLine_iff l

/-- **the complement of the legal lines**: an LF/CR-free line is the text of no valid line of the
    grammar iff it is white-space-only, an indented `#…` line, a spaced-colon line or a `BadLine` -/
theorem C03_illegal_line (l : Str) (h : NoNl l) :
    (¬ ∃ ln : Line, ln.Valid ∧ l = ln.text) ↔
      (WsOnlyLine l ∨ (∃ ws t, l = ws ++ '#' :: t ∧ ws ≠ [] ∧ AllIndent ws) ∨ SpacedColonLine l ∨ BadLine l) := by
  rw [C03_legal_line_iff]
  have hih : ∀ ws t, l = ws ++ '#' :: t → ws ≠ [] → AllIndent ws → IndentedLine l :=
    fun ws t e hne hall => ⟨ws, '#', t, e, hne, hall, by decide⟩
  constructor
  · intro hx
    rcases (C03_line_classify l h).1 with h1 | h1 | h1 | h1 | h1 | h1 | h1
    · exact absurd ⟨h, Or.inl h1⟩ hx
    · exact absurd ⟨h, Or.inr (Or.inl h1)⟩ hx
    · exact Or.inl h1
    · rcases (indentedLine_iff l h).1 h1 with ho | hh
      · exact absurd ⟨h, Or.inr (Or.inr (Or.inr ho))⟩ hx
      · exact Or.inr (Or.inl hh)
    · exact absurd ⟨h, Or.inr (Or.inr (Or.inl h1))⟩ hx
    · exact Or.inr (Or.inr (Or.inl h1))
    · exact Or.inr (Or.inr (Or.inr h1))
  · intro hx ⟨_, hy⟩
    have u := (C03_line_classify l h).2
    have ho : OrphanLine l → IndentedLine l := fun ho => (indentedLine_iff l h).2 (Or.inl ho)
    -- an orphan line is not an indented '#' line
    have hoh : OrphanLine l → ∀ ws t, l = ws ++ '#' :: t → ws ≠ [] → AllIndent ws → False := by
      rintro ⟨_, ws', c, cs, e', hne', hall', hc, hh⟩ ws t e hne hall
      have d1 := dropWhile_app isIndent ws ('#' :: t) hall (headFails_cons _ _ _ (by decide))
      have d2 := dropWhile_app isIndent ws' (c :: cs) hall' (headFails_cons _ _ _ hc)
      rw [← e] at d1; rw [← e'] at d2
      rw [d1] at d2
      simp only [List.cons.injEq] at d2
      exact hh d2.1.symm
    rcases hx with hx | ⟨ws, t, e, hne, hall⟩ | hx | hx
    · rcases hy with hy | hy | hy | hy
      · exact absurd (u .wsOnly .empty hx hy) (by decide)
      · exact absurd (u .wsOnly .comment hx hy) (by decide)
      · exact absurd (u .wsOnly .field hx hy) (by decide)
      · exact absurd (u .wsOnly .indented hx (ho hy)) (by decide)
    · have hx := hih ws t e hne hall
      rcases hy with hy | hy | hy | hy
      · exact absurd (u .indented .empty hx hy) (by decide)
      · exact absurd (u .indented .comment hx hy) (by decide)
      · exact absurd (u .indented .field hx hy) (by decide)
      · exact hoh hy ws t e hne hall
    · rcases hy with hy | hy | hy | hy
      · exact absurd (u .spacedColon .empty hx hy) (by decide)
      · exact absurd (u .spacedColon .comment hx hy) (by decide)
      · exact absurd (u .spacedColon .field hx hy) (by decide)
      · exact absurd (u .spacedColon .indented hx (ho hy)) (by decide)
    · rcases hy with hy | hy | hy | hy
      · exact absurd (u .bad .empty hx hy) (by decide)
      · exact absurd (u .bad .comment hx hy) (by decide)
      · exact absurd (u .bad .field hx hy) (by decide)
      · exact absurd (u .bad .indented hx (ho hy)) (by decide)

/-! ### 3. prefixes and single-line corruption -/

/-- **prefixes**: for a well-formed line list `pre ++ post`, the lines `pre` — all of them
    LF-terminated — are again a well-formed document, every line of which is terminated -/
theorem C03_wf_prefix_append (pre post : List Line) (h : LinesWF (pre ++ post)) :
    ∃ d, docOfLines pre true = some d ∧ d.WF ∧ DocTermAll d ∧ d.str = render pre true
      ∧ d.content = content pre := by
  obtain ⟨d, hd, hwf, hstr, hc⟩ := C03_lines_complete pre true h.prefix
  exact ⟨d, hd, hwf, docOfLines_termAll pre h.prefix d hd, hstr, hc⟩

/-- the same for the first `i` lines -/
theorem C03_wf_prefix (ls : List Line) (h : LinesWF ls) (i : Nat) :
    ∃ d, docOfLines (ls.take i) true = some d ∧ d.WF ∧ DocTermAll d ∧ d.str = render (ls.take i) true
      ∧ d.content = content (ls.take i) :=
  C03_wf_prefix_append (ls.take i) (ls.drop i) (by rw [List.take_append_drop]; exact h)

/-- what follows the text of a line in a rendered line list is a line end -/
theorem lineEnd_render_tail (post : List Line) (fnl : Bool) :
    LineEnd (nlText (!post.isEmpty || fnl) ++ render post fnl) := by
  apply lineEnd_nlText
  cases post with
  | nil => cases fnl <;> simp [render]
  | cons x xs => simp

/-- **rejection, on line lists**: well-formed lines, then a `BadLine`, then any lines at all (legal or
    not): the tolerant reader reports an error and the strict reader fails -/
theorem C03_reject_lines (pre post : List Line) (hpre : LinesWF pre) (l : Str) (hb : BadLine l)
    (fnl : Bool) :
    (readRelaxed (render (pre ++ .raw l :: post) fnl)).2 ≠ []
    ∧ ∀ t, readStrict (render (pre ++ .raw l :: post) fnl) ≠ .ok t := by
  obtain ⟨d, _, hwf, hterm, hstr, _⟩ := C03_wf_prefix_append pre [] (by simpa using hpre)
  rw [render_append pre _ fnl (by simp), render_cons, ← hstr]
  exact C03_reject d hwf hterm l _ hb (lineEnd_render_tail post fnl)

/-- **single-line corruption, replacement**: replacing line `i` of a well-formed line list by a
    `BadLine` makes the strict reader fail (and the tolerant reader report an error) -/
theorem C03_reject_replace (ls : List Line) (h : LinesWF ls) (i : Nat) (hi : i < ls.length) (l : Str)
    (hb : BadLine l) (fnl : Bool) :
    (readRelaxed (render (ls.set i (.raw l)) fnl)).2 ≠ []
    ∧ ∀ t, readStrict (render (ls.set i (.raw l)) fnl) ≠ .ok t := by
  rw [List.set_eq_take_append_cons_drop, if_pos hi]
  exact C03_reject_lines (ls.take i) (ls.drop (i + 1)) (h.take i) l hb fnl

/-- **single-line corruption, insertion**: inserting a `BadLine` before line `i` of a well-formed line
    list (after the last line if `i ≥ ls.length`) makes the strict reader fail -/
theorem C03_reject_insert (ls : List Line) (h : LinesWF ls) (i : Nat) (l : Str) (hb : BadLine l)
    (fnl : Bool) :
    (readRelaxed (render (ls.take i ++ .raw l :: ls.drop i) fnl)).2 ≠ []
    ∧ ∀ t, readStrict (render (ls.take i ++ .raw l :: ls.drop i) fnl) ≠ .ok t :=
  C03_reject_lines (ls.take i) (ls.drop i) (h.take i) l hb fnl

/-! ### 4. lines that begin with a space or tab where nothing can be continued -/

/-- **general form**: after a well-formed, fully LF-terminated document whose last line is not a field
    or continuation line (`ClosedEnd`), any text that begins with a space or tab — a white-space-only
    line, an orphan continuation line, an indented `#…` line, whatever follows — is reported by the
    tolerant reader with "expected key" and makes the strict reader fail with exactly the tolerant
    reader's errors -/
theorem C03_reject_indent_start (d : DocS) (h : d.WF) (ha : DocTermAll d) (hc : ClosedEnd d)
    (c : Char) (rest : Str) (hi : isIndent c = true) :
    ((readRelaxed (d.str ++ c :: rest)).2 ≠ [] ∧ ∀ t, readStrict (d.str ++ c :: rest) ≠ .ok t)
    ∧ "expected key" ∈ (readRelaxed (d.str ++ c :: rest)).2
    ∧ readStrict (d.str ++ c :: rest) = .error (readRelaxed (d.str ++ c :: rest)).2 := by
  have := parse_indent_text d h ha hc c rest hi
  refine ⟨readers_of_parse_error _ (List.ne_nil_of_mem this), this, ?_⟩
  have hne : (parse (d.str ++ c :: rest)).errors.isEmpty = false := by
    cases hq : (parse (d.str ++ c :: rest)).errors with
    | nil => rw [hq] at this; simp at this
    | cons x xs => rfl
  simp [readStrict, readRelaxed, hne]

/-- **white-space-only line**: after such a document a line of spaces / tabs only — followed by a
    line end or by anything else — gives "expected key" -/
theorem C03_reject_wsline (d : DocS) (h : d.WF) (ha : DocTermAll d) (hc : ClosedEnd d) (l tail : Str)
    (hw : WsOnlyLine l) :
    ((readRelaxed (d.str ++ (l ++ tail))).2 ≠ [] ∧ ∀ t, readStrict (d.str ++ (l ++ tail)) ≠ .ok t)
    ∧ "expected key" ∈ (readRelaxed (d.str ++ (l ++ tail))).2
    ∧ readStrict (d.str ++ (l ++ tail)) = .error (readRelaxed (d.str ++ (l ++ tail))).2 := by
  obtain ⟨hne, hall⟩ := hw
  cases l with
  | nil => exact absurd rfl hne
  | cons c cs => exact C03_reject_indent_start d h ha hc c (cs ++ tail) (hall c (by simp))

/-- **on line lists**: well-formed lines the last of which (if any) is a blank or comment line, then a
    line that begins with a space or tab (white-space-only, orphan continuation, indented `#…`), then
    any lines: "expected key", the strict reader fails -/
theorem C03_reject_indented_lines (pre post : List Line) (hpre : LinesWF pre)
    (hlast : ∀ x, pre.getLast? = some x → x.isValue = false) (c : Char) (cs : Str)
    (hi : isIndent c = true) (fnl : Bool) :
    "expected key" ∈ (readRelaxed (render (pre ++ .raw (c :: cs) :: post) fnl)).2
    ∧ ∀ t, readStrict (render (pre ++ .raw (c :: cs) :: post) fnl) ≠ .ok t := by
  obtain ⟨d, hd, hwf, hterm, hstr, _⟩ := C03_wf_prefix_append pre [] (by simpa using hpre)
  have hc := docOfLines_closedEnd pre hlast d hd
  rw [render_append pre _ fnl (by simp), render_cons, ← hstr]
  have := C03_reject_indent_start d hwf hterm hc c (cs ++ (nlText (!post.isEmpty || fnl) ++ render post fnl)) hi
  simp only [Line.text, List.cons_append] at this ⊢
  exact ⟨this.2.1, this.1.2⟩

/-- white-space-only line, on line lists -/
theorem C03_reject_wsline_lines (pre post : List Line) (hpre : LinesWF pre)
    (hlast : ∀ x, pre.getLast? = some x → x.isValue = false) (l : Str) (hw : WsOnlyLine l) (fnl : Bool) :
    "expected key" ∈ (readRelaxed (render (pre ++ .raw l :: post) fnl)).2
    ∧ ∀ t, readStrict (render (pre ++ .raw l :: post) fnl) ≠ .ok t := by
  obtain ⟨hne, hall⟩ := hw
  cases l with
  | nil => exact absurd rfl hne
  | cons c cs => exact C03_reject_indented_lines pre post hpre hlast c cs (hall c (by simp)) fnl

/-! ### witnesses (closed terms, kernel-checked) -/

theorem readStrict_of_no_errors (s : Str) (h : (parse s).errors = []) :
    readStrict s = .ok (parse s).tree := by
  simp [readStrict, h]

/-- a white-space-only line as the first line, and after a blank line: "expected key" -/
theorem C03_wsline_rejected :
    "expected key" ∈ (parse " \nA: b\n".toList).errors
    ∧ "expected key" ∈ (parse "A: b\n\n \nC: d\n".toList).errors := by
  constructor <;> decide +kernel

/-- **directly after a field line a white-space-only line is accepted and does NOT separate
    paragraphs**: `"A: b\n \nC: d\n"` is read as one paragraph `[(A, b), (C, d)]` (with a blank line
    instead it is two paragraphs) -/
theorem C03_wsline_continues :
    (∃ t, readStrict "A: b\n \nC: d\n".toList = .ok t
      ∧ docItems t = [[("A".toList, "b".toList), ("C".toList, "d".toList)]])
    ∧ (∃ t, readStrict "A: b\n\nC: d\n".toList = .ok t
      ∧ docItems t = [[("A".toList, "b".toList)], [("C".toList, "d".toList)]]) := by
  have e1 : (parse "A: b\n \nC: d\n".toList).errors = [] := by decide +kernel
  have e2 : (parse "A: b\n\nC: d\n".toList).errors = [] := by decide +kernel
  refine ⟨⟨(parse "A: b\n \nC: d\n".toList).tree, readStrict_of_no_errors _ e1, by decide +kernel⟩,
    ⟨(parse "A: b\n\nC: d\n".toList).tree, readStrict_of_no_errors _ e2, by decide +kernel⟩⟩

/-- **blank before the colon**: `"A : b\n"` — not a field of the stated grammar (`SpacedColonLine`, not
    `FieldLine`) — is accepted by the strict reader with items `[(A, b)]` -/
theorem C03_spaced_colon_accepted :
    (∃ t, readStrict "A : b\n".toList = .ok t ∧ docItems t = [[("A".toList, "b".toList)]])
    ∧ SpacedColonLine "A : b".toList ∧ ¬ FieldLine "A : b".toList := by
  have e1 : (parse "A : b\n".toList).errors = [] := by decide +kernel
  have hs : SpacedColonLine "A : b".toList :=
    ⟨"A".toList, " ".toList, " b".toList, rfl, by decide, by decide, by decide⟩
  refine ⟨⟨(parse "A : b\n".toList).tree, readStrict_of_no_errors _ e1, by decide +kernel⟩, hs, ?_⟩
  intro hf
  exact absurd (lineClass_unique _ .spacedColon .field hs hf) (by decide)

/-- **CRLF**: `\r` and `\n` are two line ends, so every CRLF-terminated field line is followed by an
    empty line: `"A: b\r\nC: d\r\n"` is accepted as TWO paragraphs -/
theorem C03_crlf_two_paragraphs :
    ∃ t, readStrict "A: b\r\nC: d\r\n".toList = .ok t
      ∧ docItems t = [[("A".toList, "b".toList)], [("C".toList, "d".toList)]] := by
  have e1 : (parse "A: b\r\nC: d\r\n".toList).errors = [] := by decide +kernel
  exact ⟨(parse "A: b\r\nC: d\r\n".toList).tree, readStrict_of_no_errors _ e1, by decide +kernel⟩

/-! ### non-vacuity -/

/-- two paragraphs, a leading comment, a comment inside a paragraph, a continuation line (beginning
    with ':'), an empty value, comment and blank lines between the paragraphs -/
def exLines : List Line :=
  [.comment " lead".toList, .blank,
   .field "Source".toList [' '] "foo".toList, .cont [' '] ":x é".toList, .comment " c".toList,
   .field "A".toList [] [],
   .blank, .comment " between".toList,
   .field "Package".toList ['\t'] "bar".toList]

example : LinesWF exLines := by decide

example : render exLines false
    = "# lead\n\nSource: foo\n :x é\n# c\nA:\n\n# between\nPackage:\tbar".toList := by decide

example : content exLines =
    [[("Source".toList, "foo\n:x é".toList), ("A".toList, [])], [("Package".toList, "bar".toList)]] := by
  decide

/-- `docOfLines` on the example (both with and without final newline) -/
example : (docOfLines exLines false).map DocS.str = some (render exLines false)
    ∧ (docOfLines exLines true).map DocS.str = some (render exLines true) := by
  constructor <;> decide

/-- `C03_accept_lines` fires on the example -/
example : ∃ t, readStrict "# lead\n\nSource: foo\n :x é\n# c\nA:\n\n# between\nPackage:\tbar".toList = .ok t
    ∧ docItems t =
      [[("Source".toList, "foo\n:x é".toList), ("A".toList, [])], [("Package".toList, "bar".toList)]] := by
  obtain ⟨t, h1, h2, _⟩ := C03_accept_lines exLines false (by decide)
  have e : render exLines false
      = "# lead\n\nSource: foo\n :x é\n# c\nA:\n\n# between\nPackage:\tbar".toList := by decide
  rw [e] at h1
  exact ⟨t, h1, by rw [h2]; decide⟩

/-- `C03_paragraph_from_str_lines` on the example: the first paragraph -/
example : ∃ p, paragraphFromStr (render exLines true) = .ok p
    ∧ items p = [("Source".toList, "foo\n:x é".toList), ("A".toList, [])] :=
  (C03_paragraph_from_str_lines exLines true (by decide)).2 _ [[("Package".toList, "bar".toList)]] (by decide)

/-- a continuation line that does not follow a field or continuation line is not well-formed -/
example : ¬ LinesWF [.field "A".toList [] [], .comment [], .cont [' '] "x".toList] := by decide
example : ¬ LinesWF [.blank, .cont [' '] "x".toList] := by decide

theorem badLine_example : BadLine "Maintainer  Jane".toList :=
  ⟨by decide, Or.inr (Or.inr ⟨"Maintainer".toList, "  ".toList, "Jane".toList, rfl, by decide, by decide,
    by intro x hx; simp at hx; subst hx; decide,
    by intro x hx; simp at hx; subst hx; decide,
    by intro c hc; simp at hc; subst hc; decide⟩)⟩

/-- `C03_wf_prefix`: the first four lines of the example (the prefix ends inside a paragraph) -/
example : ∃ d, docOfLines (exLines.take 4) true = some d ∧ d.WF ∧ DocTermAll d
    ∧ d.str = "# lead\n\nSource: foo\n :x é\n".toList := by
  obtain ⟨d, h1, h2, h3, h4, _⟩ := C03_wf_prefix exLines (by decide) 4
  exact ⟨d, h1, h2, h3, by rw [h4]; decide⟩

/-- `C03_reject_replace`: line 4 (`# c`) of the example replaced by `Maintainer  Jane` -/
example : ∀ t, readStrict
    "# lead\n\nSource: foo\n :x é\nMaintainer  Jane\nA:\n\n# between\nPackage:\tbar\n".toList ≠ .ok t := by
  have := (C03_reject_replace exLines (by decide) 4 (by decide) _ badLine_example true).2
  have e : render (exLines.set 4 (.raw "Maintainer  Jane".toList)) true
      = "# lead\n\nSource: foo\n :x é\nMaintainer  Jane\nA:\n\n# between\nPackage:\tbar\n".toList := by decide
  rwa [e] at this

/-- `C03_reject_insert`: the same line inserted before line 3 (between a field and its continuation) -/
example : ∀ t, readStrict
    "# lead\n\nSource: foo\nMaintainer  Jane\n :x é\n# c\nA:\n\n# between\nPackage:\tbar".toList ≠ .ok t := by
  have := (C03_reject_insert exLines (by decide) 3 _ badLine_example false).2
  have e : render (exLines.take 3 ++ .raw "Maintainer  Jane".toList :: exLines.drop 3) false
      = "# lead\n\nSource: foo\nMaintainer  Jane\n :x é\n# c\nA:\n\n# between\nPackage:\tbar".toList := by decide
  rwa [e] at this

/-- `C03_line_classify` / `C03_badline_iff`: one line of each kind -/
example : lineClass [] = .empty ∧ lineClass "# c".toList = .comment ∧ lineClass " \t".toList = .wsOnly
    ∧ lineClass " x".toList = .indented ∧ lineClass "A: b".toList = .field
    ∧ lineClass "A : b".toList = .spacedColon ∧ lineClass "A b".toList = .bad
    ∧ lineClass ":x".toList = .bad ∧ lineClass "-x: y".toList = .bad := by decide
example : NoNl "A : b".toList := by decide

/-- `C03_illegal_line`: the white-space-only line is the text of no valid line of the grammar -/
example : ¬ ∃ ln : Line, ln.Valid ∧ " \t".toList = ln.text :=
  (C03_illegal_line _ (by decide)).2 (Or.inl ⟨by decide, by decide⟩)

/-- `C03_reject_wsline`: after the two-paragraph document ending with a blank line (C03Orphan `exTwo`) -/
example : ∀ t, readStrict "A: b\n\nC: d\n e\n\n \t\nX: y\n".toList ≠ .ok t := by
  have := (C03_reject_wsline exTwo (by decide) (by decide) (by decide) " \t".toList "\nX: y\n".toList
    ⟨by decide, by decide⟩).1.2
  have e : exTwo.str ++ (" \t".toList ++ "\nX: y\n".toList) = "A: b\n\nC: d\n e\n\n \t\nX: y\n".toList := by
    decide
  rwa [e] at this

/-- `C03_reject_indent_start`: an indented `#…` line after blank / comment lines only (C03Orphan
    `exLeadOnly`) — it is lexed as INDENT COMMENT and is not skipped as a comment line -/
example : "expected key" ∈ (readRelaxed "\n# c\n  #x\nA: b\n".toList).2 := by
  have := (C03_reject_indent_start exLeadOnly (by decide) (by decide) (by decide) ' ' " #x\nA: b\n".toList
    (by decide)).2.1
  have e : exLeadOnly.str ++ ' ' :: " #x\nA: b\n".toList = "\n# c\n  #x\nA: b\n".toList := by decide
  rwa [e] at this

/-- `C03_reject_wsline_lines`: a white-space-only line after line 2 (a blank line) of the example, and
    after line 5 (a comment line inside a paragraph) -/
example : (∀ x, (exLines.take 2).getLast? = some x → x.isValue = false)
    ∧ (∀ x, (exLines.take 5).getLast? = some x → x.isValue = false) := by
  constructor <;> (intro x hx; simp [exLines] at hx; subst hx; rfl)

example : ∀ t, readStrict "# lead\n\n  \nSource: foo\n".toList ≠ .ok t := by
  have := (C03_reject_wsline_lines (exLines.take 2) [.field "Source".toList [' '] "foo".toList]
    (by decide) (by intro x hx; simp [exLines] at hx; subst hx; rfl) "  ".toList ⟨by decide, by decide⟩ true).2
  have e : render (exLines.take 2 ++ .raw "  ".toList :: [.field "Source".toList [' '] "foo".toList]) true
      = "# lead\n\n  \nSource: foo\n".toList := by decide
  rwa [e] at this

end Deb822Verif.Props.C03
