import Deb822Verif.Props.C11
/-!
# C11 — operands that are LIVE handles

`Relations::{insert, push, replace}` take an `Entry`, `Entry::{push, replace}` a `Relation`. The
operand may be a handle that is still part of a field (`get_entry(k)` / `get_relation(j)` of the
field being edited, or of another one). All five operations work on a COPY of the operand's tree
(`green().into_owned()`; `replace` since fix 087335d, F-C11-9), so in the model the operand is the
node value the handle shows at the time of the call, and the field it was taken from is not touched.

The statements below instantiate the refinement theorems of Props/C11 at such operands: the list
model gets a copy of entry `k` (alternative `j`), for every field, every index, in and out of range.
-/
namespace Deb822Verif.Props.C11
open Deb822Verif Rel Node RelSpec Lossy Build Edit

/-- the node `get_entry(k)` shows is an ENTRY node and the list model has its relations at `k` -/
theorem C11_live_entry (f : Field) (k p : Nat) (hp : nthNode .ENTRY f.kids k = some p) :
    ∃ e, f.kids[p]? = some e ∧ isNodeOf .ENTRY e = true ∧ S.entry? (abs f.root) k = some (relsOf e) := by
  obtain ⟨pre, e, post, hk, hl, he, _, hne, habs⟩ := abs_split hp
  subst hl
  refine ⟨e, by rw [hk]; simp, he, ?_⟩
  show S.entry? (absKids f.kids) k = _
  rw [habs, ← hne, S.entry?_at]

/-- `f.insert(i, f.get_entry(k))`: the list model gets a copy of its `k`-th entry before the `i`-th
    (or at the end) -/
theorem C11_insert_live (f : Field) (i k p : Nat) (hp : nthNode .ENTRY f.kids k = some p) :
    ∃ e es, f.kids[p]? = some e ∧ S.entry? (abs f.root) k = some es
      ∧ abs (f.insert i e).root = S.insert (abs f.root) i es := by
  obtain ⟨e, hk, he, hm⟩ := C11_live_entry f k p hp
  exact ⟨e, _, hk, hm, C11_refine_insert f i e he⟩

/-- `f.push(f.get_entry(k))` -/
theorem C11_push_live (f : Field) (k p : Nat) (hp : nthNode .ENTRY f.kids k = some p) :
    ∃ e es, f.kids[p]? = some e ∧ S.entry? (abs f.root) k = some es
      ∧ abs (f.push e).root = S.push (abs f.root) es := by
  obtain ⟨e, hk, he, hm⟩ := C11_live_entry f k p hp
  exact ⟨e, _, hk, hm, C11_refine_push f e he⟩

/-- `f.replace(i, f.get_entry(k))`: entry `i` becomes a copy of entry `k` (every other entry,
    `k` included, stays); out of range it panics -/
theorem C11_replace_live (f : Field) (i k p : Nat) (hp : nthNode .ENTRY f.kids k = some p) :
    ∃ e es, f.kids[p]? = some e ∧ S.entry? (abs f.root) k = some es
      ∧ (∀ f', f.replace i e = .ok f' → abs f'.root = S.replace (abs f.root) i es)
      ∧ (i < S.nEntries (abs f.root) → (f.replace i e).isOk = true) := by
  obtain ⟨e, hk, he, hm⟩ := C11_live_entry f k p hp
  have := C11_refine_replace f i e he
  exact ⟨e, _, hk, hm, this.1, this.2.2⟩

/-- an operand taken from ANOTHER field `g`: the same, and `g` is not an argument of the edit at all
    (the model of the edit is a function of `f` and the operand's node value) -/
theorem C11_insert_from_other (f g : Field) (i k p : Nat) (hp : nthNode .ENTRY g.kids k = some p) :
    ∃ e es, g.kids[p]? = some e ∧ S.entry? (abs g.root) k = some es
      ∧ abs (f.insert i e).root = S.insert (abs f.root) i es := by
  obtain ⟨e, hk, he, hm⟩ := C11_live_entry g k p hp
  exact ⟨e, _, hk, hm, C11_refine_insert f i e he⟩

/-- the node `get_entry(k).get_relation(j)` shows is a RELATION node -/
theorem C11_live_relation (f : Field) (k j pk q : Nat) (hq : nthNode .RELATION (f.entryKids pk) j = some q) :
    ∃ r, (f.entryKids pk)[q]? = some r ∧ isNodeOf .RELATION r = true := by
  obtain ⟨pre, r, post, hk, hl, hr, _⟩ := nthPos_some hq
  subst hl
  exact ⟨r, by rw [hk]; simp, hr⟩

/-- `e_i.push(e_k.get_relation(j))` with a LIVE relation of the same (or another) entry of the field:
    entry `i` gets a copy of that relation as its last alternative -/
theorem C11_entryPush_live (f : Field) (i p k j pk q : Nat) (hp : nthNode .ENTRY f.kids i = some p)
    (hq : nthNode .RELATION (f.entryKids pk) j = some q) :
    ∃ r, (f.entryKids pk)[q]? = some r
      ∧ abs (f.entryPushAt p r).root = S.entryPush (abs f.root) i (recOf r) := by
  have _ := k
  obtain ⟨r, hk, hr⟩ := C11_live_relation f k j pk q hq
  exact ⟨r, hk, C11_refine_entryPush f i p hp r hr⟩

/-- `e_i.replace(j', e_k.get_relation(j))` with a live relation as operand: alternative `j'` of entry
    `i` becomes a copy of it (fix 087335d: the operand is copied, the entry it came from keeps it) -/
theorem C11_entryReplace_live (f f' : Field) (i j' p k j pk q : Nat) (hp : nthNode .ENTRY f.kids i = some p)
    (hq : nthNode .RELATION (f.entryKids pk) j = some q) :
    ∃ r, (f.entryKids pk)[q]? = some r
      ∧ (f.entryReplaceAt p j' r = .ok f' → abs f'.root = S.entryReplace (abs f.root) i j' (recOf r)) := by
  have _ := k
  obtain ⟨r, hk, hr⟩ := C11_live_relation f k j pk q hq
  exact ⟨r, hk, fun h => C11_refine_entryReplace f f' i j' p hp r hr h⟩

/-- witness (F-C11-9, fixed): `a, b, c`.replace(0, get_entry(2)) prints `c, b, c` -/
def liveF : Field := ⟨(readRelaxed "a, b, c".toList false).1.children, [], []⟩

theorem C11_fixed_replace_live :
    (match nthNode .ENTRY liveF.kids 2 with
     | some p => (match liveF.kids[p]? with
        | some e => (match liveF.replace 0 e with
           | .ok f' => f'.root.text == "c, b, c".toList
           | .panic _ => false)
        | none => false)
     | none => false) = true := by decide +kernel

end Deb822Verif.Props.C11
