import Deb822Verif.Model.Changes
import Deb822Verif.Props.C01
import Deb822Verif.Props.C01More
import Deb822Verif.Props.C03
import Deb822Verif.Props.C05
/-!
# C15 (changes view) — what the readers of `changes::Changes` return, and `get_pool_path`

`Changes::read` / `read_relaxed` / `from_file` / `from_file_relaxed` (debian-control/src/lossless/
changes.rs:194-251) decide WHICH paragraph every getter and setter of the changes view works on
(`acc.*` requests on `changes.Changes` all start with `Changes::read`). Model: `Model/Changes.lean`;
tie to the code: op `chg.read` / `chg.pool` (harness/src/changes.rs).
-/
namespace Deb822Verif.Props.C15Changes
open Deb822Verif Deb Node Text Codec
open Deb822Verif.Changes hiding read readRelaxed
open Deb822Verif.Props.C01 (utf8Encode utf8Decode? utf8Decode_encode utf8Decode_none_iff)
open Deb822Verif.Props.C04 (AllNodes parse_allNodes)

/-! ### helper lemmas -/

theorem paragraphs_root (kids : List DNode) : paragraphs (.node .ROOT kids) = kids.filter isParaNode := rfl

theorem paragraphs_eq (t : DNode) : paragraphs t = t.children.filter isParaNode := rfl

/-- the parser's tree is a ROOT node -/
theorem parse_tree_root (s : Str) : (parse s).tree = .node .ROOT (parse s).tree.children := rfl

/-- blank / comment line node -/
def isGapNode (n : DNode) : Bool := n.isNode && n.kind == .EMPTY_LINE

theorem skipWsNl_gaps (ts : List Tok) : ∀ n ∈ (skipWsNl ts).1, isGapNode n = true := by
  fun_induction skipWsNl ts
  case case1 => simp
  case case2 t ts' hb b r ih =>
    intro c hc
    simp only [List.mem_cons] at hc
    rcases hc with rfl | hc
    · rfl
    · exact ih c hc
  case case3 => simp

/-- the ROOT's children are PARAGRAPH nodes and blank / comment line nodes, nothing else -/
theorem rootLoop_kinds (ts : List Tok) :
    ∀ n ∈ (rootLoop ts).nodes, isParaNode n = true ∨ isGapNode n = true := by
  fun_induction rootLoop ts
  case case1 => simp
  case case2 t0 ts0 s h => intro n hn; exact .inr (skipWsNl_gaps _ n hn)
  case case3 t0 ts0 s t r h p q ih =>
    intro c hc
    simp only [List.mem_append, List.mem_singleton] at hc
    rcases hc with (hc | rfl) | hc
    · exact .inr (skipWsNl_gaps _ c hc)
    · exact .inl rfl
    · exact ih c hc

theorem parse_kinds (s : Str) :
    ∀ n ∈ (parse s).tree.children, isParaNode n = true ∨ isGapNode n = true := rootLoop_kinds _

theorem gap_not_para (n : DNode) (h : isGapNode n = true) : isParaNode n = false := by
  cases n with
  | tok k t => simp [isGapNode, Node.isNode] at h
  | node k cs =>
    simp only [isGapNode, Node.isNode, Node.kind, Bool.true_and, beq_iff_eq] at h
    subst h; rfl

/-- `convert_index(0)` is the slot of the first PARAGRAPH child -/
theorem convertIndexAux_first (pre : List DNode) (p : DNode) (post : List DNode)
    (hpre : ∀ n ∈ pre, isParaNode n = false) (hp : isParaNode p = true) (off : Nat) :
    convertIndexAux (pre ++ p :: post) 0 off = some (off + pre.length) := by
  induction pre generalizing off with
  | nil => simp [convertIndexAux, hp]
  | cons c cs ih =>
    have hc : isParaNode c = false := hpre c (by simp)
    simp only [List.cons_append, convertIndexAux, hc, Bool.false_eq_true, ↓reduceIte, List.length_cons]
    rw [ih (fun n hn => hpre n (by simp [hn]))]
    congr 1; omega

theorem convertIndex_first (pre : List DNode) (p : DNode) (post : List DNode)
    (hpre : ∀ n ∈ pre, isParaNode n = false) (hp : isParaNode p = true) :
    convertIndex (pre ++ p :: post) 0 = some pre.length := by
  unfold convertIndex; rw [convertIndexAux_first pre p post hpre hp]; simp

/-- a child list whose paragraphs are `p :: rest` splits at `p` -/
theorem split_first_para (kids : List DNode) (p : DNode) (rest : List DNode)
    (h : kids.filter isParaNode = p :: rest) :
    ∃ pre post, kids = pre ++ p :: post ∧ (∀ n ∈ pre, isParaNode n = false) ∧ isParaNode p = true
      ∧ post.filter isParaNode = rest := by
  obtain ⟨l₁, l₂, h1, h2, h3, h4⟩ := List.filter_eq_cons_iff.1 h
  exact ⟨l₁, l₂, h1, fun n hn => by simpa using h2 n hn, h3, h4⟩

/-! ## the strict reader -/

/-- **`Changes::read` returns a value iff the deb822 strict reader accepts the text and the document
    has exactly one paragraph; the value is that paragraph** -/
theorem C15_changes_read_iff (s : Str) (p : DNode) :
    Changes.read s = .ok p ↔ ∃ t, readStrict s = .ok t ∧ paragraphs t = [p] := by
  unfold Changes.read
  cases hr : readStrict s with
  | error e => simp
  | ok t =>
    simp only [Except.ok.injEq, exists_eq_left']
    cases hp : paragraphs t with
    | nil => simp
    | cons q rest =>
      cases rest with
      | nil => simp
      | cons q2 r2 => simp

/-- the three ways it fails, exactly: the deb822 errors; no paragraph (empty text, blank and comment
    lines only); two or more paragraphs. It never reports an I/O error on text. -/
theorem C15_changes_read_errors (s : Str) :
    (∀ e, Changes.read s = .error (.deb822 e) ↔ readStrict s = .error e)
    ∧ (Changes.read s = .error .noParagraphs ↔ ∃ t, readStrict s = .ok t ∧ paragraphs t = [])
    ∧ (Changes.read s = .error .multipleParagraphs ↔ ∃ t, readStrict s = .ok t ∧ 2 ≤ (paragraphs t).length)
    ∧ Changes.read s ≠ .error .io := by
  unfold Changes.read
  cases hr : readStrict s with
  | error e => simp
  | ok t =>
    cases hp : paragraphs t with
    | nil => simp [hp]
    | cons q rest =>
      cases rest with
      | nil => simp [hp]
      | cons q2 r2 => simp [hp]

/-- **the value IS the paragraph of the text**: the accepted text is `pre ++ paragraph ++ post`
    where the wrapped node prints as the middle piece and `pre` / `post` are the blank and comment
    lines around it (nodes of the same tree the deb822 reader returns — C01: that tree prints as
    the input) -/
theorem C15_changes_read_value (s : Str) (p : DNode) (h : Changes.read s = .ok p) :
    ∃ pre post : List DNode,
      readStrict s = .ok (.node .ROOT (pre ++ p :: post))
      ∧ isParaNode p = true
      ∧ (∀ n ∈ pre ++ post, isGapNode n = true)
      ∧ s = textList pre ++ p.text ++ textList post := by
  obtain ⟨t, ht, hp⟩ := (C15_changes_read_iff s p).1 h
  have htree : t = (parse s).tree := by
    have := C01.C01_strict_same_tree s t ht
    simpa [readRelaxed] using this
  have hkinds := parse_kinds s
  rw [paragraphs_eq, htree] at hp
  obtain ⟨pre, post, hk, hpre, hpp, hpost⟩ := split_first_para _ p [] hp
  refine ⟨pre, post, ?_, hpp, ?_, ?_⟩
  · rw [ht, htree, parse_tree_root s, hk]
  · intro n hn
    have hmem : n ∈ (parse s).tree.children := by
      rw [hk]; simp only [List.mem_append, List.mem_cons] at hn ⊢
      rcases hn with hn | hn
      · exact .inl hn
      · exact .inr (.inr hn)
    rcases hkinds n hmem with h1 | h1
    · exfalso
      simp only [List.mem_append] at hn
      rcases hn with hn | hn
      · have := hpre n hn; rw [h1] at this; cases this
      · have : n ∈ post.filter isParaNode := List.mem_filter.2 ⟨hn, h1⟩
        rw [hpost] at this; cases this
    · exact h1
  · have ht2 := C01.C01_strict_roundtrip s t ht
    rw [htree, parse_tree_root s, hk] at ht2
    simpa using ht2.symm

/-! ## the tolerant reader -/

/-- **never fails on valid UTF-8** (and on bytes: fails exactly when they are not UTF-8; the strict
    reader then reports the I/O error) -/
theorem C15_changes_relaxed_total (s : Str) :
    readBytesRelaxed (utf8Encode s) = some (Changes.readRelaxed s) ∧ readBytes (utf8Encode s) = Changes.read s := by
  have h : decodeUtf8 (utf8Encode s) = some s := utf8Decode_encode s
  simp [readBytesRelaxed, readBytes, h]

theorem C15_changes_bytes_io (b : ByteArray) :
    (readBytesRelaxed b = none ↔ ¬ b.IsValidUTF8) ∧ (readBytes b = .error .io ↔ ¬ b.IsValidUTF8) := by
  have hd : decodeUtf8 b = utf8Decode? b := rfl
  have hn := utf8Decode_none_iff b
  refine ⟨?_, ?_⟩
  · rw [← hn, ← hd]; unfold readBytesRelaxed; cases decodeUtf8 b <;> simp
  · rw [← hn, ← hd]; unfold readBytes
    cases hdec : decodeUtf8 b with
    | none => simp
    | some s =>
      simp only [reduceCtorEq, iff_false]
      exact (C15_changes_read_errors s).2.2.2

/-- `from_file` / `from_file_relaxed` are the same functions of the file's bytes -/
theorem C15_changes_from_file (content : ByteArray) :
    fromFile content = readBytes content ∧ fromFileRelaxed content = readBytesRelaxed content :=
  ⟨rfl, rfl⟩

/-- **errors = the deb822 reader's errors, followed by "multiple paragraphs found" iff the document
    has two or more paragraphs** (every text) -/
theorem C15_changes_relaxed_errors (s : Str) :
    (Changes.readRelaxed s).errors =
      (Deb.readRelaxed s).2 ++
        (if 2 ≤ (paragraphs (Deb.readRelaxed s).1).length then [multipleMsg] else []) := by
  unfold Changes.readRelaxed
  cases hp : paragraphs (Deb.readRelaxed s).1 with
  | nil => simp [hp]
  | cons q rest =>
    cases rest with
    | nil => simp [hp]
    | cons q2 r2 => simp [hp]

/-- **a document with a paragraph: the FIRST paragraph is wrapped, the document is untouched** (it
    still prints as the input), and the value's handle points at that node -/
theorem C15_changes_relaxed_first (s : Str) (p : DNode) (rest : List DNode)
    (h : paragraphs (Deb.readRelaxed s).1 = p :: rest) :
    (Changes.readRelaxed s).para = p
    ∧ (Changes.readRelaxed s).doc.root = (Deb.readRelaxed s).1
    ∧ (Changes.readRelaxed s).doc.root.text = s
    ∧ (Changes.readRelaxed s).doc.para 0 = some p := by
  have hroot : (⟨(Deb.readRelaxed s).1.children, [convertIndex (Deb.readRelaxed s).1.children 0]⟩ : Doc).root
      = (Deb.readRelaxed s).1 := by
    simp only [Doc.root, Deb.readRelaxed]; exact (parse_tree_root s).symm
  have hr : Changes.readRelaxed s =
      ⟨⟨(Deb.readRelaxed s).1.children, [convertIndex (Deb.readRelaxed s).1.children 0]⟩, p,
        (Deb.readRelaxed s).2 ++ (if rest.isEmpty then [] else [multipleMsg])⟩ := by
    simp only [Changes.readRelaxed, h]
  rw [hr]
  refine ⟨rfl, hroot, ?_, ?_⟩
  · rw [hroot]; exact C01.C01_relaxed_roundtrip s
  · rw [paragraphs_eq] at h
    obtain ⟨pre, post, hk, hpre, hpp, _⟩ := split_first_para _ p rest h
    simp only [Doc.para, List.getElem?_cons_zero, hk, convertIndex_first pre p post hpre hpp]
    simp

/-- **a paragraph-less text (empty, blank lines, comments): a NEW empty paragraph is appended to the
    document and wrapped.** It prints as "", every field lookup on it is `None`, no error is added
    (the exhausted paragraph iterator does not see the new node). The document gains that node and,
    when it had any line at all, a separating blank line (after a terminator for an unterminated
    last comment line): its text is the input plus at most "\n\n". -/
theorem C15_changes_relaxed_none (s : Str) (h : paragraphs (Deb.readRelaxed s).1 = []) :
    let r := Changes.readRelaxed s
    let kids := (Deb.readRelaxed s).1.children
    r.para = .node .PARAGRAPH []
    ∧ r.para.text = []
    ∧ (∀ k, Deb.get r.para k = none)
    ∧ r.errors = (Deb.readRelaxed s).2
    ∧ r.doc.kids = terminateLastLine kids ++ (if kids.length > 0 then [emptyLine] else []) ++ [r.para]
    ∧ paragraphs r.doc.root = [r.para]
    ∧ r.doc.para 0 = some r.para
    ∧ r.doc.root.text =
        s ++ (if needsNl kids then ['\n'] else []) ++ (if kids.length > 0 then ['\n'] else []) := by
  intro r kids
  have hn : AllNodes kids := parse_allNodes s
  have hr : r = ⟨addParagraph ⟨kids, []⟩, .node .PARAGRAPH [], (Deb.readRelaxed s).2⟩ := by
    simp only [r, Changes.readRelaxed, h]; rfl
  obtain ⟨hk, ht⟩ := C05.C05_frame_add ⟨kids, []⟩ hn
  have hkids : paragraphs (.node .ROOT kids) = [] := by
    have : (Deb.readRelaxed s).1 = .node .ROOT kids := parse_tree_root s
    rw [← this]; exact h
  have hterm : (terminateLastLine kids).filter isParaNode = [] := by
    have h1 := C05.ditems_terminateLastLine kids
    simp only [C05.ditems_eq] at h1
    have h2 : kids.filter isParaNode = [] := hkids
    rw [h2] at h1
    simpa using h1
  have hsep : (if kids.length > 0 then [emptyLine] else ([] : List DNode)).filter isParaNode = [] := by
    split <;> simp [C05.emptyLine_not_para]
  rw [hr]
  refine ⟨rfl, by simp, ?_, rfl, hk, ?_, ?_, ?_⟩
  · intro k; simp [Deb.get, entries, Node.children]
  · simp only [Doc.root, paragraphs_root, hk, List.filter_append, hterm, hsep, List.nil_append]
    simp [C05.newPara_is_para]
  · -- the handle: position (#child nodes) + (length of the separator)
    have hlen : (kids.filter Node.isNode).length = kids.length := C05.filter_isNode_all _ hn
    have hlen2 : (terminateLastLine kids).length = kids.length :=
      C05.terminateLastLine_length_allNodes _ hn
    simp only [Doc.para]
    have hh : (addParagraph ⟨kids, []⟩).handles =
        [some (kids.length + (if kids.length > 0 then [emptyLine] else ([] : List DNode)).length)] := by
      simp [addParagraph, insertEmptyParagraph, shiftIns, hlen, hlen2]
    rw [hh, hk]
    simp only [List.getElem?_cons_zero]
    rw [List.getElem?_append_right (by simp [hlen2])]
    simp [hlen2]
  · have : (⟨kids, []⟩ : Doc).root.text = s := by
      have h1 := C01.C01_relaxed_roundtrip s
      have h2 : (Deb.readRelaxed s).1 = .node .ROOT kids := parse_tree_root s
      rw [h2] at h1; exact h1
    rw [ht, this]

/-- **strict ok ⇒ the tolerant reader wraps the same paragraph of the same document and reports no
    error** -/
theorem C15_changes_strict_relaxed (s : Str) (p : DNode) (h : Changes.read s = .ok p) :
    (Changes.readRelaxed s).para = p ∧ (Changes.readRelaxed s).errors = []
    ∧ readStrict s = .ok (Changes.readRelaxed s).doc.root := by
  obtain ⟨t, ht, hp⟩ := (C15_changes_read_iff s p).1 h
  have htree : t = (Deb.readRelaxed s).1 := C01.C01_strict_same_tree s t ht
  have herr : (Deb.readRelaxed s).2 = [] := by
    have := (C01.C01_strict_iff s).1 ⟨t, ht⟩
    simpa using this
  rw [htree] at hp
  obtain ⟨h1, h2, _, _⟩ := C15_changes_relaxed_first s p [] hp
  refine ⟨h1, ?_, ?_⟩
  · rw [C15_changes_relaxed_errors, herr, hp]; simp
  · rw [h2, ← htree]; exact ht

/-- conversely: no error from the tolerant reader and a non-empty wrapped paragraph ⇒ the strict
    reader returns that paragraph (a parsed paragraph is never empty) -/
theorem C15_changes_relaxed_strict (s : Str) (h : (Changes.readRelaxed s).errors = [])
    (hne : (Changes.readRelaxed s).para ≠ .node .PARAGRAPH []) : Changes.read s = .ok (Changes.readRelaxed s).para := by
  rw [C15_changes_relaxed_errors] at h
  have h1 : (Deb.readRelaxed s).2 = [] := (List.append_eq_nil_iff.1 h).1
  have h2 := (List.append_eq_nil_iff.1 h).2
  have hs : readStrict s = .ok (parse s).tree := by
    have : (parse s).errors = [] := h1
    simp [readStrict, this]
  cases hp : paragraphs (Deb.readRelaxed s).1 with
  | nil =>
    exfalso; apply hne
    simp only [Changes.readRelaxed, hp]
  | cons q rest =>
    cases rest with
    | cons q2 r2 => simp [hp] at h2
    | nil =>
      have hq : (Changes.readRelaxed s).para = q := (C15_changes_relaxed_first s q [] hp).1
      rw [hq]
      exact (C15_changes_read_iff s q).2 ⟨_, hs, hp⟩

/-! ## on well-formed documents (the grammar of C03): which paragraph, in terms of the text -/

/-- for the text of a well-formed document: no paragraph → `NoParagraphs` and the tolerant reader
    wraps a new empty paragraph; exactly one → both readers return ITS node (the fields of that
    paragraph, C03_lookup); two or more → `MultipleParagraphs`, the tolerant reader wraps the FIRST
    one and reports exactly the one message -/
theorem C15_changes_docs (d : Spec.DocS) (hwf : d.WF) :
    (match d.paras with
     | [] => Changes.read d.str = .error .noParagraphs
        ∧ (Changes.readRelaxed d.str).para = .node .PARAGRAPH [] ∧ (Changes.readRelaxed d.str).errors = []
     | [pg] => Changes.read d.str = .ok pg.1.node
        ∧ (Changes.readRelaxed d.str).para = pg.1.node ∧ (Changes.readRelaxed d.str).errors = []
        ∧ items pg.1.node = pg.1.content
     | pg :: _ :: _ => Changes.read d.str = .error .multipleParagraphs
        ∧ (Changes.readRelaxed d.str).para = pg.1.node ∧ (Changes.readRelaxed d.str).errors = [multipleMsg]
        ∧ items pg.1.node = pg.1.content) := by
  have hacc := (C03.C03_accept d hwf).1
  have hrel := C03.C03_accept_relaxed d hwf
  have hps : paragraphs d.tree = d.paras.map (·.1.node) := Deb.paragraphs_tree d
  have herrs := C15_changes_relaxed_errors d.str
  rw [hrel] at herrs
  simp only [hps, List.length_map, List.nil_append] at herrs
  cases hd : d.paras with
  | nil =>
    simp only
    have h0 : paragraphs (Deb.readRelaxed d.str).1 = [] := by rw [hrel, hps, hd]; rfl
    refine ⟨?_, (C15_changes_relaxed_none d.str h0).1, ?_⟩
    · simp [Changes.read, hacc, hps, hd]
    · rw [herrs, hd]; simp
  | cons pg rest =>
    have h1 : paragraphs (Deb.readRelaxed d.str).1 = pg.1.node :: rest.map (·.1.node) := by
      rw [hrel, hps, hd]; rfl
    have hpara := (C15_changes_relaxed_first d.str _ _ h1).1
    cases rest with
    | nil =>
      simp only
      refine ⟨?_, hpara, ?_, Deb.items_para _⟩
      · simp [Changes.read, hacc, hps, hd]
      · rw [herrs, hd]; simp
    | cons pg2 rest2 =>
      simp only
      refine ⟨?_, hpara, ?_, Deb.items_para _⟩
      · simp [Changes.read, hacc, hps, hd]
      · rw [herrs, hd]; simp

/-! ### non-vacuity and closed instances -/

/-- one paragraph between comment lines: accepted, the value is the middle piece of the text -/
example : (match Changes.read "# c\nFormat: 1.8\nSource: a\n\n# d\n".toList with
    | .ok p => p.text == "Format: 1.8\nSource: a\n".toList && source p == some "a".toList
    | .error _ => false) = true := by decide +kernel
example : (match Changes.read "".toList with | .error .noParagraphs => true | _ => false) = true := by
  decide +kernel
example : (match Changes.read "# only a comment\n".toList with
    | .error .noParagraphs => true | _ => false) = true := by decide +kernel
example : (match Changes.read "Source: a\n\nSource: b\n".toList with
    | .error .multipleParagraphs => true | _ => false) = true := by decide +kernel
example : (match Changes.read "Source: a\nbad\n".toList with
    | .error (.deb822 _) => true | _ => false) = true := by decide +kernel
/-- two paragraphs: the first is wrapped, exactly the one message -/
example : (Changes.readRelaxed "Source: a\n\nSource: b\n".toList).errors = [multipleMsg]
    ∧ source (Changes.readRelaxed "Source: a\n\nSource: b\n".toList).para = some "a".toList := by
  decide +kernel
/-- an error in the second paragraph and two paragraphs: the reader's error, then the message -/
example : (Changes.readRelaxed "Source: a\n\nbad\n".toList).errors.length = 2
    ∧ (Changes.readRelaxed "Source: a\n\nbad\n".toList).errors.getLast? = some multipleMsg := by
  decide +kernel
/-- comment only, unterminated: the document behind the value now prints with a terminator and a
    separating blank line (`# c` → `# c\n\n`; by `C15_changes_relaxed_none`), the value is the new
    empty paragraph -/
example : paragraphs (Deb.readRelaxed "# c".toList).1 = []
    ∧ needsNl (Deb.readRelaxed "# c".toList).1.children = true
    ∧ (Deb.readRelaxed "# c".toList).1.children.length = 1 := by decide +kernel
example : (Changes.readRelaxed "# c".toList).doc.root.text = "# c\n\n".toList := by
  have h := (C15_changes_relaxed_none "# c".toList (by decide +kernel)).2.2.2.2.2.2.2
  have h1 : needsNl (Deb.readRelaxed "# c".toList).1.children = true := by decide +kernel
  have h2 : (Deb.readRelaxed "# c".toList).1.children.length = 1 := by decide +kernel
  simp only [h1, h2] at h
  simpa using h
/-- hypotheses of `C15_changes_relaxed_none` / `_first` / `_strict_relaxed` / `_relaxed_strict` -/
example : paragraphs (Deb.readRelaxed "# c\n\n".toList).1 = [] := by decide +kernel
example : (paragraphs (Deb.readRelaxed "A: b\n\nC: d\n".toList).1).length = 2 := by decide +kernel
example : (match Changes.read "A: b\n".toList with | .ok _ => true | _ => false) = true := by
  decide +kernel
example : (Changes.readRelaxed "A: b".toList).errors = []
    ∧ (Changes.readRelaxed "A: b".toList).para.text ≠ [] := by decide +kernel



/-! `split_once('/')` -/
theorem splitOnFirst_slash_eq : ∀ (s : Str) (r : Str × Str), splitOnFirst ['/'] s = some r →
    s = r.1 ++ '/' :: r.2
  | [], r, h => by simp [splitOnFirst] at h
  | c :: cs, r, h => by
    unfold splitOnFirst at h
    by_cases hc : (['/'] : Str).isPrefixOf (c :: cs) = true
    · simp only [hc, ↓reduceIte, Option.some.injEq] at h
      have : c = '/' := by
        have h' : '/' = c := by simpa [List.isPrefixOf] using hc
        exact h'.symm
      subst this; rw [← h]; simp
    · simp only [hc, Bool.false_eq_true, ↓reduceIte] at h
      cases hr : splitOnFirst ['/'] cs with
      | none => simp [hr] at h
      | some r' =>
        simp only [hr, Option.some.injEq] at h
        have ih := splitOnFirst_slash_eq cs r' hr
        rw [← h]; simp only [List.cons_append]; rw [← ih]

theorem splitOnFirst_slash_notin : ∀ (s : Str) (r : Str × Str), splitOnFirst ['/'] s = some r →
    '/' ∉ r.1
  | [], r, h => by simp [splitOnFirst] at h
  | c :: cs, r, h => by
    unfold splitOnFirst at h
    by_cases hc : (['/'] : Str).isPrefixOf (c :: cs) = true
    · simp only [hc, ↓reduceIte, Option.some.injEq] at h
      rw [← h]; simp
    · simp only [hc, Bool.false_eq_true, ↓reduceIte] at h
      cases hr : splitOnFirst ['/'] cs with
      | none => simp [hr] at h
      | some r' =>
        simp only [hr, Option.some.injEq] at h
        have ih := splitOnFirst_slash_notin cs r' hr
        have hne : c ≠ '/' := by
          intro e; subst e; simp [List.isPrefixOf] at hc
        rw [← h]; simp only [List.mem_cons, not_or]
        exact ⟨fun e => hne e.symm, ih⟩

/-! ## `Changes::files` and `Changes::get_pool_path` (changes.rs:157-184), panics included -/

def filesKey : Str := "Files".toList

/-- every line of a Files value is a well-formed entry `md5 size section priority name [...]` -/
def FilesWF (v : Str) : Prop := ∀ l ∈ lines v, (ChangesFile.parse l).isSome = true

instance (v : Str) : Decidable (FilesWF v) := by unfold FilesWF; infer_instance

theorem filesWF_iff (v : Str) :
    ((lines v).all fun l => (ChangesFile.parse l).isSome) = true ↔ FilesWF v := by
  simp [FilesWF, List.all_eq_true]

/-- **`files()`**: `None` iff there is no Files field; panics iff some line of the (first) Files
    field is not a well-formed entry; otherwise the entries line by line -/
theorem C15_files_iff (p : DNode) :
    (files p = .ok none ↔ Deb.get p filesKey = none)
    ∧ ((∃ site, files p = .panic site) ↔ ∃ v, Deb.get p filesKey = some v ∧ ¬ FilesWF v)
    ∧ (∀ fs, files p = .ok (some fs) ↔
        ∃ v, Deb.get p filesKey = some v ∧ FilesWF v ∧ (lines v).map ChangesFile.parse = fs.map some) := by
  unfold files
  rw [show "Files".toList = filesKey from rfl]
  cases hg : Deb.get p filesKey with
  | none => simp
  | some v =>
    simp only [reduceCtorEq, false_iff, Option.some.injEq, exists_eq_left', not_false_eq_true]
    by_cases hw : FilesWF v
    · have hall := (filesWF_iff v).2 hw
      simp only [hall, ↓reduceIte, reduceCtorEq, exists_false, hw, not_true_eq_false,
        Outcome.ok.injEq, Option.some.injEq, true_and, not_false_eq_true, iff_self, false_iff, true_and]
      intro fs
      have key : ∀ ls : List Str, (∀ l ∈ ls, (ChangesFile.parse l).isSome = true) →
          (ls.filterMap ChangesFile.parse = fs ↔ ls.map ChangesFile.parse = fs.map some) := by
        intro ls
        induction ls generalizing fs with
        | nil => intro _; cases fs <;> simp
        | cons l ls ih =>
          intro h
          obtain ⟨f, hf⟩ := Option.isSome_iff_exists.1 (h l (by simp))
          have ih' := fun fs' => ih fs' (fun x hx => h x (by simp [hx]))
          cases fs with
          | nil => simp [List.filterMap_cons, hf]
          | cons g gs =>
            simp only [List.filterMap_cons, hf, List.cons.injEq, List.map_cons, Option.some.injEq]
            rw [ih' gs]
      exact key _ hw
    · have hall : ((lines v).all fun l => (ChangesFile.parse l).isSome) = false := by
        cases h : (lines v).all fun l => (ChangesFile.parse l).isSome
        · rfl
        · exact absurd ((filesWF_iff v).1 h) hw
      simp [hall, hw]

/-- the sub-directory `get_pool_path` uses: "lib" for a name starting with "lib", otherwise the
    lower-cased first character — `none` where `source[..1]` panics -/
def subdir (src : Str) : Option Str :=
  if libPrefix.isPrefixOf src then some libPrefix
  else match src with
    | [] => none
    | c :: _ => if c.toNat < 128 then some [c.toLower] else none

/-- `source[..1]` is out of range / not a character boundary: the name is empty or begins with a
    character outside ASCII (a name starting with "lib" never gets there) -/
theorem C15_pool_subdir_none_iff (src : Str) :
    subdir src = none ↔ src = [] ∨ ∃ c r, src = c :: r ∧ 128 ≤ c.toNat := by
  unfold subdir
  by_cases hl : libPrefix.isPrefixOf src = true
  · simp only [hl, ↓reduceIte, reduceCtorEq, false_iff, not_or, not_exists, not_and]
    cases src with
    | nil => simp [libPrefix] at hl
    | cons c r =>
      have hc : c = 'l' := by
        rw [show libPrefix = 'l' :: ['i', 'b'] from rfl] at hl
        simp only [List.isPrefixOf, Bool.and_eq_true, beq_iff_eq] at hl
        exact hl.1.symm
      refine ⟨by simp, ?_⟩
      intro c' r' h
      simp only [List.cons.injEq] at h
      rw [← h.1, hc]; decide
  · simp only [hl, Bool.false_eq_true, ↓reduceIte]
    cases src with
    | nil => simp
    | cons c r =>
      by_cases hc : c.toNat < 128
      · simp only [hc, ↓reduceIte, reduceCtorEq, false_iff, not_or, not_exists, not_and]
        refine ⟨by simp, ?_⟩
        intro c' r' h
        simp only [List.cons.injEq] at h
        rw [← h.1]; omega
      · simp only [hc, ↓reduceIte, true_iff]
        exact .inr ⟨c, r, rfl, by omega⟩

/-- closed form of `get_pool_path` once the Files field and its first entry are known -/
theorem poolPath_of_first (p : DNode) (v l : Str) (ls : List Str) (f : ChangesFile)
    (hg : Deb.get p filesKey = some v) (hw : FilesWF v) (hl : lines v = l :: ls)
    (hf : ChangesFile.parse l = some f) :
    (source p = none → poolPath p = .ok none)
    ∧ (∀ src d, source p = some src → subdir src = some d →
        poolPath p = .ok (some (poolFmt (poolSection f.section_) d src)))
    ∧ (∀ src, source p = some src → subdir src = none → ∃ site, poolPath p = .panic site) := by
  have hfiles : files p = .ok (some (f :: ls.filterMap ChangesFile.parse)) := by
    unfold files
    rw [show "Files".toList = filesKey from rfl, hg]
    have hall := (filesWF_iff v).2 hw
    rw [hl] at hall
    simp only [hl, hall, ↓reduceIte, List.filterMap_cons, hf]
  unfold poolPath
  simp only [hfiles]
  refine ⟨?_, ?_, ?_⟩
  · intro hs; simp [hs]
  · intro src d hs hd
    simp only [hs]
    unfold subdir at hd
    by_cases hlib : libPrefix.isPrefixOf src = true
    · simp only [hlib, ↓reduceIte, Option.some.injEq] at hd ⊢
      rw [hd]
    · simp only [hlib, Bool.false_eq_true, ↓reduceIte] at hd ⊢
      cases src with
      | nil => simp at hd
      | cons c r =>
        by_cases hc : c.toNat < 128
        · simp only [hc, ↓reduceIte, Option.some.injEq] at hd ⊢
          rw [hd]
        · simp [hc] at hd
  · intro src hs hd
    simp only [hs]
    unfold subdir at hd
    by_cases hlib : libPrefix.isPrefixOf src = true
    · simp [hlib] at hd
    · simp only [hlib, Bool.false_eq_true, ↓reduceIte] at hd ⊢
      cases src with
      | nil => exact ⟨_, rfl⟩
      | cons c r =>
        by_cases hc : c.toNat < 128
        · simp [hc] at hd
        · simp only [hc, ↓reduceIte]; exact ⟨_, rfl⟩


theorem poolPath_no_files (p : DNode) (hg : Deb.get p filesKey = none) : poolPath p = .ok none := by
  have : files p = .ok none := (C15_files_iff p).1.2 hg
  simp [poolPath, this]

theorem poolPath_bad_files (p : DNode) (v : Str) (hg : Deb.get p filesKey = some v) (hw : ¬ FilesWF v) :
    ∃ site, poolPath p = .panic site := by
  obtain ⟨site, hs⟩ := (C15_files_iff p).2.1.2 ⟨v, hg, hw⟩
  exact ⟨site, by simp [poolPath, hs]⟩

theorem poolPath_empty_files (p : DNode) (v : Str) (hg : Deb.get p filesKey = some v) (hw : FilesWF v)
    (hl : lines v = []) : ∃ site, poolPath p = .panic site := by
  have : files p = .ok (some []) := ((C15_files_iff p).2.2 []).2 ⟨v, hg, hw, by simp [hl]⟩
  refine ⟨"changes.rs:167 files.first().unwrap()", ?_⟩
  simp only [poolPath, this]

/-- **`get_pool_path`, exactly** (`C15_files_iff` says when the Files field is well formed):
    * `Some(path)` iff the first Files field is well formed and has a first entry `f`, there is a
      Source field `src` whose sub-directory exists, and then
      `path = "pool/" ++ (section of f up to its first '/', or "main") ++ "/" ++ subdir ++ "/" ++ src`;
    * `None` iff there is no Files field, or the Files field is well formed and non-empty and there
      is no Source field (a missing Source is only noticed AFTER the Files field has been decoded);
    * panic iff there is a Files field and: one of its lines is ill-formed, or it has no line at
      all (`files.first().unwrap()`), or the Source value is empty or starts with a non-ASCII
      character (`source[..1]`). -/
theorem C15_pool_path_iff (p : DNode) :
    (∀ r, poolPath p = .ok (some r) ↔
      ∃ v l ls f src d, Deb.get p filesKey = some v ∧ FilesWF v ∧ lines v = l :: ls
        ∧ ChangesFile.parse l = some f ∧ source p = some src ∧ subdir src = some d
        ∧ r = poolFmt (poolSection f.section_) d src)
    ∧ (poolPath p = .ok none ↔
        Deb.get p filesKey = none
        ∨ ∃ v, Deb.get p filesKey = some v ∧ FilesWF v ∧ lines v ≠ [] ∧ source p = none)
    ∧ ((∃ site, poolPath p = .panic site) ↔
        ∃ v, Deb.get p filesKey = some v ∧
          (¬ FilesWF v ∨ lines v = [] ∨ ∃ src, source p = some src ∧ subdir src = none)) := by
  cases hg : Deb.get p filesKey with
  | none =>
    rw [poolPath_no_files p hg]; simp
  | some v =>
    by_cases hw : FilesWF v
    · cases hl : lines v with
      | nil =>
        obtain ⟨site, hs⟩ := poolPath_empty_files p v hg hw hl
        rw [hs]; simp [hw, hl]
      | cons l ls =>
        obtain ⟨f, hf⟩ := Option.isSome_iff_exists.1 (hw l (by simp [hl]))
        obtain ⟨h1, h2, h3⟩ := poolPath_of_first p v l ls f hg hw hl hf
        cases hsrc : source p with
        | none =>
          rw [h1 hsrc]; simp [hw, hl]
        | some src =>
          cases hd : subdir src with
          | none =>
            obtain ⟨site, hs⟩ := h3 src hsrc hd
            rw [hs]; simp [hw, hl, hd]
          | some d =>
            rw [h2 src d hsrc hd]
            refine ⟨?_, ?_, ?_⟩
            · intro r
              constructor
              · intro hr
                simp only [Outcome.ok.injEq, Option.some.injEq] at hr
                exact ⟨v, l, ls, f, src, d, rfl, hw, hl, hf, rfl, hd, hr.symm⟩
              · rintro ⟨v', l', ls', f', src', d', hv, _, hl', hf', hs', hd', hr⟩
                cases hv; rw [hl] at hl'; cases hl'; rw [hf] at hf'; cases hf'; cases hs'
                rw [hd] at hd'; cases hd'
                rw [hr]
            · simp
            · simp [hw, hl, hd]
    · obtain ⟨site, hs⟩ := poolPath_bad_files p v hg hw
      rw [hs]; simp [hw]

/-- the value formula, read off the first Files line: whitespace-separated words
    `md5 size section priority name`; the pool component is the section up to its first '/',
    "main" for a section without '/' -/
theorem C15_pool_path_value (p : DNode) (v l : Str) (ls : List Str) (f : ChangesFile) (src d : Str)
    (hg : Deb.get p filesKey = some v) (hw : FilesWF v) (hl : lines v = l :: ls)
    (hf : ChangesFile.parse l = some f) (hs : source p = some src) (hd : subdir src = some d) :
    poolPath p = .ok (some ("pool/".toList ++ poolSection f.section_ ++ '/' :: d ++ '/' :: src))
    ∧ (∃ m sz sec pr n rest, splitWhitespace l = m :: sz :: sec :: pr :: n :: rest ∧ f.section_ = sec)
    ∧ (poolSection f.section_ = "main".toList ∨
        ∃ a b, f.section_ = a ++ '/' :: b ∧ '/' ∉ a ∧ poolSection f.section_ = a) := by
  refine ⟨(poolPath_of_first p v l ls f hg hw hl hf).2.1 src d hs hd, ?_, ?_⟩
  · unfold ChangesFile.parse at hf
    split at hf
    · rename_i m sz sec pr n rest hsw
      refine ⟨m, sz, sec, pr, n, rest, hsw, ?_⟩
      split at hf
      · cases hf
      · split at hf
        · cases hf
        · cases hf; rfl
    · cases hf
  · unfold poolSection
    cases hsp : splitOnFirst ['/'] f.section_ with
    | none => exact .inl rfl
    | some r =>
      refine .inr ⟨r.1, r.2, ?_, ?_, rfl⟩
      · exact splitOnFirst_slash_eq _ _ hsp
      · exact splitOnFirst_slash_notin _ _ hsp


/-- **observation — source packages whose name starts with "lib"**: the sub-directory is the
    constant "lib": `pool/<section>/lib/<source>`. (The Debian archive files such packages under
    their first FOUR characters: `pool/main/libf/libfoo`; this is what the code answers, recorded
    here as a fact about it, not as a violation of C15.) -/
theorem C15_pool_path_lib (p : DNode) (v l : Str) (ls : List Str) (f : ChangesFile) (src : Str)
    (hg : Deb.get p filesKey = some v) (hw : FilesWF v) (hl : lines v = l :: ls)
    (hf : ChangesFile.parse l = some f) (hs : source p = some src)
    (hlib : libPrefix.isPrefixOf src = true) :
    poolPath p = .ok (some ("pool/".toList ++ poolSection f.section_ ++ "/lib/".toList ++ src)) := by
  have hd : subdir src = some libPrefix := by simp [subdir, hlib]
  rw [(C15_pool_path_value p v l ls f src libPrefix hg hw hl hf hs hd).1]
  simp [libPrefix]

/-- a `.changes` paragraph for `libfoo` in section `non-free/libs` -/
def exLib : Str :=
  "Format: 1.8\nSource: libfoo\nFiles:\n d41d8cd98f00b204e9800998ecf8427e 0 non-free/libs optional libfoo_1.dsc\n".toList

/-- closed witness of the observation: `pool/non-free/lib/libfoo` (archive layout: `…/libf/libfoo`) -/
theorem C15_pool_path_lib_witness :
    (match Changes.read exLib with
     | .ok p => decide (poolPath p = .ok (some "pool/non-free/lib/libfoo".toList))
     | .error _ => false) = true := by decide +kernel

/-- closed instances of every case of `C15_pool_path_iff` -/
def poolOf (s : String) : Option (Outcome (Option Str)) :=
  match Changes.read s.toList with
  | .ok p => some (poolPath p)
  | .error _ => none

def isPanic : Option (Outcome (Option Str)) → Bool
  | some (.panic _) => true
  | _ => false

def md5 : String := "d41d8cd98f00b204e9800998ecf8427e"

/-- ordinary name, section without '/': "main" and the lower-cased first letter -/
theorem C15_pool_path_witness_value :
    poolOf ("Source: Hello\nFiles:\n " ++ md5 ++ " 0 net optional h.dsc\n")
      = some (.ok (some "pool/main/h/Hello".toList)) := by decide +kernel
/-- no Files field: `None`, whatever the Source; Files well formed but no Source: `None` -/
theorem C15_pool_path_witness_none :
    poolOf "Source: hello\n" = some (.ok none)
    ∧ poolOf ("Files:\n " ++ md5 ++ " 0 net optional h.dsc\n") = some (.ok none) := by decide +kernel
/-- the three panic sites: an ill-formed Files line (size `x`); a Files field without a line — even
    without a Source field, where one might expect `None`; an empty Source value; a Source starting
    with a two-byte character -/
theorem C15_pool_path_witness_panic :
    isPanic (poolOf ("Source: hello\nFiles:\n " ++ md5 ++ " x net optional h.dsc\n")) = true
    ∧ isPanic (poolOf "Source: hello\nFiles:\n") = true
    ∧ isPanic (poolOf "Files:\n") = true
    ∧ isPanic (poolOf ("Source:\nFiles:\n " ++ md5 ++ " 0 net optional h.dsc\n")) = true
    ∧ isPanic (poolOf ("Source: éclair\nFiles:\n " ++ md5 ++ " 0 net optional h.dsc\n")) = true := by
  decide +kernel

/-- the hypotheses of `C15_pool_path_value` / `C15_pool_path_lib` hold for the paragraph of `exLib` -/
example : (match Changes.read exLib with
    | .ok p =>
      (match Deb.get p filesKey with
       | some v => decide (FilesWF v) && (lines v).length == 1
          && ((lines v).head?.bind ChangesFile.parse).isSome
       | none => false)
      && (source p == some "libfoo".toList) && libPrefix.isPrefixOf "libfoo".toList
    | .error _ => false) = true := by decide +kernel
example : subdir "Zed".toList = some "z".toList ∧ subdir "1abc".toList = some "1".toList
    ∧ subdir "lib".toList = some "lib".toList ∧ subdir "li".toList = some "l".toList
    ∧ subdir [] = none ∧ subdir "éclair".toList = none := by decide +kernel

end Deb822Verif.Props.C15Changes
