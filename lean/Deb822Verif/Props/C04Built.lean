import Deb822Verif.Lemmas.DeriveLossless
import Deb822Verif.Props.C05Collect
/-!
# C04 — a paragraph built from (name, value) pairs IS that list of pairs

`FromIterator<(String, String)> for Paragraph` / `From<Vec<(..)>>` append one field per pair: the
built paragraph reads exactly the pairs it was built from, in order, repeated names included (it is
not built by `set`, which would overwrite the first field of the same name). The same for a document
collected from such paragraphs. (After seeded change C04-r9m1; the `d.` start states of `deb.hist`
evaluate the same clause on the real code.)
-/
namespace Deb822Verif.Props.C04Built
open Deb822Verif Deb Node

/-- the built paragraph reads the pairs it was built from — any names, any values, any repetition -/
theorem C04_built_is_pairs (kvs : List (Str × Str)) : items (paraOfPairs kvs) = kvs :=
  Derive.Lossless.items_ofPairs kvs

/-- a document collected from built paragraphs reads the lists it was built from -/
theorem C04_built_doc_is_pairs (ps : List (List (Str × Str))) :
    docItems (.node .ROOT (docOfParas (ps.map paraOfPairs))) = ps := by
  rw [Props.C05Collect.C05_collect_items _ (by
    intro p hp
    simp only [List.mem_map] at hp
    obtain ⟨kvs, _, rfl⟩ := hp
    rfl)]
  rw [List.map_map]
  conv => rhs; rw [← List.map_id ps]
  apply List.map_congr_left
  intro kvs _
  exact Derive.Lossless.items_ofPairs kvs

/-- repeated names are kept (a paragraph built by `set` would have two fields here) -/
example : items (paraOfPairs [(['A'], ['1']), (['B'], ['2']), (['A'], ['3'])])
    = [(['A'], ['1']), (['B'], ['2']), (['A'], ['3'])] := C04_built_is_pairs _

end Deb822Verif.Props.C04Built
