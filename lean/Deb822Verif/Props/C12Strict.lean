import Deb822Verif.Lemmas.RelStrictShape
import Deb822Verif.Props.C12Text
/-!
# C12 — the exact panic condition of the accessor view on strict-accepted text

`C12_spec_lossless` / `C12_lossless_eq_lossy` (Props/C12.lean) carry the hypothesis `viewL root = .ok f`
("no accessor panics"). `C12_accessor_panic_witness` shows that "the strict reader accepts the text" does
not imply it. This file characterises the hypothesis exactly, for ALL texts `s`, by invariants over the
parser (`Lemmas/RelStrictShape.lean`), not by enumeration.

On the tree of a text `Relations::from_str` accepts (`(parse s false).errors = []`):

* `Relation::name()` never panics (`C12_strict_name_total`): `parse_relation` starts with
  `expect(IDENT)`, which either bumps an IDENT token into the RELATION node or pushes an error.
* a VERSION node, when present, is `(` ws* CONSTRAINT ws* IDENT (COLON IDENT)* ws* `)`; the CONSTRAINT
  prints a possibly EMPTY string over `<`, `>`, `=` (the loop at relations.rs:212-217 takes any run); the
  version text is never empty, so `version()` always takes its `(Some(constraint), non-empty)` branch
  (`C12_strict_version_shape`);
* `Relation::version()` panics exactly on a BAD relation (`Rel.bad`, Spec/RelStrictBad.lean): the constraint
  text is not one of `<<`, `<=`, `=`, `>=`, `>>` (`badOp`), or the version text is `digits:rest` with
  digits ≥ 2^32 (`bigEpoch`) (`C12_strict_version_panic_iff`);
* hence `viewL` panics iff some alternative of some entry is BAD (`C12_strict_view_panic_iff`,
  `C12_strict_view_ok_iff`), `satisfied_by` panics only if one is (`C12_strict_sat_panic_only_if`), and
  surely if the first alternative of the first entry is (`C12_strict_sat_panic_first`); the converse of
  "only if" fails because `any` / `all` short-circuit (`C12_strict_sat_unreachable_witness`).

Real code (audit C12, D3): `Relations::from_str` is `Ok` for `a (> 1)`, `a (< 1)`, `a (== 1)`,
`a (>>= 1)`, `a (=> 1)`, `a (<> 1)`, `a (1)`, `a (>= 4294967296:1)`, and `Relation::version()` panics on all
of them (`C12_strict_bad_witnesses`); harness family `generate_c12_strict` (harness/src/sat.rs).
-/
namespace Deb822Verif.Props.C12Strict
open Deb822Verif Rel RelSat DebVersion Props.C12 RelSpec

/-! ## generic facts about `mapO`, `anyO`, `allO` -/

theorem mapO_isOk {α β} (f : α → Outcome β) (l : List α) :
    (mapO f l).isOk = l.all fun a => (f a).isOk := by
  induction l with
  | nil => rfl
  | cons a as ih =>
    simp only [mapO, List.all_cons]
    cases hf : f a with
    | panic s => simp [Outcome.isOk]
    | ok b =>
      cases hm : mapO f as with
      | panic s => rw [hm] at ih; simp only [Outcome.isOk] at ih ⊢; simp [← ih]
      | ok bs => rw [hm] at ih; simp only [Outcome.isOk] at ih ⊢; simp [← ih]

theorem isOk_iff {α} (o : Outcome α) : o.isOk = true ↔ ∃ a, o = .ok a := by
  cases o <;> simp [Outcome.isOk]

theorem anyO_panic {α} {f : α → Outcome Bool} {l : List α} {s : String} (h : anyO f l = .panic s) :
    ∃ a ∈ l, f a = .panic s := by
  induction l with
  | nil => simp [anyO] at h
  | cons a as ih =>
    simp only [anyO] at h
    cases hf : f a with
    | panic s' => rw [hf] at h; simp only [Outcome.panic.injEq] at h; subst h; exact ⟨a, by simp, hf⟩
    | ok b =>
      rw [hf] at h
      cases b with
      | true => simp at h
      | false => obtain ⟨x, hx, hfx⟩ := ih h; exact ⟨x, by simp [hx], hfx⟩

theorem allO_panic {α} {f : α → Outcome Bool} {l : List α} {s : String} (h : allO f l = .panic s) :
    ∃ a ∈ l, f a = .panic s := by
  induction l with
  | nil => simp [allO] at h
  | cons a as ih =>
    simp only [allO] at h
    cases hf : f a with
    | panic s' => rw [hf] at h; simp only [Outcome.panic.injEq] at h; subst h; exact ⟨a, by simp, hf⟩
    | ok b =>
      rw [hf] at h
      cases b with
      | false => simp at h
      | true => obtain ⟨x, hx, hfx⟩ := ih h; exact ⟨x, by simp [hx], hfx⟩

theorem anyO_map {α β} (f : β → Outcome Bool) (g : α → β) (l : List α) :
    anyO f (l.map g) = anyO (fun a => f (g a)) l := by
  induction l with
  | nil => rfl
  | cons a as ih => simp only [List.map_cons, anyO, ih]

theorem allO_map {α β} (f : β → Outcome Bool) (g : α → β) (l : List α) :
    allO f (l.map g) = allO (fun a => f (g a)) l := by
  induction l with
  | nil => rfl
  | cons a as ih => simp only [List.map_cons, allO, ih]

theorem not_any_any {α β} (l : List α) (g : α → List β) (p : β → Bool) :
    (!(l.any fun a => (g a).any p)) = l.all fun a => (g a).all fun b => !p b := by
  induction l with
  | nil => rfl
  | cons a as ih =>
    have h : ∀ m : List β, (!(m.any p)) = m.all fun b => !p b := by
      intro m
      induction m with
      | nil => rfl
      | cons b bs ihb => simp only [List.any_cons, List.all_cons, Bool.not_or, ihb]
    simp only [List.any_cons, List.all_cons, Bool.not_or, ih, h]

/-- `anyBad` said with quantifiers -/
theorem anyBad_iff (root : RNode) :
    anyBad root = true ↔ ∃ e ∈ entries root, ∃ r ∈ relations e, bad r = true := by
  simp only [anyBad, List.any_eq_true]

theorem anyBad_false_iff (root : RNode) :
    anyBad root = false ↔ ∀ e ∈ entries root, ∀ r ∈ relations e, bad r = false := by
  rw [← Bool.not_eq_true, anyBad_iff]
  constructor
  · intro h e he r hr
    cases hb : bad r with
    | false => rfl
    | true => exact absurd ⟨e, he, r, hr, hb⟩ h
  · rintro h ⟨e, he, r, hr, hb⟩
    rw [h e he r hr] at hb; cases hb

/-! ## the accessors on one RELATION of a strict-accepted text -/

/-- **`name()` is total on strict-accepted text**: every RELATION node of a tree parsed without error has
    an IDENT token child, so the `unwrap()` of `Relation::name()` (relations.rs:1291) is unreachable there.
    (On an error tree it is reachable: `a | | b`, audit C12 §4.) -/
theorem C12_strict_name_total (s : Str) (he : (parse s false).errors = []) :
    ∀ e ∈ entries (parse s false).tree, ∀ r ∈ relations e, ∃ n, name r = some n :=
  fun e hm r hr => (strict_rel_shape s he e hm r hr).1.name_some

/-- **shape of what `version()` reads on strict-accepted text.** A RELATION has no VERSION child, or its
    first VERSION child `vc` is `(` ws* CONSTRAINT[`<`/`>`/`=` tokens] ws* IDENT (COLON IDENT)* ws* `)`
    (`VerShape`); then the CONSTRAINT child exists and prints a (possibly empty) string over `<`, `>`, `=`,
    and the version text is `id(:q)*` with `id` and every `q` a non-empty run of identifier characters —
    in particular never empty, so `version()` takes the branch with the two `unwrap()`s. -/
theorem C12_strict_version_shape (s : Str) (he : (parse s false).errors = []) :
    ∀ e ∈ entries (parse s false).tree, ∀ r ∈ relations e,
      firstChildNode .VERSION r = none ∨
      ∃ (vc c : RNode) (id : Str) (qs : List Str), firstChildNode .VERSION r = some vc ∧ VerShape vc ∧
        firstChildNode .CONSTRAINT vc = some c ∧ (∀ ch ∈ c.text, ch = '<' ∨ ch = '>' ∨ ch = '=') ∧
        isIdent id = true ∧ (∀ q ∈ qs, isIdent q = true) ∧
        versionText vc = id ++ (qs.map fun q => ':' :: q).flatten ∧ versionText vc ≠ [] := by
  intro e hm r hr
  obtain ⟨⟨t, X, rfl, ht, hv⟩, hg⟩ := strict_rel_shape s he e hm r hr
  have hfc : firstChildNode .VERSION (Node.node .RELATION (tk t :: X)) = (cn .VERSION X).head? := by
    simp [firstChildNode, childNodes_node]
  rcases hv with hv | ⟨vc, hv, hs⟩
  · left; rw [hfc, hv]; rfl
  · right
    have hvc : vc ∈ X := by
      have : vc ∈ cn .VERSION X := by rw [hv]; simp
      exact (List.mem_filter.mp this).1
    have hgv : ∀ l ∈ vc.leaves, TokStrong l := by
      intro l hl
      refine hg l ?_
      simp only [Node.leaves_node, Node.leavesList_cons, List.mem_append]
      exact Or.inr (leaves_mem_of_mem hvc l hl)
    obtain ⟨c, id, qs, hc, hct, hid, hqs, hvt⟩ := hs.access hgv
    refine ⟨vc, c, id, qs, by rw [hfc, hv]; rfl, hs, hc, hct, hid, hqs, hvt, ?_⟩
    rw [hvt]
    obtain ⟨hne, _⟩ := (isIdent_iff id).1 hid
    cases id with
    | nil => exact absurd rfl hne
    | cons a b => simp

/-- **`Version::from_str` on the version text of strict-accepted text fails iff the epoch is big**: for the
    text `id(:q)*` of the previous theorem, `Version.parse` is `none` exactly when the text is
    `digits:rest` with digits ≥ 2^32 (`bigEpochText`) -/
theorem C12_strict_version_parse_iff (s : Str) (he : (parse s false).errors = []) :
    ∀ e ∈ entries (parse s false).tree, ∀ r ∈ relations e, ∀ vc, firstChildNode .VERSION r = some vc →
      (Version.parse (versionText vc) = none ↔ bigEpoch r = true) := by
  intro e hm r hr vc hvc
  rcases C12_strict_version_shape s he e hm r hr with h | ⟨vc', c, id, qs, h1, _, _, _, hid, hqs, hvt, _⟩
  · rw [h] at hvc; cases hvc
  · rw [h1] at hvc; cases hvc
    simp only [bigEpoch, h1, hvt]
    exact Version.parse_none_iff_bigEpoch id qs hid hqs

/-- **`version()` panics exactly on a BAD relation** (strict-accepted text) -/
theorem C12_strict_version_panic_iff (s : Str) (he : (parse s false).errors = []) :
    ∀ e ∈ entries (parse s false).tree, ∀ r ∈ relations e, (version r = .error () ↔ bad r = true) :=
  fun e hm r hr =>
    let h := strict_rel_shape s he e hm r hr
    h.1.version_error_iff h.2

/-- one alternative: the accessor pair (`name()`, `version()`) panics iff the relation is BAD -/
theorem viewRel_isOk (s : Str) (he : (parse s false).errors = []) :
    ∀ e ∈ entries (parse s false).tree, ∀ r ∈ relations e, (viewRel r).isOk = !bad r := by
  intro e hm r hr
  obtain ⟨n, hn⟩ := C12_strict_name_total s he e hm r hr
  have hv := C12_strict_version_panic_iff s he e hm r hr
  unfold viewRel
  rw [hn]
  cases hvr : version r with
  | error u =>
    cases u
    simp [Outcome.isOk, hv.1 hvr]
  | ok v =>
    cases hb : bad r with
    | false => simp [Outcome.isOk]
    | true => rw [hv.2 hb] at hvr; cases hvr

/-! ## the accessor view of the whole field -/

/-- Boolean form of the characterisation -/
theorem viewL_isOk (s : Str) (he : (parse s false).errors = []) :
    (viewL (parse s false).tree).isOk = !anyBad (parse s false).tree := by
  have h1 : (viewL (parse s false).tree).isOk
      = (entries (parse s false).tree).all fun e => (relations e).all fun r => !bad r := by
    unfold viewL
    rw [mapO_isOk]
    apply all_congr_mem
    intro e hm
    rw [mapO_isOk]
    apply all_congr_mem
    intro r hr
    exact viewRel_isOk s he e hm r hr
  rw [h1, anyBad, not_any_any]

/-- **C12, exact panic condition of the accessor view on strict-accepted text.** For every text `s` the
    strict reader accepts: the accessor view of its tree panics if and only if some alternative `r` of some
    entry `e` is BAD — its CONSTRAINT prints something else than `<<`, `<=`, `=`, `>=`, `>>` (`badOp`:
    `>`, `<`, `==`, `>>=`, `=>`, `<>`, the empty operator of `a (1)`, …), or its version text is
    `digits:rest` with digits ≥ 2^32 (`bigEpoch`). -/
theorem C12_strict_view_panic_iff (s : Str) (he : (parse s false).errors = []) :
    (viewL (parse s false).tree).isOk = false ↔
      ∃ e ∈ entries (parse s false).tree, ∃ r ∈ relations e, bad r = true := by
  rw [viewL_isOk s he, ← anyBad_iff]
  cases anyBad (parse s false).tree <;> simp

/-- **C12, the hypothesis `viewL root = .ok f` of `C12_spec_lossless` / `C12_lossless_eq_lossy`, exactly.**
    On strict-accepted text the tree denotes a field (no accessor panics) iff no alternative is BAD. -/
theorem C12_strict_view_ok_iff (s : Str) (he : (parse s false).errors = []) :
    (∃ f, viewL (parse s false).tree = .ok f) ↔
      ∀ e ∈ entries (parse s false).tree, ∀ r ∈ relations e, bad r = false := by
  rw [← isOk_iff, viewL_isOk s he, ← anyBad_false_iff]
  cases anyBad (parse s false).tree <;> simp

/-- the same two statements with the strict reader's own result -/
theorem C12_strict_view_ok_iff_reader (s : Str) (root : RNode) (h : readStrict s = .ok root) :
    ((∃ f, viewL root = .ok f) ↔ ∀ e ∈ entries root, ∀ r ∈ relations e, bad r = false) ∧
    ((viewL root).isOk = false ↔ ∃ e ∈ entries root, ∃ r ∈ relations e, bad r = true) := by
  obtain ⟨he, rfl⟩ := Props.C09.readStrict_ok h
  exact ⟨C12_strict_view_ok_iff s he, C12_strict_view_panic_iff s he⟩

/-! ## `satisfied_by` -/

/-- with a total comparison the closure of `Entry::satisfied_by` panics only where an accessor does -/
theorem relSatL_panic_view {cmp : V → V → Ordering} {lk : Lookup} {r : RNode} {site : String}
    (h : relSatL cmp lk r = .panic site) : (viewRel r).isOk = false := by
  cases hv : viewRel r with
  | panic s => rfl
  | ok y => rw [relSatL_view cmp lk r y hv] at h; cases h

/-- **C12, `satisfied_by` panics only on a BAD relation** (strict-accepted text, any total comparison, any
    lookup): if the lossless evaluator panics, some alternative of some entry is BAD. Hence on
    strict-accepted text without BAD relations `Relations::satisfied_by` never panics, whatever the lookup. -/
theorem C12_strict_sat_panic_only_if (s : Str) (he : (parse s false).errors = [])
    (cmp : V → V → Ordering) (lk : Lookup) (site : String)
    (hp : relationsSatL cmp lk (parse s false).tree = .panic site) :
    ∃ e ∈ entries (parse s false).tree, ∃ r ∈ relations e, bad r = true := by
  obtain ⟨e, hm, hpe⟩ := allO_panic hp
  obtain ⟨r, hr, hpr⟩ := anyO_panic hpe
  have h1 := relSatL_panic_view (cmp := cmp) (lk := lk) hpr
  rw [viewRel_isOk s he e hm r hr] at h1
  exact ⟨e, hm, r, hr, by simpa using h1⟩

/-- the positive form: no BAD relation → the evaluator returns a Boolean, the lossy evaluator's on the field
    the tree denotes -/
theorem C12_strict_sat_total (s : Str) (he : (parse s false).errors = [])
    (hb : ∀ e ∈ entries (parse s false).tree, ∀ r ∈ relations e, bad r = false)
    (cmp : V → V → Ordering) (lk : Lookup) :
    ∃ f, viewL (parse s false).tree = .ok f ∧
      relationsSatL cmp lk (parse s false).tree = .ok (relationsSatY cmp lk f) := by
  obtain ⟨f, hf⟩ := (C12_strict_view_ok_iff s he).2 hb
  exact ⟨f, hf, C12_lossless_eq_lossy cmp lk _ f hf⟩

/-- **C12, a BAD first alternative of the first entry makes `satisfied_by` panic for EVERY lookup and every
    comparison** (also one that may itself panic). `Entry::satisfied_by` (relations.rs:912-932) evaluates
    `r.version()` at line 915, before the result of the lookup (`actual`, line 914) is looked at in line 916;
    `any` / `all` start with the first alternative of the first entry (`Rel.relSatLO`: `version r` is
    matched before `lk n`). -/
theorem C12_strict_sat_panic_first (s : Str) (he : (parse s false).errors = [])
    (cmpO : V → V → Outcome Ordering) (lk : Lookup) (e : RNode) (es : List RNode) (r : RNode) (rs : List RNode)
    (h1 : entries (parse s false).tree = e :: es) (h2 : relations e = r :: rs) (hb : bad r = true) :
    relationsSatLO cmpO lk (parse s false).tree = .panic "relations.rs:1328-1329 Relation::version unwrap" := by
  have hm : e ∈ entries (parse s false).tree := by rw [h1]; simp
  have hr : r ∈ relations e := by rw [h2]; simp
  obtain ⟨n, hn⟩ := C12_strict_name_total s he e hm r hr
  have hv := (C12_strict_version_panic_iff s he e hm r hr).2 hb
  have hrel : relSatLO cmpO lk r = .panic "relations.rs:1328-1329 Relation::version unwrap" := by
    simp only [relSatLO, hn, hv]
  simp only [relationsSatLO, h1, allO, entrySatLO, h2, anyO, hrel]

/-- the closure of `Entry::satisfied_by` is the lossy closure behind the accessor pair -/
theorem relSatLO_bind (cmpO : V → V → Outcome Ordering) (lk : Lookup) (r : RNode) :
    relSatLO cmpO lk r = (viewRel r).bind (relSatYO cmpO lk) := by
  cases hv : viewRel r with
  | ok y => rw [relSatLO_view cmpO lk r y hv]; rfl
  | panic site =>
    unfold viewRel at hv
    unfold relSatLO
    cases hn : name r with
    | none => rw [hn] at hv; simp only [Outcome.panic.injEq] at hv; subst hv; rfl
    | some n =>
      rw [hn] at hv
      cases hvr : version r with
      | error u => rw [hvr] at hv; simp only [Outcome.panic.injEq] at hv; subst hv; rfl
      | ok v => rw [hvr] at hv; cases hv

/-- the accessor pairs of a tree, entry by entry, alternative by alternative (closed data for a closed text) -/
def views (root : RNode) : List (List (Outcome RelY)) :=
  (entries root).map fun e => (relations e).map viewRel

/-- the lossless evaluator only looks at `views` -/
theorem relationsSatLO_views (cmpO : V → V → Outcome Ordering) (lk : Lookup) (root : RNode) :
    relationsSatLO cmpO lk root
      = allO (anyO fun v => v.bind (relSatYO cmpO lk)) (views root) := by
  unfold relationsSatLO views
  rw [allO_map]
  apply allO_congr
  intro e _
  unfold entrySatLO
  rw [anyO_map]
  apply anyO_congr
  intro r _
  exact relSatLO_bind cmpO lk r

/-- **the converse of `C12_strict_sat_panic_only_if` fails, for a structural reason.** `a, a | a (> 1)` is
    strict-accepted and has a BAD relation (its view panics), yet `satisfied_by` panics for NO lookup (and no
    comparison): if `a` is installed the second entry is decided by its first alternative (`any` stops), if
    not the first entry is false (`all` stops). The BAD alternative is unreachable; the answer is
    "`a` is installed". -/
theorem C12_strict_sat_unreachable_witness :
    strictOk "a, a | a (> 1)" = true ∧ anyBad (field "a, a | a (> 1)") = true ∧
    (viewL (field "a, a | a (> 1)")).isOk = false ∧
    ∀ (cmpO : V → V → Outcome Ordering) (lk : Lookup),
      relationsSatLO cmpO lk (field "a, a | a (> 1)") = .ok (lk ['a']).isSome := by
  have hv : views (field "a, a | a (> 1)")
      = [[.ok ⟨['a'], none⟩],
         [.ok ⟨['a'], none⟩, .panic "relations.rs:1328-1329 Relation::version unwrap"]] := by
    decide +kernel
  refine ⟨by decide +kernel, by decide +kernel, by decide +kernel, ?_⟩
  intro cmpO lk
  rw [relationsSatLO_views, hv]
  simp only [allO, anyO, Outcome.bind, relSatYO]
  cases lk ['a'] <;> rfl

/-! ## closed witnesses -/

/-- (`badOp`, `bigEpoch`) of every alternative of every entry -/
def classes (root : RNode) : List (List (Bool × Bool)) :=
  (entries root).map fun e => (relations e).map fun r => (badOp r, bigEpoch r)

/-- **the eight texts of the audit are strict-accepted and BAD, each for the stated reason**: seven operators
    outside the five (`badOp`), one epoch ≥ 2^32 (`bigEpoch`); on each the view panics and so does
    `satisfied_by` with `a` installed. `a (>= 4294967295:1)` (epoch = `u32::MAX`) is strict-accepted and not
    BAD. `a (>>= 4294967296:1)` is BAD on both counts. -/
theorem C12_strict_bad_witnesses :
    (∀ t ∈ ["a (> 1)", "a (< 1)", "a (== 1)", "a (>>= 1)", "a (=> 1)", "a (<> 1)", "a (1)"],
      strictOk t = true ∧ classes (field t) = [[(true, false)]] ∧ (viewL (field t)).isOk = false ∧
      (relationsSatL DebVersion.compare (Lookup.ofMap [("a".toList, ver "2")]) (field t)).isOk = false) ∧
    (strictOk "a (>= 4294967296:1)" = true ∧ classes (field "a (>= 4294967296:1)") = [[(false, true)]] ∧
      (viewL (field "a (>= 4294967296:1)")).isOk = false ∧
      (relationsSatL DebVersion.compare (Lookup.ofMap [("a".toList, ver "2")])
        (field "a (>= 4294967296:1)")).isOk = false) ∧
    (strictOk "a (>= 4294967295:1)" = true ∧ classes (field "a (>= 4294967295:1)") = [[(false, false)]] ∧
      (viewL (field "a (>= 4294967295:1)")).isOk = true ∧
      relationsSatL DebVersion.compare (Lookup.ofMap [("a".toList, ver "2")])
        (field "a (>= 4294967295:1)") = .ok false) ∧
    classes (field "a (>>= 4294967296:1)") = [[(true, true)]] ∧
    classes (field "b | a (>= 99999999999999999999:1.0-1), c ( << 0:1 )") = [[(false, false), (false, true)], [(false, false)]] := by
  decide +kernel

/-- `bigEpochText` on closed texts: the border is 2^32, leading zeros do not matter, a non-digit first
    component is not an epoch -/
theorem C12_bigEpochText_facts :
    bigEpochText "4294967296:1".toList = true ∧ bigEpochText "4294967295:1".toList = false ∧
    bigEpochText "0004294967295:1".toList = false ∧ bigEpochText "00004294967296:1:2".toList = true ∧
    bigEpochText "4294967296".toList = false ∧ bigEpochText "4294967296a:1".toList = false ∧
    bigEpochText ":1".toList = false ∧ bigEpochText "".toList = false := by
  decide +kernel

/-! ## non-vacuity: the theorems fire on concrete, non-trivial texts -/

/-- two entries, three alternatives, one BAD (second alternative of the second entry) -/
def exBad : String := "a:any (>= 1:2.0~rc1-1) [amd64] | b (>> 1), c (<< 3) | d (>= 4294967296:1.0-1) <!nocheck>"
/-- the same without the big epoch -/
def exGood : String := "a:any (>= 1:2.0~rc1-1) [amd64] | b (>> 1), c (<< 3) | d (>= 4294967295:1.0-1) <!nocheck>"

theorem exBad_strict : (parse exBad.toList false).errors = [] := by decide +kernel
theorem exGood_strict : (parse exGood.toList false).errors = [] := by decide +kernel

-- C12_strict_name_total / C12_strict_version_shape / C12_strict_version_parse_iff / C12_strict_version_panic_iff:
-- hypotheses hold for `exBad`; its entries and relations are not empty
example : ∀ e ∈ entries (parse exBad.toList false).tree, ∀ r ∈ relations e, ∃ n, name r = some n :=
  C12_strict_name_total _ exBad_strict
example : ((entries (parse exBad.toList false).tree).map fun e => (relations e).length) = [2, 2] := by
  decide +kernel
example : ∀ e ∈ entries (parse exBad.toList false).tree, ∀ r ∈ relations e,
    (version r = .error () ↔ bad r = true) := C12_strict_version_panic_iff _ exBad_strict
example : classes (field exBad) = [[(false, false), (false, false)], [(false, false), (false, true)]] := by
  decide +kernel

-- C12_strict_view_panic_iff: right to left on `exBad`, left to right (contrapositive) on `exGood`
example : (viewL (parse exBad.toList false).tree).isOk = false :=
  (C12_strict_view_panic_iff _ exBad_strict).2 ((anyBad_iff _).1 (by decide +kernel))
example : ¬ ∃ e ∈ entries (parse exGood.toList false).tree, ∃ r ∈ relations e, bad r = true :=
  fun h => absurd ((C12_strict_view_panic_iff _ exGood_strict).2 h) (by decide +kernel)

-- C12_strict_view_ok_iff: `exGood` denotes a field
example : ∃ f, viewL (parse exGood.toList false).tree = .ok f :=
  (C12_strict_view_ok_iff _ exGood_strict).2 ((anyBad_false_iff _).1 (by decide +kernel))
example : ¬ ∀ e ∈ entries (parse exBad.toList false).tree, ∀ r ∈ relations e, bad r = false :=
  fun h => by
    obtain ⟨f, hf⟩ := (C12_strict_view_ok_iff _ exBad_strict).2 h
    have : (viewL (parse exBad.toList false).tree).isOk = true := by rw [hf]; rfl
    exact absurd this (by decide +kernel)

-- C12_strict_view_ok_iff_reader
example : readStrict exGood.toList = .ok (parse exGood.toList false).tree := by
  simp [readStrict, exGood_strict]

-- C12_strict_sat_panic_only_if: `exBad` with `c` absent and `d` installed reaches the BAD alternative
example : ∃ e ∈ entries (parse exBad.toList false).tree, ∃ r ∈ relations e, bad r = true :=
  C12_strict_sat_panic_only_if _ exBad_strict DebVersion.compare
    (Lookup.ofMap [("a".toList, ver "1:3"), ("d".toList, ver "1")])
    "relations.rs:1328-1329 Relation::version unwrap" (by decide +kernel)
-- … and with `c` at 2 it does not (`any` stops at `c (<< 3)`): a Boolean although a relation is BAD
example : relationsSatL DebVersion.compare (Lookup.ofMap [("a".toList, ver "1:3"), ("c".toList, ver "2")])
    (parse exBad.toList false).tree = .ok true := by decide +kernel

-- C12_strict_sat_total on `exGood`
example : ∃ f, viewL (parse exGood.toList false).tree = .ok f ∧
    relationsSatL DebVersion.compare (Lookup.ofMap [("b".toList, ver "2")]) (parse exGood.toList false).tree
      = .ok (relationsSatY DebVersion.compare (Lookup.ofMap [("b".toList, ver "2")]) f) :=
  C12_strict_sat_total _ exGood_strict ((anyBad_false_iff _).1 (by decide +kernel)) _ _

/-- BAD first alternative of the first entry, more entries behind it -/
def exFirst : String := "a (=> 1) | b, c (>= 2)"
theorem exFirst_strict : (parse exFirst.toList false).errors = [] := by decide +kernel

-- C12_strict_sat_panic_first: for every lookup and comparison
example (cmpO : V → V → Outcome Ordering) (lk : Lookup) :
    (relationsSatLO cmpO lk (parse exFirst.toList false).tree).isOk = false := by
  obtain ⟨e, es, r, rs, h1, h2, hb⟩ :
      ∃ e es r rs, entries (parse exFirst.toList false).tree = e :: es ∧ relations e = r :: rs ∧ bad r = true := by
    have : (match entries (parse exFirst.toList false).tree with
        | e :: _ => (match relations e with | r :: _ => bad r | [] => false)
        | [] => false) = true := by decide +kernel
    split at this
    · rename_i e es h1
      split at this
      · rename_i r rs h2; exact ⟨e, es, r, rs, h1, h2, this⟩
      · cases this
    · cases this
  rw [C12_strict_sat_panic_first _ exFirst_strict cmpO lk e es r rs h1 h2 hb]; rfl

end Deb822Verif.Props.C12Strict
