import Deb822Verif.Lemmas.DebLossyMore
import Deb822Verif.Props.C04
/-!
# C08, continued — the round trip under the harness's own predicate, the paragraph reader,
# field-less paragraphs, closure of the domain under edit histories

`Props/C08.lean` states the round trip on `DocL` (values as line lists, paragraphs non-empty by
construction) under `CanonDoc`. The harness holds `Lossy.Doc` (values as strings) and evaluates
`Spec.canonDocB`. Here:

* `canonDocB_iff`            `canonDocB D = true ↔ CanonD D` (every paragraph non-empty, names valid,
                             `split('\n')` pieces of every value canonical lines);
* `C08_print_read`           for EVERY document whose fields are canonical — paragraphs without fields
                             allowed — the printed text reads back as the document WITHOUT its
                             field-less paragraphs (they have no text form), and the lossless reader
                             accepts it with the same names / non-blank value lines;
* `C08_roundtrip_doc`        the round trip under `canonDocB D = true`;
* `C08_lossless_view`, `C08_lossless_exact`   what the lossless reader shows, exactly: the values
                             without their empty first line;
* `C08_roundtrip_iff`        among field-wise canonical documents the round trip holds exactly for
                             those without a field-less paragraph: the domain cannot be enlarged there;
* `C08_roundtrip_para`, `C08_para_empty`, `C08_roundtrip_para_iff`   the paragraph reader;
* `C08_closed_*`, `C08_history_roundtrip`, `C08_history_in_doc`      edit histories stay in the domain,
                             follow `ListSpec`, and the result round-trips (or, when it has no field
                             left, disappears from the text);
* witnesses for every side condition of the domain.
-/
namespace Deb822Verif.Props.C08
open Deb822Verif Deb Deb.Lossy Spec Text

/-! ### 1. documents: strings, the harness predicate, field-less paragraphs -/

/-- the paragraphs that have a text form -/
def nonEmptyParas (D : Lossy.Doc) : Lossy.Doc := D.filter fun p => !p.isEmpty

theorem nonEmptyParas_eq_self (D : Lossy.Doc) : nonEmptyParas D = D ↔ ∀ p ∈ D, p ≠ [] := by
  unfold nonEmptyParas
  rw [List.filter_eq_self]
  constructor
  · intro h p hp e; have := h p hp; simp [e] at this
  · intro h p hp; have := h p hp; cases p with
    | nil => exact absurd rfl this
    | cons f fs => rfl

/-- **the harness's domain predicate, as a proposition**: `canonDocB D = true` says exactly that every
    paragraph has a field, every name is valid and the `split('\n')` pieces of every value are
    canonical lines (`CanonD`); in particular it does NOT admit field-less paragraphs -/
theorem C08_canonDocB_iff (D : Lossy.Doc) :
    canonDocB D = true ↔ ∀ p ∈ D, p ≠ [] ∧ ∀ f ∈ p, ValidKey f.1 ∧ CanonLines (Text.splitOn '\n' f.2) :=
  canonDocB_iff D

/-- **print, then read — any document whose fields are canonical** (names valid, values canonical;
    paragraphs may be field-less). A field-less paragraph prints as nothing (only its separator
    line appears), so both readers see the document without them: the lossy reader returns exactly
    `nonEmptyParas D`; the lossless reader accepts the text and shows the same paragraphs, the same
    names in the same order and the same non-blank value lines. -/
theorem C08_print_read (D : Lossy.Doc) (h : ∀ p ∈ D, CanonP p) :
    Lossy.read (printDoc D) = .ok (nonEmptyParas D)
    ∧ ∃ t, readStrict (printDoc D) = .ok t ∧ C06.contentRel (nonEmptyParas D) (docItems t) := by
  have hj := C06.C06_joint_accept _ (docG_wf D h)
  rw [← docG_str D h, lossyDoc_docG D] at hj
  exact ⟨hj.1, _, hj.2.1, hj.2.2⟩

/-- **C08 round trip, as the harness checks it**: a lossy document (values are strings) that
    satisfies the harness's domain predicate `canonDocB` prints to a text that the lossy reader
    turns back into the same value and that the lossless reader accepts, exposing the same
    paragraphs, names and non-blank value lines (`C06.contentRel`, the oracle `nb_eq`). -/
theorem C08_roundtrip_doc (D : Lossy.Doc) (h : canonDocB D = true) :
    Lossy.read (printDoc D) = .ok D
    ∧ ∃ t, readStrict (printDoc D) = .ok t ∧ C06.contentRel D (docItems t) := by
  have hc := (canonDocB_iff D).1 h
  have := C08_print_read D (fun p hp => (hc p hp).2)
  rwa [(nonEmptyParas_eq_self D).2 (fun p hp => (hc p hp).1)] at this

/-- the same with the `Prop`-level domain -/
theorem C08_roundtrip_canonD (D : Lossy.Doc) (h : CanonD D) :
    Lossy.read (printDoc D) = .ok D
    ∧ ∃ t, readStrict (printDoc D) = .ok t ∧ C06.contentRel D (docItems t) :=
  C08_roundtrip_doc D ((canonDocB_iff D).2 h)

/-- **the domain is exact in the paragraph dimension**: among the documents whose fields are all
    canonical, the printed text reads back equal if and only if no paragraph is field-less -/
theorem C08_roundtrip_iff (D : Lossy.Doc) (h : ∀ p ∈ D, CanonP p) :
    Lossy.read (printDoc D) = .ok D ↔ ∀ p ∈ D, p ≠ [] := by
  rw [(C08_print_read D h).1]
  constructor
  · intro e; exact (nonEmptyParas_eq_self D).1 (by injection e)
  · intro e; rw [(nonEmptyParas_eq_self D).2 e]

/-- … and then it is in the harness's domain -/
theorem C08_roundtrip_iff_canonDocB (D : Lossy.Doc) (h : ∀ p ∈ D, CanonP p) :
    Lossy.read (printDoc D) = .ok D ↔ canonDocB D = true := by
  rw [C08_roundtrip_iff D h, canonDocB_iff]
  exact ⟨fun e p hp => ⟨e p hp, h p hp⟩, fun e p hp => (e p hp).1⟩

/-- **the lossless view, exactly**: the lossless reader accepts the printed text and shows the
    document's non-empty paragraphs with every value unchanged except that an EMPTY FIRST LINE is
    not shown (`dropLead`: a leading LF of the value is dropped; the lossless value is the join of
    the non-empty lines). This is `contentRel` made exact on the domain. -/
theorem C08_lossless_view (D : Lossy.Doc) (h : ∀ p ∈ D, CanonP p) :
    ∃ t, readStrict (printDoc D) = .ok t ∧ docItems t = (nonEmptyParas D).map (·.map viewF) := by
  have ha := C03.C03_accept _ (docG_wf D h)
  rw [← docG_str D h, content_docG D] at ha
  exact ⟨_, ha.1, ha.2⟩

theorem viewF_id (f : Field) (h : f.2.head? ≠ some '\n') : viewF f = f := by
  obtain ⟨k, v⟩ := f
  cases v with
  | nil => rfl
  | cons c r =>
    have hc : c ≠ '\n' := by intro e; apply h; simp [e]
    simp [viewF, dropLead, hc]

/-- under the harness's predicate, when moreover no value starts with an empty line, the lossless
    reader shows exactly the document -/
theorem C08_lossless_exact (D : Lossy.Doc) (h : canonDocB D = true)
    (hb : ∀ p ∈ D, ∀ f ∈ p, f.2.head? ≠ some '\n') :
    ∃ t, readStrict (printDoc D) = .ok t ∧ docItems t = D := by
  have hc := (canonDocB_iff D).1 h
  obtain ⟨t, ht, hd⟩ := C08_lossless_view D (fun p hp => (hc p hp).2)
  refine ⟨t, ht, ?_⟩
  rw [hd, (nonEmptyParas_eq_self D).2 (fun p hp => (hc p hp).1)]
  have : ∀ p ∈ D, p.map viewF = p := by
    intro p hp
    have : ∀ f ∈ p, viewF f = f := fun f hf => viewF_id f (hb p hp f hf)
    rw [List.map_congr_left this, List.map_id']
  rw [List.map_congr_left this, List.map_id']

/-- a field-less paragraph is lost (the harness's predicate excludes the document) -/
theorem C08_empty_paragraph_lost :
    canonDocB [[], [("B".toList, "2".toList)]] = false
    ∧ printDoc [[], [("B".toList, "2".toList)]] = "\nB: 2\n".toList
    ∧ Lossy.read (printDoc [[], [("B".toList, "2".toList)]]) = .ok [[("B".toList, "2".toList)]]
    ∧ Lossy.read (printDoc [[("A".toList, "1".toList)], [], [("B".toList, "2".toList)]])
        = .ok [[("A".toList, "1".toList)], [("B".toList, "2".toList)]]
    ∧ Lossy.read (printDoc [[("A".toList, "1".toList)], []]) = .ok [[("A".toList, "1".toList)]]
    ∧ Lossy.read (printDoc [[]]) = .ok [] := by
  refine ⟨?_, ?_, ?_, ?_, ?_, ?_⟩ <;> decide +kernel

/-! ### 2. the paragraph reader `lossy::Paragraph::from_str` -/

theorem printDoc_single (p : Para) : printDoc [p] = printPara p := rfl

/-- **paragraph round trip**: a non-empty paragraph with canonical fields prints to a text that
    `Paragraph::from_str` turns back into the same paragraph -/
theorem C08_roundtrip_para (p : Para) (hp : p ≠ []) (h : CanonP p) :
    Lossy.readPara (printPara p) = .ok p := by
  have hr := (C08_roundtrip_canonD [p] (by
    intro q hq; simp only [List.mem_singleton] at hq; subst hq; exact ⟨hp, h⟩)).1
  rw [printDoc_single] at hr
  simp only [readPara, hr]

/-- the paragraph without fields prints as the empty text, which `Paragraph::from_str` rejects
    with `UnexpectedEof` (`doc.is_empty()`, lossy.rs:163) -/
theorem C08_para_empty : printPara [] = [] ∧ Lossy.readPara (printPara []) = .error .UnexpectedEof := by
  decide +kernel

theorem C08_roundtrip_para_iff (p : Para) (h : CanonP p) :
    Lossy.readPara (printPara p) = .ok p ↔ p ≠ [] := by
  constructor
  · intro e hp; subst hp; rw [C08_para_empty.2] at e; cases e
  · intro hp; exact C08_roundtrip_para p hp h

/-- the lossless reader on the printed paragraph -/
theorem C08_para_lossless (p : Para) (hp : p ≠ []) (h : CanonP p) :
    ∃ t, readStrict (printPara p) = .ok t ∧ C06.contentRel [p] (docItems t) := by
  have hr := (C08_roundtrip_canonD [p] (by
    intro q hq; simp only [List.mem_singleton] at hq; subst hq; exact ⟨hp, h⟩)).2
  rwa [printDoc_single] at hr

/-! ### 3. the side conditions of the domain cannot be dropped

Each document below fails `canonDocB` in exactly one respect, and its printed text does not read
back equal (or is rejected). -/

/-- CR inside a line / at the end of a line / before a continuation line -/
theorem C08_needs_no_cr :
    canonDocB [[("A".toList, "a\rb".toList)]] = false
    ∧ Lossy.read (printDoc [[("A".toList, "a\rb".toList)]]) = .error .UnexpectedToken
    ∧ canonDocB [[("A".toList, "a\r".toList)]] = false
    ∧ Lossy.read (printDoc [[("A".toList, "a\r".toList)]]) = .ok [[("A".toList, "a".toList)]]
    ∧ canonDocB [[("A".toList, "a\r\nb".toList)]] = false
    ∧ Lossy.read (printDoc [[("A".toList, "a\r\nb".toList)]]) = .error .UnexpectedToken := by
  refine ⟨?_, ?_, ?_, ?_, ?_, ?_⟩ <;> decide +kernel

/-- invalid names: containing ':' (the value absorbs the rest), starting with '-' (rejected),
    starting with '#' (the whole field is read as a comment), containing a space, empty,
    non-ASCII (all rejected) -/
theorem C08_needs_valid_name :
    canonDocB [[("A:B".toList, "v".toList)]] = false
    ∧ Lossy.read (printDoc [[("A:B".toList, "v".toList)]]) = .ok [[("A".toList, "B: v".toList)]]
    ∧ canonDocB [[("-A".toList, "v".toList)]] = false
    ∧ Lossy.read (printDoc [[("-A".toList, "v".toList)]]) = .error .UnexpectedToken
    ∧ canonDocB [[("#A".toList, "v".toList)]] = false
    ∧ Lossy.read (printDoc [[("#A".toList, "v".toList)]]) = .ok []
    ∧ canonDocB [[("A B".toList, "v".toList)]] = false
    ∧ Lossy.read (printDoc [[("A B".toList, "v".toList)]]) = .error .UnexpectedToken
    ∧ canonDocB [[([], "v".toList)]] = false
    ∧ Lossy.read (printDoc [[([], "v".toList)]]) = .error .UnexpectedToken
    ∧ canonDocB [[("Aé".toList, "v".toList)]] = false
    ∧ Lossy.read (printDoc [[("Aé".toList, "v".toList)]]) = .error .UnexpectedToken := by
  refine ⟨?_, ?_, ?_, ?_, ?_, ?_, ?_, ?_, ?_, ?_, ?_, ?_⟩ <;> decide +kernel

/-- white space at the start of the FIRST line is taken for the separator after the colon -/
theorem C08_needs_no_leading_blank_first :
    canonDocB [[("A".toList, " x".toList)]] = false
    ∧ Lossy.read (printDoc [[("A".toList, " x".toList)]]) = .ok [[("A".toList, "x".toList)]]
    ∧ canonDocB [[("A".toList, "\tx".toList)]] = false
    ∧ Lossy.read (printDoc [[("A".toList, "\tx".toList)]]) = .ok [[("A".toList, "x".toList)]] := by
  decide +kernel

/-- an empty last line (value ending in LF): kept by the lossy reader, dropped by the lossless
    one — outside the domain, where the two views are required to coincide line by line -/
theorem C08_trailing_lf_readers_differ :
    canonDocB [[("A".toList, "x\n".toList)]] = false
    ∧ Lossy.read (printDoc [[("A".toList, "x\n".toList)]]) = .ok [[("A".toList, "x\n".toList)]]
    ∧ (readStrict (printDoc [[("A".toList, "x\n".toList)]])).toOption.map docItems
        = some [[("A".toList, "x".toList)]] := by
  decide +kernel

/-! ### 4. the domain is closed under the edits, and edit histories round-trip -/

theorem C08_closed_set (p : Para) (k v : Str) (hp : CanonP p) (hk : ValidKey k) (hv : CanonV v) :
    CanonP (pset p k v) := canonP_pset p k v hp hk hv

theorem C08_closed_insert (p : Para) (k v : Str) (hp : CanonP p) (hk : ValidKey k) (hv : CanonV v) :
    CanonP (pinsert p k v) := canonP_pinsert p k v hp hk hv

/-- `remove` needs no condition on the name (it may leave the paragraph without fields) -/
theorem C08_closed_remove (p : Para) (k : Str) (hp : CanonP p) : CanonP (premove p k) :=
  canonP_premove p k hp

/-- the edit operations of `lossy::Paragraph` -/
inductive Edit
  | set (k v : Str)
  | insert (k v : Str)
  | remove (k : Str)
  deriving DecidableEq, Repr

/-- one step on the model of the code -/
def Edit.run (p : Para) : Edit → Para
  | .set k v => pset p k v
  | .insert k v => pinsert p k v
  | .remove k => premove p k

/-- one step of the list specification (`ListSpec` of C04: replace the first field of the name in
    place or append; append; delete every field of the name) -/
def Edit.spec (l : C04.ListSpec.Items) : Edit → C04.ListSpec.Items
  | .set k v => C04.ListSpec.set l k v
  | .insert k v => C04.ListSpec.insert l k v
  | .remove k => C04.ListSpec.remove l k

/-- the operation is one the property quantifies over: written names valid, written values canonical -/
def Edit.Ok : Edit → Prop
  | .set k v => ValidKey k ∧ CanonV v
  | .insert k v => ValidKey k ∧ CanonV v
  | .remove _ => True

instance (e : Edit) : Decidable e.Ok := by
  cases e <;> simp only [Edit.Ok] <;> infer_instance

def runAll (p : Para) (es : List Edit) : Para := es.foldl Edit.run p
def specAll (l : C04.ListSpec.Items) (es : List Edit) : C04.ListSpec.Items := es.foldl Edit.spec l

theorem pset_eq_spec (l : Para) (k v : Str) : pset l k v = C04.ListSpec.set l k v := by
  induction l with
  | nil => rfl
  | cons f fs ih =>
    simp only [pset, C04.ListSpec.set]
    split
    · rename_i hf; rw [hf]
    · rw [ih]

theorem premove_eq_spec (l : Para) (k : Str) : premove l k = C04.ListSpec.remove l k := by
  unfold premove C04.ListSpec.remove
  apply List.filter_congr
  intro f _
  by_cases hf : f.1 = k <;> simp [hf]

/-- every step is the `ListSpec` step -/
theorem C08_step_spec (p : Para) (e : Edit) : e.run p = e.spec p := by
  cases e with
  | set k v => exact pset_eq_spec p k v
  | insert k v => rfl
  | remove k => exact premove_eq_spec p k

theorem C08_history_spec (p : Para) (es : List Edit) : runAll p es = specAll p es := by
  induction es generalizing p with
  | nil => rfl
  | cons e es ih =>
    simp only [runAll, specAll, List.foldl_cons] at ih ⊢
    rw [C08_step_spec, ih]

theorem C08_step_closed (p : Para) (e : Edit) (hp : CanonP p) (he : e.Ok) : CanonP (e.run p) := by
  cases e with
  | set k v => exact canonP_pset p k v hp he.1 he.2
  | insert k v => exact canonP_pinsert p k v hp he.1 he.2
  | remove k => exact canonP_premove p k hp

/-- **closure**: every state an edit history reaches from a field-wise canonical paragraph is
    field-wise canonical -/
theorem C08_history_closed (p : Para) (es : List Edit) (hp : CanonP p) (hes : ∀ e ∈ es, e.Ok) :
    CanonP (runAll p es) := by
  induction es generalizing p with
  | nil => exact hp
  | cons e es ih =>
    simp only [runAll, List.foldl_cons] at ih ⊢
    exact ih _ (C08_step_closed p e hp (hes e (by simp))) (fun x hx => hes x (by simp [hx]))

/-- **the two halves of C08 joined**: for every history of `set` / `insert` / `remove` operations
    (written names valid, written values canonical; any name for `remove`) applied to a paragraph
    with canonical fields,
    * the resulting paragraph is the one the list specification `ListSpec` computes,
    * it has canonical fields,
    * if it still has a field, the one-paragraph document prints to a text that the lossy reader
      turns back into it, so does `Paragraph::from_str`, and the lossless reader accepts the text
      with the same names and non-blank value lines,
    * if no field is left, the text is empty: the document reader returns no paragraph and
      `Paragraph::from_str` answers `UnexpectedEof`.
    (The statement applies to every prefix of a history as well: a prefix is a history.) -/
theorem C08_history_roundtrip (p : Para) (es : List Edit) (hp : CanonP p) (hes : ∀ e ∈ es, e.Ok) :
    runAll p es = specAll p es
    ∧ CanonP (runAll p es)
    ∧ (runAll p es ≠ [] →
        Lossy.read (printDoc [runAll p es]) = .ok [runAll p es]
        ∧ Lossy.readPara (printPara (runAll p es)) = .ok (runAll p es)
        ∧ ∃ t, readStrict (printDoc [runAll p es]) = .ok t ∧ C06.contentRel [runAll p es] (docItems t))
    ∧ (runAll p es = [] →
        Lossy.read (printDoc [runAll p es]) = .ok []
        ∧ Lossy.readPara (printPara (runAll p es)) = .error .UnexpectedEof) := by
  have hc := C08_history_closed p es hp hes
  refine ⟨C08_history_spec p es, hc, ?_, ?_⟩
  · intro hne
    have hd : CanonD [runAll p es] := by
      intro q hq; simp only [List.mem_singleton] at hq; subst hq; exact ⟨hne, hc⟩
    have := C08_roundtrip_canonD _ hd
    exact ⟨this.1, C08_roundtrip_para _ hne hc, this.2⟩
  · intro he
    rw [he]
    exact ⟨by decide +kernel, C08_para_empty.2⟩

/-- **histories inside a document**: the paragraph at any position of a canonical document is
    edited; the document that results prints to a text that reads back as that document — minus
    the edited paragraph when the history removed its last field -/
theorem C08_history_in_doc (D1 D2 : Lossy.Doc) (p : Para) (es : List Edit)
    (hD : canonDocB (D1 ++ p :: D2) = true) (hes : ∀ e ∈ es, e.Ok) :
    (runAll p es ≠ [] →
        canonDocB (D1 ++ runAll p es :: D2) = true
        ∧ Lossy.read (printDoc (D1 ++ runAll p es :: D2)) = .ok (D1 ++ runAll p es :: D2))
    ∧ (runAll p es = [] →
        Lossy.read (printDoc (D1 ++ runAll p es :: D2)) = .ok (D1 ++ D2)) := by
  have hc := (canonDocB_iff _).1 hD
  have hp : CanonP p := (hc p (by simp)).2
  have hr := C08_history_closed p es hp hes
  have h1 : ∀ q ∈ D1, q ≠ [] ∧ CanonP q := fun q hq => hc q (by simp [hq])
  have h2 : ∀ q ∈ D2, q ≠ [] ∧ CanonP q := fun q hq => hc q (by simp [hq])
  constructor
  · intro hne
    have hd : CanonD (D1 ++ runAll p es :: D2) := by
      intro q hq
      simp only [List.mem_append, List.mem_cons] at hq
      rcases hq with hq | rfl | hq
      · exact h1 q hq
      · exact ⟨hne, hr⟩
      · exact h2 q hq
    exact ⟨(canonDocB_iff _).2 hd, (C08_roundtrip_canonD _ hd).1⟩
  · intro he
    rw [he]
    have hall : ∀ q ∈ D1 ++ [] :: D2, CanonP q := by
      intro q hq
      simp only [List.mem_append, List.mem_cons] at hq
      rcases hq with hq | rfl | hq
      · exact (h1 q hq).2
      · intro f hf; simp at hf
      · exact (h2 q hq).2
    rw [(C08_print_read _ hall).1]
    congr 1
    have e1 : nonEmptyParas D1 = D1 := (nonEmptyParas_eq_self D1).2 (fun q hq => (h1 q hq).1)
    have e2 : nonEmptyParas D2 = D2 := (nonEmptyParas_eq_self D2).2 (fun q hq => (h2 q hq).1)
    simp only [nonEmptyParas, List.filter_append, List.filter_cons, List.isEmpty_nil, Bool.not_true,
      Bool.false_eq_true, ↓reduceIte] at e1 e2 ⊢
    rw [e1, e2]

/-! ### non-vacuity -/

/-- a document with a duplicate name, a multi-line value whose first line is empty, an empty
    value, `:` and `#` inside lines, trailing blanks, non-ASCII text -/
def exD : Lossy.Doc :=
  [[("Source".toList, "foo".toList), ("A".toList, "\nx: y\n:z é".toList), ("A".toList, [])],
   [("Package".toList, "#c\nl2 ".toList)]]

example : canonDocB exD = true := by decide +kernel
example : CanonD exD := (canonDocB_iff _).1 (by decide +kernel)
example : printDoc exD = "Source: foo\nA: \n x: y\n :z é\nA: \n\nPackage: #c\n l2 \n".toList := by
  decide +kernel
example : Lossy.read (printDoc exD) = .ok exD := (C08_roundtrip_doc exD (by decide +kernel)).1
/-- the lossless view of `exD`: the empty first line of the second field is not shown -/
example : exD.map (·.map viewF) =
    [[("Source".toList, "foo".toList), ("A".toList, "x: y\n:z é".toList), ("A".toList, [])],
     [("Package".toList, "#c\nl2 ".toList)]] := by decide +kernel
/-- `C08_lossless_exact`: the second paragraph of `exD` alone -/
example : canonDocB [[("Package".toList, "#c\nl2 ".toList)]] = true
    ∧ ∀ p ∈ [[("Package".toList, "#c\nl2 ".toList)]], ∀ f ∈ p, f.2.head? ≠ some '\n' := by decide +kernel

/-- `C08_print_read` / `C08_roundtrip_iff`: fields canonical, one paragraph field-less -/
example : ∀ p ∈ ([] :: exD), CanonP p := by decide +kernel
example : nonEmptyParas ([] :: exD) = exD := by decide +kernel

/-- a paragraph with a duplicate name and a multi-line value with an empty first line -/
def exP : Para := [("A".toList, "\nx: y\n:z".toList), ("B".toList, "1".toList), ("A".toList, [])]

example : exP ≠ [] ∧ CanonP exP := by decide +kernel
example : Lossy.readPara (printPara exP) = .ok exP := C08_roundtrip_para exP (by decide) (by decide +kernel)

/-- `C08_closed_set` / `C08_closed_insert`: a valid name and a canonical multi-line value -/
example : CanonP exP ∧ ValidKey "X-Y".toList ∧ CanonV "\nl1\nl2 ".toList := by decide +kernel
example : ("A".toList, "x\ny".toList).2.head? ≠ some '\n' := by decide

/-- a history on it: overwrite the first `A` by a multi-line value with an empty first line, append
    a third `A`, remove `B`, set a new name -/
def exHist : List Edit :=
  [.set "A".toList "\nl1\nl2".toList, .insert "A".toList "3".toList, .remove "B".toList,
   .set "C".toList [], .remove "Zz".toList]

example : ∀ e ∈ exHist, e.Ok := by decide +kernel
example : runAll exP exHist =
    [("A".toList, "\nl1\nl2".toList), ("A".toList, []), ("A".toList, "3".toList), ("C".toList, [])] := by
  decide +kernel
/-- a history that removes the last field -/
example : (∀ e ∈ [Edit.remove "A".toList, Edit.remove "B".toList], e.Ok)
    ∧ runAll exP [Edit.remove "A".toList, Edit.remove "B".toList] = [] := by decide +kernel
/-- `C08_history_in_doc`: the first paragraph of `exD` -/
example : canonDocB ([] ++ exP :: exD) = true := by decide +kernel

end Deb822Verif.Props.C08
