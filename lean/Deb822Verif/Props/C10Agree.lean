import Deb822Verif.Props.C10
/-!
# C10 — agreement of the two readers where both accept (audit of C10, W2 / E6)

`C10_same_structure` is a statement about `FieldA.WF`. Outside the grammar both readers accept more
texts, and there is a class on which BOTH accept and expose DIFFERENT structures:

    a <x!y>      lossless accessors: one term  Enabled "x!y"     lossy reader: Enabled "x", Disabled "y"

(terms of a restriction list are blank-separated in Policy, so this is outside the property's
quantifier; it refutes an unconditional "the readers agree wherever both accept").

What is here:
* `bangInsideTerm` — the decidable exception, on the token list: inside a `<…>` group an IDENT token
  is directly followed by `!`;
* `agreeOn` — the oracle form of the agreement statement (both accept, accessors total, exception
  false ⇒ equal views); it is evaluated by the worker on every text of the C09 exploration
  (`rel.view`, harness/src/rel.rs) and here on closed witnesses, including the exception itself
  (`C10_agree_exception_witness`) and its sharpness (`C10_agree_unconditional_false`);
* the token-level fragment proved for ALL token lists: `C10_agree_arch_list` — one architecture list:
  whenever the lossy loop `archLoop` accepts `pre ++ ']' :: rest`, the lossless accessor
  `architectures()` over the same tokens (as the children of an ARCHITECTURES node) yields the same
  list, unconditionally (this is why `a [x!y]` reads as `x`, `!y` on both sides; the exception is
  specific to `profiles()`, which glues the texts of adjacent tokens).
  NOT proved: the analogous statement for one restriction list (`profTerms` vs `profileGroup` under
  "no IDENT directly followed by `!`"), and the statement over all TEXTS, which needs the
  correspondence between the tree parser (with its recovery) and the lossy reader's `split(',')` /
  `split('|')` / `trim()` pipeline; the worker clause stands in for both (DESIGN 9.5).
-/
namespace Deb822Verif.Props.C10Agree
open Deb822Verif Rel Node

/-! ### the exception -/

/-- scan with the flag "inside `<…>`": `<` sets it; `>`, `)`, `,`, `|` clear it (the last three so
    that the `<` of a version operator does not leak) -/
def bangScan : Bool → List Tok → Bool
  | _, [] => false
  | inside, t :: ts =>
    if t.1 = .L_ANGLE then bangScan true ts
    else if t.1 = .R_ANGLE ∨ t.1 = .R_PARENS ∨ t.1 = .COMMA ∨ t.1 = .PIPE then bangScan false ts
    else if inside && decide (t.1 = .IDENT) && (match ts with | n :: _ => decide (n.1 = .NOT) | [] => false) then true
    else bangScan inside ts

/-- some `<…>` group contains an IDENT token directly followed by `!` -/
def bangInsideTerm (ts : List Tok) : Bool := bangScan false ts

/-- the agreement statement in oracle form: if the strict lossless reader and the lossy reader both
    accept `s` and no accessor panics, then either the exception holds or the two views are equal -/
def agreeOn (s : Str) : Bool :=
  match readStrict s, Lossy.readRelations s with
  | .ok t, .ok v =>
    match accEntries t with
    | some v' => bangInsideTerm (lex s) || decide (v' = v)
    | none => true
  | _, _ => true

/-- both readers accept and the accessors are total (the hypothesis of the agreement statement) -/
def bothAccept (s : Str) : Bool :=
  match readStrict s, Lossy.readRelations s with
  | .ok t, .ok _ => (accEntries t).isSome
  | _, _ => false

/-- THE EXCEPTION: `a <x!y>` and `a <!x!y>` are accepted by both readers, no accessor panics, and
    the views differ — lossless one term `x!y`, lossy two terms -/
theorem C10_agree_exception_witness :
    bothAccept "a <x!y>".toList = true
      ∧ (match readStrict "a <x!y>".toList with
          | .ok t => accEntries t | .error _ => none)
          = some [[⟨['a'], none, none, none, [[.Enabled "x!y".toList]]⟩]]
      ∧ Lossy.readRelations "a <x!y>".toList
          = .ok [[⟨['a'], none, none, none, [[.Enabled ['x'], .Disabled ['y']]]⟩]]
      ∧ bangInsideTerm (lex "a <x!y>".toList) = true
      ∧ bothAccept "a <!x!y>".toList = true
      ∧ (match readStrict "a <!x!y>".toList with
          | .ok t => accEntries t | .error _ => none)
          = some [[⟨['a'], none, none, none, [[.Disabled "x!y".toList]]⟩]]
      ∧ Lossy.readRelations "a <!x!y>".toList
          = .ok [[⟨['a'], none, none, none, [[.Disabled ['x'], .Disabled ['y']]]⟩]]
      ∧ bangInsideTerm (lex "a <!x!y>".toList) = true := by decide +kernel

/-- so the unconditional statement "equal views wherever both accept" is false -/
theorem C10_agree_unconditional_false :
    ¬ ∀ s t v, readStrict s = .ok t → Lossy.readRelations s = .ok v → accEntries t = some v := by
  intro h
  obtain ⟨_, h2, h3, _⟩ := C10_agree_exception_witness
  cases ht : readStrict "a <x!y>".toList with
  | error e => rw [ht] at h2; simp at h2
  | ok t =>
    rw [ht] at h2
    have := h _ t _ ht h3
    simp only [this] at h2
    revert h2; decide

/-- the statement with its exception holds on the layouts around the exception: the same glue inside
    an architecture list is read alike by both (`x`, `!y`), blank-separated terms agree, a `<` in a
    version operator does not trigger the exception, and the strictly accepted layouts outside the
    grammar that the lossy reader also accepts (`a :any`, `a (= x:1)`) agree -/
theorem C10_agree_witnesses :
    (["a [x!y]", "a <x !y>", "a <x> <!y z>", "a (<< 1) [x!y]", "a :any", "a (= x:1)", "a <x!y>",
      "a (>= 1:2-3) [!x y] <!p q> <r> | b, c", "a <!x> | b <y>", "a [x] <y!z>"].map
        fun s => (bothAccept s.toList, bangInsideTerm (lex s.toList), agreeOn s.toList))
      = [(true, false, true), (true, false, true), (true, false, true), (true, false, true),
         (true, false, true), (true, false, true), (true, true, true),
         (true, false, true), (true, false, true), (true, true, true)] := by decide +kernel

/-! ### fragment 1: one architecture list — unconditional agreement -/

/-- a token as a leaf of the tree -/
def leaf (t : Tok) : RNode := .tok t.1 t.2

/-- a NOT token of the lexer is `!`; an IDENT token does not start with `!` -/
def tokOk (t : Tok) : Prop := (t.1 = .NOT → t.2 = ['!']) ∧ (t.1 = .IDENT → t.2.head? ≠ some '!')

/-- whenever the lossy architecture loop accepts, the tokens it consumed are `pre ++ ']'`, and the
    lossless `architectures()` fold over the same tokens yields the same list -/
theorem arch_list_agree (ts : List Tok) :
    ∀ as r, Lossy.archLoop ts = .ok (as, r) →
      ∃ pre b, ts = pre ++ b :: r ∧ b.1 = Kind.R_BRACKET ∧
        ∀ acc, ((pre.map leaf).foldl archStep (false, acc)).2 = acc ++ as := by
  fun_induction Lossy.archLoop ts with
  | case1 => intro as r h; simp at h
  | case2 t ts ht as' r' hrec ih =>
    intro as r h
    simp only [Except.ok.injEq, Prod.mk.injEq] at h; obtain ⟨rfl, rfl⟩ := h
    obtain ⟨pre, b, hpre, hb, hf⟩ := ih as' r' hrec
    refine ⟨t :: pre, b, by simp [hpre], hb, ?_⟩
    intro acc
    have h1 : ¬ t.1 = Kind.NOT := by rw [ht]; decide
    simp only [List.map_cons, List.foldl_cons, leaf, archStep, ht, h1, if_false, if_true]
    simp [hf]
  | case3 t ts ht e hrec => intro as r h; simp at h
  | case4 t ht hn => intro as r h; simp at h
  | case5 t hti hn n ts hni as' r' hrec ih =>
    intro as r h
    simp only [Except.ok.injEq, Prod.mk.injEq] at h; obtain ⟨rfl, rfl⟩ := h
    obtain ⟨pre, b, hpre, hb, hf⟩ := ih as' r' hrec
    refine ⟨t :: n :: pre, b, by simp [hpre], hb, ?_⟩
    intro acc
    have h1 : ¬ n.1 = Kind.NOT := by rw [hni]; decide
    simp only [List.map_cons, List.foldl_cons, leaf, archStep, hn, hni, h1, if_false, if_true]
    simp [hf]
  | case6 t hti hn n ts hni e hrec => intro as r h; simp at h
  | case7 t hti hn n ts hni => intro as r h; simp at h
  | case8 t ts hti hn hw ih =>
    intro as r h
    obtain ⟨pre, b, hpre, hb, hf⟩ := ih as r h
    refine ⟨t :: pre, b, by simp [hpre], hb, ?_⟩
    intro acc
    simp only [List.map_cons, List.foldl_cons, leaf, archStep, hti, hn, if_false]
    exact hf acc
  | case9 t ts hti hn hw hb =>
    intro as r h
    simp only [Except.ok.injEq, Prod.mk.injEq] at h; obtain ⟨rfl, rfl⟩ := h
    exact ⟨[], t, by simp, hb, by intro acc; simp⟩
  | case10 t ts hti hn hw hb => intro as r h; simp at h

/-- ONE ARCHITECTURE LIST, all token lists: whenever the lossy reader's loop accepts the tokens after
    `[`, it has consumed `pre ++ [']']`, and `Relation::architectures()` over an ARCHITECTURES node
    with the children `'[' pre ']'` answers the same list — no exception (hence `a [x!y]` is `x`, `!y`
    for both readers) -/
theorem C10_agree_arch_list (lb : Tok) (hlb : lb.1 ≠ .NOT ∧ lb.1 ≠ .IDENT) (ts : List Tok) (as : List Str)
    (r : List Tok) (h : Lossy.archLoop ts = .ok (as, r)) :
    ∃ pre b, ts = pre ++ b :: r ∧ b.1 = Kind.R_BRACKET ∧
      architectures (.node .RELATION
        [.node .ARCHITECTURES (leaf lb :: pre.map leaf ++ [leaf b])]) = some as := by
  obtain ⟨pre, b, hpre, hb, hf⟩ := arch_list_agree ts as r h
  refine ⟨pre, b, hpre, hb, ?_⟩
  have h1 : ¬ b.1 = Kind.NOT := by rw [hb]; decide
  have h2 : ¬ b.1 = Kind.IDENT := by rw [hb]; decide
  simp only [architectures, firstChildNode, childNodes, List.filter, Node.isNode, Node.kind,
    beq_self_eq_true, Bool.and_self, List.head?, Option.map, Node.children, List.foldl_cons,
    List.foldl_append, List.foldl_nil, leaf, archStep, hlb.1, hlb.2, h1, h2, if_false]
  have := hf []
  simp [this]

example : Lossy.archLoop (lex "x!y z]<".toList) = .ok (["x".toList, "!y".toList, "z".toList], [(.L_ANGLE, ['<'])]) := by
  decide +kernel

end Deb822Verif.Props.C10Agree
