import Deb822Verif.Props.C17
import Deb822Verif.Props.C01
import Deb822Verif.Model.DebAccess
/-!
# C17 at the level of TEXTS: the modelled deb822 reader plugged in

In `Props/C17.lean` the deb822 reader is a parameter (`read : Str → Option Doc`) and the side
condition `Spec.licenceNamed` is justified in prose.  Here the reader is the model of
`Deb822::from_str` / `from_str_relaxed` (`Model/DebParse.lean`) followed by the accessors
`paragraphs()` / `items()` (`Model/DebAccess.lean`), and the statements quantify over every text:

* `C17_reader_licenceNamed`  — no value the reader returns begins with a newline (a value is the
  `\n`-join of VALUE tokens, each a non-empty run starting with a non-newline character), hence
  `licenceNamed` holds of every parsed text, strict or tolerant;
* `C17_gate_has_format`      — a text that passes the gate has a first paragraph and that
  paragraph has a `Format` field (the "or the text has no paragraph" alternative never occurs);
* `C17_lossless_eq_lossy_text` — the two readers agree on every text, under `lossyShape` only;
* `C17_find_files_panic_iff` — the exact panic condition of the lookup.
-/
namespace Deb822Verif.Props.C17Text
open Deb822Verif Text Glob Copyright Deb Node
open Deb822Verif.Props.C17

/-! ## the modelled reader -/

/-- `Deb822::from_str(s)` followed by `paragraphs().map(items)`; `none` = ParseError -/
def readModel (s : Str) : Option Doc :=
  match readStrict s with
  | .ok t => some (docItems t)
  | .error _ => none

/-- `Deb822::from_str_relaxed(s).0`, same view -/
def readModelRelaxed (s : Str) : Doc := docItems (readRelaxed s).1

/-- the strict reader returns the tolerant reader's tree -/
theorem readModel_some {s : Str} {c : Doc} (h : readModel s = some c) : c = readModelRelaxed s := by
  unfold readModel at h
  split at h
  next t ht =>
    have := Props.C01.C01_strict_same_tree s t ht
    simp at h; rw [← h, this]; rfl
  next => simp at h

/-! ## values never begin with a newline -/

/-- a VALUE token is a non-empty run whose first character is not `\n` -/
def ValOK (t : Tok) : Prop := t.1 = .VALUE → ∃ c r, t.2 = c :: r ∧ c ≠ '\n'

theorem lexStep_valOK (st c rest) : ValOK (lexStep st c rest).1 := by
  unfold lexStep ValOK
  (repeat' split) <;> simp_all [isNewline]

theorem lexAux_valOK (st input) : ∀ t ∈ lexAux st input, ValOK t := by
  fun_induction lexAux st input
  case case1 => simp
  case case2 st c rest r ih =>
    intro t ht
    simp only [List.mem_cons] at ht
    rcases ht with rfl | ht
    · exact lexStep_valOK st c rest
    · exact ih t ht

theorem leavesList_mem {κ} {cs : List (Node κ)} {x : Node κ} (hx : x ∈ cs) :
    ∀ l ∈ x.leaves, l ∈ leavesList cs := by
  induction cs with
  | nil => simp at hx
  | cons y ys ih =>
    intro l hl
    simp only [List.mem_cons] at hx
    rcases hx with rfl | hx
    · simp [hl]
    · simp [ih hx l hl]

theorem leaves_child {κ} {n x : Node κ} (hx : x ∈ n.children) : ∀ l ∈ x.leaves, l ∈ n.leaves := by
  cases n with
  | tok k t => simp [children] at hx
  | node k cs => simpa using leavesList_mem (by simpa [children] using hx)

/-- all tokens of a tree satisfy `P` -/
def AllLeaves (P : Tok → Prop) (n : DNode) : Prop := ∀ l ∈ n.leaves, P l

theorem AllLeaves.child {P} {n x : DNode} (h : AllLeaves P n) (hx : x ∈ n.children) : AllLeaves P x :=
  fun l hl => h l (leaves_child hx l hl)

theorem join_head (x : Str) (rest : List Str) (c : Char) (r : Str) (hx : x = c :: r) :
    (Text.join ['\n'] (x :: rest)).head? = some c := by
  cases rest with
  | nil => simp [Text.join, hx]
  | cons y ys => simp [Text.join, hx]

/-- `Entry::value` never begins with a newline when the entry's tokens are lexer tokens -/
theorem entryValue_head {e : DNode} (h : AllLeaves ValOK e) : (entryValue e).head? ≠ some '\n' := by
  unfold entryValue
  cases hl : (e.children.filter (isTokOf .VALUE)).map tokTextOf with
  | nil => simp [Text.join]
  | cons x rest =>
    have hx : x ∈ (e.children.filter (isTokOf .VALUE)).map tokTextOf := by rw [hl]; simp
    simp only [List.mem_map, List.mem_filter] at hx
    obtain ⟨n, ⟨hn, hk⟩, rfl⟩ := hx
    cases n with
    | node k cs => simp [isTokOf] at hk
    | tok k t =>
      have hk' : k = .VALUE := by simpa [isTokOf] using hk
      obtain ⟨c, r, ht, hc⟩ := h (k, t) (leaves_child hn _ (by simp)) hk'
      rw [join_head _ rest c r (by simpa [tokTextOf] using ht)]
      simpa using hc

theorem Para.get_mem {p : Para} {k v : Str} (h : p.get k = some v) : (k, v) ∈ p := by
  induction p with
  | nil => simp [Para.get] at h
  | cons e es ih =>
    simp only [Para.get] at h
    split at h
    · next hk => simp at h; subst hk; subst h; simp
    · simp [ih h]

/-- every value of every paragraph of a tree made of lexer tokens -/
theorem docItems_values {t : DNode} (h : AllLeaves ValOK t) :
    ∀ p ∈ docItems t, ∀ kv ∈ p, kv.2.head? ≠ some '\n' := by
  intro p hp kv hkv
  simp only [docItems, List.mem_map, paragraphs, List.mem_filter] at hp
  obtain ⟨pn, ⟨hpn, _⟩, rfl⟩ := hp
  simp only [items, entries, List.mem_filterMap, List.mem_filter] at hkv
  obtain ⟨e, ⟨he, _⟩, hkv⟩ := hkv
  cases hk : entryKey e with
  | none => simp [hk] at hkv
  | some k =>
    simp [hk] at hkv
    subst hkv
    exact entryValue_head ((h.child hpn).child he)

theorem parse_allLeaves (s : Str) : AllLeaves ValOK (parse s).tree := by
  intro l hl
  rw [Props.C01.C01_tokens_once] at hl
  exact lexAux_valOK _ _ l hl

/-- **no value of the reader begins with a newline**: for every text, every paragraph, every
    field — strict or tolerant reader (`Paragraph::get` / `items()` return `\n`-joins of VALUE
    tokens; a VALUE token is a non-empty run of characters the first of which is not a line end) -/
theorem C17_reader_values (s : Str) :
    ∀ p ∈ readModelRelaxed s, ∀ kv ∈ p, kv.2.head? ≠ some '\n' :=
  docItems_values (parse_allLeaves s)

theorem licenceNamed_of_values {c : Doc} (h : ∀ p ∈ c, ∀ kv ∈ p, kv.2.head? ≠ some '\n') :
    Spec.licenceNamed c = true := by
  simp only [Spec.licenceNamed, List.all_eq_true]
  intro p hp
  have hpc : p ∈ c := by
    simp only [Spec.standalone, List.mem_filter] at hp
    exact List.mem_of_mem_drop hp.1
  cases hg : p.get kLicense with
  | none => simp
  | some v =>
    have := h p hpc _ (Para.get_mem hg)
    simpa using this

/-- **C17, `licenceNamed` is a theorem of the reader** (tolerant reader, every text) -/
theorem C17_reader_licenceNamed_relaxed (s : Str) : Spec.licenceNamed (readModelRelaxed s) = true :=
  licenceNamed_of_values (C17_reader_values s)

/-- **C17, `licenceNamed` is a theorem of the reader** (strict reader, every accepted text) -/
theorem C17_reader_licenceNamed (s : Str) (c : Doc) (h : readModel s = some c) :
    Spec.licenceNamed c = true := by
  rw [readModel_some h]; exact C17_reader_licenceNamed_relaxed s

/-! ## a text that passes the gate has a header paragraph with a Format field -/

theorem lex_format (rest : Str) :
    lex (['F', 'o', 'r', 'm', 'a', 't', ':'] ++ rest) =
      (.KEY, ['F', 'o', 'r', 'm', 'a', 't']) :: (.COLON, [':']) ::
        lexAux { sol := false, colon := 1, indent := 0 } rest := by
  simp [lex, initState, lexAux, lexStep, isNewline, isIndent, isInitialKeyChar, isKeyChar]

theorem skipWsNl_key (k : Str) (ts : List Tok) :
    skipWsNl ((.KEY, k) :: ts) = ([], (.KEY, k) :: ts) := by
  rw [skipWsNl]; simp [isBlankStart]

theorem parseEntry_key (k c : Str) (ts : List Tok) :
    ∃ X, (parseEntry ((.KEY, k) :: (.COLON, c) :: ts)).nodes =
      [Node.node .ENTRY (Node.tok .KEY k :: X)] := by
  have hc := commentLoop_id (.KEY, k) ((.COLON, c) :: ts) (by simp)
  simp only [parseEntry, hc, endsParagraph]
  simp [entryBody, keyPart, skipWs, tk]

theorem paraLoop_key (k c : Str) (ts : List Tok) :
    ∃ X Y, (paraLoop ((.KEY, k) :: (.COLON, c) :: ts)).nodes =
      Node.node .ENTRY (Node.tok .KEY k :: X) :: Y := by
  obtain ⟨X, hX⟩ := parseEntry_key k c ts
  rw [paraLoop]
  simp only [show ¬ ((Kind.KEY, k).1 = Kind.NEWLINE) by simp, ↓reduceDIte, hX]
  exact ⟨X, _, rfl⟩

theorem rootLoop_key (k c : Str) (ts : List Tok) :
    ∃ X Y Z, (rootLoop ((.KEY, k) :: (.COLON, c) :: ts)).nodes =
      Node.node .PARAGRAPH (Node.node .ENTRY (Node.tok .KEY k :: X) :: Y) :: Z := by
  obtain ⟨X, Y, hXY⟩ := paraLoop_key k c ts
  rw [rootLoop]
  split
  next h => rw [skipWsNl_key] at h; simp at h
  next t r h =>
    rw [skipWsNl_key] at h
    simp only [List.cons.injEq] at h
    obtain ⟨rfl, rfl⟩ := h
    simp only [skipWsNl_key, hXY]
    exact ⟨X, Y, _, rfl⟩

/-- the first paragraph of a tree whose first child is a PARAGRAPH starting with an ENTRY that
    starts with the KEY token `k` has the field `k` -/
theorem docItems_first (k : Str) (X Y Z : List DNode) :
    docItems (Node.node .ROOT
        (Node.node .PARAGRAPH (Node.node .ENTRY (Node.tok .KEY k :: X) :: Y) :: Z)) =
      ((k, entryValue (Node.node .ENTRY (Node.tok .KEY k :: X))) ::
        items (Node.node .PARAGRAPH Y)) :: docItems (Node.node .ROOT Z) := by
  simp [docItems, paragraphs, children, isNode, kind, items, entries, entryKey, isTokOf, tokTextOf]

/-- **C17, behind the gate the header has its Format field** (tolerant reader, hence also the
    strict one): a text that starts with `Format:` has at least one paragraph, and the first
    field of the first paragraph is `Format`. The alternative "the text has no paragraph" of the
    lossy reader (`No paragraphs`) and `missing field: Format` are unreachable behind the gate. -/
theorem C17_gate_has_format_relaxed (s : Str) (hg : gate s = true) :
    ∃ h rest, readModelRelaxed s = h :: rest ∧ (h.get kFormat).isSome = true := by
  obtain ⟨t, rfl⟩ : ∃ t, s = ['F', 'o', 'r', 'm', 'a', 't', ':'] ++ t := by
    have : formatPrefix <+: s := by simpa [gate, startsWith] using hg
    obtain ⟨t, ht⟩ := this
    exact ⟨t, by rw [← ht]; rfl⟩
  obtain ⟨X, Y, Z, h⟩ := rootLoop_key ['F', 'o', 'r', 'm', 'a', 't'] [':']
    (lexAux { sol := false, colon := 1, indent := 0 } t)
  have hd := docItems_first ['F', 'o', 'r', 'm', 'a', 't'] X Y Z
  have e : readModelRelaxed (['F', 'o', 'r', 'm', 'a', 't', ':'] ++ t) =
      ((['F', 'o', 'r', 'm', 'a', 't'],
          entryValue (Node.node .ENTRY (Node.tok .KEY ['F', 'o', 'r', 'm', 'a', 't'] :: X))) ::
        items (Node.node .PARAGRAPH Y)) :: docItems (Node.node .ROOT Z) := by
    simp only [readModelRelaxed, readRelaxed, parse, parseTokens, lex_format, h]
    exact hd
  exact ⟨_, _, e, by simp [Para.get, kFormat]⟩

theorem C17_gate_has_format (s : Str) (c : Doc) (hg : gate s = true) (hr : readModel s = some c) :
    ∃ h rest, c = h :: rest ∧ (h.get kFormat).isSome = true := by
  rw [readModel_some hr]; exact C17_gate_has_format_relaxed s hg

/-- the condition left on a parsed text: every paragraph after the first is a Files paragraph
    with License and Copyright, or a stand-alone licence paragraph (decidable on the list) -/
def tailShape (c : Doc) : Bool := (c.drop 1).all Spec.shapePara

theorem lossyShape_of_gate (s : Str) (c : Doc) (hg : gate s = true) (hr : readModel s = some c) :
    Spec.lossyShape c = tailShape c := by
  obtain ⟨h, rest, rfl, hf⟩ := C17_gate_has_format s c hg hr
  simp [Spec.lossyShape, tailShape, hf]

/-- **C17, the lossy reader accepts exactly** the texts that pass the gate, parse, and whose
    paragraphs after the header are Files paragraphs (with License and Copyright) or stand-alone
    licence paragraphs — no condition on the header is left -/
theorem C17_lossy_accepts_iff_text (s : Str) :
    (∃ cr, Lossy.fromStr readModel s = .ok cr) ↔
      gate s = true ∧ ∃ c, readModel s = some c ∧ tailShape c = true := by
  rw [C17_lossy_accepts_iff]
  constructor
  · rintro ⟨hg, c, hr, hs⟩
    exact ⟨hg, c, hr, by rw [← lossyShape_of_gate s c hg hr]; exact hs⟩
  · rintro ⟨hg, c, hr, hs⟩
    exact ⟨hg, c, hr, by rw [lossyShape_of_gate s c hg hr]; exact hs⟩

/-- **C17, "the lossless and lossy readers give the same answers", for TEXTS.** For every text
    that passes the gate, every path: if the strict deb822 reader accepts the text and the
    paragraph list has the lossy shape (decidable on the parsed list; by `lossyShape_of_gate` only
    its `tailShape` part is a condition), both readers accept, the lossy reader finds the
    conversion of the very Files paragraph the lossless reader finds, and both return the same
    licence — panics included. `licenceNamed` is no longer a hypothesis. -/
theorem C17_lossless_eq_lossy_text (s : Str) (c : Doc) (path : Str)
    (hg : gate s = true) (hr : readModel s = some c) (hshape : Spec.lossyShape c = true) :
    ∃ cr, Lossy.fromStr readModel s = .ok cr ∧ Lossless.fromStr readModel s = .ok c ∧
      Lossy.findFiles cr path = (Lossless.findFiles c path).map (·.map convF) ∧
      Lossy.findLicenseForFile cr path = Lossless.findLicenseForFile c path :=
  C17_lossless_eq_lossy readModel s c path hg hr hshape (C17_reader_licenceNamed s c hr)

/-- every text is in one of four classes, alike for both readers -/
theorem C17_text_cases (s : Str) :
    (gate s = false ∧ Lossless.fromStr readModel s = .error .notMachineReadable ∧
      Lossy.fromStr readModel s = .error .notMachineReadable) ∨
    (gate s = true ∧ readModel s = none ∧ Lossless.fromStr readModel s = .error .parseError ∧
      Lossy.fromStr readModel s = .error .parseError) ∨
    (∃ c, gate s = true ∧ readModel s = some c ∧ tailShape c = false ∧
      Lossless.fromStr readModel s = .ok c ∧ ∀ cr, Lossy.fromStr readModel s ≠ .ok cr) ∨
    (∃ c cr, gate s = true ∧ readModel s = some c ∧ tailShape c = true ∧
      Lossless.fromStr readModel s = .ok c ∧ Lossy.fromStr readModel s = .ok cr ∧
      ∀ path, Lossy.findFiles cr path = (Lossless.findFiles c path).map (·.map convF) ∧
        Lossy.findLicenseForFile cr path = Lossless.findLicenseForFile c path) := by
  cases hg : gate s with
  | false =>
    left
    have := C17_gate s hg readModel (fun _ => [])
    exact ⟨rfl, this.1, this.2.2⟩
  | true =>
    right
    cases hr : readModel s with
    | none =>
      left
      have := C17_parse_error_alike readModel s hg hr
      exact ⟨rfl, rfl, this.1, this.2⟩
    | some c =>
      right
      cases hs : tailShape c with
      | false =>
        left
        refine ⟨c, rfl, rfl, hs, by simp [Lossless.fromStr, hg, hr], ?_⟩
        intro cr hcr
        have := (C17_lossy_accepts_iff_text s).1 ⟨cr, hcr⟩
        obtain ⟨_, c', hr', hs'⟩ := this
        rw [hr] at hr'; cases hr'; rw [hs] at hs'; cases hs'
      | true =>
        right
        have hshape : Spec.lossyShape c = true := by rw [lossyShape_of_gate s c hg hr]; exact hs
        obtain ⟨cr, h1, h2, _⟩ := C17_lossless_eq_lossy_text s c [] hg hr hshape
        refine ⟨c, cr, rfl, rfl, hs, h2, h1, ?_⟩
        intro path
        obtain ⟨cr', h1', _, h3, h4⟩ := C17_lossless_eq_lossy_text s c path hg hr hshape
        rw [h1] at h1'; cases h1'
        exact ⟨h3, h4⟩

/-! ### non-vacuity: a real text through the modelled reader -/

def exText : Str :=
  "Format: x\n\nFiles: *\nCopyright: c\nLicense: MIT\n\nFiles: a/*\nCopyright: d\nLicense: GPL\n\nLicense: GPL\n text\n".toList

example : gate exText = true := by decide +kernel
example : (readModel exText).isSome = true := by decide +kernel
example : (readModel exText).all (fun c => Spec.lossyShape c && tailShape c &&
    decide (Lossless.findLicenseForFile c "a/b".toList
      = .ok (some (.named "GPL".toList "text".toList)))) = true := by decide +kernel

/-! ## the exact panic condition of the lookup -/

theorem matchGlob_panic_iff (g p : Str) : (matchGlob g p).isOk = false ↔ validEscapes g = false := by
  rw [← C17_glob_panic_iff]
  unfold matchGlob
  cases globToRegex g <;> simp [Outcome.map, Outcome.isOk]

/-- `any` short-circuits: it panics exactly when a pattern with an invalid escape is reached
    after a run of patterns that were each compiled and did not match -/
theorem anyMatch_panic_iff (gs : List Str) (path : Str) :
    (anyMatch gs path).isOk = false ↔
      ∃ pre g post, gs = pre ++ g :: post ∧ validEscapes g = false ∧
        ∀ x ∈ pre, matchGlob x path = .ok false := by
  induction gs with
  | nil => simp [anyMatch, Outcome.isOk]
  | cons g rest ih =>
    simp only [anyMatch]
    cases hm : matchGlob g path with
    | panic site =>
      have hv : validEscapes g = false := (matchGlob_panic_iff g path).1 (by simp [hm, Outcome.isOk])
      simp only [Outcome.isOk, true_iff]
      exact ⟨[], g, rest, rfl, hv, by simp⟩
    | ok b =>
      have hv : validEscapes g = true := by
        cases h : validEscapes g with
        | true => rfl
        | false => have := (matchGlob_panic_iff g path).2 h; simp [hm, Outcome.isOk] at this
      cases b with
      | true =>
        simp only [Outcome.isOk, Bool.true_eq_false, false_iff]
        rintro ⟨pre, g', post, he, hg', hpre⟩
        cases pre with
        | nil => simp at he; rw [← he.1, hv] at hg'; cases hg'
        | cons x xs =>
          simp at he
          have := hpre x (by simp)
          rw [← he.1, hm] at this; cases this
      | false =>
        simp only []
        rw [ih]
        constructor
        · rintro ⟨pre, g', post, he, hg', hpre⟩
          refine ⟨g :: pre, g', post, by simp [he], hg', ?_⟩
          intro x hx
          simp only [List.mem_cons] at hx
          rcases hx with rfl | hx
          · exact hm
          · exact hpre x hx
        · rintro ⟨pre, g', post, he, hg', hpre⟩
          cases pre with
          | nil => simp at he; rw [← he.1, hv] at hg'; cases hg'
          | cons x xs =>
            simp at he
            exact ⟨xs, g', post, he.2, hg', fun y hy => hpre y (by simp [hy])⟩

/-- `filter(pred)` driven to the end panics exactly when the predicate panics on some element
    (every element before it is evaluated, whatever it answers) -/
theorem filterO_panic_iff {α} (f : α → Outcome Bool) (l : List α) :
    (filterO f l).isOk = false ↔ ∃ a ∈ l, (f a).isOk = false := by
  induction l with
  | nil => simp [filterO, Outcome.isOk]
  | cons a as ih =>
    simp only [filterO]
    cases hf : f a with
    | panic s => simp [Outcome.isOk, hf]
    | ok b =>
      cases hr : filterO f as with
      | panic s =>
        have := ih.1 (by simp [hr, Outcome.isOk])
        obtain ⟨x, hx, hxp⟩ := this
        simp only [Outcome.isOk, true_iff]
        exact ⟨x, by simp [hx], hxp⟩
      | ok r =>
        have hn : ¬ ∃ x ∈ as, (f x).isOk = false := by
          intro h; have := ih.2 h; simp [hr, Outcome.isOk] at this
        simp only [Outcome.isOk, Bool.true_eq_false, false_iff]
        rintro ⟨x, hx, hxp⟩
        simp only [List.mem_cons] at hx
        rcases hx with rfl | hx
        · simp [hf] at hxp
        · exact hn ⟨x, hx, hxp⟩

theorem paraMatches_of_files {fp : Para} (h : fp ∈ Spec.filesParas c) (path : Str) :
    Lossless.paraMatches fp path = anyMatch (Spec.patterns fp) path := by
  obtain ⟨v, hv⟩ : ∃ v, fp.get kFiles = some v := by
    simp only [Spec.filesParas, List.mem_filter, Para.containsKey] at h
    exact Option.isSome_iff_exists.1 h.2
  simp [Lossless.paraMatches, Lossless.files, Spec.patterns, hv]

/-- **C17, the exact panic condition of `find_files`** (lossless view; every paragraph list,
    every path — newline or not): the lookup panics exactly when SOME Files paragraph after the
    header — not necessarily one that would match, nor the last — has a pattern with an invalid
    escape that is reached by the `any`, i.e. all patterns before it in the same field were
    compiled and did not match. `Files: x \` answers for path `x` and panics for path `y`; one bad
    pattern anywhere poisons the lookup of unrelated paths (`C17_panic_poisons`). -/
theorem C17_find_files_panic_iff (c : Doc) (path : Str) :
    (Lossless.findFiles c path).isOk = false ↔
      ∃ fp ∈ Spec.filesParas c, ∃ pre g post, Spec.patterns fp = pre ++ g :: post ∧
        validEscapes g = false ∧ ∀ x ∈ pre, matchGlob x path = .ok false := by
  have h1 : (Lossless.findFiles c path).isOk =
      (filterO (Lossless.paraMatches · path) (Lossless.iterFiles c)).isOk := by
    unfold Lossless.findFiles
    cases filterO (Lossless.paraMatches · path) (Lossless.iterFiles c) <;> simp [Outcome.map, Outcome.isOk]
  rw [h1, filterO_panic_iff]
  constructor
  · rintro ⟨fp, hfp, hp⟩
    have hfp' : fp ∈ Spec.filesParas c := hfp
    rw [paraMatches_of_files hfp', anyMatch_panic_iff] at hp
    exact ⟨fp, hfp', hp⟩
  · rintro ⟨fp, hfp, hp⟩
    refine ⟨fp, hfp, ?_⟩
    rw [paraMatches_of_files hfp, anyMatch_panic_iff]
    exact hp

/-- "compiled and did not match", in the property's terms (newline-free path) -/
theorem matchGlob_false_iff (x path : Str) (hp : '\n' ∉ path) :
    matchGlob x path = .ok false ↔ validEscapes x = true ∧ ¬ GlobSpec.Matches x path := by
  cases hv : validEscapes x with
  | false =>
    have := (matchGlob_panic_iff x path).2 hv
    constructor
    · intro h; simp [h, Outcome.isOk] at this
    · rintro ⟨h, _⟩; cases h
  | true =>
    obtain ⟨b, hb⟩ := C17_glob_total x path hv
    have := C17_glob x path hv hp
    rw [hb] at this ⊢
    cases b <;> simp_all

/-- `find_license_for_file` panics exactly when `find_files` does -/
theorem C17_find_license_panic_iff (c : Doc) (path : Str) :
    (Lossless.findLicenseForFile c path).isOk = false ↔ (Lossless.findFiles c path).isOk = false := by
  cases h : Lossless.findFiles c path with
  | panic s => simp [Lossless.findLicenseForFile, h, Outcome.isOk]
  | ok o => rw [lossless_license_of_found c path o h]; simp [Outcome.isOk]

/-- the lossy view panics on exactly the same (file, path) pairs -/
theorem C17_find_files_panic_iff_lossy (s : Str) (c : Doc) (cr : Lossy.Copyright) (path : Str)
    (hr : readModel s = some c) (hacc : Lossy.fromStr readModel s = .ok cr) :
    (Lossy.findFiles cr path).isOk = (Lossless.findFiles c path).isOk ∧
    (Lossy.findLicenseForFile cr path).isOk = (Lossless.findFiles c path).isOk := by
  obtain ⟨_, hff, hl⟩ := C17_lossless_eq_lossy_of_accepted readModel s c cr path hr hacc
    (C17_reader_licenceNamed s c hr)
  rw [hff, hl]
  cases h : Lossless.findFiles c path with
  | panic st => simp [Lossless.findLicenseForFile, h, Outcome.isOk, Outcome.map]
  | ok o => rw [lossless_license_of_found c path o h]; simp [Outcome.isOk, Outcome.map]

/-! ### witnesses -/

def poisonText : Str :=
  "Format: x\n\nFiles: x \\\nCopyright: c\nLicense: A\n\nFiles: *\nCopyright: d\nLicense: B\n t\n".toList

/-- `Files: x \` followed by `Files: *`: path `x` is answered (the `any` stops at `x`, the
    backslash is never compiled; the last matching paragraph `*` wins), every other path panics
    although the later paragraph `*` matches it — in both views, for a text through the reader -/
theorem C17_panic_poisons :
    (readModel poisonText).all (fun c =>
      decide (Lossless.findLicenseForFile c "x".toList = .ok (some (.named "B".toList "t".toList))) &&
      !(Lossless.findFiles c "y".toList).isOk && !(Lossless.findFiles c "zzz/unrelated".toList).isOk &&
      !(Lossless.findLicenseForFile c "y".toList).isOk) = true ∧
    (readModel poisonText).isSome = true ∧
    (match Lossy.fromStr readModel poisonText with
      | .ok cr => (Lossy.findFiles cr "x".toList).isOk && !(Lossy.findFiles cr "y".toList).isOk
      | .error _ => false) = true := by
  refine ⟨?_, ?_, ?_⟩ <;> decide +kernel

example : ∃ fp ∈ Spec.filesParas [C17.hdr, C17.fpara "x \\" "A"], ∃ pre g post,
    Spec.patterns fp = pre ++ g :: post ∧ validEscapes g = false ∧
      ∀ x ∈ pre, matchGlob x "y".toList = .ok false :=
  ⟨C17.fpara "x \\" "A", by decide +kernel, ["x".toList], "\\".toList, [], by decide +kernel,
    by decide +kernel, by decide +kernel⟩

/-! ## the copyright holders of the paragraph found (observable `cpr=` of `cpr.find`) -/

/-- on every accepted text the lossy view stores, for the paragraph it finds, the
    `deserialize_copyrights` reading of the Copyright field of the paragraph the lossless view
    finds: the lines of the field, and NO holder for an empty field — where the lossless
    `copyright()` returns one empty holder (`C17_copyright_empty_witness`) -/
theorem C17_found_copyright (s : Str) (c : Doc) (cr : Lossy.Copyright) (path : Str)
    (hr : readModel s = some c) (hacc : Lossy.fromStr readModel s = .ok cr) :
    Lossy.foundCopyright cr path = (Lossless.findFiles c path).map
      (·.map fun fp => Lossy.deserializeCopyrights ((fp.get kCopyright).getD [])) := by
  obtain ⟨_, hff, _⟩ := C17_lossless_eq_lossy_of_accepted readModel s c cr path hr hacc
    (C17_reader_licenceNamed s c hr)
  unfold Lossy.foundCopyright
  rw [hff]
  cases Lossless.findFiles c path with
  | panic st => rfl
  | ok o => cases o <;> simp [Outcome.map, convF]

/-- the two views agree on the holders exactly when the field is not empty -/
theorem deserializeCopyrights_eq (v : Str) (hv : v ≠ []) :
    Lossy.deserializeCopyrights v = splitOn '\n' v := by
  simp [Lossy.deserializeCopyrights, hv]

def emptyCprText : Str := "Format: x\n\nFiles: *\nCopyright:\nLicense: MIT\n".toList

/-- `Copyright:` with nothing after it: lossless `copyright()` = `[""]`, lossy `copyright` = `[]`
    (lossy.rs:163-169) — an observable difference between the views outside the lookup -/
theorem C17_copyright_empty_witness :
    (readModel emptyCprText).all (fun c =>
      decide (Lossless.foundCopyright c "q".toList = .ok (some [[]]))) = true ∧
    (match Lossy.fromStr readModel emptyCprText with
      | .ok cr => decide (Lossy.foundCopyright cr "q".toList = .ok (some []))
      | .error _ => false) = true := by
  refine ⟨?_, ?_⟩ <;> decide +kernel

example : (match Lossy.fromStr readModel exText with | .ok _ => true | .error _ => false) = true ∧
    (readModel exText).isSome = true := ⟨by decide +kernel, by decide +kernel⟩

end Deb822Verif.Props.C17Text
