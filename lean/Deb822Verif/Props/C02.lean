import Deb822Verif.Model.DebParse
import Deb822Verif.Model.DebLossy
import Deb822Verif.Model.DebAccess
import Deb822Verif.Props.C01
import Deb822Verif.Props.C06
import Deb822Verif.Props.C09
/-!
# C02 — every text-parsing entry point is total

What a theorem can say here: every modelled entry point is a *total* Lean function defined by
structural or well-founded recursion on the remaining input (no fuel, termination proved at
definition time), with *no panic branch that is reachable*, and its work is bounded linearly by the
input length (token count ≤ character count; the tree holds each token once). Wall-clock time,
stack and memory are runtime behaviour: measured by the harness, not proved.
-/
namespace Deb822Verif.Props.C02
open Deb822Verif Deb Node

/-- a list of non-empty pieces is no longer than their concatenation -/
theorem length_le_of_nonempty {κ} (ts : List (κ × Str)) (h : ∀ t ∈ ts, t.2 ≠ []) :
    ts.length ≤ (tokText ts).length := by
  induction ts with
  | nil => simp
  | cons t ts ih =>
    have h1 : t.2 ≠ [] := h t (by simp)
    have h2 := ih (fun x hx => h x (by simp [hx]))
    have : 0 < t.2.length := List.length_pos_iff.mpr h1
    simp only [tokText_cons, List.length_cons, List.length_append]; omega

/-- deb822 lexer: at most one token per character (the lexer loop runs ≤ |s| times) -/
theorem C02_deb_lex_bound (s : Str) : (lex s).length ≤ s.length := by
  have h := C01.C01_lex_partition s
  have := length_le_of_nonempty (lex s) h.2
  rw [h.1] at this; exact this

/-- lossless deb822 reader: the tree holds exactly the tokens, at most one per character.  This bounds
    the SIZE of the result, not the work (it would hold of a parser that rescans its input): the
    work bound — rounds of every loop, counted by an instrumented twin — is
    `Props.C02Work.C02_deb_parse_work` -/
theorem C02_deb_parse_bound (s : Str) : (parse s).tree.leaves.length ≤ s.length := by
  rw [C01.C01_tokens_once]; exact C02_deb_lex_bound s

/-! the lossy reader's only panic site left (`unreachable!()` for composite kinds) is dead -/

theorem firstLine_err (val ts e) (h : Lossy.firstLine val ts = .error e) : e = .UnexpectedToken := by
  induction ts generalizing val with
  | nil => simp [Lossy.firstLine] at h
  | cons t ts ih =>
    obtain ⟨k, s⟩ := t
    simp only [Lossy.firstLine] at h
    split at h
    · exact ih _ h
    · split at h
      · simp at h
      · simp at h; exact h.symm

theorem contLine_err (acc ts e) (h : Lossy.contLine acc ts = .error e) : e = .UnexpectedToken := by
  induction ts generalizing acc with
  | nil => simp [Lossy.contLine] at h
  | cons t ts ih =>
    obtain ⟨k, s⟩ := t
    simp only [Lossy.contLine] at h
    split at h
    · exact ih _ h
    · split at h
      · exact ih _ h
      · split at h
        · simp at h
        · split at h
          · simp at h
          · simp at h; exact h.symm

theorem contLines_err (acc ts e) (h : Lossy.contLines acc ts = .error e) : e = .UnexpectedToken := by
  fun_induction Lossy.contLines acc ts
  all_goals first
    | (simp at h; done)
    | skip
  · rename_i he; simp at h; rw [← h]; exact contLine_err _ _ _ he
  · rename_i ih; exact ih h

theorem fieldValue_err (ts e) (h : Lossy.fieldValue ts = .error e) :
    e = .UnexpectedToken ∨ e = .UnexpectedEof := by
  cases ts with
  | nil => simp [Lossy.fieldValue] at h; exact Or.inr h.symm
  | cons t ts1 =>
    obtain ⟨k, s⟩ := t
    simp only [Lossy.fieldValue] at h
    split at h
    · split at h
      · rename_i e1 h1; simp at h; rw [← h]; exact Or.inl (firstLine_err _ _ _ h1)
      · split at h
        · rename_i e2 h2; simp at h; rw [← h]; exact Or.inl (contLines_err _ _ _ h2)
        · simp at h
    · simp at h; exact Or.inl h.symm

theorem skipComment_mem (ts : List Tok) : ∀ t ∈ Lossy.skipComment ts, t ∈ ts := by
  induction ts with
  | nil => simp [Lossy.skipComment]
  | cons x xs ih =>
    obtain ⟨k, s⟩ := x
    intro t ht
    simp only [Lossy.skipComment] at ht
    split at ht
    · simp [ht]
    · simp [ih t ht]

theorem firstLine_suffix (val ts v r) (h : Lossy.firstLine val ts = .ok (v, r)) : r <:+ ts := by
  induction ts generalizing val with
  | nil => simp [Lossy.firstLine] at h; simp [h.2]
  | cons t ts ih =>
    obtain ⟨k, s⟩ := t
    simp only [Lossy.firstLine] at h
    split at h
    · exact (ih _ h).trans (List.suffix_cons _ _)
    · split at h
      · simp at h; rw [← h.2]; exact List.suffix_cons _ _
      · simp at h

theorem contLine_suffix (acc ts v r) (h : Lossy.contLine acc ts = .ok (v, r)) : r <:+ ts := by
  induction ts generalizing acc with
  | nil => simp [Lossy.contLine] at h; simp [h.2]
  | cons t ts ih =>
    obtain ⟨k, s⟩ := t
    simp only [Lossy.contLine] at h
    split at h
    · exact (ih _ h).trans (List.suffix_cons _ _)
    · split at h
      · exact (ih _ h).trans (List.suffix_cons _ _)
      · split at h
        · simp at h; rw [← h.2]; exact List.suffix_cons _ _
        · split at h
          · simp at h; rw [← h.2]; exact List.suffix_refl _
          · simp at h

theorem contLines_suffix (acc ts v r) (h : Lossy.contLines acc ts = .ok (v, r)) : r <:+ ts := by
  fun_induction Lossy.contLines acc ts
  all_goals first
    | (simp at h; done)
    | (simp at h; rw [← h.2]; done)
    | (simp at h; rw [← h.2]; exact List.suffix_refl _)
    | skip
  rename_i he ih
  exact ((ih h).trans (contLine_suffix _ _ _ _ he)).trans (List.suffix_cons _ _)

theorem fieldValue_suffix (ts v r) (h : Lossy.fieldValue ts = .ok (v, r)) : r <:+ ts := by
  cases ts with
  | nil => simp [Lossy.fieldValue] at h
  | cons t ts1 =>
    obtain ⟨k, s⟩ := t
    simp only [Lossy.fieldValue] at h
    split at h
    · split at h
      · simp at h
      · rename_i v1 ts3 h1
        split at h
        · simp at h
        · rename_i v2 ts4 h2
          simp at h
          rw [← h.2]
          exact (((contLines_suffix _ _ _ _ h2).trans (firstLine_suffix _ _ _ _ h1)).trans
            (List.dropWhile_suffix _)).trans (List.suffix_cons _ _)
    · simp at h

/-- on tokens of the 8 token kinds the lossy loop never takes its `unreachable!()` arm -/
theorem loop_no_unreachable (paras cur ts) (h : ∀ t ∈ ts, C06.isTokenKind t.1 = true) :
    Lossy.loop paras cur ts ≠ .error .Unreachable := by
  fun_induction Lossy.loop paras cur ts
  all_goals first
    | (simp; done)
    | skip
  -- composite kinds cannot occur
  all_goals first
    | (exfalso; have := h _ (List.mem_cons_self ..); simp [C06.isTokenKind] at this; done)
    | skip
  · rename_i ih; exact ih (fun t ht => h t (by simp [ht]))
  · rename_i e he
    rcases fieldValue_err _ _ he with rfl | rfl <;> simp
  · rename_i v rest he ih
    exact ih (fun t ht => h t (List.mem_cons_of_mem _ ((fieldValue_suffix _ _ _ he).subset ht)))
  · rename_i ih; exact ih (fun t ht => h t (List.mem_cons_of_mem _ (skipComment_mem _ t ht)))
  · rename_i ih; exact ih (fun t ht => h t (by simp [ht]))

/-- lossy deb822 reader: returns a document or one of its three error values — its remaining
    panic site is unreachable -/
theorem C02_deb_lossy_no_panic (s : Str) : Lossy.read s ≠ .error .Unreachable :=
  loop_no_unreachable _ _ _ (C06.C06_lex_kinds _ s)

theorem C02_deb_lossy_para_no_panic (s : Str) : Lossy.readPara s ≠ .error .Unreachable := by
  unfold Lossy.readPara; repeat' split
  all_goals simp

/-- relationship fields: at most one token per character, and the parser's root loop consumes
    every token (the same holds for `allow_substvar` true and false).  `C02_rel_parse_bound` below
    bounds the SIZE of the result; the work bound is `Props.C02Work.C02_rel_parse_work` -/
theorem C02_rel_lex_bound (s : Str) : (Rel.lex s).length ≤ s.length := by
  have h := C09.C09_lex_partition s
  have := length_le_of_nonempty (Rel.lex s) h.2
  rw [h.1] at this; exact this

theorem C02_rel_parse_bound (s : Str) (allow : Bool) :
    (Rel.parseTokens allow (Rel.lex s)).tree.leaves.length ≤ s.length := by
  rw [C09.C09_tokens_once]; exact C02_rel_lex_bound s

end Deb822Verif.Props.C02
