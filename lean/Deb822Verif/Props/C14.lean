import Deb822Verif.Lemmas.RelCanonField
import Deb822Verif.Lemmas.RelBuildConv
import Deb822Verif.Props.C10
/-!
# C14 — lossy relations round-trip through text and convert faithfully to lossless

Domain: `RelSpec.ValidR` / `ValidRs` (Spec/RelCanon.lean) — lossy values assembled from valid
components: identifier characters as the lexer defines them for the package name, the architecture
qualifier, the architecture names (possibly with a leading `!`) and the profile names; a version
that prints as a well-formed version text; every entry of a `Relations` value non-empty.

Printer: `Lossy.showRelation(s)`; readers: `Lossy.readRelation(s)` and the lossless reader +
accessors; conversions: `Build.toLossless` (`From<lossy::Relation> for lossless::Relation`, through
`RelationBuilder`) and `Build.toLossy` (`From<lossless::Relation> for lossy::Relation`).

All clauses are full statements. The text clauses go through the canonical-layout field of
Spec/RelCanon and C10; the conversion clauses rest on `toLossless_canon`: since fixes a67c3a1 /
6949717 `RelationBuilder::build` produces exactly the tree the parser produces for the printed text.
The two former departures (F-C14-1 ` []` appended for `architectures: None`; F-C14-2 panic for two or
more profile groups) are fixed; their witnesses are the regression theorems `C14_fixed_*`.
The text clauses hold on `ValidR` / `ValidRs`, which accept an EMPTY architecture list (`Some(vec![])`
prints ` []` and reads back). The conversion clauses need the strong variant `ValidRS`: the lossless
setters treat an empty list as "no list", so `Some([])` converts to `a` and back to `None`
(`C14_convert_needs_nonempty_archs`).
-/
namespace Deb822Verif.Props.C14
open Deb822Verif Rel Node RelSpec Lossy Build
open Deb822Verif.Props.C10

/-! ### printing and reading back -/

/-- `lossy::Relations::from_str(&rs.to_string()) == Ok(rs)` -/
theorem C14_roundtrip (rs : List (List Lossy.Relation)) (h : ValidRs rs) :
    Lossy.readRelations (Lossy.showRelations rs) = .ok rs := by
  rw [← canon_str, C10_lossy (canon rs) (canon_wf rs h) (canon_noSubstvar rs), canon_view rs h]

/-- `lossy::Relation::from_str(&r.to_string()) == Ok(r)` -/
theorem C14_roundtrip_rel (r : Lossy.Relation) (h : ValidR r) :
    Lossy.readRelation (Lossy.showRelation r) = .ok r := by
  have hok := canonRel_ok r h
  have hlex : lex (canonRel r).str = (canonRel r).toks := by
    simpa [lex_nil] using lex_rel (canonRel r) [] hok (headFails_nil _)
  rw [← canonRel_str, Lossy.readRelation, hlex, readRelationToks_rel _ hok, canonRel_view r h]

/-- the lossless reader (strict, or tolerant with either setting) reads the printed text without
    error and its accessors give back the value -/
theorem C14_lossless_reads_same (rs : List (List Lossy.Relation)) (h : ValidRs rs) (allow : Bool) :
    (readRelaxed (Lossy.showRelations rs) allow).2 = []
      ∧ accEntries (readRelaxed (Lossy.showRelations rs) allow).1 = some rs
      ∧ substvars (readRelaxed (Lossy.showRelations rs) allow).1 = []
      ∧ (∃ t, readStrict (Lossy.showRelations rs) = .ok t) := by
  have hwf := canon_wf rs h
  have hns := canon_noSubstvar rs
  obtain ⟨e, hv, hsv⟩ := C10_lossless (canon rs) hwf allow (Or.inr hns)
  rw [canon_str] at e hv hsv
  refine ⟨by rw [e], by rw [hv, canon_view rs h], ?_, ?_⟩
  · rw [hsv]
    simp only [FieldA.substvars]
    rw [List.filterMap_eq_nil_iff]
    intro s hs
    have : s.entry.isSubstvar = false := by
      have := hns
      simp only [FieldA.hasSubstvar, List.any_eq_false] at this
      simpa using this s hs
    cases hen : s.entry <;> simp_all [EntryA.substText, EntryA.isSubstvar]
  · exact ⟨_, by rw [← canon_str]; exact C10_strict (canon rs) hwf hns⟩

/-! ### conversion lossy → lossless → lossy -/

/-- the builder produces the tree the parser produces for the printed text -/
theorem C14_convert_tree (r : Lossy.Relation) (h : ValidRS r) : toLossless r = (canonRel r).node [] :=
  toLossless_canon r h

/-- the lossless form prints the same text as the lossy one -/
theorem C14_convert_text (r : Lossy.Relation) (h : ValidRS r) :
    (toLossless r).text = Lossy.showRelation r := toLossless_text r h

/-- converting to the lossless form and back returns the original value -/
theorem C14_convert_back (r : Lossy.Relation) (h : ValidRS r) : toLossy (toLossless r) = .ok r :=
  toLossless_back r h

/-- `From<Vec<lossy::Relation>> for Entry` and back: the entry prints the alternatives separated by
    ` | ` and converts back to the same relations -/
theorem C14_entry_convert (e : List Lossy.Relation) (hv : ∀ r ∈ e, ValidRS r) :
    (entryFromLossy e).text = Text.join [' ', '|', ' '] (e.map Lossy.showRelation)
      ∧ entryToLossy (entryFromLossy e) = .ok e :=
  ⟨entry_text e hv, entry_back e hv⟩

/-- `a` -/
def exNoArchs : Lossy.Relation := ⟨['a'], none, none, none, []⟩
/-- `a [b] <x> <y>` -/
def exTwoGroups : Lossy.Relation := ⟨['a'], none, some [['b']], none, [[.Enabled ['x']], [.Enabled ['y']]]⟩

/-- F-C14-1 (fixed): the lossless form of `a` prints `a` and converts back to the same value -/
theorem C14_fixed_noarchs :
    ValidRS exNoArchs ∧ (toLossless exNoArchs).text = ['a'] ∧ toLossy (toLossless exNoArchs) = .ok exNoArchs := by
  decide +kernel

/-- F-C14-2 (fixed): a value with two profile groups converts, prints `a [b] <x> <y>` and converts back -/
theorem C14_fixed_two_groups :
    ValidRS exTwoGroups ∧ (toLossless exTwoGroups).text = "a [b] <x> <y>".toList
      ∧ toLossy (toLossless exTwoGroups) = .ok exTwoGroups := by decide +kernel

/-! ### what `ValidR` / `ValidRs` are needed for -/

/-- a name that is not an identifier does not survive printing and reading -/
theorem C14_roundtrip_needs_ident_name :
    Lossy.readRelation (Lossy.showRelation ⟨"a b".toList, none, none, none, []⟩)
      ≠ .ok ⟨"a b".toList, none, none, none, []⟩ := by decide +kernel

/-- an architecture that is not `[!]identifier` does not either (`"x y"` comes back as two) -/
theorem C14_roundtrip_needs_valid_arch :
    Lossy.readRelation (Lossy.showRelation ⟨['a'], none, some ["x y".toList], none, []⟩)
      = .ok ⟨['a'], none, some [['x'], ['y']], none, []⟩ := by decide +kernel

/-- a version value that is not what its text parses to (upstream `1-2` without revision) comes back
    different -/
theorem C14_roundtrip_needs_valid_version :
    validVersion ⟨none, "1-2".toList, none⟩ = false
      ∧ Lossy.readRelation (Lossy.showRelation ⟨['a'], none, none, some (.Equal, ⟨none, "1-2".toList, none⟩), []⟩)
        = .ok ⟨['a'], none, none, some (.Equal, ⟨none, ['1'], some ['2']⟩), []⟩ := by decide +kernel

/-- an empty architecture list is valid for the text round trip (it prints ` []` and reads back),
    but not for the conversion (`ValidRS`): it converts to `a` / back to `None` -/
theorem C14_convert_needs_nonempty_archs :
    ValidR ⟨['a'], none, some [], none, []⟩ ∧ ¬ ValidRS ⟨['a'], none, some [], none, []⟩
      ∧ Lossy.readRelation (Lossy.showRelation ⟨['a'], none, some [], none, []⟩) = .ok ⟨['a'], none, some [], none, []⟩
      ∧ Lossy.showRelation ⟨['a'], none, some [], none, []⟩ = "a []".toList
      ∧ (toLossless ⟨['a'], none, some [], none, []⟩).text = ['a']
      ∧ toLossy (toLossless ⟨['a'], none, some [], none, []⟩) = .ok ⟨['a'], none, none, none, []⟩ := by
  decide +kernel

/-- an entry without alternatives disappears -/
theorem C14_roundtrip_needs_nonempty_entries :
    Lossy.readRelations (Lossy.showRelations [[], [exNoArchs]]) = .ok [[exNoArchs]] := by decide +kernel

/-! ### non-vacuity -/

/-- `libc6:any (>= 1:2.3~rc1-4) [amd64 !i386] <!nocheck cross> | g++, x (<< 0) <a> <!b>` -/
def exRs : List (List Lossy.Relation) :=
  [[⟨"libc6".toList, some "any".toList, some ["amd64".toList, "!i386".toList],
      some (.GreaterThanEqual, ⟨some 1, "2.3~rc1".toList, some ['4']⟩),
      [[.Disabled "nocheck".toList, .Enabled "cross".toList]]⟩,
    ⟨"g++".toList, none, none, none, []⟩],
   [⟨['x'], none, none, some (.LessThan, ⟨none, ['0'], none⟩), [[.Enabled ['a']], [.Disabled ['b']]]⟩]]

example : ValidRs exRs := by decide +kernel
example : Lossy.showRelations exRs =
    "libc6:any (>= 1:2.3~rc1-4) [amd64 !i386] <!nocheck cross> | g++, x (<< 0) <a> <!b>".toList := by
  decide +kernel
example : ∀ e ∈ exRs, ∀ r ∈ e, ValidRS r := by decide +kernel

end Deb822Verif.Props.C14
