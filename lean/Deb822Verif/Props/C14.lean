import Deb822Verif.Lemmas.RelCanonField
import Deb822Verif.Lemmas.RelBuildConv
import Deb822Verif.Props.C10
/-!
# C14 — lossy relations round-trip through text and convert faithfully to lossless

Domain: `RelSpec.ValidR` / `ValidRs` (Spec/RelCanon.lean) — lossy values assembled from valid
components: identifier characters as the lexer defines them for the package name, the architecture
qualifier, the architecture names (possibly with a leading `!`) and the profile names; a version
that prints as a well-formed version text; every entry of a `Relations` value non-empty.

Printer: `Lossy.showRelation(s)`; readers: `Lossy.readRelation(s)` and the lossless reader +
accessors; conversions: `Build.toLossless` (`From<lossy::Relation> for lossless::Relation`, through
`RelationBuilder`) and `Build.toLossy` (`From<lossless::Relation> for lossy::Relation`).

The two text clauses are full statements (they go through the canonical-layout field of
Spec/RelCanon and C10). The two conversion clauses are false of the code as it exists:

* F-C14-1 `trigNoArchs`      — `architectures: None`: `RelationBuilder::build` calls
  `set_architectures` unconditionally, the lossless form prints ` []` and converts back to `Some([])`;
* F-C14-2 `trigManyProfiles` — two or more profile groups: the second `add_profile` splices a tree
  created with `SyntaxNode::new_root` (immutable) and panics.
-/
namespace Deb822Verif.Props.C14
open Deb822Verif Rel Node RelSpec Lossy Build
open Deb822Verif.Props.C10

/-! ### printing and reading back -/

/-- `lossy::Relations::from_str(&rs.to_string()) == Ok(rs)` -/
theorem C14_roundtrip (rs : List (List Lossy.Relation)) (h : ValidRs rs) :
    Lossy.readRelations (Lossy.showRelations rs) = .ok rs := by
  rw [← canon_str, C10_lossy (canon rs) (canon_wf rs h) (canon_noSubstvar rs), canon_view rs h]

/-- `lossy::Relation::from_str(&r.to_string()) == Ok(r)` -/
theorem C14_roundtrip_rel (r : Lossy.Relation) (h : ValidR r) :
    Lossy.readRelation (Lossy.showRelation r) = .ok r := by
  have hok := canonRel_ok r h
  have hlex : lex (canonRel r).str = (canonRel r).toks := by
    simpa [lex_nil] using lex_rel (canonRel r) [] hok (headFails_nil _)
  rw [← canonRel_str, Lossy.readRelation, hlex, readRelationToks_rel _ hok, canonRel_view r h]

/-- the lossless reader (strict, or tolerant with either setting) reads the printed text without
    error and its accessors give back the value -/
theorem C14_lossless_reads_same (rs : List (List Lossy.Relation)) (h : ValidRs rs) (allow : Bool) :
    (readRelaxed (Lossy.showRelations rs) allow).2 = []
      ∧ accEntries (readRelaxed (Lossy.showRelations rs) allow).1 = some rs
      ∧ substvars (readRelaxed (Lossy.showRelations rs) allow).1 = []
      ∧ (∃ t, readStrict (Lossy.showRelations rs) = .ok t) := by
  have hwf := canon_wf rs h
  have hns := canon_noSubstvar rs
  obtain ⟨e, hv, hsv⟩ := C10_lossless (canon rs) hwf allow (Or.inr hns)
  rw [canon_str] at e hv hsv
  refine ⟨by rw [e], by rw [hv, canon_view rs h], ?_, ?_⟩
  · rw [hsv]
    simp only [FieldA.substvars]
    rw [List.filterMap_eq_nil_iff]
    intro s hs
    have : s.entry.isSubstvar = false := by
      have := hns
      simp only [FieldA.hasSubstvar, List.any_eq_false] at this
      simpa using this s hs
    cases hen : s.entry <;> simp_all [EntryA.substText, EntryA.isSubstvar]
  · exact ⟨_, by rw [← canon_str]; exact C10_strict (canon rs) hwf hns⟩

/-! ### conversion lossy → lossless → lossy -/

/-
  Full statements (false of the code as it exists — findings F-C14-1, F-C14-2):

    theorem C14_convert_text (r : Lossy.Relation) (h : ValidR r) :
        ∃ hd, toLossless r = .ok hd ∧ hd.tree.text = Lossy.showRelation r
    theorem C14_convert_back (r : Lossy.Relation) (h : ValidR r) :
        (toLossless r).bind (fun hd => toLossy hd.tree) = .ok r
-/
/-- the lossless form prints the same text as the lossy one — when the architecture list is present
    (F-C14-1) and there is at most one profile group (F-C14-2). Needs no validity of the strings. -/
theorem C14_convert_text_partial (r : Lossy.Relation) (ha : trigNoArchs r = false)
    (hp : trigManyProfiles r = false) :
    ∃ hd, toLossless r = .ok hd ∧ hd.tree.text = Lossy.showRelation r := by
  obtain ⟨as, has⟩ : ∃ as, r.architectures = some as := by
    cases h : r.architectures with
    | none => simp [trigNoArchs, h] at ha
    | some as => exact ⟨as, rfl⟩
  have hlen : r.profiles.length ≤ 1 := by simp [trigManyProfiles] at hp; omega
  exact ⟨_, toLossless_ok r as has hlen, built_text r as has hlen⟩

/-- converting to the lossless form and back returns the original value — same exclusions -/
theorem C14_convert_back_partial (r : Lossy.Relation) (h : ValidR r) (ha : trigNoArchs r = false)
    (hp : trigManyProfiles r = false) :
    (toLossless r).bind (fun hd => toLossy hd.tree) = .ok r := by
  obtain ⟨as, has⟩ : ∃ as, r.architectures = some as := by
    cases h' : r.architectures with
    | none => simp [trigNoArchs, h'] at ha
    | some as => exact ⟨as, rfl⟩
  have hlen : r.profiles.length ≤ 1 := by simp [trigManyProfiles] at hp; omega
  rw [toLossless_ok r as has hlen]
  exact built_back r as has hlen h

/-- `From<Vec<lossy::Relation>> for Entry` and back: the entry prints the alternatives separated by
    ` | ` and converts back to the same relations — every relation outside the two trigger regions -/
theorem C14_entry_convert_partial (e : List Lossy.Relation) (hv : ∀ r ∈ e, ValidR r)
    (hc : ∀ r ∈ e, trigNoArchs r = false ∧ trigManyProfiles r = false) :
    ∃ hd, entryFromLossy e = .ok hd
      ∧ hd.tree.text = Text.join [' ', '|', ' '] (e.map Lossy.showRelation)
      ∧ entryToLossy hd.tree = .ok e :=
  ⟨_, entryFromLossy_ok e hc, entry_text e hc, entry_back e hc hv⟩

/-- `a` -/
def exNoArchs : Lossy.Relation := ⟨['a'], none, none, none, []⟩
/-- `a [] <x> <y>` -/
def exTwoGroups : Lossy.Relation := ⟨['a'], none, some [], none, [[.Enabled ['x']], [.Enabled ['y']]]⟩

/-- witness (F-C14-1): the lossless form of the valid value `a` prints `a []` and converts back to a
    different value -/
theorem C14_convert_witness_noarchs :
    ValidR exNoArchs ∧ Lossy.showRelation exNoArchs = ['a']
      ∧ (match toLossless exNoArchs with | .ok hd => hd.tree.text == "a []".toList | .panic _ => false) = true
      ∧ (toLossless exNoArchs).bind (fun hd => toLossy hd.tree) ≠ .ok exNoArchs := by decide +kernel

/-- witness (F-C14-2): converting a valid value with two profile groups panics -/
theorem C14_convert_witness_two_groups :
    ValidR exTwoGroups ∧ (toLossless exTwoGroups).isOk = false := by decide +kernel

/-! ### what `ValidR` / `ValidRs` are needed for -/

/-- a name that is not an identifier does not survive printing and reading -/
theorem C14_roundtrip_needs_ident_name :
    Lossy.readRelation (Lossy.showRelation ⟨"a b".toList, none, none, none, []⟩)
      ≠ .ok ⟨"a b".toList, none, none, none, []⟩ := by decide +kernel

/-- an architecture that is not `[!]identifier` does not either (`"x y"` comes back as two) -/
theorem C14_roundtrip_needs_valid_arch :
    Lossy.readRelation (Lossy.showRelation ⟨['a'], none, some ["x y".toList], none, []⟩)
      = .ok ⟨['a'], none, some [['x'], ['y']], none, []⟩ := by decide +kernel

/-- a version value that is not what its text parses to (upstream `1-2` without revision) comes back
    different -/
theorem C14_roundtrip_needs_valid_version :
    validVersion ⟨none, "1-2".toList, none⟩ = false
      ∧ Lossy.readRelation (Lossy.showRelation ⟨['a'], none, none, some (.Equal, ⟨none, "1-2".toList, none⟩), []⟩)
        = .ok ⟨['a'], none, none, some (.Equal, ⟨none, ['1'], some ['2']⟩), []⟩ := by decide +kernel

/-- an entry without alternatives disappears -/
theorem C14_roundtrip_needs_nonempty_entries :
    Lossy.readRelations (Lossy.showRelations [[], [exNoArchs]]) = .ok [[exNoArchs]] := by decide +kernel

/-! ### non-vacuity -/

/-- `libc6:any (>= 1:2.3~rc1-4) [amd64 !i386] <!nocheck cross> | g++ [], x (<< 0) [] <a>` -/
def exRs : List (List Lossy.Relation) :=
  [[⟨"libc6".toList, some "any".toList, some ["amd64".toList, "!i386".toList],
      some (.GreaterThanEqual, ⟨some 1, "2.3~rc1".toList, some ['4']⟩),
      [[.Disabled "nocheck".toList, .Enabled "cross".toList]]⟩,
    ⟨"g++".toList, none, some [], none, []⟩],
   [⟨['x'], none, some [], some (.LessThan, ⟨none, ['0'], none⟩), [[.Enabled ['a']]]⟩]]

example : ValidRs exRs := by decide +kernel
example : Lossy.showRelations exRs =
    "libc6:any (>= 1:2.3~rc1-4) [amd64 !i386] <!nocheck cross> | g++ [], x (<< 0) [] <a>".toList := by
  decide +kernel
example : ∀ e ∈ exRs, ∀ r ∈ e, ValidR r ∧ trigNoArchs r = false ∧ trigManyProfiles r = false := by
  decide +kernel

end Deb822Verif.Props.C14
