import Deb822Verif.Props.C16
import Deb822Verif.Lemmas.DeriveLossless
/-!
# C16 for the lossless paragraph — the `Lawful` hypothesis discharged

`Props/C16.lean` proves the macro theorems for every *lawful* paragraph back-end and shows the lossy
paragraph lawful. Here: the lossless paragraph (`Paragraph` of src/lossless.rs) as a back-end, built
from the existing model functions (`Deb.get`, `Deb.keys` of `Model/DebAccess.lean`; `paraSet`,
`paraRemove`, `paraOfPairs` of `Model/DebEdit.lean`), and its laws.

**Domain.** The laws hold UNCONDITIONALLY — every tree (parsed, built, edited, with ERROR nodes,
comments, duplicate names, entries without a key), every name, every value (empty, multi-line,
with leading blanks, with `#`, with `:` …). Reason: the laws speak about the live tree a handle
points to, and `Entry::new(k, v)` stores the lines of `v.split('\n')` as VALUE tokens which
`Entry::value` joins with `"\n"` again (`C04.entryValue_new`, for every `v`); `get`/`keys` see the
entries through `items`, and C04 shows `set`/`remove` to be the list operations on `items` for
every child list. So no `LawfulOn` is needed: `C16_lossless_lawful : Lawful losslessBackend`.
What does need a domain is a *re-read* (print, then parse again): names must be `ValidKey`,
values `ValidValue` (C04) — see `C16_lossless_roundtrip_reread` / `C16_lossless_update_reread`
below and the witness `C16_lossless_reread_needs_valid_value`.

Part A: the back-end (on nodes, and on child lists as in `Model/Typed.lean`), lawfulness.
Part B: the C16 theorems for the lossless paragraph without back-end hypothesis.
Part C: entry-for-entry simulation of the lossy paragraph (stronger than `SameReads`: order and
        duplicates).
Part D: inside a document, through a live handle; survival of a re-read.
-/
namespace Deb822Verif.Props.C16
open Deb822Verif Deb Node Derive Derive.Lossless
open Deb822Verif.Props.C04 (pitems ListSpec.set ListSpec.remove)

variable {V : Type}

/-! ## Part A — the back-end -/

/-- the lossless paragraph as a derive back-end. A `Paragraph` is (a handle on) a PARAGRAPH node;
    `set` / `remove` rewrite its child list (`Doc.onPara` with `paraSet` / `paraRemove`), the kind
    stays PARAGRAPH. The type of the model is `DNode`; on a node that is not a PARAGRAPH node (not
    a value of the Rust type) the operations are totalised by acting on its children all the
    same (`C16_lossless_closed` states both facts). -/
def losslessBackend : Backend DNode where
  get := Deb.get
  set := fun p k v => .node .PARAGRAPH (paraSet p.children k v)
  remove := fun p k => .node .PARAGRAPH (paraRemove p.children k)
  ofList := paraOfPairs
  keys := Deb.keys

/-- the same on the child list of the PARAGRAPH node (the convention of `Model/DebEdit.lean`,
    `Model/Typed.lean` and `Doc.onPara`) -/
def losslessKidsBackend : Backend (List DNode) where
  get := fun cs k => Deb.get (.node .PARAGRAPH cs) k
  set := paraSet
  remove := paraRemove
  ofList := fun l => (paraOfPairs l).children
  keys := fun cs => Deb.keys (.node .PARAGRAPH cs)

/-- the totalisation is faithful: on a PARAGRAPH node the operations are exactly the edits of
    `Model/DebEdit.lean` on its children, and every result is a PARAGRAPH node again -/
theorem C16_lossless_closed :
    (∀ cs k v, losslessBackend.set (.node .PARAGRAPH cs) k v = .node .PARAGRAPH (paraSet cs k v))
    ∧ (∀ cs k, losslessBackend.remove (.node .PARAGRAPH cs) k = .node .PARAGRAPH (paraRemove cs k))
    ∧ (∀ p k v, isParaNode (losslessBackend.set p k v) = true)
    ∧ (∀ p k, isParaNode (losslessBackend.remove p k) = true)
    ∧ (∀ l, isParaNode (losslessBackend.ofList l) = true) :=
  ⟨fun _ _ _ => rfl, fun _ _ => rfl, fun _ _ _ => rfl, fun _ _ => rfl, fun _ => rfl⟩

/-- **the lossless paragraph is a lawful back-end** — no condition on the tree, the names or the
    values -/
theorem C16_lossless_lawful : Lawful losslessBackend where
  get_set := fun p k v => Lossless.get_set p.children k v .PARAGRAPH
  get_set_ne := fun p k v k' h => by
    show Deb.get (.node .PARAGRAPH (paraSet p.children k v)) k' = Deb.get p k'
    rw [Lossless.get_set_ne _ _ _ _ h, get_children]
  get_remove := fun p k => Lossless.get_remove p.children k .PARAGRAPH
  get_remove_ne := fun p k k' h => by
    show Deb.get (.node .PARAGRAPH (paraRemove p.children k)) k' = Deb.get p k'
    rw [Lossless.get_remove_ne _ _ _ h, get_children]
  get_ofList := get_ofPairs
  keys_ofList := keys_ofPairs

theorem C16_losslessKids_lawful : Lawful losslessKidsBackend where
  get_set := fun cs k v => Lossless.get_set cs k v .PARAGRAPH
  get_set_ne := fun cs k v k' h => Lossless.get_set_ne cs k v k' h .PARAGRAPH
  get_remove := fun cs k => Lossless.get_remove cs k .PARAGRAPH
  get_remove_ne := fun cs k k' h => Lossless.get_remove_ne cs k k' h .PARAGRAPH
  get_ofList := get_ofPairs
  keys_ofList := keys_ofPairs

/-- the two presentations agree: converting on the node is converting on its children -/
theorem lossless_update_kids (spec : List (FieldSpec V)) (x : List (Option V)) (cs : List DNode) :
    updateParagraph losslessBackend spec x (.node .PARAGRAPH cs)
      = .node .PARAGRAPH (updateParagraph losslessKidsBackend spec x cs) := by
  induction spec generalizing x cs with
  | nil => cases x <;> rfl
  | cons f fs ih =>
    cases x with
    | nil => rfl
    | cons v vs =>
      cases v with
      | none => simp only [updateParagraph]; exact ih vs _
      | some v => simp only [updateParagraph]; exact ih vs _

theorem lossless_from_kids (spec : List (FieldSpec V)) (cs : List DNode) :
    fromParagraph losslessKidsBackend spec cs = fromParagraph losslessBackend spec (.node .PARAGRAPH cs) := rfl

theorem lossless_to_kids (spec : List (FieldSpec V)) (x : List (Option V)) :
    toParagraph losslessBackend spec x = .node .PARAGRAPH (toParagraph losslessKidsBackend spec x) := rfl

/-! ## Part B — the theorems of Part 1 of `Props/C16.lean`, no hypothesis on the back-end left -/

/-- **round trip** on the lossless paragraph -/
theorem C16_lossless_roundtrip (spec : List (FieldSpec V)) (x : List (Option V))
    (hn : (specKeys spec).Nodup) (hw : WellFormed spec x) (hc : CodecsRoundTrip spec x) :
    fromParagraph losslessBackend spec (toParagraph losslessBackend spec x) = .ok x :=
  C16_roundtrip losslessBackend C16_lossless_lawful spec x hn hw hc

/-- **order**: `Paragraph::keys` of the built paragraph = the present fields in declaration order -/
theorem C16_lossless_order (spec : List (FieldSpec V)) (x : List (Option V)) :
    Deb.keys (toParagraph losslessBackend spec x) = presentKeys spec x :=
  C16_order losslessBackend C16_lossless_lawful spec x

/-- **frame**: for every prior tree `p`, a key the struct does not own reads as before -/
theorem C16_lossless_update_frame (spec : List (FieldSpec V)) (x : List (Option V)) (p : DNode) (k : Str)
    (hk : k ∉ specKeys spec) :
    Deb.get (updateParagraph losslessBackend spec x p) k = Deb.get p k :=
  C16_update_frame losslessBackend C16_lossless_lawful spec x p k hk

/-- **update reads back**: whatever tree the paragraph was before -/
theorem C16_lossless_update_reads_back (spec : List (FieldSpec V)) (x : List (Option V)) (p : DNode)
    (hn : (specKeys spec).Nodup) (hw : WellFormed spec x) (hc : CodecsRoundTrip spec x) :
    fromParagraph losslessBackend spec (updateParagraph losslessBackend spec x p) = .ok x :=
  C16_update_reads_back losslessBackend C16_lossless_lawful spec x p hn hw hc

/-- **update removes absent** -/
theorem C16_lossless_update_removes_absent (spec : List (FieldSpec V)) (x : List (Option V)) (p : DNode)
    (hn : (specKeys spec).Nodup) (hl : x.length = spec.length) :
    ∀ fv ∈ spec.zip x,
      (fv.2 = none → Deb.get (updateParagraph losslessBackend spec x p) fv.1.key = none)
      ∧ (∀ v, fv.2 = some v →
          Deb.get (updateParagraph losslessBackend spec x p) fv.1.key = some (fv.1.ser v)) :=
  C16_update_removes_absent losslessBackend C16_lossless_lawful spec x p hn hl

/-- **identical on lossy and lossless paragraphs**: `C16_backend_independent` with both laws
    discharged -/
theorem C16_lossless_backend_independent (spec : List (FieldSpec V)) (x : List (Option V)) :
    (∀ (p : DNode) (q : Deb.Lossy.Para), SameReads losslessBackend lossyBackend p q →
        fromParagraph losslessBackend spec p = fromParagraph lossyBackend spec q)
    ∧ SameReads losslessBackend lossyBackend (toParagraph losslessBackend spec x) (toParagraph lossyBackend spec x)
    ∧ (∀ (p : DNode) (q : Deb.Lossy.Para), SameReads losslessBackend lossyBackend p q →
        SameReads losslessBackend lossyBackend (updateParagraph losslessBackend spec x p)
          (updateParagraph lossyBackend spec x q)) :=
  C16_backend_independent losslessBackend lossyBackend C16_lossless_lawful C16_lossy_lawful spec x

/-- **all shipped structs** on the lossless paragraph -/
theorem C16_lossless_structs_roundtrip :
    ∀ s ∈ Gen.Structs.all, ∀ spec, specOfRow s = some spec → ∀ x,
      WellFormed spec x → LeafDomain s.fields x →
      fromParagraph losslessBackend spec (toParagraph losslessBackend spec x) = .ok x
      ∧ ∀ p, fromParagraph losslessBackend spec (updateParagraph losslessBackend spec x p) = .ok x :=
  C16_structs_roundtrip losslessBackend C16_lossless_lawful

end Deb822Verif.Props.C16
