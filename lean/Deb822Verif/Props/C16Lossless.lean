import Deb822Verif.Props.C16
import Deb822Verif.Lemmas.DeriveLossless
/-!
# C16 for the lossless paragraph — the `Lawful` hypothesis discharged

`Props/C16.lean` proves the macro theorems for every *lawful* paragraph back-end and shows the lossy
paragraph lawful. Here: the lossless paragraph (`Paragraph` of src/lossless.rs) as a back-end, built
from the existing model functions (`Deb.get`, `Deb.keys` of `Model/DebAccess.lean`; `paraSet`,
`paraRemove`, `paraOfPairs` of `Model/DebEdit.lean`), and its laws.

**Domain.** The laws hold UNCONDITIONALLY — every tree (parsed, built, edited, with ERROR nodes,
comments, duplicate names, entries without a key), every name, every value (empty, multi-line,
with leading blanks, with `#`, with `:` …). Reason: the laws speak about the live tree a handle
points to, and `Entry::new(k, v)` stores the lines of `v.split('\n')` as VALUE tokens which
`Entry::value` joins with `"\n"` again (`C04.entryValue_new`, for every `v`); `get`/`keys` see the
entries through `items`, and C04 shows `set`/`remove` to be the list operations on `items` for
every child list. So no `LawfulOn` is needed: `C16_lossless_lawful : Lawful losslessBackend`.
What does need a domain is a *re-read* (print, then parse again): names must be `ValidKey`,
values `ValidValue` (C04) — see `C16_lossless_roundtrip_reread` / `C16_lossless_update_reread`
below and the witness `C16_lossless_reread_needs_valid_value`.

Part A: the back-end (on nodes, and on child lists as in `Model/Typed.lean`), lawfulness.
Part B: the C16 theorems for the lossless paragraph without back-end hypothesis.
Part C: entry-for-entry simulation of the lossy paragraph (stronger than `SameReads`: order and
        duplicates).
Part D: inside a document, through a live handle; survival of a re-read.
-/
namespace Deb822Verif.Props.C16
open Deb822Verif Deb Node Derive Derive.Lossless
open Deb822Verif.Props.C04 (pitems ListSpec.set ListSpec.remove)

variable {V : Type}

/-! ## Part A — the back-end -/

/-- the lossless paragraph as a derive back-end. A `Paragraph` is (a handle on) a PARAGRAPH node;
    `set` / `remove` rewrite its child list (`Doc.onPara` with `paraSet` / `paraRemove`), the kind
    stays PARAGRAPH. The type of the model is `DNode`; on a node that is not a PARAGRAPH node (not
    a value of the Rust type) the operations are totalised by acting on its children all the
    same (`C16_lossless_closed` states both facts). -/
def losslessBackend : Backend DNode where
  get := Deb.get
  set := fun p k v => .node .PARAGRAPH (paraSet p.children k v)
  remove := fun p k => .node .PARAGRAPH (paraRemove p.children k)
  ofList := paraOfPairs
  keys := Deb.keys

/-- the same on the child list of the PARAGRAPH node (the convention of `Model/DebEdit.lean`,
    `Model/Typed.lean` and `Doc.onPara`) -/
def losslessKidsBackend : Backend (List DNode) where
  get := fun cs k => Deb.get (.node .PARAGRAPH cs) k
  set := paraSet
  remove := paraRemove
  ofList := fun l => (paraOfPairs l).children
  keys := fun cs => Deb.keys (.node .PARAGRAPH cs)

/-- the totalisation is faithful: on a PARAGRAPH node the operations are exactly the edits of
    `Model/DebEdit.lean` on its children, and every result is a PARAGRAPH node again -/
theorem C16_lossless_closed :
    (∀ cs k v, losslessBackend.set (.node .PARAGRAPH cs) k v = .node .PARAGRAPH (paraSet cs k v))
    ∧ (∀ cs k, losslessBackend.remove (.node .PARAGRAPH cs) k = .node .PARAGRAPH (paraRemove cs k))
    ∧ (∀ p k v, isParaNode (losslessBackend.set p k v) = true)
    ∧ (∀ p k, isParaNode (losslessBackend.remove p k) = true)
    ∧ (∀ l, isParaNode (losslessBackend.ofList l) = true) :=
  ⟨fun _ _ _ => rfl, fun _ _ => rfl, fun _ _ _ => rfl, fun _ _ => rfl, fun _ => rfl⟩

/-- **the lossless paragraph is a lawful back-end** — no condition on the tree, the names or the
    values -/
theorem C16_lossless_lawful : Lawful losslessBackend where
  get_set := fun p k v => Lossless.get_set p.children k v .PARAGRAPH
  get_set_ne := fun p k v k' h => by
    show Deb.get (.node .PARAGRAPH (paraSet p.children k v)) k' = Deb.get p k'
    rw [Lossless.get_set_ne _ _ _ _ h, get_children]
  get_remove := fun p k => Lossless.get_remove p.children k .PARAGRAPH
  get_remove_ne := fun p k k' h => by
    show Deb.get (.node .PARAGRAPH (paraRemove p.children k)) k' = Deb.get p k'
    rw [Lossless.get_remove_ne _ _ _ h, get_children]
  get_ofList := get_ofPairs
  keys_ofList := keys_ofPairs

theorem C16_losslessKids_lawful : Lawful losslessKidsBackend where
  get_set := fun cs k v => Lossless.get_set cs k v .PARAGRAPH
  get_set_ne := fun cs k v k' h => Lossless.get_set_ne cs k v k' h .PARAGRAPH
  get_remove := fun cs k => Lossless.get_remove cs k .PARAGRAPH
  get_remove_ne := fun cs k k' h => Lossless.get_remove_ne cs k k' h .PARAGRAPH
  get_ofList := get_ofPairs
  keys_ofList := keys_ofPairs

/-- the two presentations agree: converting on the node is converting on its children -/
theorem lossless_update_kids (spec : List (FieldSpec V)) (x : List (Option V)) (cs : List DNode) :
    updateParagraph losslessBackend spec x (.node .PARAGRAPH cs)
      = .node .PARAGRAPH (updateParagraph losslessKidsBackend spec x cs) := by
  induction spec generalizing x cs with
  | nil => cases x <;> rfl
  | cons f fs ih =>
    cases x with
    | nil => rfl
    | cons v vs =>
      cases v with
      | none => simp only [updateParagraph]; exact ih vs _
      | some v => simp only [updateParagraph]; exact ih vs _

theorem lossless_from_kids (spec : List (FieldSpec V)) (cs : List DNode) :
    fromParagraph losslessKidsBackend spec cs = fromParagraph losslessBackend spec (.node .PARAGRAPH cs) := rfl

theorem lossless_to_kids (spec : List (FieldSpec V)) (x : List (Option V)) :
    toParagraph losslessBackend spec x = .node .PARAGRAPH (toParagraph losslessKidsBackend spec x) := rfl

/-! ## Part B — the theorems of Part 1 of `Props/C16.lean`, no hypothesis on the back-end left -/

/-- **round trip** on the lossless paragraph -/
theorem C16_lossless_roundtrip (spec : List (FieldSpec V)) (x : List (Option V))
    (hn : (specKeys spec).Nodup) (hw : WellFormed spec x) (hc : CodecsRoundTrip spec x) :
    fromParagraph losslessBackend spec (toParagraph losslessBackend spec x) = .ok x :=
  C16_roundtrip losslessBackend C16_lossless_lawful spec x hn hw hc

/-- **order**: `Paragraph::keys` of the built paragraph = the present fields in declaration order -/
theorem C16_lossless_order (spec : List (FieldSpec V)) (x : List (Option V)) :
    Deb.keys (toParagraph losslessBackend spec x) = presentKeys spec x :=
  C16_order losslessBackend C16_lossless_lawful spec x

/-- **frame**: for every prior tree `p`, a key the struct does not own reads as before -/
theorem C16_lossless_update_frame (spec : List (FieldSpec V)) (x : List (Option V)) (p : DNode) (k : Str)
    (hk : k ∉ specKeys spec) :
    Deb.get (updateParagraph losslessBackend spec x p) k = Deb.get p k :=
  C16_update_frame losslessBackend C16_lossless_lawful spec x p k hk

/-- **update reads back**: whatever tree the paragraph was before -/
theorem C16_lossless_update_reads_back (spec : List (FieldSpec V)) (x : List (Option V)) (p : DNode)
    (hn : (specKeys spec).Nodup) (hw : WellFormed spec x) (hc : CodecsRoundTrip spec x) :
    fromParagraph losslessBackend spec (updateParagraph losslessBackend spec x p) = .ok x :=
  C16_update_reads_back losslessBackend C16_lossless_lawful spec x p hn hw hc

/-- **update removes absent** -/
theorem C16_lossless_update_removes_absent (spec : List (FieldSpec V)) (x : List (Option V)) (p : DNode)
    (hn : (specKeys spec).Nodup) (hl : x.length = spec.length) :
    ∀ fv ∈ spec.zip x,
      (fv.2 = none → Deb.get (updateParagraph losslessBackend spec x p) fv.1.key = none)
      ∧ (∀ v, fv.2 = some v →
          Deb.get (updateParagraph losslessBackend spec x p) fv.1.key = some (fv.1.ser v)) :=
  C16_update_removes_absent losslessBackend C16_lossless_lawful spec x p hn hl

/-- **identical on lossy and lossless paragraphs**: `C16_backend_independent` with both laws
    discharged -/
theorem C16_lossless_backend_independent (spec : List (FieldSpec V)) (x : List (Option V)) :
    (∀ (p : DNode) (q : Deb.Lossy.Para), SameReads losslessBackend lossyBackend p q →
        fromParagraph losslessBackend spec p = fromParagraph lossyBackend spec q)
    ∧ SameReads losslessBackend lossyBackend (toParagraph losslessBackend spec x) (toParagraph lossyBackend spec x)
    ∧ (∀ (p : DNode) (q : Deb.Lossy.Para), SameReads losslessBackend lossyBackend p q →
        SameReads losslessBackend lossyBackend (updateParagraph losslessBackend spec x p)
          (updateParagraph lossyBackend spec x q)) :=
  C16_backend_independent losslessBackend lossyBackend C16_lossless_lawful C16_lossy_lawful spec x

/-- **all shipped structs** on the lossless paragraph -/
theorem C16_lossless_structs_roundtrip :
    ∀ s ∈ Gen.Structs.all, ∀ spec, specOfRow s = some spec → ∀ x,
      WellFormed spec x → LeafDomain s.fields x →
      fromParagraph losslessBackend spec (toParagraph losslessBackend spec x) = .ok x
      ∧ ∀ p, fromParagraph losslessBackend spec (updateParagraph losslessBackend spec x p) = .ok x :=
  C16_structs_roundtrip losslessBackend C16_lossless_lawful

/-! ## Part C — entry for entry the lossy paragraph

  `SameReads` compares what `get` shows (the first field of each name). The lossless edits do more:
  on the item list (`Paragraph::items`: every field, in order, duplicates included) they ARE the
  lossy edits. -/

theorem lossless_items_set (p : DNode) (k v : Str) :
    items (losslessBackend.set p k v) = lossyBackend.set (items p) k v := by
  show items (.node .PARAGRAPH (paraSet p.children k v)) = Deb.Lossy.pset (items p) k v
  rw [C04.items_node_any, C04.C04_refine_set, pset_eq_set, items_children]

theorem lossless_items_remove (p : DNode) (k : Str) :
    items (losslessBackend.remove p k) = lossyBackend.remove (items p) k := by
  show items (.node .PARAGRAPH (paraRemove p.children k)) = Deb.Lossy.premove (items p) k
  rw [C04.items_node_any, C04.C04_refine_remove, premove_eq_remove, items_children]

theorem lossless_get_items (p : DNode) : losslessBackend.get p = lossyBackend.get (items p) := by
  funext k; exact get_eq_lookupFirst p k

/-- every lossless paragraph reads the same as the lossy paragraph holding its items -/
theorem C16_lossless_sameReads_items (p : DNode) : SameReads losslessBackend lossyBackend p (items p) :=
  fun k => get_eq_lookupFirst p k

/-- **the derived conversions on a lossless paragraph are the ones on the lossy paragraph of its
    items**: `from_paragraph` gives the same value or the same error; `to_paragraph` builds a
    paragraph whose items are the lossy result; `update_paragraph` on any tree leaves a tree whose
    items are the lossy update of the old items (same order, same duplicates, same values) -/
theorem C16_lossless_simulates_lossy (spec : List (FieldSpec V)) (x : List (Option V)) :
    (∀ p : DNode, fromParagraph losslessBackend spec p = fromParagraph lossyBackend spec (items p))
    ∧ items (toParagraph losslessBackend spec x) = toParagraph lossyBackend spec x
    ∧ (∀ p : DNode, items (updateParagraph losslessBackend spec x p)
        = updateParagraph lossyBackend spec x (items p)) := by
  refine ⟨fun p => ?_, items_ofPairs _, ?_⟩
  · unfold fromParagraph; rw [lossless_get_items]
  · induction spec generalizing x with
    | nil => intro p; cases x <;> rfl
    | cons f fs ih =>
      intro p
      cases x with
      | nil => rfl
      | cons v vs =>
        cases v with
        | none => simp only [updateParagraph]; rw [ih vs, lossless_items_remove]
        | some v => simp only [updateParagraph]; rw [ih vs, lossless_items_set]

/-- **frame, on all items**: the fields whose name the struct does not own are the same list in
    the same order after `update_paragraph` (duplicates and fields hidden behind an earlier field
    of the same name included — `C16_update_frame` only sees what `get` shows) -/
theorem C16_lossless_update_keeps_foreign_items (spec : List (FieldSpec V)) (x : List (Option V)) (p : DNode) :
    foreign (specKeys spec) (items (updateParagraph losslessBackend spec x p))
      = foreign (specKeys spec) (items p) := by
  suffices h : ∀ ks, (∀ k ∈ specKeys spec, k ∈ ks) →
      foreign ks (items (updateParagraph losslessBackend spec x p)) = foreign ks (items p) from
    h _ (fun _ hk => hk)
  intro ks
  induction spec generalizing x p with
  | nil => intro _; cases x <;> rfl
  | cons f fs ih =>
    intro hks
    have hf : f.key ∈ ks := hks _ (by simp [specKeys])
    have hfs : ∀ k ∈ specKeys fs, k ∈ ks := fun k hk => hks k (by
      simp only [specKeys, List.map_cons, List.mem_cons]; right; exact hk)
    cases x with
    | nil => rfl
    | cons v vs =>
      cases v with
      | none =>
        simp only [updateParagraph]
        rw [ih vs _ hfs, lossless_items_remove]
        show foreign ks (Deb.Lossy.premove (items p) f.key) = _
        rw [premove_eq_remove, foreign_remove _ _ _ hf]
      | some v =>
        simp only [updateParagraph]
        rw [ih vs _ hfs, lossless_items_set]
        show foreign ks (Deb.Lossy.pset (items p) f.key (f.ser v)) = _
        rw [pset_eq_set, foreign_set _ _ _ _ hf]

/-- `Paragraph::keys` after `update_paragraph`: the names of the lossy update of the old items, in
    that order (an owned field that was there keeps its place, a new one goes to the end) -/
theorem C16_lossless_update_keys (spec : List (FieldSpec V)) (x : List (Option V)) (p : DNode) :
    Deb.keys (updateParagraph losslessBackend spec x p)
      = lossyBackend.keys (updateParagraph lossyBackend spec x (items p)) := by
  rw [keys_eq_items, (C16_lossless_simulates_lossy spec x).2.2 p]; rfl

/-! ## Part D — inside a document; re-read -/

open Deb822Verif.Spec in
/-- `update_paragraph` as a history of field edits through handle `h` -/
def updateOps (h : Nat) : List (FieldSpec V) → List (Option V) → List EditOp
  | f :: fs, some v :: vs => .set h f.key (f.ser v) :: updateOps h fs vs
  | f :: fs, none :: vs => .rm h f.key :: updateOps h fs vs
  | _, _ => []

open Deb822Verif.Spec in
theorem run_updateOps (d : Doc) (h : Nat) (spec : List (FieldSpec V)) (x : List (Option V)) :
    run d (updateOps h spec x) = d.onPara h (updateParagraph losslessKidsBackend spec x) := by
  induction spec generalizing x d with
  | nil => cases x <;> exact (onPara_id d h).symm
  | cons f fs ih =>
    cases x with
    | nil => exact (onPara_id d h).symm
    | cons v vs =>
      cases v with
      | none =>
        simp only [updateOps, run, List.foldl_cons, step]
        have := ih (d.onPara h fun cs => paraRemove cs f.key) vs
        unfold run at this
        rw [this, onPara_onPara]; rfl
      | some v =>
        simp only [updateOps, run, List.foldl_cons, step]
        have := ih (d.onPara h fun cs => paraSet cs f.key (f.ser v)) vs
        unfold run at this
        rw [this, onPara_onPara]; rfl

open Deb822Verif.Spec in
theorem updateOps_valid (h : Nat) (spec : List (FieldSpec V)) (x : List (Option V))
    (hv : ValidPairs (toFields spec x)) : ∀ o ∈ updateOps h spec x, o.Valid := by
  induction spec generalizing x with
  | nil => intro o ho; cases x <;> simp [updateOps] at ho
  | cons f fs ih =>
    cases x with
    | nil => intro o ho; simp [updateOps] at ho
    | cons v vs =>
      cases v with
      | none =>
        intro o ho
        simp only [updateOps, List.mem_cons] at ho
        rcases ho with rfl | ho
        · trivial
        · exact ih vs (by simpa [toFields] using hv) o ho
      | some v =>
        intro o ho
        simp only [updateOps, List.mem_cons] at ho
        have hv' : ValidPairs ((f.key, f.ser v) :: toFields fs vs) := by simpa [toFields] using hv
        rcases ho with rfl | ho
        · exact hv' (f.key, f.ser v) (by simp)
        · exact ih vs (fun kv hkv => hv' kv (by simp [hkv])) o ho

/-- **`update_paragraph` on a paragraph of a document, through a live handle** (`h` → child slot
    `i` of the root, children `cs`; any document tree): afterwards every handle on that paragraph
    reads the updated paragraph, which converts back to `x`; every other handle reads the very same
    node as before; the root's other children are untouched -/
theorem C16_lossless_update_in_doc (d : Doc) (h i : Nat) (cs : List DNode)
    (hi : d.handles[h]? = some (some i)) (hc : d.kids[i]? = some (.node .PARAGRAPH cs))
    (spec : List (FieldSpec V)) (x : List (Option V))
    (hn : (specKeys spec).Nodup) (hw : WellFormed spec x) (hcr : CodecsRoundTrip spec x) :
    let d' := d.onPara h (updateParagraph losslessKidsBackend spec x)
    let p' := updateParagraph losslessBackend spec x (.node .PARAGRAPH cs)
    (∀ j, d'.para j = if d.handles[j]? = some (some i) then some p' else d.para j)
    ∧ fromParagraph losslessBackend spec p' = .ok x
    ∧ d'.handles = d.handles
    ∧ d'.kids = d.kids.take i ++ p' :: d.kids.drop (i + 1) := by
  intro d' p'
  have hp : p' = .node .PARAGRAPH (updateParagraph losslessKidsBackend spec x cs) :=
    lossless_update_kids spec x cs
  refine ⟨fun j => ?_, C16_lossless_update_reads_back spec x _ hn hw hcr, ?_, ?_⟩
  · rw [hp]; exact C04.C04_frame_handles d h i cs _ hi hc j
  · show (d.onPara h _).handles = d.handles
    unfold Doc.onPara; simp only [hi, hc]
  · rw [hp]; exact C04.onPara_kids d h i cs _ hi hc

open Deb822Verif.Spec in
/-- **the update survives a re-read**: `d` a parsed well-formed document, `update_paragraph` through
    a live handle with valid names and serialised values (`ValidPairs` of the `fields` vector:
    `ValidKey` names, `ValidValue` texts — the domain of C04): the printed document is accepted by
    the strict reader without error and reads back to the old paragraphs, the touched one replaced
    by the LOSSY update of its items (a paragraph left without fields is not seen) -/
theorem C16_lossless_update_reread (d0 : DocS) (hwf : d0.WF) (d : Doc) (hd : d.kids = d0.tree.children)
    (h i : Nat) (cs : List DNode) (hi : d.handles[h]? = some (some i))
    (hc : d.kids[i]? = some (.node .PARAGRAPH cs))
    (spec : List (FieldSpec V)) (x : List (Option V)) (hv : ValidPairs (toFields spec x)) :
    let d' := d.onPara h (updateParagraph losslessKidsBackend spec x)
    ∃ s : DocS, s.WF ∧ s.str = d'.root.text ∧ parse d'.root.text = ⟨s.tree, []⟩
      ∧ readStrict d'.root.text = .ok s.tree
      ∧ docItems s.tree = (docItems (.node .ROOT (d.kids.take i)) ++
          updateParagraph lossyBackend spec x (pitems cs)
            :: docItems (.node .ROOT (d.kids.drop (i + 1)))).filter C04.nonEmpty := by
  intro d'
  obtain ⟨s, h1, h2, h3, h4, h5⟩ :=
    C04.C04_reread_history d0 hwf d hd (updateOps h spec x) (updateOps_valid h spec x hv)
  simp only [run_updateOps] at h2 h3 h4 h5
  refine ⟨s, h1, h2, h3, h4, ?_⟩
  rw [h5]
  show (docItems (.node .ROOT d'.kids)).filter _ = _
  rw [C04.content_onPara d h i cs _ hi hc]
  have := (C16_lossless_simulates_lossy spec x).2.2 (.node .PARAGRAPH cs)
  rw [lossless_update_kids, C04.items_node_any, C04.items_node_any] at this
  rw [this]

open Deb822Verif.Spec in
/-- **the round trip survives a re-read**: with valid names and serialised values and at least one
    present field, the text of `to_paragraph(x)` is accepted by `Paragraph::from_str`, the paragraph
    read has exactly the `fields` vector as items, and `from_paragraph` of it is `Ok(x)` -/
theorem C16_lossless_roundtrip_reread (spec : List (FieldSpec V)) (x : List (Option V))
    (hn : (specKeys spec).Nodup) (hw : WellFormed spec x) (hcr : CodecsRoundTrip spec x)
    (hv : ValidPairs (toFields spec x)) (hne : toFields spec x ≠ []) :
    ∃ t, paragraphFromStr (toParagraph losslessBackend spec x).text = .ok t
      ∧ items t = toFields spec x
      ∧ fromParagraph losslessBackend spec t = .ok x := by
  let d : Doc := ⟨docOfParas ([toFields spec x].map paraOfPairs), [some 0]⟩
  obtain ⟨s, -, -, -, h4, h5⟩ := C04.C04_reread_history_built [toFields spec x]
    (by intro p hp; simp only [List.mem_singleton] at hp; subst hp; exact hv) d rfl [] (by simp)
  have htext : (run d []).root.text = (toParagraph losslessBackend spec x).text := by
    simp [run, d, Doc.root, docOfParas, toParagraph, losslessBackend]
  rw [htext] at h4
  have hitems : docItems (run d []).root = [toFields spec x] := by
    have : items (paraOfPairs (toFields spec x)) = toFields spec x := items_ofPairs _
    simpa [run, d, Doc.root, docOfParas, docItems, paragraphs, Node.children, paraOfPairs, Node.isNode,
      Node.kind] using this
  rw [hitems] at h5
  have hne' : C04.nonEmpty (toFields spec x) = true := by
    cases hl : toFields spec x with
    | nil => exact absurd hl hne
    | cons a b => rfl
  simp only [List.filter_cons, hne', ↓reduceIte, List.filter_nil] at h5
  unfold docItems at h5
  cases hps : paragraphs s.tree with
  | nil => rw [hps] at h5; simp at h5
  | cons t ts =>
    rw [hps] at h5
    simp only [List.map_cons, List.cons.injEq, List.map_eq_nil_iff] at h5
    refine ⟨t, ?_, h5.1, ?_⟩
    · simp only [paragraphFromStr, h4, hps]
    · rw [(C16_lossless_simulates_lossy spec x).1 t, h5.1]
      exact C16_lossy_roundtrip spec x hn hw hcr

/-! ### why the re-read theorems carry `ValidPairs` while the laws do not

  On the live tree `get(set(p, k, v), k) = v` for every `v`; once printed and parsed again, a value
  or a name outside the C04 domain comes back as something else. -/

/-- `Paragraph::from_str(p.to_string())`, then `get` -/
def rereadGet (p : DNode) (k : Str) : Option Str :=
  match paragraphFromStr p.text with
  | .ok t => Deb.get t k
  | .error _ => none

open Deb822Verif.Spec in
/-- a continuation line that starts with a blank (`"a\n b"`, not a `ValidValue`): the live tree
    reads it back unchanged (the law), the re-read paragraph shows `"a\nb"`; a continuation line
    starting with `#` is lost altogether -/
theorem C16_lossless_reread_needs_valid_value :
    (¬ ValidValue "a\n b".toList
      ∧ losslessBackend.get (losslessBackend.set (.node .PARAGRAPH []) (c!"K") "a\n b".toList) (c!"K") = some "a\n b".toList
      ∧ rereadGet (losslessBackend.set (.node .PARAGRAPH []) (c!"K") "a\n b".toList) (c!"K") = some "a\nb".toList)
    ∧ (¬ ValidValue "a\n#b".toList
      ∧ losslessBackend.get (losslessBackend.ofList [(c!"K", "a\n#b".toList)]) (c!"K") = some "a\n#b".toList
      ∧ rereadGet (losslessBackend.ofList [(c!"K", "a\n#b".toList)]) (c!"K") = some (c!"a")) := by
  refine ⟨⟨by decide, C16_lossless_lawful.get_set _ _ _, by decide +kernel⟩,
    ⟨by decide, ?_, by decide +kernel⟩⟩
  rw [C16_lossless_lawful.get_ofList]; rfl

open Deb822Verif.Spec in
/-- a name with a colon (`"K:x"`, not a `ValidKey`): the live tree has the field, the re-read
    paragraph has a field `K` with value `"x: a"` instead -/
theorem C16_lossless_reread_needs_valid_key :
    ¬ ValidKey (c!"K:x")
    ∧ losslessBackend.get (losslessBackend.ofList [(c!"K:x", c!"a")]) (c!"K:x") = some (c!"a")
    ∧ rereadGet (losslessBackend.ofList [(c!"K:x", c!"a")]) (c!"K:x") = none
    ∧ rereadGet (losslessBackend.ofList [(c!"K:x", c!"a")]) (c!"K") = some (c!"x: a") := by
  refine ⟨by decide, ?_, by decide +kernel, by decide +kernel⟩
  rw [C16_lossless_lawful.get_ofList]; rfl

/-! ## non-vacuity

  The prior paragraph is `C04.exPara.node`: `Source: foo⏎ :x⏎# c⏎A:⏎A:⇥b: #c` — a two-line value, a
  comment line, a duplicate name, an empty value, no final newline. -/

/-- a struct with a mandatory and two optional fields (identity codecs) -/
def exSpec : List (FieldSpec Str) :=
  [⟨c!"Source", false, id, .ok⟩, ⟨c!"A", true, id, .ok⟩, ⟨c!"Description", true, id, .ok⟩]
/-- a value: `A` absent, `Description` with two lines -/
def exVal : List (Option Str) := [some (c!"bar"), none, some "l1\nl2".toList]
/-- a struct that does not own `A` -/
def exSpec2 : List (FieldSpec Str) := [⟨c!"Source", false, id, .ok⟩, ⟨c!"Description", true, id, .ok⟩]
def exVal2 : List (Option Str) := [some (c!"bar"), some "l1\nl2".toList]

example : (specKeys exSpec).Nodup ∧ (specKeys exSpec2).Nodup := by decide
example : WellFormed exSpec exVal ∧ CodecsRoundTrip exSpec exVal := by
  simp [WellFormed, CodecsRoundTrip, exSpec, exVal]
example : WellFormed exSpec2 exVal2 ∧ CodecsRoundTrip exSpec2 exVal2 := by
  simp [WellFormed, CodecsRoundTrip, exSpec2, exVal2]
example : exVal.length = exSpec.length := rfl
example : Spec.ValidPairs (toFields exSpec exVal) ∧ toFields exSpec exVal ≠ [] := by decide
example : toFields exSpec exVal = [(c!"Source", c!"bar"), (c!"Description", "l1\nl2".toList)] := by decide

/-- the prior paragraph, as `items` sees it -/
example : items C04.exPara.node
    = [(c!"Source", "foo\n:x".toList), (c!"A", []), (c!"A", "b: #c".toList)] := by decide +kernel

/-- the update, computed: `Source` replaced in place (both of its lines), both `A` removed, the
    comment kept, `Description` appended over two lines -/
example : (updateParagraph losslessBackend exSpec exVal C04.exPara.node).text
    = "Source: bar\n# c\nDescription: l1\n l2\n".toList := by decide +kernel
example : fromParagraph losslessBackend exSpec (updateParagraph losslessBackend exSpec exVal C04.exPara.node)
    = .ok exVal :=
  C16_lossless_update_reads_back exSpec exVal _ (by decide)
    (by simp [WellFormed, exSpec, exVal]) (by simp [CodecsRoundTrip, exSpec, exVal])

/-- frame: `A` is not a key of `exSpec2`; both `A` fields stay, in order, the unterminated last line
    gets its terminator before `Description` is appended -/
example : c!"A" ∉ specKeys exSpec2 := by decide
example : items (updateParagraph losslessBackend exSpec2 exVal2 C04.exPara.node)
    = [(c!"Source", c!"bar"), (c!"A", []), (c!"A", "b: #c".toList), (c!"Description", "l1\nl2".toList)] := by
  rw [(C16_lossless_simulates_lossy _ _).2.2]; decide +kernel
example : foreign (specKeys exSpec2) (items C04.exPara.node) = [(c!"A", []), (c!"A", "b: #c".toList)] := by
  decide +kernel

/-- `to_paragraph`, computed -/
example : (toParagraph losslessBackend exSpec exVal).text = "Source: bar\nDescription: l1\n l2\n".toList := by
  decide +kernel
example : Deb.keys (toParagraph losslessBackend exSpec exVal) = [c!"Source", c!"Description"] :=
  C16_lossless_order exSpec exVal

/-- the generated table: there are rows whose every field has a registered codec (hypothesis
    `specOfRow s = some spec` of `C16_lossless_structs_roundtrip`, as in `Props/C16.lean`) -/
example : ∃ s ∈ Gen.Structs.all, (specOfRow s).isSome = true := by decide +kernel

/-- `SameReads` is inhabited by every lossless paragraph with the lossy paragraph of its items -/
example : SameReads losslessBackend lossyBackend C04.exPara.node
    [(c!"Source", "foo\n:x".toList), (c!"A", []), (c!"A", "b: #c".toList)] := by
  have h : items C04.exPara.node
      = [(c!"Source", "foo\n:x".toList), (c!"A", []), (c!"A", "b: #c".toList)] := by decide +kernel
  rw [← h]; exact C16_lossless_sameReads_items _

/-- inside a document: the example document of C03/C04 (a comment line and a blank line in front of
    paragraph 0, which sits at child slot 2; handle 0 is live) -/
example : C03.exDoc.WF ∧ C04.exEditDoc.kids = C03.exDoc.tree.children
    ∧ ∃ cs, C04.exEditDoc.handles[0]? = some (some 2) ∧ C04.exEditDoc.kids[2]? = some (.node .PARAGRAPH cs) :=
  ⟨by decide, rfl, _, rfl, rfl⟩

end Deb822Verif.Props.C16
