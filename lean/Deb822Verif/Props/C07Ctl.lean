import Deb822Verif.Props.C07
import Deb822Verif.Lemmas.CtlWrapMoreDoc
/-!
# C07 — control wrappers: the remaining re-read / idempotence cases

`Props/C07.lean` left two cases of the control-file wrappers (`Control` / `Source` /
`Binary::wrap_and_sort`, model `Model/CtlWrap.lean`) without a theorem:

* (a) strict re-read for `Uploaders` values with a trailing comma — the formatter's output then ends
  with a line feed and is re-lexed to `… VALUE NEWLINE` — or, more generally, for any `Uploaders` value
  beyond the "good lines" hypothesis of `C07_control_reread`;
* (b) idempotence / re-read for relationship fields that do NOT parse strictly (`format_field`
  returns them unchanged).

Findings on the model (`#eval`, then proved):
* (a) holds. `Uploaders: A <a@b>, B <c@d>,` is written `Uploaders: A <a@b>,⏎    B <c@d>,⏎` (the last
  line is closed once, there is no empty line), the text re-reads without error to the value
  `A <a@b>,⏎B <c@d>,` the returned object reports, and a second pass changes nothing.
  For a well-formed field the formatted lines never start with a blank and only the last one can be
  empty (`Lemmas/CtlWrapMoreLines.lean`), so the only `Uploaders` fields excluded below are those of the
  open finding F-C07-10 (a formatted line after the first starting with `#`) — characterised on the
  input by `C07_control_uploaders_nohash`: some element after the first starts with `#`.
* (b) holds. The relations parser starts with `skip_ws()`: its errors depend on the text only behind
  the leading blanks (`C07_rel_errors_lead`), and the raw text of the reformatted field differs from
  the original one by leading blanks only — so the field still does not parse, the formatter is the
  identity on both passes and the field behaves as on the no-formatter path.

Helper lemmas: `Lemmas/CtlWrapMoreRel.lean`, `CtlWrapMoreLines.lean`, `CtlWrapMoreUploaders.lean`,
`CtlWrapMoreDoc.lean`.
-/
namespace Deb822Verif.Props.C07
open Deb822Verif Deb Node

/-! ## (b) relationship fields that do not parse strictly -/

/-- **the relations parser's error list depends on the text only behind its leading blanks**
    (space, tab, CR, LF): `Parser::parse` begins with `skip_ws()` -/
theorem C07_rel_errors_lead (a b : Str) (allow : Bool)
    (h : a.dropWhile Rel.isWsNl = b.dropWhile Rel.isWsNl) :
    (Rel.parse a allow).errors = (Rel.parse b allow).errors :=
  Rel.parse_errors_lead a b allow h

example : "  \n foo bar".toList.dropWhile Rel.isWsNl = " foo bar".toList.dropWhile Rel.isWsNl := by decide

open Ctl in
/-- `format_field` returns a relationship field that does not parse strictly unchanged (no panic) -/
theorem C07_control_unparsed_rel_unchanged (k v : Str) (hk : relFields.contains k = true)
    (hu : Unparsed v) : formatFieldO k v = some v ∧ formatField k v = v :=
  ⟨formatFieldO_unparsed k v hk hu, formatField_unparsed k v hk hu⟩

open Ctl Spec in
/-- **a relationship field that does not parse strictly is an entry-level fixed point.** For a
    well-formed field `e` (C03 grammar) named as one of the twelve relationship fields whose raw text
    has parse errors, every indentation ≥ 1 and every other setting:
    * the first pass returns `(e.wrap cfg).node` — the result of the no-formatter path;
    * the raw text of the result still does not parse;
    * the second pass returns the result unchanged;
    * the panic guard fires neither on the field nor on the result. -/
theorem C07_control_unparsed_rel_idempotent (cfg : WrapCfg) (e : EntryS) (more : Bool)
    (hwf : e.WF) (ht : e.Term more) (hc : IndentOK cfg)
    (hk : relFields.contains e.key = true) (hu : Unparsed (rawText e)) :
    entryWrap cfg (some formatField) e.node = some (e.wrap cfg).node
      ∧ entryWrap cfg (some formatField) e.node = entryWrap cfg none e.node
      ∧ Unparsed (rawText (e.wrap cfg))
      ∧ entryWrap cfg (some formatField) (e.wrap cfg).node = some (e.wrap cfg).node
      ∧ entryPanics e.node = false ∧ entryPanics (e.wrap cfg).node = false := by
  obtain ⟨h1, h2⟩ := entryWrap_unparsed_fixed cfg e more hwf ht hc hk hu
  obtain ⟨h3, h4⟩ := entryPanics_unparsed cfg e more hwf ht hc hk hu
  exact ⟨h1, by rw [h1, entryWrap_node cfg e more hwf ht hc], unparsed_wrap cfg e hwf hc hu, h2, h3, h4⟩

open Ctl Spec in
/-- **… and its result re-reads.** The result is the node of the well-formed, fully LF-terminated
    field `e.wrap cfg` with the same name and the same value lines; its text, as a document of its
    own, is accepted by the strict reader and reads back to one paragraph with exactly that
    `(name, value)` — the value of the input field. -/
theorem C07_control_unparsed_rel_reread (cfg : WrapCfg) (e : EntryS) (more : Bool)
    (hwf : e.WF) (ht : e.Term more) (hc : IndentOK cfg)
    (hk : relFields.contains e.key = true) (hu : Unparsed (rawText e)) :
    entryWrap cfg (some formatField) e.node = some (e.wrap cfg).node
      ∧ (e.wrap cfg).WF ∧ (e.wrap cfg).TermAll
      ∧ (e.wrap cfg).key = e.key
      ∧ entryValue (e.wrap cfg).node = entryValue e.node
      ∧ (e.wrap cfg).node.text = (e.wrap cfg).str
      ∧ parse (e.wrap cfg).str = ⟨.node .ROOT [.node .PARAGRAPH [(e.wrap cfg).node]], []⟩
      ∧ ∃ t, readStrict (e.wrap cfg).str = .ok t ∧ docItems t = [[(e.key, entryValue e.node)]] := by
  obtain ⟨h1, hwf', hta⟩ := entryOut_unparsed cfg e more hwf ht hc hk hu
  obtain ⟨hp, hr, hi, htx⟩ := entry_doc (e.wrap cfg) hwf' hta
  have hv : entryValue (e.wrap cfg).node = entryValue e.node := by
    rw [entryValue_node, entryValue_node, wrap_valueLines cfg e hwf]
  refine ⟨h1, hwf', hta, wrap_key cfg e, hv, htx, hp, _, hr, ?_⟩
  rw [hi, wrap_key, hv]

/-- `Build-Depends: foo bar` (two names without a comma) does not parse strictly -/
def exUnparsed : Spec.EntryS :=
  { key := "Build-Depends".toList, ws := [' '], v := "foo bar".toList, nl := true, conts := [] }

example : exUnparsed.WF ∧ exUnparsed.Term true ∧ IndentOK exCfg
    ∧ Ctl.relFields.contains exUnparsed.key = true ∧ Ctl.Unparsed (rawText exUnparsed) :=
  ⟨by decide, by decide, by simp [IndentOK, exCfg], by decide, by unfold Ctl.Unparsed; decide +kernel⟩

/-- a multi-line one: `Depends: a (>= 1⏎ , b` (unclosed parenthesis) -/
def exUnparsed2 : Spec.EntryS :=
  { key := "Depends".toList, ws := [' '], v := "a (>= 1".toList, nl := true,
    conts := [{ indent := [' '], text := ", b".toList, nl := true }] }

example : exUnparsed2.WF ∧ exUnparsed2.Term false
    ∧ Ctl.relFields.contains exUnparsed2.key = true ∧ Ctl.Unparsed (rawText exUnparsed2) :=
  ⟨by decide, by decide, by decide, by unfold Ctl.Unparsed; decide +kernel⟩

/-! ## (a) `Uploaders`: trailing commas, and every other value outside finding F-C07-10 -/

open Ctl Spec in
/-- **any formatter whose output ends with a line feed.** If the formatter's output for the
    well-formed field `e` is good lines `L` (non-empty, no CR / LF, not starting with a blank, none
    after the first starting with `#`) joined by LF and followed by one more LF, the reformatted field
    is the node of a well-formed, fully terminated field `eo` with the same name whose value lines are
    exactly `L`: the trailing line feed closes the last line and adds no empty line. -/
theorem C07_fmt_reread_trailing_newline (cfg : WrapCfg) (f : Str → Str → Str) (e : EntryS) (more : Bool)
    (hwf : e.WF) (ht : e.Term more) (hc : IndentOK cfg) (L : List Str) (hL : GoodLines L)
    (hout : f e.key (rawText e) = Text.join ['\n'] L ++ ['\n']) :
    ∃ eo : EntryS, EntryOut cfg (some f) e eo ∧ eo.key = e.key ∧ eo.valueLines = L :=
  entryOut_lines_nl cfg f e more hwf ht hc L hL hout

open Ctl Spec in
/-- **the trigger of finding F-C07-10 in terms of the input**: for a well-formed `Uploaders` field, if no
    element after the first (split at `','`, trimmed) starts with `#`, no line after the first of
    the formatter's output starts with `#` -/
theorem C07_control_uploaders_nohash (e : EntryS) (hwf : e.WF) (hel : ElemsNoHash (rawText e)) :
    hashLine (fmtCommaLines kUploaders (rawText e)) = false :=
  hashLine_of_elems kUploaders e hwf hel

open Ctl Spec in
/-- **every well-formed `Uploaders` field outside finding F-C07-10 is reformatted to a field that
    re-reads.** Hypothesis besides well-formedness (C03 grammar; any layout, continuation lines,
    trailing comma, empty elements, empty value) and indentation ≥ 1: no line after the first of
    the formatter's output starts with `#`. Then `Entry::wrap_and_sort` with `format_field` returns
    the node of a well-formed, fully LF-terminated field `eo` with the same name; the value it
    reports is the formatter's output read line by line (`fmtValue`); the text of `eo`, as a
    document of its own, is accepted by the strict reader and reads back to one paragraph with
    exactly that `(name, value)`; a second pass returns the same node. -/
theorem C07_control_uploaders_reread (cfg : WrapCfg) (e : EntryS) (more : Bool)
    (hwf : e.WF) (ht : e.Term more) (hc : IndentOK cfg) (hk : e.key = kUploaders)
    (hh : hashLine (fmtCommaLines kUploaders (rawText e)) = false) :
    ∃ eo : EntryS,
      entryWrap cfg (some formatField) e.node = some eo.node
      ∧ eo.WF ∧ eo.TermAll ∧ eo.key = e.key
      ∧ entryValue eo.node = fmtValue (fmtCommaLines kUploaders (rawText e))
      ∧ eo.node.text = eo.str
      ∧ parse eo.str = ⟨.node .ROOT [.node .PARAGRAPH [eo.node]], []⟩
      ∧ (∃ t, readStrict eo.str = .ok t ∧ docItems t = [[(e.key, entryValue eo.node)]])
      ∧ entryWrap cfg (some formatField) eo.node = some eo.node := by
  obtain ⟨eo, h1, hwf', hta⟩ := entryOut_uploaders cfg e more hwf ht hc hk hh
  obtain ⟨hp, hr, hi, htx⟩ := entry_doc eo hwf' hta
  have hcr : '\r' ∉ formatField e.key (rawText e) := by
    rw [hk, formatField_uploaders]; exact fmtCommaLines_nocr _ _ (rawText_nocr e hwf)
  obtain ⟨hkey, _, hval, _⟩ := C07_fmt_entry cfg formatField e.node eo.node e.key (rawText e)
    (entryKey_node e) (fmtArg_node e more ht) hcr h1
  have hkey' : eo.key = e.key := by
    rw [entryKey_node] at hkey; exact Option.some.inj hkey
  refine ⟨eo, h1, hwf', hta, hkey', ?_, htx, hp, ⟨_, hr, by rw [hi, hkey']⟩, ?_⟩
  · rw [hval, hk, formatField_uploaders]
  · exact entryWrap_uploaders_fixed cfg e.node eo.node (rawText e) (by rw [entryKey_node, hk])
      (fmtArg_node e more ht) (rawText_nocr e hwf) h1

open Ctl Spec in
/-- **`Uploaders` with a trailing comma re-reads.** Let `e` be a well-formed `Uploaders` field whose
    elements (the raw text split at `','`, each piece trimmed) are `P ++ [""]` with `P` non-empty —
    the value ends with a comma, possibly followed by blanks — and no element of `P` after the first
    starts with `#` (elements may be empty). Then, for every indentation ≥ 1 and every other setting:
    * the formatter's output is `P` joined by `",\n"` followed by `",\n"`: it ends with a line feed;
    * `Entry::wrap_and_sort` returns the node of a well-formed, fully LF-terminated field `eo` with the
      same name, whose value is `P` joined by `",\n"` followed by `","` — no empty last line;
    * the text of `eo`, as a document of its own, is accepted by the strict reader and reads back
      to one paragraph with exactly the `(name, value)` the returned object reports;
    * a second pass returns the same node. -/
theorem C07_control_uploaders_trailing_comma_reread (cfg : WrapCfg) (e : EntryS) (more : Bool)
    (hwf : e.WF) (ht : e.Term more) (hc : IndentOK cfg) (hk : e.key = kUploaders)
    (P : List Str) (hP : P ≠ [])
    (hsplit : (Text.splitOn ',' (rawText e)).map Text.trim = P ++ [[]])
    (hel : ∀ p ∈ P.tail, p.head? ≠ some '#') :
    ∃ eo : EntryS,
      fmtCommaLines kUploaders (rawText e) = Text.join [',', '\n'] P ++ [',', '\n']
      ∧ entryWrap cfg (some formatField) e.node = some eo.node
      ∧ eo.WF ∧ eo.TermAll ∧ eo.key = e.key
      ∧ entryValue eo.node = Text.join [',', '\n'] P ++ [',']
      ∧ eo.node.text = eo.str
      ∧ parse eo.str = ⟨.node .ROOT [.node .PARAGRAPH [eo.node]], []⟩
      ∧ (∃ t, readStrict eo.str = .ok t ∧ docItems t = [[(e.key, entryValue eo.node)]])
      ∧ entryWrap cfg (some formatField) eo.node = some eo.node := by
  -- the output
  have hjoin : ∀ Q : List Str, Q ≠ [] → Text.join [',', '\n'] (Q ++ [[]]) = Text.join [',', '\n'] Q ++ [',', '\n'] := by
    intro Q
    induction Q with
    | nil => intro h; exact absurd rfl h
    | cons q r ih =>
      intro _
      cases r with
      | nil => simp [Text.join]
      | cons s r' =>
        have := ih (by simp)
        simp only [List.cons_append] at this ⊢
        simp only [Text.join]
        rw [this]; simp
  have hout : fmtCommaLines kUploaders (rawText e) = Text.join [',', '\n'] P ++ [',', '\n'] := by
    unfold fmtCommaLines; rw [hsplit, hjoin P hP]
  have hout' : fmtCommaLines kUploaders (rawText e) = (Text.join [',', '\n'] P ++ [',']) ++ ['\n'] := by
    rw [hout]; simp
  generalize hX : Text.join [',', '\n'] P ++ [','] = X at hout'
  -- no `#` line, good lines
  have helems : ElemsNoHash (rawText e) := by
    unfold ElemsNoHash
    rw [hsplit, List.tail_append_of_ne_nil hP]
    intro p hp
    simp only [List.mem_append, List.mem_cons, List.not_mem_nil, or_false] at hp
    rcases hp with hp | rfl
    · exact hel p hp
    · simp
  have hh := hashLine_of_elems kUploaders e hwf helems
  have hcr : '\r' ∉ fmtCommaLines kUploaders (rawText e) := fmtCommaLines_nocr _ _ (rawText_nocr e hwf)
  have hcrX : '\r' ∉ X := by
    intro hm; apply hcr; rw [hout']; simp [hm]
  have hlines := lineOK_lines _ true (lineOK_uploaders kUploaders e hwf)
  simp only [↓reduceIte] at hlines
  unfold hashLine at hh
  rw [hout', splitOn_append_sep, show Text.splitOn '\n' [] = [[]] from rfl] at hlines hh
  have hinit : ∀ (A : List Str) (z : Str), LinesOK (A ++ [z]) → ∀ l ∈ A, GoodL l := by
    intro A
    induction A with
    | nil => intro z _ l hl; cases hl
    | cons a r ih =>
      intro z h l hl
      have h' : GoodL a ∧ LinesOK (r ++ [z]) := by
        cases r with
        | nil => exact h
        | cons b r' => exact h
      simp only [List.mem_cons] at hl
      rcases hl with rfl | hl
      · exact h'.1
      · exact ih z h'.2 l hl
  have hne : Text.splitOn '\n' X ≠ [] := splitOn_ne_nil' '\n' X
  have hL : GoodLines (Text.splitOn '\n' X) := goodLines_of _ _ hne
    (by
      intro l hl
      rw [List.drop_one, List.tail_append_of_ne_nil hne]
      simp [hl])
    (splitOn_nonl X hcrX) (hinit _ _ hlines) hh
  obtain ⟨eo, ⟨h1, hwf', hta⟩, hkey, hvl⟩ := entryOut_lines_nl cfg formatField e more hwf ht hc _ hL
    (by rw [hk, formatField_uploaders, hout', join_splitOn])
  obtain ⟨hp, hr, hi, htx⟩ := entry_doc eo hwf' hta
  have hval : entryValue eo.node = X := by rw [entryValue_node, hvl, join_splitOn]
  refine ⟨eo, hout, h1, hwf', hta, hkey, hval, htx, hp, ⟨_, hr, by rw [hi, hkey]⟩, ?_⟩
  exact entryWrap_uploaders_fixed cfg e.node eo.node (rawText e) (by rw [entryKey_node, hk])
    (fmtArg_node e more ht) (rawText_nocr e hwf) h1

/-- `Uploaders: A <a@b>, B <c@d>,` -/
def exTrailing : Spec.EntryS :=
  { key := "Uploaders".toList, ws := [' '], v := "A <a@b>, B <c@d>,".toList, nl := true, conts := [] }

/-- the hypotheses of `C07_control_uploaders_trailing_comma_reread` hold for it, with
    `P = ["A <a@b>", "B <c@d>"]` -/
example : exTrailing.WF ∧ exTrailing.Term true ∧ IndentOK exCfg ∧ exTrailing.key = Ctl.kUploaders
    ∧ ["A <a@b>".toList, "B <c@d>".toList] ≠ []
    ∧ (Text.splitOn ',' (rawText exTrailing)).map Text.trim = ["A <a@b>".toList, "B <c@d>".toList] ++ [[]]
    ∧ ∀ p ∈ ["A <a@b>".toList, "B <c@d>".toList].tail, p.head? ≠ some '#' :=
  ⟨by decide, by decide, by simp [IndentOK, exCfg], by decide, by decide, by decide, by decide⟩

/-- … and those of `C07_control_uploaders_reread` -/
example : Ctl.hashLine (Ctl.fmtCommaLines Ctl.kUploaders (rawText exTrailing)) = false := by decide

/-- the same over two lines with blanks behind the last comma: `Uploaders: A <a@b>,⏎ B <c@d>, ` -/
def exTrailing2 : Spec.EntryS :=
  { key := "Uploaders".toList, ws := [' '], v := "A <a@b>,".toList, nl := true,
    conts := [{ indent := [' '], text := "B <c@d>, ".toList, nl := false }] }

example : exTrailing2.WF ∧ exTrailing2.Term false
    ∧ (Text.splitOn ',' (rawText exTrailing2)).map Text.trim = ["A <a@b>".toList, "B <c@d>".toList] ++ [[]] :=
  ⟨by decide, by decide, by decide⟩

/-- the good lines of `C07_fmt_reread_trailing_newline` for that field and `format_field` -/
example : Ctl.formatField exTrailing.key (rawText exTrailing)
    = Text.join ['\n'] ["A <a@b>,".toList, "B <c@d>,".toList] ++ ['\n'] := by decide

def exTrailPara : DNode :=
  (paragraphs (parse "Source: a\nUploaders: A <a@b>, B <c@d>,\nBuild-Depends: foo bar\n".toList).tree).headD
    (.node .PARAGRAPH [])

/-- **closed instance on the model** (`Source::wrap_and_sort`, indentation 4, no width limit): a
    trailing comma in `Uploaders` and a `Build-Depends` that does not parse. The printed result has
    no empty line, it re-reads without error to exactly the items the returned paragraph reports, and
    a second pass returns the same text. -/
theorem C07_control_trailing_comma_instance :
    (Ctl.paraWrap exHashCfg exTrailPara).map Node.text
        = some "Source: a\nUploaders: A <a@b>,\n    B <c@d>,\nBuild-Depends: foo bar\n".toList
      ∧ (Ctl.paraWrap exHashCfg exTrailPara).map items
        = some [("Source".toList, "a".toList), ("Uploaders".toList, "A <a@b>,\nB <c@d>,".toList),
            ("Build-Depends".toList, "foo bar".toList)]
      ∧ (Ctl.paraWrap exHashCfg exTrailPara).map (fun p' => (parse p'.text).errors) = some []
      ∧ (Ctl.paraWrap exHashCfg exTrailPara).map (fun p' => docItems (parse p'.text).tree)
        = (Ctl.paraWrap exHashCfg exTrailPara).map (fun p' => [items p'])
      ∧ ((Ctl.paraWrap exHashCfg exTrailPara).bind (Ctl.paraWrap exHashCfg)).map Node.text
        = (Ctl.paraWrap exHashCfg exTrailPara).map Node.text := by
  refine ⟨by decide +kernel, by decide +kernel, by decide +kernel, by decide +kernel, by decide +kernel⟩

/-! ## the document-level statements with the weakened hypotheses -/

open Ctl Spec in
/-- the hypotheses of `C07_control_idempotent` / `C07_control_reread` imply the weakened ones:
    `RelFieldsOK2` (every relationship field is well-formed — C10 grammar — **or does not parse
    strictly**) and `UploadersOK2` (no line after the first of a formatted `Uploaders` value starts
    with `#`; **trailing commas, empty elements, empty values allowed**) -/
theorem C07_control_strong_subsumes (d : DocS) :
    (RelFieldsOK d → RelFieldsOK2 d)
      ∧ ((∀ pg ∈ d.paras, ∀ e ∈ paraEntries pg.1, e.key = kUploaders →
            ∃ L, GoodLines L ∧ fmtCommaLines kUploaders (rawText e) = Text.join ['\n'] L) → UploadersOK2 d)
      ∧ (d.WF → (∀ pg ∈ d.paras, ∀ e ∈ paraEntries pg.1, e.key = kUploaders → ElemsNoHash (rawText e))
            → UploadersOK2 d) := by
  refine ⟨fun h pg hpg e he => relOK_of e (h pg hpg e he),
    fun h pg hpg e he => upOK_of_goodLines e (h pg hpg e he), ?_⟩
  intro hwf h pg hpg e he
  obtain ⟨m, hm⟩ := parasTerm_each d.paras hwf.paras_term pg hpg
  obtain ⟨h1, _⟩ := paraEntries_props pg.1 m (hwf.paras_ok pg hpg).1 hm e he
  exact upOK_of_elems e h1 (h pg hpg e he)

open Ctl Spec in
/-- **`Control::wrap_and_sort` is idempotent — strengthened.** On every well-formed control file
    (C03 grammar) each relationship field of which is well-formed (C10 grammar) **or does not parse
    strictly**, indentation ≥ 1, every other setting; no hypothesis on `Uploaders`: the second
    application does not panic and returns the same tree.
    (Numbers above `i32::MAX` in versions: finding F-C07-8, outside the model. Not covered: a
    relationship field that parses without error but is outside the C10 grammar.) -/
theorem C07_control_idempotent_strong (cfg : WrapCfg) (d : DocS) (hwf : d.WF) (hc : IndentOK cfg)
    (hrel : RelFieldsOK2 d) (root' : DNode) (h : controlWrap cfg d.tree = some root') :
    controlWrap cfg root' = some root' :=
  controlWrap_idem2 cfg d hwf hc hrel root' h

open Ctl Spec in
/-- **the control wrapper does not panic — strengthened**: relationship fields well-formed or not
    parsing strictly -/
theorem C07_control_total_strong (cfg : WrapCfg) (d : DocS) (hwf : d.WF) (hc : IndentOK cfg)
    (hrel : RelFieldsOK2 d) : ∃ root', controlWrap cfg d.tree = some root' :=
  controlWrap_success cfg d hwf hc fun pg hpg e he => fieldOK_of2 e (hrel pg hpg e he)

open Ctl Spec in
/-- **strict re-read of the control wrapper's output — strengthened.** For a well-formed control file
    (C03 grammar), indentation ≥ 1, whose relationship fields are well-formed (C10 grammar) **or do not
    parse strictly**, and whose `Uploaders` fields are arbitrary well-formed fields — trailing comma,
    empty elements, empty value included — except that **no line after the first of the formatted value
    starts with `#`** (open finding F-C07-10, `C07_fmt_hash_witness`; by `C07_control_uploaders_nohash`
    it suffices that no element after the first starts with `#`): `Control::wrap_and_sort` does not
    panic, and its printed result parses strictly and reads back exactly the content the returned
    tree reports. -/
theorem C07_control_reread_strong (cfg : WrapCfg) (d : DocS) (hwf : d.WF) (hc : IndentOK cfg)
    (hrel : RelFieldsOK2 d) (hup : UploadersOK2 d) :
    ∃ root' : DNode,
      controlWrap cfg d.tree = some root'
      ∧ (paragraphs root').length = d.paras.length
      ∧ (parse root'.text).errors = []
      ∧ (∃ t, readStrict root'.text = .ok t ∧ docItems t = docItems root')
      ∧ ∃ d' : DocS, d'.WF ∧ DocTermAll d' ∧ root'.text = d'.str ∧ parse root'.text = ⟨d'.tree, []⟩ := by
  obtain ⟨root', hres, hlen, herr, hstrict, d', hd', hterm, htext, hparse, _, _⟩ :=
    C07_fmt_reread cfg none (some ctlParaLe) formatField d hwf (docOut2 cfg d hwf hc hrel hup)
  exact ⟨root', by simp [controlWrap, noPanic2 d hwf hrel, hres], hlen, herr, hstrict, d', hd', hterm,
    htext, hparse⟩

open Ctl Spec in
/-- **`Source` / `Binary::wrap_and_sort` is idempotent — strengthened** (one paragraph; relationship
    fields well-formed or not parsing strictly; `Uploaders` unrestricted) -/
theorem C07_control_para_idempotent_strong (cfg : WrapCfg) (p : ParaS) (more : Bool) (hwf : p.WF)
    (ht : p.Term more) (hc : IndentOK cfg) (hrel : ParaRelOK2 p) (p' : DNode)
    (h : paraWrap cfg p.node = some p') : paraWrap cfg p' = some p' :=
  paraWrap_idem2 cfg p more hwf ht hc hrel p' h

open Ctl Spec in
/-- **strict re-read of `Source` / `Binary::wrap_and_sort`'s output — strengthened** (same hypotheses
    as `C07_control_reread_strong`, for one paragraph) -/
theorem C07_control_para_reread_strong (cfg : WrapCfg) (p : ParaS) (more : Bool) (hwf : p.WF)
    (ht : p.Term more) (hc : IndentOK cfg) (hrel : ParaRelOK2 p) (hup : ParaUpOK2 p) :
    ∃ p' : DNode, paraWrap cfg p.node = some p'
      ∧ (parse p'.text).errors = []
      ∧ (∃ t, readStrict p'.text = .ok t ∧ docItems t = [items p']) := by
  obtain ⟨p', h1, d', hd', _, htext, hparse, hitems⟩ := paraWrap_reread2 cfg p more hwf ht hc hrel hup
  exact ⟨p', h1, by rw [hparse], d'.tree, by simp [readStrict, hparse], hitems⟩

/-- `Uploaders: A <a@b>,⏎ B <c@d>, ⏎` — trailing comma, blanks behind it -/
def exTrailing3 : Spec.EntryS :=
  { key := "Uploaders".toList, ws := [' '], v := "A <a@b>,".toList, nl := true,
    conts := [{ indent := [' '], text := "B <c@d>, ".toList, nl := true }] }

/-- a source paragraph with that `Uploaders` field, a comment and a `Build-Depends` that does not parse -/
def exSourcePara : Spec.ParaS :=
  { first := { key := "Source".toList, ws := [' '], v := "a".toList, nl := true, conts := [] },
    rest := [.entry exTrailing3, .comment " who".toList true, .entry exUnparsed] }

/-- a control file: that paragraph and a binary paragraph with a well-formed `Depends` -/
def exControl2 : Spec.DocS :=
  { lead := [],
    paras := [
      (exSourcePara, [.blank]),
      ({ first := { key := "Package".toList, ws := [' '], v := "b".toList, nl := true, conts := [] },
         rest := [.entry { key := "Depends".toList, ws := [' '], v := "x,".toList, nl := true,
                           conts := [{ indent := "  ".toList, text := "y".toList, nl := false }] }] }, [])] }

/-- the hypotheses of `C07_control_para_idempotent_strong` / `C07_control_para_reread_strong` -/
example : exSourcePara.WF ∧ exSourcePara.Term true ∧ Ctl.ParaRelOK2 exSourcePara ∧ Ctl.ParaUpOK2 exSourcePara := by
  refine ⟨by decide, by decide, ?_, ?_⟩
  · intro e he hk
    simp only [exSourcePara, paraEntries, itemEntries, List.mem_cons, List.not_mem_nil, or_false] at he
    rcases he with rfl | rfl | rfl
    · exact absurd hk (by decide)
    · exact absurd hk (by decide)
    · exact Or.inr (by unfold Ctl.Unparsed; decide +kernel)
  · intro e he hk
    simp only [exSourcePara, paraEntries, itemEntries, List.mem_cons, List.not_mem_nil, or_false] at he
    rcases he with rfl | rfl | rfl
    · exact absurd hk (by decide)
    · decide
    · exact absurd hk (by decide)

/-- the hypothesis of `C07_control_uploaders_nohash` (and of the third part of
    `C07_control_strong_subsumes`) on that field -/
example : exTrailing3.WF ∧ Ctl.ElemsNoHash (rawText exTrailing3) :=
  ⟨by decide, by unfold Ctl.ElemsNoHash; decide⟩

example : exControl2.WF ∧ IndentOK exCfg := ⟨by decide, by simp [IndentOK, exCfg]⟩

example : exControl2.str
    = "Source: a\nUploaders: A <a@b>,\n B <c@d>, \n# who\nBuild-Depends: foo bar\n\nPackage: b\nDepends: x,\n  y".toList := by
  decide

example : Ctl.RelFieldsOK2 exControl2 := by
  intro pg hpg e he hk
  simp only [exControl2, List.mem_cons, List.not_mem_nil, or_false] at hpg
  rcases hpg with rfl | rfl
  · simp only [exSourcePara, paraEntries, itemEntries, List.mem_cons, List.not_mem_nil, or_false] at he
    rcases he with rfl | rfl | rfl
    · exact absurd hk (by decide)
    · exact absurd hk (by decide)
    · exact Or.inr (by unfold Ctl.Unparsed; decide +kernel)
  · simp only [paraEntries, itemEntries, List.mem_cons, List.not_mem_nil, or_false] at he
    rcases he with rfl | rfl
    · exact absurd hk (by decide)
    · exact Or.inl ⟨exDependsA, by decide, by decide⟩

example : Ctl.UploadersOK2 exControl2 := by
  intro pg hpg e he hk
  simp only [exControl2, List.mem_cons, List.not_mem_nil, or_false] at hpg
  rcases hpg with rfl | rfl
  · simp only [exSourcePara, paraEntries, itemEntries, List.mem_cons, List.not_mem_nil, or_false] at he
    rcases he with rfl | rfl | rfl
    · exact absurd hk (by decide)
    · decide
    · exact absurd hk (by decide)
  · simp only [paraEntries, itemEntries, List.mem_cons, List.not_mem_nil, or_false] at he
    rcases he with rfl | rfl <;> exact absurd hk (by decide)

/-- hence `Control::wrap_and_sort` returns a tree for it (hypothesis `h` of
    `C07_control_idempotent_strong`) -/
example (hrel : Ctl.RelFieldsOK2 exControl2) : ∃ root', Ctl.controlWrap exCfg exControl2.tree = some root' :=
  C07_control_total_strong exCfg exControl2 (by decide) (by simp [IndentOK, exCfg]) hrel

end Deb822Verif.Props.C07
