import Deb822Verif.Model.Codec
import Deb822Verif.Props.C18
/-!
# C18 (VCS locations) — `Vcs::subpath` and `Vcs::to_branch_url` (debian-control/src/vcs.rs:200-225)

The second text form of a VCS location (`<url>,branch=<branch>`, the form Breezy understands) and the
subpath projection. Model: `Codec.Vcs.subpath`, `Codec.Vcs.toBranchUrl` (panic as a value); tie to the
code: op `vcs.branchurl` (harness/src/codec.rs).
-/
namespace Deb822Verif.Props.C18Vcs
open Deb822Verif Text Codec
open Deb822Verif.Props.C18 (CanonVcs CanonVcsField C18_vcs_roundtrip)

/-- **`to_branch_url` panics exactly on a Git location without a branch** (`branch.as_ref().unwrap()`,
    vcs.rs:216) -/
theorem C18_vcs_branch_url_panic_iff (v : Vcs) :
    (∃ site, Vcs.toBranchUrl v = .panic site) ↔ ∃ u p, v = .git u none p := by
  cases v with
  | git u b p => cases b <;> simp [Vcs.toBranchUrl]
  | bzr u p => simp [Vcs.toBranchUrl]
  | hg u => simp [Vcs.toBranchUrl]
  | svn u => simp [Vcs.toBranchUrl]
  | cvs r m => simp [Vcs.toBranchUrl]

/-- **the value, variant by variant**: Git with a branch: `<repo_url>,branch=<branch>`; Bzr / Hg /
    Svn: the repository URL itself; Cvs: `None`. The subpath never enters the result. -/
theorem C18_vcs_branch_url_value :
    (∀ u b p, Vcs.toBranchUrl (.git u (some b) p) = .ok (some (u ++ ",branch=".toList ++ b)))
    ∧ (∀ u p, Vcs.toBranchUrl (.bzr u p) = .ok (some u))
    ∧ (∀ u, Vcs.toBranchUrl (.hg u) = .ok (some u))
    ∧ (∀ u, Vcs.toBranchUrl (.svn u) = .ok (some u))
    ∧ (∀ r m, Vcs.toBranchUrl (.cvs r m) = .ok none) := by
  refine ⟨?_, ?_, ?_, ?_, ?_⟩ <;> intros <;> rfl

/-- `None` is returned for Cvs locations only -/
theorem C18_vcs_branch_url_none_iff (v : Vcs) :
    Vcs.toBranchUrl v = .ok none ↔ ∃ r m, v = .cvs r m := by
  cases v with
  | git u b p => cases b <;> simp [Vcs.toBranchUrl]
  | bzr u p => simp [Vcs.toBranchUrl]
  | hg u => simp [Vcs.toBranchUrl]
  | svn u => simp [Vcs.toBranchUrl]
  | cvs r m => simp [Vcs.toBranchUrl]

/-- **what `from_field("Git", value)` gives to `to_branch_url`**: a Vcs-Git value without ` -b `
    (just a URL, with or without `[subpath]` — the usual form of the field) makes the call panic;
    with ` -b <branch>` the result is `<url>,branch=<branch>` -/
theorem C18_vcs_git_field_branch_url (value : Str) :
    (Vcs.fromField nGit value).map Vcs.toBranchUrl =
      some (match (ParsedVcs.parse value).branch with
        | none => .panic "vcs.rs:216 branch.as_ref().unwrap()"
        | some b => .ok (some ((ParsedVcs.parse value).repoUrl ++ ",branch=".toList ++ b))) := by
  simp only [Vcs.fromField, ↓reduceIte, Option.map_some, Option.some.injEq]
  cases (ParsedVcs.parse value).branch <;> rfl

/-- closed witness of the panic: the commonest Vcs-Git value -/
theorem C18_vcs_git_url_only_panics :
    (Vcs.fromField nGit "https://salsa.debian.org/debian/foo.git".toList).map Vcs.toBranchUrl
      = some (.panic "vcs.rs:216 branch.as_ref().unwrap()") := by decide +kernel

/-- … and the same URL with a branch and a subpath: the subpath is dropped -/
theorem C18_vcs_git_branch_witness :
    (Vcs.fromField nGit "https://salsa.debian.org/debian/foo.git -b debian/sid [sub]".toList).map
        Vcs.toBranchUrl
      = some (.ok (some "https://salsa.debian.org/debian/foo.git,branch=debian/sid".toList)) := by
  decide +kernel

/-- **`subpath()`**: the subpath of Git / Bzr locations, `None` otherwise; it survives the field form
    of every canonical location (C18's round trip) -/
theorem C18_vcs_subpath (v : Vcs) (h : CanonVcsField v) :
    (Vcs.fromField (Vcs.toField v).1 (Vcs.toField v).2).map Vcs.subpath = some (Vcs.subpath v)
    ∧ (Vcs.fromField (Vcs.toField v).1 (Vcs.toField v).2).map Vcs.toBranchUrl
        = some (Vcs.toBranchUrl v) := by
  rw [C18_vcs_roundtrip v h]; exact ⟨rfl, rfl⟩

theorem C18_vcs_subpath_value :
    (∀ u b p, Vcs.subpath (.git u b p) = p) ∧ (∀ u p, Vcs.subpath (.bzr u p) = p)
    ∧ (∀ u, Vcs.subpath (.hg u) = none) ∧ (∀ u, Vcs.subpath (.svn u) = none)
    ∧ (∀ r m, Vcs.subpath (.cvs r m) = none) := by
  refine ⟨?_, ?_, ?_, ?_, ?_⟩ <;> intros <;> rfl

/-- the hypothesis of `C18_vcs_subpath` is satisfiable by a location with branch and subpath -/
example : CanonVcsField (.git "https://salsa.debian.org/x/y.git".toList (some "debian/sid".toList)
    (some "sub/dir".toList)) := by
  show CanonVcs _
  exact {
    url := by decide
    branch := by
      intro b hb
      simp only [Option.some.injEq] at hb
      subst hb
      exact ⟨by decide, C18.branchOK_of_not_bracket _ (by decide)⟩
    subpath := by
      intro p hp
      simp only [Option.some.injEq] at hp
      subst hp
      exact ⟨by decide, by decide⟩ }
/-- `<url>,branch=<b>` is not injective in (url, branch): a ',' in the URL or the branch is not
    escaped (the code carries a TODO "Proper URL encoding") -/
theorem C18_vcs_branch_url_not_injective :
    Vcs.toBranchUrl (.git "u".toList (some "a,branch=b".toList) none)
      = Vcs.toBranchUrl (.git "u,branch=a".toList (some "b".toList) none) := by decide +kernel

end Deb822Verif.Props.C18Vcs
