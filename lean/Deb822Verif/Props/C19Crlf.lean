import Deb822Verif.Props.C19Bytes
import Deb822Verif.Driver.Pgp
/-!
# C19 — CRLF / mixed line ends, separator and marker look-alikes

`Side` of Props/C19.lean asks every line to be `LineOK` (no `\n` inside, no `\r` at the end), which
keeps CRLF messages out of the headline theorems.  This file says what happens there.
Model: `Pgp.strip` (pgp.rs:66-124); `str::lines()` = `Text.lines`.

* `C19_lines_only(_eq)`     `strip` looks at the text only through `lines`: with the marker as first
                            line the result is a function of `lines s`; otherwise it is `(s, none)`
* `lines_renderMixed`       the lines of a text written with a per-line choice of LF / CRLF
* `C19_unwrap_mixed`        a wrapped message with ANY per-line choice LF / CRLF unwraps to the payload
                            with LF line ends (a CRLF line may even end in `\r`: one `\r` is stripped)
* `C19_unwrap_crlf`         the all-CRLF case (side condition: no `\n` inside a line, nothing on `\r`)
* `C19_mixed_eq_lf`, `C19_crlf_eq_lf`   for `LineOK` lines the CRLF / mixed rendering gives the same answer
                            as the LF rendering, so `C19_truncate_crlf`, `C19_junk_crlf` follow
* `C19_cut_cr_lf`           a CRLF message cut between the CR and the LF of the END line:
                            `TruncatedPgpSignature` (END + `\r` unterminated is not the END line)
* `C19_marker_cr_eof`       marker + `\r` at end of input: pass-through as unsigned
* `C19_ws_separator_witness`, `C19_ws_separator_missing_payload`   a white-space-only line in the
                            separator position is a header line (GnuPG reads it as the separator)
* `C19_passthrough_lookalikes`, `C19_passthrough_prefixed` (+ closed witnesses)  marker with trailing
                            characters / anything before the marker: the whole text is unsigned
-/
namespace Deb822Verif.Props.C19Crlf
open Deb822Verif Text Pgp Props.C19

/-! ### 1. `strip` sees the text through `lines` only -/

/-- `strip` depends on the text only through `Text.lines`: when the first line is the marker the
    result is `stripLines [] (lines s)` (the text itself is not used); otherwise the text is handed
    back unchanged and unsigned -/
theorem C19_lines_only (s : Str) :
    strip s = if (lines s).head? = some beginMsg then stripLines [] (lines s) else .ok (s, none) := by
  unfold strip stripLines
  cases hl : lines s with
  | nil => simp
  | cons first rest =>
    by_cases hf : first = beginMsg
    · subst hf; simp
    · simp [hf]

/-- two texts with the same lines, the first being the marker, get the same answer -/
theorem C19_lines_only_eq (s t : Str) (h : lines s = lines t) (hm : (lines s).head? = some beginMsg) :
    strip s = strip t := by
  rw [C19_lines_only s, C19_lines_only t, ← h, if_pos hm, if_pos hm]

/-- and in every case the answers agree up to the text handed back by a pass-through -/
theorem C19_lines_only_shape (s t : Str) (h : lines s = lines t) :
    strip s = strip t ∨ (strip s = .ok (s, none) ∧ strip t = .ok (t, none)) := by
  by_cases hm : (lines s).head? = some beginMsg
  · exact .inl (C19_lines_only_eq s t h hm)
  · right
    rw [C19_lines_only s, C19_lines_only t, ← h, if_neg hm, if_neg hm]
    exact ⟨rfl, rfl⟩

example : strip "-----BEGIN PGP SIGNED MESSAGE-----\r\nHash: x\n".toList
    = strip "-----BEGIN PGP SIGNED MESSAGE-----\nHash: x\r\n".toList :=
  C19_lines_only_eq _ _ (by decide +kernel) (by decide +kernel)

/-! ### 2. texts with a per-line choice of line end -/

/-- lines with their line end: `true` = CRLF, `false` = LF -/
def renderMixed : List (Str × Bool) → Str
  | [] => []
  | (l, cr) :: r => l ++ (if cr then '\r' :: '\n' :: renderMixed r else '\n' :: renderMixed r)

/-- every line ended by `\r\n` -/
def renderCRLF (ls : List Str) : Str := renderMixed (ls.map (·, true))

/-- what `lines` needs to give a line back: no `\n` inside; before a bare LF no `\r` at the end.
    Before CRLF nothing is asked about `\r` (`a\r` + CRLF comes back as `a\r`: one `\r` is stripped) -/
def EolOK (p : Str × Bool) : Prop := '\n' ∉ p.1 ∧ (p.2 = false → p.1.getLast? ≠ some '\r')

theorem stripCR_snoc (l : Str) : stripCR (l ++ ['\r']) = l := by
  simp [stripCR]

theorem lines_crlf_cons (l rest : Str) (h : '\n' ∉ l) :
    lines (l ++ '\r' :: '\n' :: rest) = l :: lines rest := by
  have e : l ++ '\r' :: '\n' :: rest = (l ++ ['\r']) ++ '\n' :: rest := by simp
  have hn : '\n' ∉ l ++ ['\r'] := by
    intro hm
    rcases List.mem_append.1 hm with a | a
    · exact h a
    · simp at a
  rw [e]
  simp only [lines, rawLines_line_cons (l ++ ['\r']) rest hn, List.map_cons, ↓reduceIte, stripCR_snoc]

/-- the lines of a mixed-line-end text (followed by any tail) -/
theorem lines_renderMixed (ls : List (Str × Bool)) (ok : ∀ p ∈ ls, EolOK p) (t : Str) :
    lines (renderMixed ls ++ t) = ls.map Prod.fst ++ lines t := by
  induction ls with
  | nil => simp [renderMixed]
  | cons p r ih =>
    obtain ⟨l, cr⟩ := p
    have hp : EolOK (l, cr) := ok _ (by simp)
    have hr : ∀ q ∈ r, EolOK q := fun q hq => ok q (by simp [hq])
    cases cr with
    | false =>
      have e : renderMixed ((l, false) :: r) ++ t = l ++ '\n' :: (renderMixed r ++ t) := by
        simp [renderMixed]
      rw [e, lines_line_cons l _ ⟨hp.1, hp.2 rfl⟩, ih hr]; rfl
    | true =>
      have e : renderMixed ((l, true) :: r) ++ t = l ++ '\r' :: '\n' :: (renderMixed r ++ t) := by
        simp [renderMixed]
      rw [e, lines_crlf_cons l _ hp.1, ih hr]; rfl

theorem lines_renderMixed' (ls : List (Str × Bool)) (ok : ∀ p ∈ ls, EolOK p) :
    lines (renderMixed ls) = ls.map Prod.fst := by
  have := lines_renderMixed ls ok []
  simpa [lines, rawLines] using this

theorem map_fst_crlf (ls : List Str) : (ls.map (·, true)).map Prod.fst = ls := by
  induction ls with
  | nil => rfl
  | cons a r ih => simp [ih]

theorem lines_renderCRLF (ls : List Str) (ok : ∀ l ∈ ls, '\n' ∉ l) : lines (renderCRLF ls) = ls := by
  unfold renderCRLF
  rw [lines_renderMixed' _ (by
    intro p hp
    obtain ⟨l, hl, rfl⟩ := List.mem_map.1 hp
    exact ⟨ok l hl, by simp⟩), map_fst_crlf]

/-! ### 3. unwrapping CRLF / mixed messages -/

/-- the delimiter conditions alone (what the four loops test) -/
structure SideL (hs ps sig : List Str) : Prop where
  hs_ne : ∀ h ∈ hs, h ≠ []
  ps_ne : ∀ p ∈ ps, p ≠ beginSig
  sig_ne : ∀ s ∈ sig, s ≠ endSig

/-- clause 1 for ANY per-line choice of LF / CRLF: the message whose lines are `wrap hs ps sig`,
    each written with its own line end, unwraps to the payload WITH LF LINE ENDS and the
    concatenated signature lines -/
theorem C19_unwrap_mixed (hs ps sig : List Str) (h : SideL hs ps sig) (ls : List (Str × Bool))
    (hl : ls.map Prod.fst = wrap hs ps sig) (ok : ∀ p ∈ ls, EolOK p) :
    strip (renderMixed ls) = .ok (unlinesNL ps, some sig.flatten) := by
  unfold strip
  rw [lines_renderMixed' ls ok, hl]
  exact stripLines_sig_end _ hs ps sig h.hs_ne h.ps_ne h.sig_ne

/-- side conditions for the CRLF message: no `\n` inside a line (a `\r` anywhere is allowed) and
    the delimiter conditions -/
structure SideCR (hs ps sig : List Str) : Prop where
  hs_ok : ∀ h ∈ hs, '\n' ∉ h ∧ h ≠ []
  ps_ok : ∀ p ∈ ps, '\n' ∉ p ∧ p ≠ beginSig
  sig_ok : ∀ s ∈ sig, '\n' ∉ s ∧ s ≠ endSig

theorem SideCR.toL {hs ps sig} (h : SideCR hs ps sig) : SideL hs ps sig :=
  ⟨fun x hx => (h.hs_ok x hx).2, fun x hx => (h.ps_ok x hx).2, fun x hx => (h.sig_ok x hx).2⟩

theorem Side_toCR {hs ps sig} (h : Side hs ps sig) : SideCR hs ps sig :=
  ⟨fun x hx => ⟨(h.hs_ok x hx).1.1, (h.hs_ok x hx).2⟩, fun x hx => ⟨(h.ps_ok x hx).1.1, (h.ps_ok x hx).2⟩,
   fun x hx => ⟨(h.sig_ok x hx).1.1, (h.sig_ok x hx).2⟩⟩

/-- the message without its END line -/
def wrapInit (hs ps sig : List Str) : List Str := beginMsg :: (hs ++ [] :: (ps ++ beginSig :: sig))

theorem wrap_eq_init (hs ps sig : List Str) : wrap hs ps sig = wrapInit hs ps sig ++ [endSig] := by
  simp [wrap, wrapInit]

theorem wrapInit_no_nl {hs ps sig} (h : SideCR hs ps sig) : ∀ l ∈ wrapInit hs ps sig, '\n' ∉ l := by
  intro l hl
  simp only [wrapInit, List.mem_cons, List.mem_append] at hl
  rcases hl with e | hl | e | hl | e | hl
  · subst e; decide
  · exact (h.hs_ok l hl).1
  · subst e; simp
  · exact (h.ps_ok l hl).1
  · subst e; decide
  · exact (h.sig_ok l hl).1

theorem wrap_no_nl {hs ps sig} (h : SideCR hs ps sig) : ∀ l ∈ wrap hs ps sig, '\n' ∉ l := by
  intro l hl
  rw [wrap_eq_init] at hl
  rcases List.mem_append.1 hl with a | a
  · exact wrapInit_no_nl h l a
  · simp at a; subst a; decide

/-- clause 1 for the CRLF rendering: every line ended by `\r\n`; the payload comes back with LF
    line ends (so it is NOT the payload text of the CRLF message, but its LF form) -/
theorem C19_unwrap_crlf (hs ps sig : List Str) (h : SideCR hs ps sig) :
    strip (renderCRLF (wrap hs ps sig)) = .ok (unlinesNL ps, some sig.flatten) := by
  unfold strip
  rw [lines_renderCRLF _ (wrap_no_nl h)]
  exact stripLines_sig_end _ hs ps sig h.toL.hs_ne h.toL.ps_ne h.toL.sig_ne

/-- for `LineOK` lines starting with the marker, the mixed rendering answers as the LF rendering:
    every line-level theorem of Props/C19.lean transfers -/
theorem C19_mixed_eq_lf (ls : List (Str × Bool)) (ok : ∀ p ∈ ls, LineOK p.1)
    (hm : (ls.map Prod.fst).head? = some beginMsg) :
    strip (renderMixed ls) = strip (render (ls.map Prod.fst)) := by
  have h1 : lines (renderMixed ls) = ls.map Prod.fst :=
    lines_renderMixed' ls (fun p hp => ⟨(ok p hp).1, fun _ => (ok p hp).2⟩)
  have h2 : lines (render (ls.map Prod.fst)) = ls.map Prod.fst :=
    lines_unlinesNL _ (by
      intro l hl
      obtain ⟨p, hp, rfl⟩ := List.mem_map.1 hl
      exact ok p hp)
  exact C19_lines_only_eq _ _ (h1.trans h2.symm) (h1 ▸ hm)

theorem C19_crlf_eq_lf (ls : List Str) (ok : ∀ l ∈ ls, LineOK l) (hm : ls.head? = some beginMsg) :
    strip (renderCRLF ls) = strip (render ls) := by
  have := C19_mixed_eq_lf (ls.map (·, true)) (by
    intro p hp
    obtain ⟨l, hl, rfl⟩ := List.mem_map.1 hp
    exact ok l hl) (by rw [map_fst_crlf]; exact hm)
  rw [map_fst_crlf] at this
  exact this

/-- clause 3 for the CRLF rendering: cut after any line before the END marker -/
theorem C19_truncate_crlf (hs ps sig : List Str) (h : Side hs ps sig) (k : Nat) (hk0 : 0 < k)
    (hk : k < (wrap hs ps sig).length) :
    strip (renderCRLF ((wrap hs ps sig).take k)) = .error (errorAt hs ps k) := by
  rw [C19_crlf_eq_lf _ (fun l hl => wrap_lines_ok h l (List.mem_of_mem_take hl)) (by
    obtain ⟨k', rfl⟩ : ∃ k', k = k' + 1 := ⟨k - 1, by omega⟩
    simp [wrap])]
  exact C19_truncate hs ps sig h k hk0 hk

/-- clause 4 for the CRLF rendering -/
theorem C19_junk_crlf (hs ps sig : List Str) (h : Side hs ps sig) (extra : List Str)
    (he : extra ≠ []) (hl : ∀ l ∈ extra, LineOK l) :
    strip (renderCRLF (wrap hs ps sig ++ extra)) = .error .JunkAfterPgpSignature := by
  rw [C19_crlf_eq_lf _ (by
    intro l hl'; rcases List.mem_append.1 hl' with a | a
    · exact wrap_lines_ok h l a
    · exact hl l a) (by simp [wrap])]
  exact C19_junk hs ps sig h extra he hl

/-! ### 4. the cut between CR and LF -/

theorem renderMixed_append (a b : List (Str × Bool)) :
    renderMixed (a ++ b) = renderMixed a ++ renderMixed b := by
  induction a with
  | nil => rfl
  | cons p r ih =>
    obtain ⟨l, cr⟩ := p
    cases cr <;> simp [renderMixed, ih]

/-- the CRLF message is: the lines before END in CRLF, then END, CR, LF -/
theorem renderCRLF_wrap (hs ps sig : List Str) :
    renderCRLF (wrap hs ps sig) = renderCRLF (wrapInit hs ps sig) ++ (endSig ++ ['\r']) ++ ['\n'] := by
  rw [wrap_eq_init]
  simp [renderCRLF, renderMixed_append, renderMixed]

/-- a CRLF message cut between the CR and the LF of its END line is `TruncatedPgpSignature`:
    `lines` strips a `\r` only in front of a `\n`, so the last line is END + `\r`, not END -/
theorem C19_cut_cr_lf (hs ps sig : List Str) (h : SideCR hs ps sig) :
    strip (renderCRLF (wrapInit hs ps sig) ++ (endSig ++ ['\r'])) = .error .TruncatedPgpSignature := by
  unfold strip renderCRLF
  rw [lines_renderMixed _ (by
    intro p hp
    obtain ⟨l, hl, rfl⟩ := List.mem_map.1 hp
    exact ⟨wrapInit_no_nl h l hl, by simp⟩), map_fst_crlf]
  have e : lines (endSig ++ ['\r']) = [endSig ++ ['\r']] := by decide +kernel
  rw [e]
  have := stripLines_sig_eof (renderMixed ((wrapInit hs ps sig).map (·, true)) ++ (endSig ++ ['\r']))
    hs ps (sig ++ [endSig ++ ['\r']]) h.toL.hs_ne h.toL.ps_ne (by
      intro y hy
      rcases List.mem_append.1 hy with a | a
      · exact h.toL.sig_ne y a
      · simp at a; subst a; decide)
  simpa [wrapInit] using this

/-- … and that text is the CRLF message minus its last character -/
theorem renderCRLF_wrap_dropLast (hs ps sig : List Str) :
    (renderCRLF (wrap hs ps sig)).dropLast = renderCRLF (wrapInit hs ps sig) ++ (endSig ++ ['\r']) := by
  rw [renderCRLF_wrap, List.dropLast_concat]

/-- the marker followed by a bare `\r` at end of input is not the marker line: unsigned pass-through -/
theorem C19_marker_cr_eof : strip (beginMsg ++ ['\r']) = .ok (beginMsg ++ ['\r'], none) := by
  decide +kernel

/-- while marker + CRLF is the marker line (then the input ends: `MissingPayload`) -/
theorem C19_marker_crlf_eof : strip (beginMsg ++ ['\r', '\n']) = .error .MissingPayload := by
  decide +kernel

/-! ### non-vacuity: a message with `\r` inside and at the end of lines -/

def crHs : List Str := ["Hash: SHA256".toList, "Comment: a\rb".toList]
def crPs : List Str := ["Origin: Debian".toList, [], "- x\r".toList, "\r".toList]
def crSig : List Str := [[], "iQIz".toList, "=olY7\r".toList]

theorem crSideCR : SideCR crHs crPs crSig := by
  constructor <;> intro x hx <;> simp [crHs, crPs, crSig] at hx
  · rcases hx with rfl | rfl <;> exact ⟨by decide, by decide⟩
  · rcases hx with rfl | rfl | rfl | rfl <;> exact ⟨by decide, by decide⟩
  · rcases hx with rfl | rfl | rfl <;> exact ⟨by decide, by decide⟩

example : strip (renderCRLF (wrap crHs crPs crSig)) =
    .ok ("Origin: Debian\n\n- x\r\n\r\n".toList, some "iQIz=olY7\r".toList) :=
  C19_unwrap_crlf _ _ _ crSideCR

example : strip (renderCRLF (wrap crHs crPs crSig)).dropLast = .error .TruncatedPgpSignature := by
  rw [renderCRLF_wrap_dropLast]; exact C19_cut_cr_lf _ _ _ crSideCR

/-- a mixed instance: LF after the marker and the payload, CRLF elsewhere -/
def mixLs : List (Str × Bool) :=
  [(beginMsg, false), ("Hash: SHA256".toList, true), ([], true), ("Origin: Debian".toList, false),
   ("x\r".toList, true), (beginSig, true), ("iQIz".toList, false), (endSig, true)]

example : strip (renderMixed mixLs) = .ok ("Origin: Debian\nx\r\n".toList, some "iQIz".toList) :=
  C19_unwrap_mixed ["Hash: SHA256".toList] ["Origin: Debian".toList, "x\r".toList] ["iQIz".toList]
    ⟨by decide, by decide, by decide⟩ mixLs (by decide) (by
      intro p hp
      simp [mixLs] at hp
      rcases hp with rfl | rfl | rfl | rfl | rfl | rfl | rfl | rfl <;> exact ⟨by decide, by decide⟩)

example : strip (renderCRLF ((wrap exHs exPs exSig).take 4)) = .error .MissingPgpSignature :=
  C19_truncate_crlf _ _ _ exSide 4 (by decide) (by decide)

example : strip (renderCRLF (wrap exHs exPs exSig ++ [[]])) = .error .JunkAfterPgpSignature :=
  C19_junk_crlf _ _ _ exSide [[]] (by simp) (by intro l hl; simp at hl; subst hl; exact empty_ok)

/-! ### the text the correspondence driver builds for `pgp.wrap … eol` is a `renderMixed` text -/

/-- the lines paired with the line end the driver's rule `eol` gives line `i`, `i+1`, … -/
def withEol (eol : String) : Nat → List Str → List (Str × Bool)
  | _, [] => []
  | i, l :: r => (l, Driver.Pgp.isCrlf eol i) :: withEol eol (i + 1) r

theorem renderEol_eq (eol : String) (i : Nat) (ls : List Str) :
    Driver.Pgp.renderEol eol i ls = renderMixed (withEol eol i ls) := by
  induction ls generalizing i with
  | nil => rfl
  | cons l r ih => simp only [Driver.Pgp.renderEol, withEol, renderMixed, ih]

theorem withEol_fst (eol : String) (i : Nat) (ls : List Str) : (withEol eol i ls).map Prod.fst = ls := by
  induction ls generalizing i with
  | nil => rfl
  | cons l r ih => simp [withEol, ih]

theorem driver_wrap_eq (hs ps sig : List Str) : Driver.Pgp.wrap hs ps sig = wrap hs ps sig := rfl

/-! ### 5. white-space-only separator line (audit W1) -/

/-- a line holding one blank in the separator position is an armour header line for the code, the
    separator is the next truly empty line: what comes back is the text after THAT line.
    (GnuPG reads a white-space-only line as the separator; its payload here is `a\n\nb\n`.) -/
theorem C19_ws_separator_witness :
    strip "-----BEGIN PGP SIGNED MESSAGE-----\nHash: x\n \na\n\nb\n-----BEGIN PGP SIGNATURE-----\ns\n-----END PGP SIGNATURE-----\n".toList
      = .ok ("b\n".toList, some "s".toList) := by decide +kernel

/-- the same with a TAB -/
theorem C19_ws_separator_tab_witness :
    strip "-----BEGIN PGP SIGNED MESSAGE-----\nHash: x\n\t\na\n\nb\n-----BEGIN PGP SIGNATURE-----\ns\n-----END PGP SIGNATURE-----\n".toList
      = .ok ("b\n".toList, some "s".toList) := by decide +kernel

/-- when the payload has no empty line (single stanza), the message with a blank-only separator
    is refused: everything up to the end is "headers" -/
theorem C19_ws_separator_missing_payload :
    strip "-----BEGIN PGP SIGNED MESSAGE-----\nHash: x\n \na\n-----BEGIN PGP SIGNATURE-----\ns\n-----END PGP SIGNATURE-----\n".toList
      = .error .MissingPayload := by decide +kernel

/-- a separator line `\r` + LF IS the empty line (CRLF separator in an otherwise LF message) -/
theorem C19_cr_separator_witness :
    strip "-----BEGIN PGP SIGNED MESSAGE-----\nHash: x\n\r\na\n\nb\n-----BEGIN PGP SIGNATURE-----\ns\n-----END PGP SIGNATURE-----\n".toList
      = .ok ("a\n\nb\n".toList, some "s".toList) := by decide +kernel

/-! ### 6. marker look-alikes pass through as unsigned text (audit W2) -/

/-- the first line is the marker followed by something (a blank, a TAB, any characters other than a
    lone `\r`): the WHOLE text — armour and signature included — is handed back as unsigned -/
theorem C19_passthrough_lookalikes (x rest : Str) (hx : x ≠ []) (hnl : '\n' ∉ x) (hcr : x ≠ ['\r']) :
    strip (beginMsg ++ x ++ '\n' :: rest) = .ok (beginMsg ++ x ++ '\n' :: rest, none) := by
  apply C19_passthrough
  have hn : '\n' ∉ beginMsg ++ x := by
    intro hm
    rcases List.mem_append.1 hm with a | a
    · exact absurd a (by decide)
    · exact hnl a
  have hne : stripCR (beginMsg ++ x) ≠ beginMsg := by
    unfold stripCR
    split
    · rename_i hlast
      intro e
      have hlen := congrArg List.length e
      simp only [List.length_dropLast, List.length_append] at hlen
      have hx1 : x.length = 1 := by
        have : 0 < x.length := List.length_pos_iff.2 hx
        omega
      match x, hx1 with
      | [c], _ =>
        simp at hlast
        exact hcr (by rw [hlast])
    · intro e
      have hlen := congrArg List.length e
      simp only [List.length_append] at hlen
      have : 0 < x.length := List.length_pos_iff.2 hx
      omega
  simp only [lines, rawLines_line_cons (beginMsg ++ x) rest hn, List.map_cons, ↓reduceIte,
    List.head?_cons, ne_eq, Option.some.injEq]
  exact hne

/-- anything in front of the marker on the first line (a BOM, a blank): unsigned pass-through -/
theorem C19_passthrough_prefixed (x rest : Str) (hx : x ≠ []) (hnl : '\n' ∉ x) :
    strip (x ++ beginMsg ++ '\n' :: rest) = .ok (x ++ beginMsg ++ '\n' :: rest, none) := by
  apply C19_passthrough
  have hn : '\n' ∉ x ++ beginMsg := by
    intro hm
    rcases List.mem_append.1 hm with a | a
    · exact hnl a
    · exact absurd a (by decide)
  have hcr : stripCR (x ++ beginMsg) = x ++ beginMsg := by
    apply stripCR_of_ok
    have hb : beginMsg.getLast? = some '-' := by decide
    rw [List.getLast?_append, hb]
    simp
  simp only [lines, rawLines_line_cons (x ++ beginMsg) rest hn, List.map_cons, ↓reduceIte,
    List.head?_cons, ne_eq, Option.some.injEq, hcr]
  intro e
  have hlen := congrArg List.length e
  simp only [List.length_append] at hlen
  have : 0 < x.length := List.length_pos_iff.2 hx
  omega

/-- an empty (or any other) line before the marker line: unsigned pass-through -/
theorem C19_passthrough_leading_line (l rest : Str) (hl : LineOK l) (hne : l ≠ beginMsg) :
    strip (l ++ '\n' :: rest) = .ok (l ++ '\n' :: rest, none) := by
  apply C19_passthrough
  rw [lines_line_cons l rest hl]
  simpa using hne

def lookBody : Str :=
  "\nHash: SHA256\n\nOrigin: Debian\n-----BEGIN PGP SIGNATURE-----\niQIz\n-----END PGP SIGNATURE-----\n".toList

/-- marker with a trailing blank -/
theorem C19_lookalike_trailing_blank_witness :
    strip (beginMsg ++ ' ' :: lookBody) = .ok (beginMsg ++ ' ' :: lookBody, none) := by decide +kernel

/-- BOM before the marker -/
theorem C19_lookalike_bom_witness :
    strip ('\uFEFF' :: beginMsg ++ lookBody) = .ok ('\uFEFF' :: beginMsg ++ lookBody, none) := by
  decide +kernel

/-- blank line before the marker -/
theorem C19_lookalike_leading_blank_line_witness :
    strip ('\n' :: beginMsg ++ lookBody) = .ok ('\n' :: beginMsg ++ lookBody, none) := by decide +kernel

/-- the real marker, for contrast -/
example : strip (beginMsg ++ lookBody) = .ok ("Origin: Debian\n".toList, some "iQIz".toList) := by
  decide +kernel

example : strip (beginMsg ++ " \t".toList ++ '\n' :: lookBody.tail) = .ok (beginMsg ++ " \t".toList ++ '\n' :: lookBody.tail, none) :=
  C19_passthrough_lookalikes _ _ (by decide) (by decide) (by decide)

example : strip ("\uFEFF".toList ++ beginMsg ++ '\n' :: lookBody.tail) = .ok ("\uFEFF".toList ++ beginMsg ++ '\n' :: lookBody.tail, none) :=
  C19_passthrough_prefixed _ _ (by decide) (by decide)

example : strip ([] ++ '\n' :: (beginMsg ++ lookBody)) = .ok ([] ++ '\n' :: (beginMsg ++ lookBody), none) :=
  C19_passthrough_leading_line _ _ empty_ok (by decide)

end Deb822Verif.Props.C19Crlf
