import Deb822Verif.Model.DebEdit
/-!
# C04 — field edits act like list edits, touch nothing else, and survive a re-read
-/
namespace Deb822Verif.Props.C04
open Deb822Verif Deb Node

/-! ### the list model -/
namespace ListSpec
abbrev Items := List (Str × Str)
/-- replace the first field of that name in place, or append -/
def set : Items → Str → Str → Items
  | [], k, v => [(k, v)]
  | f :: fs, k, v => if f.1 = k then (k, v) :: fs else f :: set fs k v
def insert (l : Items) (k v : Str) : Items := l ++ [(k, v)]
def remove (l : Items) (k : Str) : Items := l.filter fun f => f.1 ≠ k
/-- rename the first field of that name, keeping position and value -/
def rename : Items → Str → Str → Items
  | [], _, _ => []
  | f :: fs, k, k' => if f.1 = k then (k', f.2) :: fs else f :: rename fs k k'
end ListSpec

def pitems (cs : List DNode) : List (Str × Str) := items (.node .PARAGRAPH cs)

/-! ### what `Entry::new` reads back as -/

theorem splitOn_ne_nil (s : Str) : Text.splitOn '\n' s ≠ [] := by
  cases s with
  | nil => simp [Text.splitOn]
  | cons c cs =>
    simp only [Text.splitOn]
    split
    · simp
    · split <;> simp

theorem join_splitOn (v : Str) : Text.join ['\n'] (Text.splitOn '\n' v) = v := by
  induction v with
  | nil => simp [Text.splitOn, Text.join]
  | cons c cs ih =>
    obtain ⟨a, as, hs⟩ : ∃ a as, Text.splitOn '\n' cs = a :: as := by
      cases h : Text.splitOn '\n' cs with
      | nil => exact absurd h (splitOn_ne_nil cs)
      | cons a as => exact ⟨a, as, rfl⟩
    rw [hs] at ih
    simp only [Text.splitOn, hs]
    split
    · rename_i h; subst h
      simp only [Text.join, List.nil_append, List.cons_append]
      rw [ih]
    · cases as with
      | nil => simp only [Text.join] at ih ⊢; rw [ih]
      | cons b bs =>
        simp only [Text.join, List.cons_append, List.append_assoc] at ih ⊢
        rw [ih]

theorem valueLineToks_values (ls : List Str) (first : Bool) :
    ((valueLineToks first ls).filter (isTokOf .VALUE)).map tokTextOf = ls := by
  induction ls generalizing first with
  | nil => simp [valueLineToks]
  | cons l ls ih =>
    simp only [valueLineToks, List.filter_append, List.map_append, ih false]
    cases first <;> simp [isTokOf, tokTextOf]

theorem entryKey_new (k v : Str) : entryKey (entryNew k v) = some k := by
  simp [entryKey, entryNew, Node.children, isTokOf, tokTextOf]

theorem entryValue_new (k v : Str) : entryValue (entryNew k v) = v := by
  simp only [entryValue, entryNew, Node.children, List.filter_append, List.map_append,
    valueLineToks_values]
  simp [isTokOf, join_splitOn]

theorem isEntry_new (k v : Str) : ((entryNew k v).isNode && (entryNew k v).kind == .ENTRY) = true := by
  simp [entryNew, Node.isNode, Node.kind]

/-- items of a child list, one child at a time -/
def childItem (c : DNode) : List (Str × Str) :=
  if c.isNode && c.kind == .ENTRY then
    match entryKey c with
    | some k => [(k, entryValue c)]
    | none => []
  else []

theorem pitems_eq (cs : List DNode) : pitems cs = (cs.map childItem).flatten := by
  unfold pitems items entries
  simp only [Node.children]
  induction cs with
  | nil => rfl
  | cons c cs ih =>
    simp only [List.filter_cons, List.map_cons, List.flatten_cons, childItem]
    split
    · simp only [List.filterMap_cons]
      cases entryKey c <;> simp [ih]
    · simpa using ih

theorem pitems_append (a b : List DNode) : pitems (a ++ b) = pitems a ++ pitems b := by
  simp [pitems_eq]

theorem childItem_new (k v : Str) : childItem (entryNew k v) = [(k, v)] := by
  simp [childItem, isEntry_new, entryKey_new, entryValue_new]

/-! ### terminating the last line does not change what is read -/

def lastIsNode (cs : List DNode) : Bool :=
  match cs.getLast? with
  | some (Node.node _ _) => true
  | _ => false

/-- the last child after `terminateLast` -/
def terminatedLast : DNode → List DNode
  | .tok k t => [.tok k t, .tok .NEWLINE ['\n']]
  | .node k cs => [.node k (if lastIsNode cs then terminateLast cs else cs ++ [.tok .NEWLINE ['\n']])]

theorem terminateLast_snoc (init : List DNode) (last : DNode) :
    terminateLast (init ++ [last]) = init ++ terminatedLast last := by
  induction init with
  | nil =>
    cases last with
    | tok k t => simp [terminateLast, terminatedLast]
    | node k cs =>
      simp only [List.nil_append, terminateLast, terminatedLast, lastIsNode]
      split <;> simp_all
  | cons c init ih =>
    cases init with
    | nil => simp only [List.cons_append, List.nil_append] at ih ⊢; rw [terminateLast, ih]
    | cons d init => simp only [List.cons_append] at ih ⊢; rw [terminateLast, ih]

theorem find_key_snoc_node (init : List DNode) (k : Kind) (cs : List DNode) :
    (init ++ [Node.node k cs]).find? (isTokOf .KEY) = init.find? (isTokOf .KEY) := by
  simp [List.find?_append, isTokOf]

theorem filter_value_snoc_node (init : List DNode) (k : Kind) (cs : List DNode) :
    (init ++ [Node.node k cs]).filter (isTokOf .VALUE) = init.filter (isTokOf .VALUE) := by
  simp [List.filter_append, isTokOf]

theorem getLast_snoc_cases (cs : List DNode) :
    cs = [] ∨ ∃ init last, cs = init ++ [last] := by
  cases h : cs.getLast? with
  | none => left; simpa using h
  | some x => right; exact ⟨_, x, (List.getLast?_eq_some_iff.mp h).choose_spec⟩

/-- a node keeps its key and value when its last line gets terminated -/
theorem childItem_terminated (c : DNode) : ((terminatedLast c).map childItem).flatten = childItem c := by
  cases c with
  | tok k t => simp [terminatedLast, childItem, Node.isNode]
  | node k cs =>
    simp only [terminatedLast, List.map_cons, List.map_nil, List.flatten_cons, List.flatten_nil,
      List.append_nil]
    have hk : ∀ X : List DNode,
        (X.find? (isTokOf .KEY) = cs.find? (isTokOf .KEY)) →
        (X.filter (isTokOf .VALUE) = cs.filter (isTokOf .VALUE)) →
        childItem (.node k X) = childItem (.node k cs) := by
      intro X h1 h2
      have e1 : entryKey (.node k X) = entryKey (.node k cs) := by simp only [entryKey, Node.children, h1]
      have e2 : entryValue (.node k X) = entryValue (.node k cs) := by simp only [entryValue, Node.children, h2]
      unfold childItem
      rw [e1, e2]
      rfl
    split
    · rename_i hl
      rcases getLast_snoc_cases cs with rfl | ⟨init, last, rfl⟩
      · simp [lastIsNode] at hl
      · cases last with
        | tok k' t' => simp [lastIsNode] at hl
        | node k' cs' =>
          rw [terminateLast_snoc]
          apply hk
          · simp only [terminatedLast, find_key_snoc_node]
          · simp only [terminatedLast, filter_value_snoc_node]
    · apply hk
      · rcases getLast_snoc_cases cs with rfl | ⟨init, last, rfl⟩
        · simp [isTokOf]
        · simp only [List.append_assoc, List.find?_append]
          cases h : init.find? (isTokOf .KEY) with
          | some x => simp
          | none =>
            cases last with
            | tok k' t' => by_cases hk' : k' = .KEY <;> simp [isTokOf, hk']
            | node k' cs' => simp [isTokOf]
      · simp [List.filter_append, isTokOf]

theorem pitems_terminateLast (cs : List DNode) : pitems (terminateLast cs) = pitems cs := by
  rcases getLast_snoc_cases cs with rfl | ⟨init, last, rfl⟩
  · simp [terminateLast]
  · rw [terminateLast_snoc]
    simp only [pitems_eq, List.map_append, List.flatten_append, childItem_terminated]
    simp

theorem pitems_terminateLastLine (cs : List DNode) : pitems (terminateLastLine cs) = pitems cs := by
  unfold terminateLastLine
  repeat' split
  all_goals first
    | rfl
    | exact pitems_terminateLast cs
    | simp [pitems_eq, childItem, Node.isNode]

/-! ### refinement: each edit is the list operation -/

/-- `insert` appends -/
theorem C04_refine_insert (cs : List DNode) (k v : Str) :
    pitems (paraInsert cs k v) = ListSpec.insert (pitems cs) k v := by
  simp only [paraInsert, pitems_append, pitems_terminateLastLine, ListSpec.insert]
  simp [pitems_eq, childItem_new]

theorem childItem_key (c : DNode) (k : Str) :
    isEntryWithKey k c = true → ∃ v, childItem c = [(k, v)] := by
  intro h
  simp only [isEntryWithKey, Bool.and_eq_true, beq_iff_eq] at h
  obtain ⟨⟨h1, h2⟩, h3⟩ := h
  exact ⟨entryValue c, by simp [childItem, h1, h2, h3]⟩

theorem childItem_notkey (c : DNode) (k : Str) (h : isEntryWithKey k c = false) :
    ∀ f ∈ childItem c, f.1 ≠ k := by
  intro f hf
  simp only [childItem] at hf
  split at hf
  · rename_i he
    split at hf
    · rename_i k' hk
      simp at hf; subst hf
      intro e; simp only at e; subst e
      simp [isEntryWithKey, he, hk] at h
    · simp at hf
  · simp at hf

theorem set_skip (l m : ListSpec.Items) (k v : Str) (h : ∀ f ∈ l, f.1 ≠ k) :
    ListSpec.set (l ++ m) k v = l ++ ListSpec.set m k v := by
  induction l with
  | nil => rfl
  | cons f fs ih =>
    have hf := h f (by simp)
    simp only [List.cons_append, ListSpec.set, hf, ↓reduceIte]
    rw [ih (fun g hg => h g (by simp [hg]))]

/-- `set` replaces the first field of that name in place, or appends -/
theorem C04_refine_set (cs : List DNode) (k v : Str) :
    pitems (paraSet cs k v) = ListSpec.set (pitems cs) k v := by
  unfold paraSet
  have key : ∀ cs : List DNode,
      (match replaceFirst (isEntryWithKey k) (fun _ => entryNew k v) cs with
        | some cs' => pitems cs' = ListSpec.set (pitems cs) k v
        | none => ∀ f ∈ pitems cs, f.1 ≠ k) := by
    intro cs
    induction cs with
    | nil => simp [replaceFirst, pitems_eq]
    | cons c cs ih =>
      simp only [replaceFirst]
      by_cases hc : isEntryWithKey k c = true
      · obtain ⟨v0, hv0⟩ := childItem_key c k hc
        simp only [hc, ↓reduceIte]
        simp [pitems_eq, childItem_new, hv0, ListSpec.set]
      · have hc' : isEntryWithKey k c = false := by simpa using hc
        have hnk := childItem_notkey c k hc'
        simp only [hc', Bool.false_eq_true, ↓reduceIte]
        cases hr : replaceFirst (isEntryWithKey k) (fun _ => entryNew k v) cs with
        | some cs' =>
          rw [hr] at ih
          simp only [pitems_eq, List.map_cons, List.flatten_cons] at ih ⊢
          rw [ih, set_skip _ _ _ _ hnk]
        | none =>
          rw [hr] at ih
          intro f hf
          simp only [pitems_eq, List.map_cons, List.flatten_cons, List.mem_append] at hf ih
          rcases hf with hf | hf
          · exact hnk f hf
          · exact ih f hf
  have := key cs
  cases hr : replaceFirst (isEntryWithKey k) (fun _ => entryNew k v) cs with
  | some cs' => rw [hr] at this; simpa using this
  | none =>
    rw [hr] at this
    simp only [pitems_append, pitems_terminateLastLine]
    have h2 := set_skip (pitems cs) [] k v this
    simp only [List.append_nil] at h2
    rw [h2]
    simp [pitems_eq, childItem_new, ListSpec.set]

/-- `remove` deletes the fields of that name -/
theorem C04_refine_remove (cs : List DNode) (k : Str) :
    pitems (paraRemove cs k) = ListSpec.remove (pitems cs) k := by
  unfold paraRemove ListSpec.remove
  induction cs with
  | nil => simp [pitems_eq]
  | cons c cs ih =>
    simp only [List.filter_cons]
    by_cases hc : isEntryWithKey k c = true
    · obtain ⟨v0, hv0⟩ := childItem_key c k hc
      simp only [hc, Bool.not_true, Bool.false_eq_true, ↓reduceIte]
      rw [ih]
      simp [pitems_eq, hv0]
    · have hc' : isEntryWithKey k c = false := by simpa using hc
      have hnk := childItem_notkey c k hc'
      simp only [hc', Bool.not_false, ↓reduceIte]
      simp only [pitems_eq, List.map_cons, List.flatten_cons, List.filter_append] at ih ⊢
      rw [ih]
      congr 1
      symm
      apply List.filter_eq_self.2
      intro f hf; simpa using hnk f hf

theorem rename_skip (l m : ListSpec.Items) (k k' : Str) (h : ∀ f ∈ l, f.1 ≠ k) :
    ListSpec.rename (l ++ m) k k' = l ++ ListSpec.rename m k k' := by
  induction l with
  | nil => rfl
  | cons f fs ih =>
    have hf := h f (by simp)
    simp only [List.cons_append, ListSpec.rename, hf, ↓reduceIte]
    rw [ih (fun g hg => h g (by simp [hg]))]

theorem rename_absent (l : ListSpec.Items) (k k' : Str) (h : ∀ f ∈ l, f.1 ≠ k) :
    ListSpec.rename l k k' = l := by
  have := rename_skip l [] k k' h
  simpa [ListSpec.rename] using this

/-- `rename` changes the first such field's name, keeping position and value; it reports
    whether there was one -/
theorem C04_refine_rename (cs : List DNode) (k k' : Str) :
    pitems (paraRename cs k k').1 = ListSpec.rename (pitems cs) k k'
      ∧ ((paraRename cs k k').2 = true ↔ ∃ f ∈ pitems cs, f.1 = k) := by
  unfold paraRename
  have key : ∀ cs : List DNode,
      (match replaceFirst (isEntryWithKey k) (fun e => entryNew k' (entryValue e)) cs with
        | some cs' => pitems cs' = ListSpec.rename (pitems cs) k k' ∧ ∃ f ∈ pitems cs, f.1 = k
        | none => ∀ f ∈ pitems cs, f.1 ≠ k) := by
    intro cs
    induction cs with
    | nil => simp [replaceFirst, pitems_eq]
    | cons c cs ih =>
      simp only [replaceFirst]
      by_cases hc : isEntryWithKey k c = true
      · simp only [hc, ↓reduceIte]
        have h1 : (c.isNode && c.kind == .ENTRY) = true ∧ entryKey c = some k := by
          simp only [isEntryWithKey, Bool.and_eq_true, beq_iff_eq] at hc
          exact ⟨by simp [hc.1.1, hc.1.2], hc.2⟩
        have hci : childItem c = [(k, entryValue c)] := by simp [childItem, h1.1, h1.2]
        refine ⟨?_, (k, entryValue c), ?_, rfl⟩
        · simp [pitems_eq, childItem_new, hci, ListSpec.rename]
        · simp [pitems_eq, hci]
      · have hc' : isEntryWithKey k c = false := by simpa using hc
        have hnk := childItem_notkey c k hc'
        simp only [hc', Bool.false_eq_true, ↓reduceIte]
        cases hr : replaceFirst (isEntryWithKey k) (fun e => entryNew k' (entryValue e)) cs with
        | some cs' =>
          rw [hr] at ih
          obtain ⟨ih1, f, hf, hfk⟩ := ih
          refine ⟨?_, f, ?_, hfk⟩
          · simp only [pitems_eq, List.map_cons, List.flatten_cons] at ih1 ⊢
            rw [ih1, rename_skip _ _ _ _ hnk]
          · simp only [pitems_eq, List.map_cons, List.flatten_cons, List.mem_append] at hf ⊢
            exact Or.inr hf
        | none =>
          rw [hr] at ih
          intro f hf
          simp only [pitems_eq, List.map_cons, List.flatten_cons, List.mem_append] at hf ih
          rcases hf with hf | hf
          · exact hnk f hf
          · exact ih f hf
  have := key cs
  cases hr : replaceFirst (isEntryWithKey k) (fun e => entryNew k' (entryValue e)) cs with
  | some cs' =>
    rw [hr] at this
    exact ⟨this.1, by simp [this.2]⟩
  | none =>
    rw [hr] at this
    refine ⟨(rename_absent _ _ _ this).symm, ?_⟩
    simp only [Bool.false_eq_true, false_iff, not_exists, not_and]
    exact fun f hf => this f hf

end Deb822Verif.Props.C04
