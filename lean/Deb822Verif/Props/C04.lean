import Deb822Verif.Model.DebEdit
import Deb822Verif.Lemmas.DebEditFrame
import Deb822Verif.Lemmas.DebEditDoc
import Deb822Verif.Lemmas.DebEditHandles
import Deb822Verif.Props.C03
/-!
# C04 — field edits act like list edits, touch nothing else, and survive a re-read
-/
namespace Deb822Verif.Props.C04
open Deb822Verif Deb Node

/-! ### the list model -/
namespace ListSpec
abbrev Items := List (Str × Str)
/-- replace the first field of that name in place, or append -/
def set : Items → Str → Str → Items
  | [], k, v => [(k, v)]
  | f :: fs, k, v => if f.1 = k then (k, v) :: fs else f :: set fs k v
def insert (l : Items) (k v : Str) : Items := l ++ [(k, v)]
def remove (l : Items) (k : Str) : Items := l.filter fun f => f.1 ≠ k
/-- rename the first field of that name, keeping position and value -/
def rename : Items → Str → Str → Items
  | [], _, _ => []
  | f :: fs, k, k' => if f.1 = k then (k', f.2) :: fs else f :: rename fs k k'
end ListSpec

def pitems (cs : List DNode) : List (Str × Str) := items (.node .PARAGRAPH cs)

/-! ### what `Entry::new` reads back as -/

theorem splitOn_ne_nil (s : Str) : Text.splitOn '\n' s ≠ [] := by
  cases s with
  | nil => simp [Text.splitOn]
  | cons c cs =>
    simp only [Text.splitOn]
    split
    · simp
    · split <;> simp

theorem join_splitOn (v : Str) : Text.join ['\n'] (Text.splitOn '\n' v) = v := by
  induction v with
  | nil => simp [Text.splitOn, Text.join]
  | cons c cs ih =>
    obtain ⟨a, as, hs⟩ : ∃ a as, Text.splitOn '\n' cs = a :: as := by
      cases h : Text.splitOn '\n' cs with
      | nil => exact absurd h (splitOn_ne_nil cs)
      | cons a as => exact ⟨a, as, rfl⟩
    rw [hs] at ih
    simp only [Text.splitOn, hs]
    split
    · rename_i h; subst h
      simp only [Text.join, List.nil_append, List.cons_append]
      rw [ih]
    · cases as with
      | nil => simp only [Text.join] at ih ⊢; rw [ih]
      | cons b bs =>
        simp only [Text.join, List.cons_append, List.append_assoc] at ih ⊢
        rw [ih]

theorem valueLineToks_values (ls : List Str) (first : Bool) :
    ((valueLineToks first ls).filter (isTokOf .VALUE)).map tokTextOf = ls := by
  induction ls generalizing first with
  | nil => simp [valueLineToks]
  | cons l ls ih =>
    simp only [valueLineToks, List.filter_append, List.map_append, ih false]
    cases first <;> simp [isTokOf, tokTextOf]

theorem entryKey_new (k v : Str) : entryKey (entryNew k v) = some k := by
  simp [entryKey, entryNew, Node.children, isTokOf, tokTextOf]

theorem entryValue_new (k v : Str) : entryValue (entryNew k v) = v := by
  simp only [entryValue, entryNew, Node.children, List.filter_append, List.map_append,
    valueLineToks_values]
  simp [isTokOf, join_splitOn]

theorem isEntry_new (k v : Str) : ((entryNew k v).isNode && (entryNew k v).kind == .ENTRY) = true := by
  simp [entryNew, Node.isNode, Node.kind]

/-- items of a child list, one child at a time -/
def childItem (c : DNode) : List (Str × Str) :=
  if c.isNode && c.kind == .ENTRY then
    match entryKey c with
    | some k => [(k, entryValue c)]
    | none => []
  else []

theorem pitems_eq (cs : List DNode) : pitems cs = (cs.map childItem).flatten := by
  unfold pitems items entries
  simp only [Node.children]
  induction cs with
  | nil => rfl
  | cons c cs ih =>
    simp only [List.filter_cons, List.map_cons, List.flatten_cons, childItem]
    split
    · simp only [List.filterMap_cons]
      cases entryKey c <;> simp [ih]
    · simpa using ih

theorem pitems_append (a b : List DNode) : pitems (a ++ b) = pitems a ++ pitems b := by
  simp [pitems_eq]

theorem childItem_new (k v : Str) : childItem (entryNew k v) = [(k, v)] := by
  simp [childItem, isEntry_new, entryKey_new, entryValue_new]

/-! ### terminating the last line does not change what is read -/

def lastIsNode (cs : List DNode) : Bool :=
  match cs.getLast? with
  | some (Node.node _ _) => true
  | _ => false

/-- the last child after `terminateLast` -/
def terminatedLast : DNode → List DNode
  | .tok k t => [.tok k t, .tok .NEWLINE ['\n']]
  | .node k cs => [.node k (if lastIsNode cs then terminateLast cs else cs ++ [.tok .NEWLINE ['\n']])]

theorem terminateLast_snoc (init : List DNode) (last : DNode) :
    terminateLast (init ++ [last]) = init ++ terminatedLast last := by
  induction init with
  | nil =>
    cases last with
    | tok k t => simp [terminateLast, terminatedLast]
    | node k cs =>
      simp only [List.nil_append, terminateLast, terminatedLast, lastIsNode]
      split <;> simp_all
  | cons c init ih =>
    cases init with
    | nil => simp only [List.cons_append, List.nil_append] at ih ⊢; rw [terminateLast, ih]
    | cons d init => simp only [List.cons_append] at ih ⊢; rw [terminateLast, ih]

theorem find_key_snoc_node (init : List DNode) (k : Kind) (cs : List DNode) :
    (init ++ [Node.node k cs]).find? (isTokOf .KEY) = init.find? (isTokOf .KEY) := by
  simp [List.find?_append, isTokOf]

theorem filter_value_snoc_node (init : List DNode) (k : Kind) (cs : List DNode) :
    (init ++ [Node.node k cs]).filter (isTokOf .VALUE) = init.filter (isTokOf .VALUE) := by
  simp [List.filter_append, isTokOf]

theorem getLast_snoc_cases (cs : List DNode) :
    cs = [] ∨ ∃ init last, cs = init ++ [last] := by
  cases h : cs.getLast? with
  | none => left; simpa using h
  | some x => right; exact ⟨_, x, (List.getLast?_eq_some_iff.mp h).choose_spec⟩

/-- a node keeps its key and value when its last line gets terminated -/
theorem childItem_terminated (c : DNode) : ((terminatedLast c).map childItem).flatten = childItem c := by
  cases c with
  | tok k t => simp [terminatedLast, childItem, Node.isNode]
  | node k cs =>
    simp only [terminatedLast, List.map_cons, List.map_nil, List.flatten_cons, List.flatten_nil,
      List.append_nil]
    have hk : ∀ X : List DNode,
        (X.find? (isTokOf .KEY) = cs.find? (isTokOf .KEY)) →
        (X.filter (isTokOf .VALUE) = cs.filter (isTokOf .VALUE)) →
        childItem (.node k X) = childItem (.node k cs) := by
      intro X h1 h2
      have e1 : entryKey (.node k X) = entryKey (.node k cs) := by simp only [entryKey, Node.children, h1]
      have e2 : entryValue (.node k X) = entryValue (.node k cs) := by simp only [entryValue, Node.children, h2]
      unfold childItem
      rw [e1, e2]
      rfl
    split
    · rename_i hl
      rcases getLast_snoc_cases cs with rfl | ⟨init, last, rfl⟩
      · simp [lastIsNode] at hl
      · cases last with
        | tok k' t' => simp [lastIsNode] at hl
        | node k' cs' =>
          rw [terminateLast_snoc]
          apply hk
          · simp only [terminatedLast, find_key_snoc_node]
          · simp only [terminatedLast, filter_value_snoc_node]
    · apply hk
      · rcases getLast_snoc_cases cs with rfl | ⟨init, last, rfl⟩
        · simp [isTokOf]
        · simp only [List.append_assoc, List.find?_append]
          cases h : init.find? (isTokOf .KEY) with
          | some x => simp
          | none =>
            cases last with
            | tok k' t' => by_cases hk' : k' = .KEY <;> simp [isTokOf, hk']
            | node k' cs' => simp [isTokOf]
      · simp [List.filter_append, isTokOf]

theorem pitems_terminateLast (cs : List DNode) : pitems (terminateLast cs) = pitems cs := by
  rcases getLast_snoc_cases cs with rfl | ⟨init, last, rfl⟩
  · simp [terminateLast]
  · rw [terminateLast_snoc]
    simp only [pitems_eq, List.map_append, List.flatten_append, childItem_terminated]
    simp

theorem pitems_terminateLastLine (cs : List DNode) : pitems (terminateLastLine cs) = pitems cs := by
  unfold terminateLastLine
  repeat' split
  all_goals first
    | rfl
    | exact pitems_terminateLast cs
    | simp [pitems_eq, childItem, Node.isNode]

/-! ### refinement: each edit is the list operation -/

/-- `insert` appends -/
theorem C04_refine_insert (cs : List DNode) (k v : Str) :
    pitems (paraInsert cs k v) = ListSpec.insert (pitems cs) k v := by
  simp only [paraInsert, pitems_append, pitems_terminateLastLine, ListSpec.insert]
  simp [pitems_eq, childItem_new]

theorem childItem_key (c : DNode) (k : Str) :
    isEntryWithKey k c = true → ∃ v, childItem c = [(k, v)] := by
  intro h
  simp only [isEntryWithKey, Bool.and_eq_true, beq_iff_eq] at h
  obtain ⟨⟨h1, h2⟩, h3⟩ := h
  exact ⟨entryValue c, by simp [childItem, h1, h2, h3]⟩

theorem childItem_notkey (c : DNode) (k : Str) (h : isEntryWithKey k c = false) :
    ∀ f ∈ childItem c, f.1 ≠ k := by
  intro f hf
  simp only [childItem] at hf
  split at hf
  · rename_i he
    split at hf
    · rename_i k' hk
      simp at hf; subst hf
      intro e; simp only at e; subst e
      simp [isEntryWithKey, he, hk] at h
    · simp at hf
  · simp at hf

theorem set_skip (l m : ListSpec.Items) (k v : Str) (h : ∀ f ∈ l, f.1 ≠ k) :
    ListSpec.set (l ++ m) k v = l ++ ListSpec.set m k v := by
  induction l with
  | nil => rfl
  | cons f fs ih =>
    have hf := h f (by simp)
    simp only [List.cons_append, ListSpec.set, hf, ↓reduceIte]
    rw [ih (fun g hg => h g (by simp [hg]))]

/-- `set` replaces the first field of that name in place, or appends -/
theorem C04_refine_set (cs : List DNode) (k v : Str) :
    pitems (paraSet cs k v) = ListSpec.set (pitems cs) k v := by
  unfold paraSet
  have key : ∀ cs : List DNode,
      (match replaceFirst (isEntryWithKey k) (fun _ => entryNew k v) cs with
        | some cs' => pitems cs' = ListSpec.set (pitems cs) k v
        | none => ∀ f ∈ pitems cs, f.1 ≠ k) := by
    intro cs
    induction cs with
    | nil => simp [replaceFirst, pitems_eq]
    | cons c cs ih =>
      simp only [replaceFirst]
      by_cases hc : isEntryWithKey k c = true
      · obtain ⟨v0, hv0⟩ := childItem_key c k hc
        simp only [hc, ↓reduceIte]
        simp [pitems_eq, childItem_new, hv0, ListSpec.set]
      · have hc' : isEntryWithKey k c = false := by simpa using hc
        have hnk := childItem_notkey c k hc'
        simp only [hc', Bool.false_eq_true, ↓reduceIte]
        cases hr : replaceFirst (isEntryWithKey k) (fun _ => entryNew k v) cs with
        | some cs' =>
          rw [hr] at ih
          simp only [pitems_eq, List.map_cons, List.flatten_cons] at ih ⊢
          rw [ih, set_skip _ _ _ _ hnk]
        | none =>
          rw [hr] at ih
          intro f hf
          simp only [pitems_eq, List.map_cons, List.flatten_cons, List.mem_append] at hf ih
          rcases hf with hf | hf
          · exact hnk f hf
          · exact ih f hf
  have := key cs
  cases hr : replaceFirst (isEntryWithKey k) (fun _ => entryNew k v) cs with
  | some cs' => rw [hr] at this; simpa using this
  | none =>
    rw [hr] at this
    simp only [pitems_append, pitems_terminateLastLine]
    have h2 := set_skip (pitems cs) [] k v this
    simp only [List.append_nil] at h2
    rw [h2]
    simp [pitems_eq, childItem_new, ListSpec.set]

/-- `remove` deletes the fields of that name -/
theorem C04_refine_remove (cs : List DNode) (k : Str) :
    pitems (paraRemove cs k) = ListSpec.remove (pitems cs) k := by
  unfold paraRemove ListSpec.remove
  induction cs with
  | nil => simp [pitems_eq]
  | cons c cs ih =>
    simp only [List.filter_cons]
    by_cases hc : isEntryWithKey k c = true
    · obtain ⟨v0, hv0⟩ := childItem_key c k hc
      simp only [hc, Bool.not_true, Bool.false_eq_true, ↓reduceIte]
      rw [ih]
      simp [pitems_eq, hv0]
    · have hc' : isEntryWithKey k c = false := by simpa using hc
      have hnk := childItem_notkey c k hc'
      simp only [hc', Bool.not_false, ↓reduceIte]
      simp only [pitems_eq, List.map_cons, List.flatten_cons, List.filter_append] at ih ⊢
      rw [ih]
      congr 1
      symm
      apply List.filter_eq_self.2
      intro f hf; simpa using hnk f hf

theorem rename_skip (l m : ListSpec.Items) (k k' : Str) (h : ∀ f ∈ l, f.1 ≠ k) :
    ListSpec.rename (l ++ m) k k' = l ++ ListSpec.rename m k k' := by
  induction l with
  | nil => rfl
  | cons f fs ih =>
    have hf := h f (by simp)
    simp only [List.cons_append, ListSpec.rename, hf, ↓reduceIte]
    rw [ih (fun g hg => h g (by simp [hg]))]

theorem rename_absent (l : ListSpec.Items) (k k' : Str) (h : ∀ f ∈ l, f.1 ≠ k) :
    ListSpec.rename l k k' = l := by
  have := rename_skip l [] k k' h
  simpa [ListSpec.rename] using this

/-- `rename` changes the first such field's name, keeping position and value; it reports
    whether there was one -/
theorem C04_refine_rename (cs : List DNode) (k k' : Str) :
    pitems (paraRename cs k k').1 = ListSpec.rename (pitems cs) k k'
      ∧ ((paraRename cs k k').2 = true ↔ ∃ f ∈ pitems cs, f.1 = k) := by
  unfold paraRename
  have key : ∀ cs : List DNode,
      (match replaceFirst (isEntryWithKey k) (fun e => entryNew k' (entryValue e)) cs with
        | some cs' => pitems cs' = ListSpec.rename (pitems cs) k k' ∧ ∃ f ∈ pitems cs, f.1 = k
        | none => ∀ f ∈ pitems cs, f.1 ≠ k) := by
    intro cs
    induction cs with
    | nil => simp [replaceFirst, pitems_eq]
    | cons c cs ih =>
      simp only [replaceFirst]
      by_cases hc : isEntryWithKey k c = true
      · simp only [hc, ↓reduceIte]
        have h1 : (c.isNode && c.kind == .ENTRY) = true ∧ entryKey c = some k := by
          simp only [isEntryWithKey, Bool.and_eq_true, beq_iff_eq] at hc
          exact ⟨by simp [hc.1.1, hc.1.2], hc.2⟩
        have hci : childItem c = [(k, entryValue c)] := by simp [childItem, h1.1, h1.2]
        refine ⟨?_, (k, entryValue c), ?_, rfl⟩
        · simp [pitems_eq, childItem_new, hci, ListSpec.rename]
        · simp [pitems_eq, hci]
      · have hc' : isEntryWithKey k c = false := by simpa using hc
        have hnk := childItem_notkey c k hc'
        simp only [hc', Bool.false_eq_true, ↓reduceIte]
        cases hr : replaceFirst (isEntryWithKey k) (fun e => entryNew k' (entryValue e)) cs with
        | some cs' =>
          rw [hr] at ih
          obtain ⟨ih1, f, hf, hfk⟩ := ih
          refine ⟨?_, f, ?_, hfk⟩
          · simp only [pitems_eq, List.map_cons, List.flatten_cons] at ih1 ⊢
            rw [ih1, rename_skip _ _ _ _ hnk]
          · simp only [pitems_eq, List.map_cons, List.flatten_cons, List.mem_append] at hf ⊢
            exact Or.inr hf
        | none =>
          rw [hr] at ih
          intro f hf
          simp only [pitems_eq, List.map_cons, List.flatten_cons, List.mem_append] at hf ih
          rcases hf with hf | hf
          · exact hnk f hf
          · exact ih f hf
  have := key cs
  cases hr : replaceFirst (isEntryWithKey k) (fun e => entryNew k' (entryValue e)) cs with
  | some cs' =>
    rw [hr] at this
    exact ⟨this.1, by simp [this.2]⟩
  | none =>
    rw [hr] at this
    refine ⟨(rename_absent _ _ _ this).symm, ?_⟩
    simp only [Bool.false_eq_true, false_iff, not_exists, not_and]
    exact fun f hf => this f hf

/-! ## frame: every byte outside the touched entry is unchanged

  All statements are about arbitrary trees (parsed, built, with errors). A paragraph edit rewrites
  the child list `cs` of one PARAGRAPH node; `C04_frame_doc` lifts that to the document. -/

/-- **terminator case, exactly**: `terminate_last_line` appends one `\n` at the very end of the
    paragraph's text iff the paragraph has a last token and that token is not a NEWLINE; nothing
    else changes. -/
theorem C04_frame_terminator (cs : List DNode) :
    textList (terminateLastLine cs) = textList cs ++ (if needsNl cs then ['\n'] else [])
    ∧ (terminateLastLine cs = cs ∨
       ∃ init last last', cs = init ++ [last] ∧ terminateLastLine cs = init ++ last' ∧
         textList last' = last.text ++ ['\n']) :=
  ⟨textList_terminateLastLine cs, terminateLastLine_shape cs⟩

/-- `insert`: all children stay (the last one possibly with its line terminated), the new entry is
    appended; the text is the old text, the terminator if it was missing, the new entry -/
theorem C04_frame_insert (cs : List DNode) (k v : Str) :
    paraInsert cs k v = terminateLastLine cs ++ [entryNew k v]
    ∧ textList (paraInsert cs k v) =
        textList cs ++ (if needsNl cs then ['\n'] else []) ++ (entryNew k v).text := by
  simp [paraInsert, textList_terminateLastLine]

/-- `set`: either the first entry of that name is replaced in place — every other child, before
    and after, is the same node — or there is none and `set` is `insert` -/
theorem C04_frame_set (cs : List DNode) (k v : Str) :
    (∃ pre e post, cs = pre ++ e :: post ∧ (∀ c ∈ pre, isEntryWithKey k c = false)
        ∧ isEntryWithKey k e = true
        ∧ paraSet cs k v = pre ++ entryNew k v :: post
        ∧ textList cs = textList pre ++ e.text ++ textList post
        ∧ textList (paraSet cs k v) = textList pre ++ (entryNew k v).text ++ textList post)
    ∨ ((∀ c ∈ cs, isEntryWithKey k c = false) ∧ paraSet cs k v = paraInsert cs k v) := by
  unfold paraSet
  cases hr : replaceFirst (isEntryWithKey k) (fun _ => entryNew k v) cs with
  | some cs' =>
    left
    obtain ⟨pre, e, post, h1, h2, h3, h4⟩ := replaceFirst_some _ _ _ _ hr
    refine ⟨pre, e, post, h1, h2, h3, h4, ?_, ?_⟩
    · rw [h1]; simp
    · simp only [h4]; simp
  | none =>
    right
    exact ⟨replaceFirst_none _ _ _ hr, rfl⟩

/-- `rename`: the first entry of the old name is replaced in place by a fresh entry with the new
    name and the old value; every other child is the same node. Without such an entry nothing
    changes at all. -/
theorem C04_frame_rename (cs : List DNode) (k k' : Str) :
    (∃ pre e post, cs = pre ++ e :: post ∧ (∀ c ∈ pre, isEntryWithKey k c = false)
        ∧ isEntryWithKey k e = true
        ∧ paraRename cs k k' = (pre ++ entryNew k' (entryValue e) :: post, true)
        ∧ textList cs = textList pre ++ e.text ++ textList post
        ∧ textList (paraRename cs k k').1 =
            textList pre ++ (entryNew k' (entryValue e)).text ++ textList post)
    ∨ ((∀ c ∈ cs, isEntryWithKey k c = false) ∧ paraRename cs k k' = (cs, false)) := by
  unfold paraRename
  cases hr : replaceFirst (isEntryWithKey k) (fun e => entryNew k' (entryValue e)) cs with
  | some cs' =>
    left
    obtain ⟨pre, e, post, h1, h2, h3, h4⟩ := replaceFirst_some _ _ _ _ hr
    refine ⟨pre, e, post, h1, h2, h3, by simp [h4], ?_, ?_⟩
    · rw [h1]; simp
    · simp only [h4]; simp
  | none =>
    right
    exact ⟨replaceFirst_none _ _ _ hr, rfl⟩

/-- `remove`: the entries of that name are dropped, every other child is kept, in order -/
theorem C04_frame_remove (cs : List DNode) (k : Str) :
    ((∀ c ∈ cs, isEntryWithKey k c = false) → paraRemove cs k = cs)
    ∧ (∀ pre e post, cs = pre ++ e :: post → (∀ c ∈ pre, isEntryWithKey k c = false) →
        isEntryWithKey k e = true →
        paraRemove cs k = pre ++ paraRemove post k
        ∧ textList cs = textList pre ++ e.text ++ textList post
        ∧ textList (paraRemove cs k) = textList pre ++ textList (paraRemove post k)) := by
  have hid : ∀ l : List DNode, (∀ c ∈ l, isEntryWithKey k c = false) → paraRemove l k = l := by
    intro l hl
    unfold paraRemove
    apply List.filter_eq_self.2
    intro c hc; simp [hl c hc]
  refine ⟨hid cs, ?_⟩
  intro pre e post h1 h2 h3
  have : paraRemove cs k = pre ++ paraRemove post k := by
    have hp := hid pre h2
    unfold paraRemove at hp ⊢
    rw [h1, List.filter_append, hp, List.filter_cons]
    simp [h3]
  refine ⟨this, by rw [h1]; simp, by rw [this]; simp⟩

/-- the edit of one paragraph inside a document: the root's other children (paragraphs, blank and
    comment lines) are the same nodes, so the document's text is
    `prefix ++ (paragraph text) ++ suffix` before and after with the same prefix and suffix.
    An operation through a dead handle changes nothing. -/
theorem C04_frame_doc (d : Doc) (h : Nat) (f : List DNode → List DNode) :
    (∃ i cs, d.handles[h]? = some (some i) ∧ d.kids[i]? = some (.node .PARAGRAPH cs)
        ∧ (d.onPara h f).kids = d.kids.take i ++ .node .PARAGRAPH (f cs) :: d.kids.drop (i + 1)
        ∧ (d.onPara h f).handles = d.handles
        ∧ d.root.text = textList (d.kids.take i) ++ textList cs ++ textList (d.kids.drop (i + 1))
        ∧ (d.onPara h f).root.text =
            textList (d.kids.take i) ++ textList (f cs) ++ textList (d.kids.drop (i + 1)))
    ∨ ((d.onPara h f).kids = d.kids ∧ (d.onPara h f).handles = d.handles) := by
  unfold Doc.onPara
  split
  · rename_i i hi
    split
    · rename_i cs hk
      left
      have hlt : i < d.kids.length := by
        rcases Nat.lt_or_ge i d.kids.length with h | h
        · exact h
        · rw [List.getElem?_eq_none h] at hk; simp at hk
      have hsplit : d.kids = d.kids.take i ++ .node .PARAGRAPH cs :: d.kids.drop (i + 1) := by
        have := List.getElem?_eq_some_iff.mp hk
        obtain ⟨hl, he⟩ := this
        rw [← he]; simp
      have hset : d.kids.set i (.node .PARAGRAPH (f cs)) =
          d.kids.take i ++ .node .PARAGRAPH (f cs) :: d.kids.drop (i + 1) := by
        rw [List.set_eq_take_append_cons_drop]; simp [hlt]
      refine ⟨i, cs, hi, hk, hset, rfl, ?_, ?_⟩
      · simp only [Doc.root, text_node]
        conv => lhs; rw [hsplit]
        simp
      · simp only [Doc.root, text_node, hset]; simp
    · right; exact ⟨rfl, rfl⟩
  · right; exact ⟨rfl, rfl⟩

/-- what the live handles read after an edit through handle `h`: a handle on the same paragraph
    reads the edited paragraph, every other handle reads the very same node as before -/
theorem C04_frame_handles (d : Doc) (h i : Nat) (cs : List DNode) (f : List DNode → List DNode)
    (hi : d.handles[h]? = some (some i)) (hc : d.kids[i]? = some (.node .PARAGRAPH cs)) (j : Nat) :
    (d.onPara h f).para j =
      if d.handles[j]? = some (some i) then some (.node .PARAGRAPH (f cs)) else d.para j := by
  have hlt : i < d.kids.length := (List.getElem?_eq_some_iff.mp hc).1
  have hk : (d.onPara h f).kids = d.kids.set i (.node .PARAGRAPH (f cs)) := by
    unfold Doc.onPara; simp only [hi, hc]
  have hh : (d.onPara h f).handles = d.handles := by
    unfold Doc.onPara; simp only [hi, hc]
  unfold Doc.para
  rw [hh, hk]
  cases hj : d.handles[j]? with
  | none => simp
  | some o =>
    cases o with
    | none => simp
    | some i' =>
      by_cases he : i' = i
      · subst he; simp [List.getElem?_set_self hlt]
      · have : ¬ (some (some i') = some (some i)) := by simp [he]
        simp only [this, ↓reduceIte]
        rw [List.getElem?_set_ne (Ne.symm he)]

/-! ## the edited document survives a re-read

  Domain: the document is (the parse of) a well-formed document of the grammar `Spec/DocS.lean`;
  names satisfy `ValidKey`, values `ValidValue` (both decidable; `Lemmas/DebEditDoc.lean`).
  Method: the edited tree is the tree of an edited unit list satisfying the invariant `UWF`
  (`Lemmas/DebEditDoc.lean`: `step_units`), whose text is the text of a well-formed `DocS`
  (`erase`), which the reader inverts (`C03_parse_inverts`). -/

open Spec

def nonEmpty (p : List (Str × Str)) : Bool := !p.isEmpty

/-- every document satisfying the edit invariant prints to a text that the strict reader accepts
    without error and reads back to exactly the live content — the paragraphs that have at least
    one field (an empty paragraph prints as nothing) -/
theorem C04_reread_units (us : List EUnit) (h : UWF us) :
    (erase us).WF ∧ (erase us).str = textList (unitsKids us)
    ∧ parse (textList (unitsKids us)) = ⟨(erase us).tree, []⟩
    ∧ readStrict (textList (unitsKids us)) = .ok (erase us).tree
    ∧ docItems (erase us).tree = (docItems (.node .ROOT (unitsKids us))).filter nonEmpty := by
  have hwf := erase_wf us h
  have hstr : (erase us).str = textList (unitsKids us) := by rw [erase_str, textList_units]
  refine ⟨hwf, hstr, ?_, ?_, ?_⟩
  · rw [← hstr]; exact C03.C03_parse_inverts _ hwf
  · rw [← hstr]; exact (C03.C03_accept _ hwf).1
  · rw [docItems_tree, erase_content, docItems_units]; rfl

/-- what "re-reads" means for a child list of the root -/
def Rereads (kids : List DNode) : Prop :=
  ∃ s : DocS, s.WF ∧ s.str = textList kids
    ∧ parse (textList kids) = ⟨s.tree, []⟩
    ∧ readStrict (textList kids) = .ok s.tree
    ∧ docItems s.tree = (docItems (.node .ROOT kids)).filter nonEmpty

theorem rereads_of_units (kids : List DNode) (us : List EUnit) (hk : kids = unitsKids us) (h : UWF us) :
    Rereads kids := by
  subst hk
  obtain ⟨h1, h2, h3, h4, h5⟩ := C04_reread_units us h
  exact ⟨_, h1, h2, h3, h4, h5⟩

/-- the paragraph list of a root with one PARAGRAPH child singled out -/
theorem docItems_split (A B : List DNode) (cs : List DNode) :
    docItems (.node .ROOT (A ++ .node .PARAGRAPH cs :: B)) =
      docItems (.node .ROOT A) ++ pitems cs :: docItems (.node .ROOT B) := by
  simp [docItems, paragraphs, Node.children, List.filter_append, List.filter_cons, Node.isNode,
    Node.kind, pitems]

/-- a field edit (any `BodyOp`) through a handle of a parsed well-formed document -/
theorem reread_onPara (f : List DNode → List DNode) (g : List LItem → List LItem) (hop : BodyOp f g)
    (d0 : DocS) (hwf : d0.WF) (d : Doc) (hd : d.kids = d0.tree.children) (h : Nat) :
    Rereads (d.onPara h f).kids := by
  obtain ⟨us', h1, h2⟩ := onPara_units f g hop (unitsOf d0) (uwf_unitsOf d0 hwf) d
    (by rw [hd, unitsKids_unitsOf]) h
  exact rereads_of_units _ us' h1 h2

theorem onPara_kids (d : Doc) (h i : Nat) (cs : List DNode) (f : List DNode → List DNode)
    (hi : d.handles[h]? = some (some i)) (hc : d.kids[i]? = some (.node .PARAGRAPH cs)) :
    (d.onPara h f).kids = d.kids.take i ++ .node .PARAGRAPH (f cs) :: d.kids.drop (i + 1) := by
  have hlt : i < d.kids.length := (List.getElem?_eq_some_iff.mp hc).1
  unfold Doc.onPara
  simp only [hi, hc]
  rw [List.set_eq_take_append_cons_drop]; simp [hlt]

/-- the content of the document after an edit of the paragraph at child slot `i`: the other
    paragraphs keep their content -/
theorem content_onPara (d : Doc) (h i : Nat) (cs : List DNode) (f : List DNode → List DNode)
    (hi : d.handles[h]? = some (some i)) (hc : d.kids[i]? = some (.node .PARAGRAPH cs)) :
    docItems (.node .ROOT (d.onPara h f).kids) =
      docItems (.node .ROOT (d.kids.take i)) ++ pitems (f cs) :: docItems (.node .ROOT (d.kids.drop (i + 1))) := by
  rw [onPara_kids d h i cs f hi hc, docItems_split]

/-! ### the four edits, through a live handle `h` (child slot `i`, children `cs`) of a parsed
    well-formed document `d0` -/

/-- `set`: the printed document is accepted by the strict reader without error and reads back to
    the old paragraphs with the touched one replaced by the list-model result -/
theorem C04_reread_set (d0 : DocS) (hwf : d0.WF) (d : Doc) (hd : d.kids = d0.tree.children)
    (h i : Nat) (cs : List DNode) (hi : d.handles[h]? = some (some i))
    (hc : d.kids[i]? = some (.node .PARAGRAPH cs)) (k v : Str) (hk : ValidKey k) (hv : ValidValue v) :
    let d' := d.onPara h (fun cs => paraSet cs k v)
    ∃ s : DocS, s.WF ∧ s.str = d'.root.text ∧ parse d'.root.text = ⟨s.tree, []⟩
      ∧ readStrict d'.root.text = .ok s.tree
      ∧ docItems s.tree = (docItems (.node .ROOT (d.kids.take i)) ++
          ListSpec.set (pitems cs) k v :: docItems (.node .ROOT (d.kids.drop (i + 1)))).filter nonEmpty := by
  obtain ⟨s, h1, h2, h3, h4, h5⟩ := reread_onPara _ _ (bodyOp_set k v hk hv) d0 hwf d hd h
  refine ⟨s, h1, h2, h3, h4, ?_⟩
  rw [h5, content_onPara d h i cs _ hi hc, C04_refine_set]

/-- `insert` -/
theorem C04_reread_insert (d0 : DocS) (hwf : d0.WF) (d : Doc) (hd : d.kids = d0.tree.children)
    (h i : Nat) (cs : List DNode) (hi : d.handles[h]? = some (some i))
    (hc : d.kids[i]? = some (.node .PARAGRAPH cs)) (k v : Str) (hk : ValidKey k) (hv : ValidValue v) :
    let d' := d.onPara h (fun cs => paraInsert cs k v)
    ∃ s : DocS, s.WF ∧ s.str = d'.root.text ∧ parse d'.root.text = ⟨s.tree, []⟩
      ∧ readStrict d'.root.text = .ok s.tree
      ∧ docItems s.tree = (docItems (.node .ROOT (d.kids.take i)) ++
          ListSpec.insert (pitems cs) k v :: docItems (.node .ROOT (d.kids.drop (i + 1)))).filter nonEmpty := by
  obtain ⟨s, h1, h2, h3, h4, h5⟩ := reread_onPara _ _ (bodyOp_insert k v hk hv) d0 hwf d hd h
  refine ⟨s, h1, h2, h3, h4, ?_⟩
  rw [h5, content_onPara d h i cs _ hi hc, C04_refine_insert]

/-- `remove` (any name): if the paragraph loses all its fields it is no longer seen by a reader -/
theorem C04_reread_remove (d0 : DocS) (hwf : d0.WF) (d : Doc) (hd : d.kids = d0.tree.children)
    (h i : Nat) (cs : List DNode) (hi : d.handles[h]? = some (some i))
    (hc : d.kids[i]? = some (.node .PARAGRAPH cs)) (k : Str) :
    let d' := d.onPara h (fun cs => paraRemove cs k)
    ∃ s : DocS, s.WF ∧ s.str = d'.root.text ∧ parse d'.root.text = ⟨s.tree, []⟩
      ∧ readStrict d'.root.text = .ok s.tree
      ∧ docItems s.tree = (docItems (.node .ROOT (d.kids.take i)) ++
          ListSpec.remove (pitems cs) k :: docItems (.node .ROOT (d.kids.drop (i + 1)))).filter nonEmpty := by
  obtain ⟨s, h1, h2, h3, h4, h5⟩ := reread_onPara _ _ (bodyOp_remove k) d0 hwf d hd h
  refine ⟨s, h1, h2, h3, h4, ?_⟩
  rw [h5, content_onPara d h i cs _ hi hc, C04_refine_remove]

/-- `rename` to a valid name (the old name is arbitrary; the value — also an empty one — is kept) -/
theorem C04_reread_rename (d0 : DocS) (hwf : d0.WF) (d : Doc) (hd : d.kids = d0.tree.children)
    (h i : Nat) (cs : List DNode) (hi : d.handles[h]? = some (some i))
    (hc : d.kids[i]? = some (.node .PARAGRAPH cs)) (k k' : Str) (hk : ValidKey k') :
    let d' := d.onPara h (fun cs => (paraRename cs k k').1)
    ∃ s : DocS, s.WF ∧ s.str = d'.root.text ∧ parse d'.root.text = ⟨s.tree, []⟩
      ∧ readStrict d'.root.text = .ok s.tree
      ∧ docItems s.tree = (docItems (.node .ROOT (d.kids.take i)) ++
          ListSpec.rename (pitems cs) k k' :: docItems (.node .ROOT (d.kids.drop (i + 1)))).filter nonEmpty := by
  obtain ⟨s, h1, h2, h3, h4, h5⟩ := reread_onPara _ _ (bodyOp_rename k k' hk) d0 hwf d hd h
  refine ⟨s, h1, h2, h3, h4, ?_⟩
  rw [h5, content_onPara d h i cs _ hi hc, (C04_refine_rename cs k k').1]

/-- **whole histories**: after any sequence of field edits and paragraph operations with valid
    arguments on a parsed well-formed document — through any handles, live or dead — the printed
    document is accepted by the strict reader without error and reads back to exactly the live
    paragraphs that have a field (the harness oracle (4) of `harness/src/edit.rs`). -/
theorem C04_reread_history (d0 : DocS) (hwf : d0.WF) (d : Doc) (hd : d.kids = d0.tree.children)
    (ops : List EditOp) (hv : ∀ o ∈ ops, o.Valid) :
    let d' := run d ops
    ∃ s : DocS, s.WF ∧ s.str = d'.root.text ∧ parse d'.root.text = ⟨s.tree, []⟩
      ∧ readStrict d'.root.text = .ok s.tree
      ∧ docItems s.tree = (docItems d'.root).filter nonEmpty := by
  obtain ⟨us', h1, h2⟩ := run_units ops (unitsOf d0) d (uwf_unitsOf d0 hwf)
    (by rw [hd, unitsKids_unitsOf]) hv
  exact rereads_of_units _ us' h1 h2

/-- the start state of a history as the driver / harness build it (`startDoc "t.…"`): the children
    of the tree the parser returns for the text of a well-formed document -/
theorem C04_start_parsed (d0 : DocS) (hwf : d0.WF) :
    (parse d0.str).tree.children = d0.tree.children ∧ (parse d0.str).errors = [] := by
  rw [C03.C03_parse_inverts d0 hwf]; exact ⟨rfl, rfl⟩

/-- the same for a start document built with `FromIterator` from valid (name, value) pairs
    (`startDoc "d.…"`: `docOfParas (map paraOfPairs)`) -/
theorem C04_reread_history_built (ps : List (List (Str × Str))) (hps : ∀ p ∈ ps, ValidPairs p)
    (d : Doc) (hd : d.kids = docOfParas (ps.map paraOfPairs))
    (ops : List EditOp) (hv : ∀ o ∈ ops, o.Valid) :
    let d' := run d ops
    ∃ s : DocS, s.WF ∧ s.str = d'.root.text ∧ parse d'.root.text = ⟨s.tree, []⟩
      ∧ readStrict d'.root.text = .ok s.tree
      ∧ docItems s.tree = (docItems d'.root).filter nonEmpty := by
  obtain ⟨us', h1, h2⟩ := run_units ops (builtUnits ps) d (uwf_built ps hps)
    (by rw [hd, unitsKids_built ps hps]) hv
  exact rereads_of_units _ us' h1 h2

/-! ### one paragraph on its own: "for a paragraph that is the parse of a well-formed paragraph" -/

/-- the one-paragraph document -/
def docOfPara (p : ParaS) : DocS := ⟨[], [(p, [])]⟩

theorem docOfPara_wf (p : ParaS) (hp : p.WF) (ht : p.Term false) : (docOfPara p).WF :=
  ⟨by simp [docOfPara], by simp [docOfPara, gapsTerm],
   by intro pg hpg; simp [docOfPara] at hpg; subst hpg; exact ⟨hp, by simp⟩,
   by simp only [docOfPara, parasTerm, gapsTerm]; exact ⟨by simpa using ht, by simp, trivial⟩⟩

theorem reread_para (f : List DNode → List DNode) (g : List LItem → List LItem) (hop : BodyOp f g)
    (p : ParaS) (hp : p.WF) (ht : p.Term false) :
    ∃ s : DocS, s.WF ∧ s.str = textList (f p.node.children)
      ∧ parse (textList (f p.node.children)) = ⟨s.tree, []⟩
      ∧ readStrict (textList (f p.node.children)) = .ok s.tree
      ∧ docItems s.tree = [pitems (f p.node.children)].filter nonEmpty := by
  let d : Doc := ⟨(docOfPara p).tree.children, [some 0]⟩
  obtain ⟨s, h1, h2, h3, h4, h5⟩ := reread_onPara f g hop (docOfPara p) (docOfPara_wf p hp ht) d rfl 0
  have hk : (d.onPara 0 f).kids = [.node .PARAGRAPH (f p.node.children)] := by
    have := onPara_kids d 0 0 p.node.children f rfl rfl
    simpa [d, docOfPara, DocS.tree, parasNodes, Node.children] using this
  rw [hk] at h2 h3 h4 h5
  simp only [textList_cons, text_node, textList_nil, List.append_nil] at h2 h3 h4
  refine ⟨s, h1, h2, h3, h4, ?_⟩
  rw [h5]
  simp [docItems, paragraphs, Node.children, Node.isNode, Node.kind, pitems]

theorem pitems_para (p : ParaS) : pitems p.node.children = p.content := items_para p

/-- `set` on a well-formed paragraph with a valid name and value: the printed paragraph is accepted
    by the strict reader, no error, and reads back to exactly `ListSpec.set` of the old content -/
theorem C04_reread_para_set (p : ParaS) (hp : p.WF) (ht : p.Term false) (k v : Str)
    (hk : ValidKey k) (hv : ValidValue v) :
    let t := textList (paraSet p.node.children k v)
    ∃ s : DocS, s.WF ∧ s.str = t ∧ parse t = ⟨s.tree, []⟩ ∧ readStrict t = .ok s.tree
      ∧ docItems s.tree = [ListSpec.set p.content k v] := by
  obtain ⟨s, h1, h2, h3, h4, h5⟩ := reread_para _ _ (bodyOp_set k v hk hv) p hp ht
  refine ⟨s, h1, h2, h3, h4, ?_⟩
  rw [h5, C04_refine_set, pitems_para]
  cases hc : p.content with
  | nil => simp [ParaS.content] at hc
  | cons f fs => simp only [ListSpec.set]; split <;> simp [nonEmpty]

theorem C04_reread_para_insert (p : ParaS) (hp : p.WF) (ht : p.Term false) (k v : Str)
    (hk : ValidKey k) (hv : ValidValue v) :
    let t := textList (paraInsert p.node.children k v)
    ∃ s : DocS, s.WF ∧ s.str = t ∧ parse t = ⟨s.tree, []⟩ ∧ readStrict t = .ok s.tree
      ∧ docItems s.tree = [ListSpec.insert p.content k v] := by
  obtain ⟨s, h1, h2, h3, h4, h5⟩ := reread_para _ _ (bodyOp_insert k v hk hv) p hp ht
  refine ⟨s, h1, h2, h3, h4, ?_⟩
  rw [h5, C04_refine_insert, pitems_para]
  simp [ListSpec.insert, nonEmpty]

/-- `remove`: reads back to the remaining fields; a paragraph left without fields is not seen -/
theorem C04_reread_para_remove (p : ParaS) (hp : p.WF) (ht : p.Term false) (k : Str) :
    let t := textList (paraRemove p.node.children k)
    ∃ s : DocS, s.WF ∧ s.str = t ∧ parse t = ⟨s.tree, []⟩ ∧ readStrict t = .ok s.tree
      ∧ docItems s.tree =
          if ListSpec.remove p.content k = [] then [] else [ListSpec.remove p.content k] := by
  obtain ⟨s, h1, h2, h3, h4, h5⟩ := reread_para _ _ (bodyOp_remove k) p hp ht
  refine ⟨s, h1, h2, h3, h4, ?_⟩
  rw [h5, C04_refine_remove, pitems_para]
  cases ListSpec.remove p.content k <;> simp [nonEmpty]

theorem C04_reread_para_rename (p : ParaS) (hp : p.WF) (ht : p.Term false) (k k' : Str)
    (hk : ValidKey k') :
    let t := textList (paraRename p.node.children k k').1
    ∃ s : DocS, s.WF ∧ s.str = t ∧ parse t = ⟨s.tree, []⟩ ∧ readStrict t = .ok s.tree
      ∧ docItems s.tree = [ListSpec.rename p.content k k'] := by
  obtain ⟨s, h1, h2, h3, h4, h5⟩ := reread_para _ _ (bodyOp_rename k k' hk) p hp ht
  refine ⟨s, h1, h2, h3, h4, ?_⟩
  rw [h5, (C04_refine_rename _ k k').1, pitems_para]
  cases hc : p.content with
  | nil => simp [ParaS.content] at hc
  | cons f fs => simp only [ListSpec.rename]; split <;> simp [nonEmpty]

/-! ### non-vacuity -/

/-- a paragraph with a multi-line field, a comment, duplicate names, an empty value and no final
    newline -/
def exPara : ParaS :=
  { first := { key := "Source".toList, ws := [' '], v := "foo".toList, nl := true,
               conts := [{ indent := [' '], text := ":x".toList, nl := true }] },
    rest := [.comment " c".toList true,
             .entry { key := "A".toList, ws := [], v := [], nl := true, conts := [] },
             .entry { key := "A".toList, ws := ['\t'], v := "b: #c".toList, nl := false, conts := [] }] }

example : exPara.WF ∧ exPara.Term false := by constructor <;> decide
example : ValidKey "Vcs-Git".toList ∧ ValidValue "https://x\ny #z".toList ∧ ValidValue "l1\nl2\nl3".toList := by
  decide
example : ¬ ValidValue [] ∧ ¬ ValidValue "a\n b".toList ∧ ¬ ValidValue "a\n#b".toList
    ∧ ¬ ValidValue "a\r".toList ∧ ¬ ValidKey "-x".toList ∧ ¬ ValidKey "a:b".toList := by decide

/-- what the theorems talk about, computed: appending after the unterminated last line supplies
    the terminator; the new value is laid out over two lines -/
example : textList (paraInsert exPara.node.children "B".toList "l1\nl2".toList) =
    "Source: foo\n :x\n# c\nA:\nA:\tb: #c\nB: l1\n l2\n".toList := by
  rw [(C04_frame_insert _ _ _).2]; decide +kernel
example : textList (paraSet exPara.node.children "A".toList "l1\nl2".toList) =
    "Source: foo\n :x\n# c\nA: l1\n l2\nA:\tb: #c".toList := by decide +kernel
example : textList (paraRename exPara.node.children "A".toList "Z".toList).1 =
    "Source: foo\n :x\n# c\nZ: \nA:\tb: #c".toList := by decide +kernel
example : textList (paraRemove exPara.node.children "Source".toList) =
    "# c\nA:\nA:\tb: #c".toList := by decide +kernel

/-- the document-level theorems apply to the example of C03 (paragraph 0 sits at child slot 2,
    behind a comment line and a blank line) -/
def exEditDoc : Doc := ⟨C03.exDoc.tree.children, [some 2, some 5]⟩

example : ∃ cs, exEditDoc.handles[0]? = some (some 2) ∧ exEditDoc.kids[2]? = some (.node .PARAGRAPH cs) :=
  ⟨_, rfl, rfl⟩

def exOps : List EditOp :=
  [.set 1 "Package".toList "baz".toList, .addp, .ins 2 "New".toList "v1\nv2".toList, .rm 0 "A".toList,
   .ren 0 "Source".toList "Src".toList, .insp 0, .rmp 1, .rm 1 "Package".toList]

example : ∀ o ∈ exOps, o.Valid := by decide
example : C03.exDoc.WF := by decide

/-- the invariant holds of documents no parser returns: an empty paragraph, a paragraph that lost
    its first field (comment line first), an `Entry::new(k, "")` left by a rename, no final newline -/
example : UWF [.para [], .gap .blank,
    .para [.comment " c".toList true, .bare "K".toList,
           .entry { key := "A".toList, ws := [' '], v := "b".toList, nl := false, conts := [] }]] := by
  decide
example : UWF (unitsOf C03.exDoc) := by decide
example : ∀ p ∈ [[("A".toList, "b".toList), ("B".toList, "l1\nl2".toList)], [("C".toList, "d".toList)]], ValidPairs p := by
  decide

/-! ## whole histories against the handle-indexed list model of the oracle

  `LModel` (`Lemmas/DebEditHandles.lean`) mirrors `struct ListModel { order, paras }` of
  `harness/src/edit.rs`; `mstep` mirrors the model updates in its `match f.as_slice()` arms.
  `HRel d.kids d.handles M` is the invariant; `HRel.oracle1` / `HRel.oracle2` are the oracle's
  steps (1) and (2). NO validity hypothesis is needed here: names and values are arbitrary, the
  start document may contain errors — only the root's children have to be nodes, which holds for
  every parsed and every built document. -/

/-- the list-model step of the oracle -/
def mstep (M : LModel) : EditOp → LModel
  | .set h k v => M.edit h (fun m => ListSpec.set m k v)
  | .ins h k v => M.edit h (fun m => ListSpec.insert m k v)
  | .rm h k => M.edit h (fun m => ListSpec.remove m k)
  | .ren h k k' => M.edit h (fun m => ListSpec.rename m k k')
  | .addp => M.addp
  | .insp i => M.insp i
  | .rmp i => M.rmp i

def mrun (M : LModel) (ops : List EditOp) : LModel := ops.foldl mstep M

def AllNodes (kids : List DNode) : Prop := ∀ c ∈ kids, c.isNode = true

instance (kids : List DNode) : Decidable (AllNodes kids) := by unfold AllNodes; exact inferInstance

theorem items_node_any (k : Kind) (X : List DNode) : items (.node k X) = pitems X := by
  simp [pitems, items, entries, Node.children]

/-- `terminate_last_line` on the root's children keeps every child a node, the paragraph positions
    and every paragraph's items -/
theorem terminateLastLine_sig (kids : List DNode) (h : AllNodes kids) :
    (terminateLastLine kids).map sig = kids.map sig ∧ AllNodes (terminateLastLine kids) := by
  unfold terminateLastLine
  split
  · exact ⟨rfl, h⟩
  · split
    · exact ⟨rfl, h⟩
    · split
      · rename_i k t hl
        have := h _ (List.mem_of_getLast? hl)
        simp [Node.isNode] at this
      · rcases getLast_snoc_cases kids with rfl | ⟨init, last, rfl⟩
        · simp [terminateLast, AllNodes]
        · rw [terminateLast_snoc]
          have hl := h last (by simp)
          cases last with
          | tok k t => simp [Node.isNode] at hl
          | node k cs =>
            simp only [terminatedLast, List.map_append, List.map_cons, List.map_nil]
            constructor
            · congr 2
              simp only [sig, isParaNode, Node.isNode, Node.kind, items_node_any, Prod.mk.injEq, true_and]
              split
              · exact pitems_terminateLast cs
              · simp [pitems_eq, childItem, Node.isNode]
            · intro c hc
              simp only [List.mem_append, List.mem_singleton] at hc
              rcases hc with hc | rfl
              · exact h c (by simp [hc])
              · rfl

theorem allNodes_step (d : Doc) (h : AllNodes d.kids) (o : EditOp) : AllNodes (step d o).kids := by
  have hon : ∀ hh f, AllNodes (d.onPara hh f).kids := by
    intro hh f
    unfold Doc.onPara
    split
    · split
      · intro c hc
        rcases List.mem_or_eq_of_mem_set hc with hc | rfl
        · exact h c hc
        · rfl
      · exact h
    · exact h
  have hadd : AllNodes (addParagraph d).kids := by
    intro c hc
    simp only [addParagraph, insertEmptyParagraph, insertAt, List.mem_append] at hc
    have ht := (terminateLastLine_sig d.kids h).2
    rcases hc with (hc | hc) | hc
    · exact ht c (List.mem_of_mem_take hc)
    · rcases hc with hc | hc
      · split at hc
        · simp at hc; subst hc; rfl
        · simp at hc
      · simp at hc; subst hc; rfl
    · exact ht c (List.mem_of_mem_drop hc)
  cases o with
  | set hh k v => exact hon _ _
  | ins hh k v => exact hon _ _
  | rm hh k => exact hon _ _
  | ren hh k k' => exact hon _ _
  | addp => exact hadd
  | insp i =>
    simp only [step, insertParagraph]
    cases hc : convertIndex d.kids i with
    | none => exact hadd
    | some p =>
      intro c hc'
      simp only [insertEmptyParagraph, insertAt, List.mem_append, List.mem_cons] at hc'
      rcases hc' with (hc' | hc' | hc') | hc'
      · exact h c (List.mem_of_mem_take hc')
      · subst hc'; rfl
      · split at hc'
        · simp at hc'; subst hc'; rfl
        · simp at hc'
      · exact h c (List.mem_of_mem_drop hc')
  | rmp i =>
    simp only [step, removeParagraph]
    have he : ∀ (l : List DNode) q, AllNodes l → AllNodes (l.eraseIdx q) :=
      fun l q hl c hc => hl c ((List.eraseIdx_sublist l q).subset hc)
    split
    · exact h
    · split
      · split
        · exact he _ _ (he _ _ h)
        · exact he _ _ h
      · exact he _ _ h

/-- **one step**: every operation — any handle (live, dead, never handed out), any name, any
    value, any index — acts on the document exactly as the oracle's list model says -/
theorem C04_step_refines (d : Doc) (M : LModel) (hn : AllNodes d.kids) (H : HRel d.kids d.handles M)
    (o : EditOp) : HRel (step d o).kids (step d o).handles (mstep M o) := by
  cases o with
  | set h k v => exact H.onPara h _ _ (fun cs => C04_refine_set cs k v)
  | ins h k v => exact H.onPara h _ _ (fun cs => C04_refine_insert cs k v)
  | rm h k => exact H.onPara h _ _ (fun cs => C04_refine_remove cs k)
  | ren h k k' => exact H.onPara h _ _ (fun cs => (C04_refine_rename cs k k').1)
  | addp => exact H.add hn (terminateLastLine_sig d.kids hn).1
  | insp i =>
    cases hc : convertIndex d.kids i with
    | some p => exact H.insert_at i p hc
    | none =>
      have h1 : step d (.insp i) = addParagraph d := by simp [step, insertParagraph, hc, addParagraph]
      have h2 : mstep M (.insp i) = M.addp := by
        rw [convertIndex_slots] at hc
        have hl : M.order.length ≤ i := by
          rw [H.order_len]
          rcases Nat.lt_or_ge i (slots d.kids 0).length with h | h
          · rw [List.getElem?_eq_getElem h] at hc; simp at hc
          · exact h
        simp [mstep, LModel.insp, LModel.addp, Nat.min_eq_right hl, List.insertIdx_length_self]
      rw [h1, h2]
      exact H.add hn (terminateLastLine_sig d.kids hn).1
  | rmp i => exact H.remove i

/-- **whole histories refine the list model** (and so does every prefix, being a history) -/
theorem C04_history_refines (ops : List EditOp) : ∀ (d : Doc) (M : LModel), AllNodes d.kids →
    HRel d.kids d.handles M →
    HRel (run d ops).kids (run d ops).handles (mrun M ops) ∧ AllNodes (run d ops).kids := by
  induction ops with
  | nil => intro d M hn H; exact ⟨H, hn⟩
  | cons o ops ih =>
    intro d M hn H
    exact ih (step d o) (mstep M o) (allNodes_step d hn o) (C04_step_refines d M hn H o)

/-! the start states -/

theorem skipWsNl_nodes (ts : List Tok) : AllNodes (skipWsNl ts).1 := by
  fun_induction skipWsNl ts
  case case1 => simp [AllNodes]
  case case2 t ts' hb b r ih =>
    intro c hc
    simp only [List.mem_cons] at hc
    rcases hc with rfl | hc
    · rfl
    · exact ih c hc
  case case3 => simp [AllNodes]

theorem rootLoop_nodes (ts : List Tok) : AllNodes (rootLoop ts).nodes := by
  fun_induction rootLoop ts
  case case1 => simp [AllNodes]
  case case2 t0 ts0 s h => exact skipWsNl_nodes _
  case case3 t0 ts0 s t r h p q ih =>
    intro c hc
    simp only [List.mem_append, List.mem_singleton] at hc
    rcases hc with (hc | rfl) | hc
    · exact skipWsNl_nodes _ c hc
    · rfl
    · exact ih c hc

/-- the children of the root the parser returns are nodes — for EVERY text -/
theorem parse_allNodes (s : Str) : AllNodes (parse s).tree.children := rootLoop_nodes _

theorem terminatePara_isNode (p : DNode) : (terminatePara p).isNode = p.isNode := by
  cases p <;> rfl

theorem built_allNodes (ps : List DNode) (h : AllNodes ps) : AllNodes (docOfParas ps) := by
  induction ps with
  | nil => simp [docOfParas, AllNodes]
  | cons p ps ih =>
    cases ps with
    | nil => simpa [docOfParas] using h
    | cons q qs =>
      have := ih (fun c hc => h c (by simp [hc]))
      intro c hc
      simp only [docOfParas, List.mem_cons] at hc
      rcases hc with rfl | rfl | hc
      · rw [terminatePara_isNode]; exact h _ (by simp)
      · rfl
      · exact this c hc

/-- a start document as the driver and the harness set it up: one handle per paragraph, in order -/
def startOf (kids : List DNode) : Doc := ⟨kids, (paraPositions kids).map some⟩

/-- **the history oracle, steps (1) and (2), as a theorem**: start from the parse of ANY text (or
    from any child list made of nodes, e.g. a built document), run ANY list of operations; then
    with `M = mrun (LModel.init kids) ops` (the oracle's list model run alongside):
    * per handle number `j` (`oracle1`): `M.paras[j] = none` — never handed out; `some none` — the
      handle is dead in the document too; `some (some m)` — the handle is live, denotes a PARAGRAPH
      node and reads exactly `m`;
    * the document's paragraphs, in order, are the model's `order` (`oracle2`), all of them live. -/
theorem C04_history_oracle (kids : List DNode) (hn : AllNodes kids) (ops : List EditOp) :
    let d' := run (startOf kids) ops
    let M := mrun (LModel.init kids) ops
    (∀ j : Nat, match M.paras[j]? with
      | none => d'.handles.length ≤ j ∧ d'.para j = none
      | some none => d'.handles[j]? = some none ∧ d'.para j = none
      | some (some m) => ∃ n, d'.para j = some n ∧ isParaNode n = true ∧ items n = m)
    ∧ docItems d'.root = M.order.map (fun h => ((M.paras[h]?).join).getD [])
    ∧ ∀ h ∈ M.order, ∃ m, M.paras[h]? = some (some m) := by
  obtain ⟨H, _⟩ := C04_history_refines ops (startOf kids) (LModel.init kids) hn (HRel.init kids)
  exact ⟨fun j => H.oracle1 j, H.oracle2.1, H.oracle2.2⟩

/-- dead handles stay dead and a handle number, once handed out, keeps its entry: the model never
    revives `paras[j] = None` -/
theorem mstep_dead (M : LModel) (o : EditOp) (j : Nat) (hj : M.paras[j]? = some none) :
    (mstep M o).paras[j]? = some none := by
  cases o with
  | set h k v => exact LModel.edit_dead M h _ j hj
  | ins h k v => exact LModel.edit_dead M h _ j hj
  | rm h k => exact LModel.edit_dead M h _ j hj
  | ren h k k' => exact LModel.edit_dead M h _ j hj
  | addp => exact getElem?_append_some _ _ _ _ hj
  | insp i => exact getElem?_append_some _ _ _ _ hj
  | rmp i => exact LModel.rmp_dead M i j hj

theorem C04_dead_stays_dead (ops : List EditOp) : ∀ (M : LModel) (j : Nat), M.paras[j]? = some none →
    (mrun M ops).paras[j]? = some none := by
  induction ops with
  | nil => intro M j h; exact h
  | cons o ops ih => intro M j h; exact ih (mstep M o) j (mstep_dead M o j h)

/-! examples: the start document of `exEditDoc` with the history `exOps` (it goes through a dead
    handle, a handle returned by `add_paragraph`, and removes paragraphs) -/

theorem exEditDoc_start : exEditDoc = startOf C03.exDoc.tree.children := by
  have : (paraPositions C03.exDoc.tree.children).map some = [some 2, some 5] := by decide
  simp [exEditDoc, startOf, this]
example : AllNodes exEditDoc.kids := by decide
example : LModel.init exEditDoc.kids =
    ⟨[some [("Source".toList, "foo\n:x é".toList), ("A".toList, []), ("A".toList, "b: #c".toList)],
      some [("Package".toList, "bar".toList)]], [0, 1]⟩ := by decide +kernel
/-- the oracle's model after `exOps`: paragraph 1 was removed (`rmp 1` after `insp 0` — by then it is
    the old paragraph 0, handle 0), the later `rm 1 Package` empties handle 1's paragraph -/
example : mrun (LModel.init exEditDoc.kids) exOps =
    ⟨[none, some [], some [("New".toList, "v1\nv2".toList)], some []], [3, 1, 2]⟩ := by decide +kernel

/-- the invariant is decidable: it holds of the start state, and fails when two handles denote the
    same paragraph or when a handle points at a comment line -/
example : HRel exEditDoc.kids exEditDoc.handles (LModel.init exEditDoc.kids) := by decide +kernel
example : ¬ HRel exEditDoc.kids [some 2, some 2] (LModel.init exEditDoc.kids) := by decide +kernel
example : ¬ HRel exEditDoc.kids [some 2, some 4] (LModel.init exEditDoc.kids) := by decide +kernel

/-- the theorem applied: what the document lists after `exOps` (two empty paragraphs — the one
    inserted in front and the emptied one — then the filled new one) -/
example : docItems (run exEditDoc exOps).root = [[], [], [("New".toList, "v1\nv2".toList)]] := by
  rw [exEditDoc_start, (C04_history_oracle C03.exDoc.tree.children (by decide) exOps).2.1]
  decide +kernel

/-- handle 0 is dead after `exOps`, handle 2 (returned by `addp`) reads the filled paragraph -/
example : (run exEditDoc exOps).para 0 = none
    ∧ ∃ n, (run exEditDoc exOps).para 2 = some n ∧ items n = [("New".toList, "v1\nv2".toList)] := by
  rw [exEditDoc_start]
  have h := (C04_history_oracle C03.exDoc.tree.children (by decide) exOps).1
  have hM : mrun (LModel.init C03.exDoc.tree.children) exOps =
      ⟨[none, some [], some [("New".toList, "v1\nv2".toList)], some []], [3, 1, 2]⟩ := by decide +kernel
  simp only [hM] at h
  have h0 := h 0
  have h2 := h 2
  simp only [List.getElem?_cons_zero, List.getElem?_cons_succ] at h0 h2
  obtain ⟨n, hn1, _, hn2⟩ := h2
  exact ⟨h0.2, n, hn1, hn2⟩

end Deb822Verif.Props.C04
