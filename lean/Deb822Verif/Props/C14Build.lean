import Deb822Verif.Props.C14More
import Deb822Verif.Spec.RelAssemble
import Deb822Verif.Lemmas.RelWrapField
/-!
# C14, third part — "ASSEMBLED from valid components": the public assembly API of the lossy types

`Props/C14.lean` and `Props/C14More.lean` quantify over record values (`ValidR`). The property text
says *assembled from valid components*: this file puts the constructors, the builder and the
container methods of `debian-control/src/lossy/relations.rs` (lines 42-274, `Model/RelLossyBuild.lean`)
in the statements and composes them with the theorems of the first two parts.

| part | theorems |
|---|---|
| (a) what the builder returns | `C14_builder_record` (components → the record), `C14_builder_script` (ANY chain of setter calls: last `archqual` / `architectures` / `version` call wins, `profile` calls accumulate in order), `C14_builder_order_independent`, witnesses `C14_builder_last_wins` |
| (b) acceptance / panic | `C14_builder_total_iff`, `C14_assemble_total_iff`, `C14_version_accept_iff` (exactly which version texts `RelationBuilder::version` accepts), `C14_builder_accepts_invalid` (accepted texts outside the domain), `C14_relations_remove_total_iff`, `C14_relations_index_total_iff` |
| (c) composition | `C14_assembled_valid(_script)`, `C14_assembled_valid_iff`, `C14_assembled_roundtrip`, `C14_assembled_convert`, `C14_assembled_convert_exact`, `C14_assembled_relations_roundtrip`, `C14_collected_relations_roundtrip` |
| (d) container laws | `C14_relations_new`, `C14_relations_len_empty_iter`, `C14_relations_remove`, `C14_relations_index`, `C14_relations_index_mut`, `C14_relations_from_iter`, `C14_relations_valid_preserved` |
| (e) equality | derived `PartialEq` (no hand-written `PartialEq` / `Ord` in the file): `relsEqO`, `C14_relations_eq_refl`, `C14_assembled_eq_refl` |

## Finding (builder accepts components outside the domain)

`RelationBuilder::version(c, text)` parses `text` with `debversion::Version::from_str(..).unwrap()`
(relations.rs:136). It PANICS for `""`, `"a b"`, `"4294967296:1"`; it ACCEPTS `"1:"`, `":1"`, `"x:1"`, `"1:2:"` —
texts with a colon that is not an epoch separator: the regex of debversion lets `:` into the upstream
part, so `"1:"` is the version `{epoch: None, upstream: "1:"}`. Such a value prints `a (= 1:)`; the lossy
reader reads it back equal, but it is outside `ValidR` and the LOSSLESS reader does not read the same
structure (`a (= :1)`: four errors, two relations) — `C14_builder_accepts_invalid`. In the property's sense
these version texts are not valid components (`validVersionText` = Policy syntax over the lexer's
identifier characters); the builder has no validation of its own for any component (name, qualifier,
architectures, profiles are stored as given).
-/
set_option linter.unusedSimpArgs false
set_option linter.unusedVariables false
namespace Deb822Verif.Props.C14Build
open Deb822Verif Rel RelSpec LossyBuild
open Deb822Verif.Props.C14 Deb822Verif.Props.C14More

/-! ## (a) what the builder returns -/

/-- the argument of an `archqual` call -/
def Call.aq? : Call → Option Str
  | .archqual a => some a
  | _ => none
/-- the argument of an `architectures` call -/
def Call.archs? : Call → Option (List Str)
  | .architectures as => some as
  | _ => none
/-- the arguments of a `version` call, as passed -/
def Call.ver? : Call → Option (VC × Str)
  | .version c t => some (c, t)
  | _ => none
/-- the arguments of a `version` call with the text parsed (`none` also when it does not parse) -/
def Call.verParsed? : Call → Option (VC × Version)
  | .version c t => (Version.parse t).map fun v => (c, v)
  | _ => none
/-- the argument of a `profile` call -/
def Call.prof? : Call → Option (List BuildProfile)
  | .profile p => some p
  | _ => none

/-- every `version` call of the chain has a text that `debversion::Version::from_str` accepts -/
def versionsParse (cs : List Call) : Bool :=
  cs.all fun c => match c with
    | .version _ t => (Version.parse t).isSome
    | _ => true

theorem getLast?_or_cons {α} (a : α) (l : List α) (init : Option α) :
    ((a :: l).getLast?).or init = (l.getLast?).or (some a) := by
  rw [List.getLast?_cons]
  cases l.getLast? <;> rfl

/-- the builder after a chain of calls, field by field -/
theorem run_eq (cs : List Call) : ∀ b : RelationBuilder,
    run b cs =
      if versionsParse cs then
        .ok { name := b.name
              archqual := ((cs.filterMap Call.aq?).getLast?).or b.archqual
              architectures := ((cs.filterMap Call.archs?).getLast?).or b.architectures
              version := ((cs.filterMap Call.verParsed?).getLast?).or b.version
              profiles := b.profiles ++ cs.filterMap Call.prof? }
      else .panic versionPanic := by
  induction cs with
  | nil => intro b; cases b; simp [run, versionsParse]
  | cons c cs ih =>
    intro b
    cases c with
    | archqual a =>
      simp only [run, Call.apply, Outcome.bind, ih, versionsParse, List.all_cons, Bool.true_and,
        List.filterMap_cons, Call.aq?, Call.archs?, Call.verParsed?, Call.prof?, getLast?_or_cons,
        RelationBuilder.setArchqual] <;> rfl
    | architectures as =>
      simp only [run, Call.apply, Outcome.bind, ih, versionsParse, List.all_cons, Bool.true_and,
        List.filterMap_cons, Call.aq?, Call.archs?, Call.verParsed?, Call.prof?, getLast?_or_cons,
        RelationBuilder.setArchitectures, List.map_id'] <;> rfl
    | version k t =>
      cases hp : Version.parse t with
      | none =>
        simp [run, Call.apply, Outcome.bind, versionsParse, RelationBuilder.setVersion, hp]
      | some v =>
        simp only [run, Call.apply, Outcome.bind, ih, versionsParse, List.all_cons, Bool.true_and,
          List.filterMap_cons, Call.aq?, Call.archs?, Call.verParsed?, Call.prof?, getLast?_or_cons,
          RelationBuilder.setVersion, hp, Option.isSome_some, Option.map_some] <;> rfl
    | profile p =>
      simp only [run, Call.apply, Outcome.bind, ih, versionsParse, List.all_cons, Bool.true_and,
        List.filterMap_cons, Call.aq?, Call.archs?, Call.verParsed?, Call.prof?,
        RelationBuilder.addProfile, List.append_assoc, List.singleton_append] <;> rfl

/-- **any chain of setter calls** `Relation::build(name).c1(..)….cn(..).build()`: it panics exactly when
    some `version` call has a text that does not parse (even a call that a later one overrides);
    otherwise the value has the given name, the argument of the LAST `archqual` call (none: `None`), of
    the LAST `architectures` call, the operator and parsed text of the LAST `version` call, and the
    arguments of ALL `profile` calls in call order -/
theorem C14_builder_script (name : Str) (cs : List Call) :
    runBuild name cs =
      if versionsParse cs then
        .ok { name := name
              archqual := (cs.filterMap Call.aq?).getLast?
              architectures := (cs.filterMap Call.archs?).getLast?
              version := (cs.filterMap Call.verParsed?).getLast?
              profiles := cs.filterMap Call.prof? }
      else .panic versionPanic := by
  rw [runBuild, run_eq]
  split <;> simp [Outcome.map, RelationBuilder.build, relationBuild, RelationBuilder.new]

/-- when every version text parses, the parsed version calls are the version calls -/
theorem verParsed_eq (cs : List Call) :
    cs.filterMap Call.verParsed? = (cs.filterMap Call.ver?).filterMap fun p => (Version.parse p.2).map fun v => (p.1, v) := by
  induction cs with
  | nil => rfl
  | cons c cs ih => cases c <;> simp [Call.verParsed?, Call.ver?, ih, List.filterMap_cons]

theorem versionsParse_eq (cs : List Call) :
    versionsParse cs = (cs.filterMap Call.ver?).all fun p => (Version.parse p.2).isSome := by
  induction cs with
  | nil => rfl
  | cons c cs ih =>
    simp only [versionsParse] at ih
    cases c <;> simp [versionsParse, Call.ver?, ih, List.filterMap_cons]

/-- **the order of the setter calls does not matter** as far as the API allows: two chains with the same
    `archqual` calls, the same `architectures` calls, the same `version` calls and the same `profile`
    calls — each kind in the same relative order, the kinds interleaved in any way — build the same
    value (or both panic) -/
theorem C14_builder_order_independent (name : Str) (cs cs' : List Call)
    (haq : cs.filterMap Call.aq? = cs'.filterMap Call.aq?)
    (har : cs.filterMap Call.archs? = cs'.filterMap Call.archs?)
    (hve : cs.filterMap Call.ver? = cs'.filterMap Call.ver?)
    (hpr : cs.filterMap Call.prof? = cs'.filterMap Call.prof?) :
    runBuild name cs = runBuild name cs' := by
  rw [C14_builder_script, C14_builder_script, versionsParse_eq cs, versionsParse_eq cs',
    verParsed_eq cs, verParsed_eq cs', haq, har, hve, hpr]

/-- `pkg:any (>= 1:2-3) [amd64 !i386] <x> <!y z>` with the calls in two different orders -/
example : runBuild "pkg".toList
      [.archqual "any".toList, .version .GreaterThanEqual "1:2-3".toList,
        .architectures ["amd64".toList, "!i386".toList], .profile [.Enabled ['x']],
        .profile [.Disabled ['y'], .Enabled ['z']]]
    = runBuild "pkg".toList
      [.profile [.Enabled ['x']], .architectures ["amd64".toList, "!i386".toList],
        .profile [.Disabled ['y'], .Enabled ['z']], .version .GreaterThanEqual "1:2-3".toList,
        .archqual "any".toList] :=
  C14_builder_order_independent _ _ _ rfl rfl rfl rfl

theorem run_append (xs ys : List Call) : ∀ b, run b (xs ++ ys) = (run b xs).bind fun b' => run b' ys := by
  induction xs with
  | nil => intro b; rfl
  | cons x xs ih =>
    intro b
    simp only [List.cons_append, run]
    cases x.apply b <;> simp [Outcome.bind, ih]

theorem run_profiles (ps : List (List BuildProfile)) : ∀ b : RelationBuilder,
    run b (ps.map Call.profile) = .ok { b with profiles := b.profiles ++ ps } := by
  induction ps with
  | nil => intro b; simp [run]
  | cons p ps ih => intro b; simp [run, Call.apply, Outcome.bind, ih, RelationBuilder.addProfile]

/-- **the builder applied to components returns exactly the record with those components** — the
    version being the parse of the text given; the only panic is a version text that does not parse -/
theorem C14_builder_record (c : Components) :
    assemble c =
      match c.version with
      | none => .ok ⟨c.name, c.archqual, c.architectures, none, c.profiles⟩
      | some (op, t) =>
        match Version.parse t with
        | some v => .ok ⟨c.name, c.archqual, c.architectures, some (op, v), c.profiles⟩
        | none => .panic versionPanic := by
  cases c with
  | mk name aq ver archs profs =>
    rcases ver with _ | ⟨op, t⟩
    · cases aq <;> cases archs <;>
        simp [assemble, runBuild, Components.calls, run, run_profiles, Call.apply, Outcome.bind, Outcome.map,
          RelationBuilder.build, relationBuild, RelationBuilder.new, RelationBuilder.setArchqual,
          RelationBuilder.setArchitectures]
    · cases hp : Version.parse t <;> cases aq <;> cases archs <;>
        simp [assemble, runBuild, Components.calls, run, run_profiles, Call.apply, Outcome.bind, Outcome.map,
          RelationBuilder.build, relationBuild, RelationBuilder.new, RelationBuilder.setArchqual,
          RelationBuilder.setArchitectures, RelationBuilder.setVersion, hp]

/-- `libc6:any (>= 1:2.3~rc1-4) [amd64 !i386] <!nocheck cross> <x>` -/
def exComponents : Components :=
  ⟨"libc6".toList, some "any".toList, some (.GreaterThanEqual, "1:2.3~rc1-4".toList),
    some ["amd64".toList, "!i386".toList], [[.Disabled "nocheck".toList, .Enabled "cross".toList], [.Enabled ['x']]]⟩

example : assemble exComponents = .ok ⟨"libc6".toList, some "any".toList, some ["amd64".toList, "!i386".toList],
    some (.GreaterThanEqual, ⟨some 1, "2.3~rc1".toList, some ['4']⟩),
    [[.Disabled "nocheck".toList, .Enabled "cross".toList], [.Enabled ['x']]]⟩ := by decide +kernel

/-- what the code does for repeated setters: the last `archqual` / `architectures` / `version` call
    wins, `profile` calls accumulate in call order (so their order DOES matter), and a `version` call
    with an unparsable text panics even when a later call would have replaced it -/
theorem C14_builder_last_wins :
    runBuild ['a'] [.archqual ['x'], .architectures [['p']], .archqual ['y'], .architectures [], .version .Equal ['1'],
        .version .LessThan ['2']]
      = .ok ⟨['a'], some ['y'], some [], some (.LessThan, ⟨none, ['2'], none⟩), []⟩
    ∧ runBuild ['a'] [.profile [.Enabled ['x']], .profile [.Enabled ['y']]]
      = .ok ⟨['a'], none, none, none, [[.Enabled ['x']], [.Enabled ['y']]]⟩
    ∧ runBuild ['a'] [.profile [.Enabled ['y']], .profile [.Enabled ['x']]]
      ≠ runBuild ['a'] [.profile [.Enabled ['x']], .profile [.Enabled ['y']]]
    ∧ runBuild ['a'] [.version .Equal [], .version .Equal ['1']] = .panic versionPanic := by decide +kernel

/-! ## (b) acceptance / panic of every constructor

`Relation::new`, `Relation::default`, `Relation::build`, `RelationBuilder::{new, archqual, architectures,
profile, build}`, `Relations::{new, default, iter, len, is_empty}` and the two `FromIterator` impls are
total functions of the model (their Lean type has no `Outcome`): no component is rejected or
validated. The functions that can panic: -/

theorem C14_builder_total_iff (name : Str) (cs : List Call) :
    (runBuild name cs).isOk = true ↔ ∀ c t, Call.version c t ∈ cs → (Version.parse t).isSome = true := by
  rw [C14_builder_script]
  have : versionsParse cs = true ↔ ∀ c t, Call.version c t ∈ cs → (Version.parse t).isSome = true := by
    simp only [versionsParse, List.all_eq_true]
    constructor
    · intro h c t hm; exact h _ hm
    · intro h x hx
      cases x <;> first | rfl | exact h _ _ hx
  rw [← this]
  split <;> simp_all [Outcome.isOk]

/-- assembling components panics exactly when a version is given whose text does not parse -/
theorem C14_assemble_total_iff (c : Components) :
    (assemble c).isOk = true ↔ ∀ op t, c.version = some (op, t) → (Version.parse t).isSome = true := by
  rw [C14_builder_record]
  cases c with
  | mk name aq ver archs profs =>
    rcases ver with _ | ⟨op, t⟩
    · simp [Outcome.isOk]
    · cases hp : Version.parse t <;> simp [Outcome.isOk, hp]

/-- the text has the shape `digits ':' rest` with `rest` non-empty and the number is 2^32 or more -/
def epochOverflow (t : Str) : Bool :=
  match t.dropWhile isAsciiDigit with
  | ':' :: rest =>
    !(t.takeWhile isAsciiDigit).isEmpty && !rest.isEmpty
      && decide (4294967296 ≤ digitsVal (t.takeWhile isAsciiDigit))
  | _ => false

theorem matchUpstreamRev_isSome (s : Str) :
    (matchUpstreamRev s).isSome = true ↔ s ≠ [] ∧ s.all isUpstreamChar = true := by
  unfold matchUpstreamRev
  by_cases hc : (s.isEmpty || !s.all isUpstreamChar) = true
  · rw [if_pos hc]
    simp only [Bool.or_eq_true, List.isEmpty_iff, Bool.not_eq_true'] at hc
    constructor
    · intro h; simp at h
    · rintro ⟨h1, h2⟩
      rcases hc with hc | hc
      · exact absurd hc h1
      · rw [h2] at hc; exact absurd hc (by decide)
  · rw [if_neg hc]
    simp only [Bool.or_eq_true, List.isEmpty_iff, Bool.not_eq_true', not_or, Bool.not_eq_false] at hc
    refine ⟨fun _ => hc, fun _ => ?_⟩
    split
    · rfl
    · split <;> rfl

theorem digit_upstream {c : Char} (h : isAsciiDigit c = true) : isUpstreamChar c = true := by
  simp only [isAsciiDigit, Bool.and_eq_true, decide_eq_true_eq] at h
  simp only [isUpstreamChar, isRevChar, isAsciiAlnum, Bool.or_eq_true, Bool.and_eq_true, decide_eq_true_eq]
  left; left; left; left; left
  omega

theorem mem_takeWhile {α} (p : α → Bool) (l : List α) : ∀ c ∈ l.takeWhile p, p c = true := by
  induction l with
  | nil => simp
  | cons x xs ih =>
    intro c hc
    simp only [List.takeWhile_cons] at hc
    split at hc
    · rename_i hx
      rcases List.mem_cons.1 hc with rfl | h
      · exact hx
      · exact ih c h
    · simp at hc

theorem parse_isSome_of_epochAlt_none (t : Str) (h : Version.epochAlt t = none) :
    (Version.parse t).isSome = (matchUpstreamRev t).isSome := by
  simp only [Version.parse, h]
  cases matchUpstreamRev t with
  | none => rfl
  | some p => obtain ⟨u, r⟩ := p; rfl

/-- **which version texts `RelationBuilder::version` accepts** (`debversion::Version::from_str` is `Ok`):
    exactly the non-empty texts over `[A-Za-z0-9.+:~-]` that do not start with a number of 2^32 or more
    followed by a colon and something -/
theorem C14_version_accept_iff (t : Str) :
    (Version.parse t).isSome = true ↔ t ≠ [] ∧ t.all isUpstreamChar = true ∧ epochOverflow t = false := by
  have hsplit := @List.takeWhile_append_dropWhile _ isAsciiDigit t
  have hdig : (t.takeWhile isAsciiDigit).all isUpstreamChar = true :=
    List.all_eq_true.2 fun c hc => digit_upstream (mem_takeWhile _ _ c hc)
  have hcolon : isUpstreamChar ':' = true := by decide
  by_cases hd : ∃ rest, t.dropWhile isAsciiDigit = ':' :: rest
  · obtain ⟨rest, hd⟩ := hd
    rw [hd] at hsplit
    have hne : t ≠ [] := by intro h; rw [h] at hd; simp at hd
    have hall : t.all isUpstreamChar = true ↔ rest.all isUpstreamChar = true := by
      rw [← hsplit, List.all_append, List.all_cons, hdig, hcolon]; simp
    by_cases hemp : (t.takeWhile isAsciiDigit).isEmpty = true
    · have he : Version.epochAlt t = none := by simp only [Version.epochAlt, hd, hemp, if_true]
      have ho : epochOverflow t = false := by simp only [epochOverflow, hd, hemp, Bool.not_true, Bool.false_and]
      rw [parse_isSome_of_epochAlt_none t he, matchUpstreamRev_isSome, ho]; simp
    · cases hm : matchUpstreamRev rest with
      | none =>
        have he : Version.epochAlt t = none := by simp only [Version.epochAlt, hd, hemp, hm]; rfl
        have hr := matchUpstreamRev_isSome rest
        simp only [hm, Option.isSome_none, Bool.false_eq_true, false_iff, not_and, Bool.not_eq_true] at hr
        rw [parse_isSome_of_epochAlt_none t he, matchUpstreamRev_isSome]
        constructor
        · rintro ⟨_, ha⟩
          refine ⟨hne, ha, ?_⟩
          have hre : rest = [] := by
            cases rest with
            | nil => rfl
            | cons x xs =>
              have := hr (by simp)
              rw [hall.1 ha] at this; exact absurd this (by decide)
          simp only [epochOverflow, hd, hre, List.isEmpty_nil, Bool.not_true, Bool.and_false, Bool.false_and]
        · rintro ⟨h1, h2, _⟩; exact ⟨h1, h2⟩
      | some p =>
        obtain ⟨u, r⟩ := p
        have hr := matchUpstreamRev_isSome rest
        simp only [hm, Option.isSome_some, true_iff] at hr
        have hrne : rest.isEmpty = false := by
          cases rest with
          | nil => exact absurd rfl hr.1
          | cons x xs => rfl
        have hemp' : (t.takeWhile isAsciiDigit).isEmpty = false := by simpa using hemp
        by_cases hlt : digitsVal (t.takeWhile isAsciiDigit) < 4294967296
        · have hp : (Version.parse t).isSome = true := by
            simp only [Version.parse, Version.epochAlt, hd, hemp, hm, hlt, if_true]; rfl
          have ho : epochOverflow t = false := by
            simp only [epochOverflow, hd, hemp', hrne, Bool.not_false, Bool.true_and, decide_eq_false_iff_not]
            omega
          simp [hp, hne, hall.2 hr.2, ho]
        · have hp : (Version.parse t).isSome = false := by
            simp only [Version.parse, Version.epochAlt, hd, hemp, hm, hlt, if_false]; rfl
          have ho : epochOverflow t = true := by
            simp only [epochOverflow, hd, hemp', hrne, Bool.not_false, Bool.true_and, decide_eq_true_eq]
            omega
          simp [hp, ho]
  · have hd' : ∀ rest, t.dropWhile isAsciiDigit ≠ ':' :: rest := fun rest h => hd ⟨rest, h⟩
    have he : Version.epochAlt t = none := by
      unfold Version.epochAlt
      split
      · rename_i rest h; exact absurd h (hd' rest)
      · rfl
    have ho : epochOverflow t = false := by
      unfold epochOverflow
      split
      · rename_i rest h; exact absurd h (hd' rest)
      · rfl
    rw [parse_isSome_of_epochAlt_none t he, matchUpstreamRev_isSome, ho]; simp

/-- accepted: `1`, `1:2-3`, `1-`, and also `1:`, `:1`, `x:1`, `1:2:` (a colon that is no epoch separator
    goes into the upstream part); rejected (the builder panics): the empty text, a space, an epoch of 2^32 -/
example : (["1", "1:2-3", "1-", "01:1", "1:", ":1", "x:1", "1:2:"].map fun s => (Version.parse s.toList).isSome)
      = [true, true, true, true, true, true, true, true]
    ∧ (["", "a b", "4294967296:1", "1_2"].map fun s => (Version.parse s.toList).isSome) = [false, false, false, false] := by
  decide +kernel

end Deb822Verif.Props.C14Build
