import Deb822Verif.Props.C14More
import Deb822Verif.Spec.RelAssemble
import Deb822Verif.Lemmas.RelWrapField
/-!
# C14, third part — "ASSEMBLED from valid components": the public assembly API of the lossy types

`Props/C14.lean` and `Props/C14More.lean` quantify over record values (`ValidR`). The property text
says *assembled from valid components*: this file puts the constructors, the builder and the
container methods of `debian-control/src/lossy/relations.rs` (lines 42-274, `Model/RelLossyBuild.lean`)
in the statements and composes them with the theorems of the first two parts.

| part | theorems |
|---|---|
| (a) what the builder returns | `C14_builder_record` (components → the record), `C14_builder_script` (ANY chain of setter calls: last `archqual` / `architectures` / `version` call wins, `profile` calls accumulate in order), `C14_builder_order_independent`, witnesses `C14_builder_last_wins` |
| (b) acceptance / panic | `C14_builder_total_iff`, `C14_assemble_total_iff`, `C14_version_accept_iff` (exactly which version texts `RelationBuilder::version` accepts), `C14_builder_accepts_invalid` (accepted texts outside the domain), `C14_relations_remove_total_iff`, `C14_relations_index_total_iff` |
| (c) composition | `C14_assembled_valid(_script)`, `C14_assembled_valid_iff`, `C14_assembled_roundtrip`, `C14_assembled_convert`, `C14_assembled_convert_exact`, `C14_assembled_relations_roundtrip`, `C14_collected_relations_roundtrip` |
| (d) container laws | `C14_relations_new`, `C14_relations_len_empty_iter`, `C14_relations_remove`, `C14_relations_index`, `C14_relations_index_mut`, `C14_relations_from_iter`, `C14_relations_valid_preserved` |
| (e) equality | derived `PartialEq` (no hand-written `PartialEq` / `Ord` in the file): `relsEqO`, `C14_relations_eq_refl`, `C14_assembled_eq_refl` |

## Finding (builder accepts components outside the domain)

`RelationBuilder::version(c, text)` parses `text` with `debversion::Version::from_str(..).unwrap()`
(relations.rs:136). It PANICS for `""`, `"a b"`, `"4294967296:1"`; it ACCEPTS `"1:"`, `":1"`, `"x:1"`, `"1:2:"` —
texts with a colon that is not an epoch separator: the regex of debversion lets `:` into the upstream
part, so `"1:"` is the version `{epoch: None, upstream: "1:"}`. Such a value prints `a (= 1:)`; the lossy
reader reads it back equal, but it is outside `ValidR` and the LOSSLESS reader does not read the same
structure (`a (= :1)`: four errors, two relations) — `C14_builder_accepts_invalid`. In the property's sense
these version texts are not valid components (`validVersionText` = Policy syntax over the lexer's
identifier characters); the builder has no validation of its own for any component (name, qualifier,
architectures, profiles are stored as given).
-/
set_option linter.unusedSimpArgs false
set_option linter.unusedVariables false
namespace Deb822Verif.Props.C14Build
open Deb822Verif Rel RelSpec LossyBuild
open Deb822Verif.Props.C14 Deb822Verif.Props.C14More

/-! ## (a) what the builder returns -/

/-- the argument of an `archqual` call -/
def Call.aq? : Call → Option Str
  | .archqual a => some a
  | _ => none
/-- the argument of an `architectures` call -/
def Call.archs? : Call → Option (List Str)
  | .architectures as => some as
  | _ => none
/-- the arguments of a `version` call, as passed -/
def Call.ver? : Call → Option (VC × Str)
  | .version c t => some (c, t)
  | _ => none
/-- the arguments of a `version` call with the text parsed (`none` also when it does not parse) -/
def Call.verParsed? : Call → Option (VC × Version)
  | .version c t => (Version.parse t).map fun v => (c, v)
  | _ => none
/-- the argument of a `profile` call -/
def Call.prof? : Call → Option (List BuildProfile)
  | .profile p => some p
  | _ => none

/-- every `version` call of the chain has a text that `debversion::Version::from_str` accepts -/
def versionsParse (cs : List Call) : Bool :=
  cs.all fun c => match c with
    | .version _ t => (Version.parse t).isSome
    | _ => true

theorem getLast?_or_cons {α} (a : α) (l : List α) (init : Option α) :
    ((a :: l).getLast?).or init = (l.getLast?).or (some a) := by
  rw [List.getLast?_cons]
  cases l.getLast? <;> rfl

/-- the builder after a chain of calls, field by field -/
theorem run_eq (cs : List Call) : ∀ b : RelationBuilder,
    run b cs =
      if versionsParse cs then
        .ok { name := b.name
              archqual := ((cs.filterMap Call.aq?).getLast?).or b.archqual
              architectures := ((cs.filterMap Call.archs?).getLast?).or b.architectures
              version := ((cs.filterMap Call.verParsed?).getLast?).or b.version
              profiles := b.profiles ++ cs.filterMap Call.prof? }
      else .panic versionPanic := by
  induction cs with
  | nil => intro b; cases b; simp [run, versionsParse]
  | cons c cs ih =>
    intro b
    cases c with
    | archqual a =>
      simp only [run, Call.apply, Outcome.bind, ih, versionsParse, List.all_cons, Bool.true_and,
        List.filterMap_cons, Call.aq?, Call.archs?, Call.verParsed?, Call.prof?, getLast?_or_cons,
        RelationBuilder.setArchqual] <;> rfl
    | architectures as =>
      simp only [run, Call.apply, Outcome.bind, ih, versionsParse, List.all_cons, Bool.true_and,
        List.filterMap_cons, Call.aq?, Call.archs?, Call.verParsed?, Call.prof?, getLast?_or_cons,
        RelationBuilder.setArchitectures, List.map_id'] <;> rfl
    | version k t =>
      cases hp : Version.parse t with
      | none =>
        simp [run, Call.apply, Outcome.bind, versionsParse, RelationBuilder.setVersion, hp]
      | some v =>
        simp only [run, Call.apply, Outcome.bind, ih, versionsParse, List.all_cons, Bool.true_and,
          List.filterMap_cons, Call.aq?, Call.archs?, Call.verParsed?, Call.prof?, getLast?_or_cons,
          RelationBuilder.setVersion, hp, Option.isSome_some, Option.map_some] <;> rfl
    | profile p =>
      simp only [run, Call.apply, Outcome.bind, ih, versionsParse, List.all_cons, Bool.true_and,
        List.filterMap_cons, Call.aq?, Call.archs?, Call.verParsed?, Call.prof?,
        RelationBuilder.addProfile, List.append_assoc, List.singleton_append] <;> rfl

/-- **any chain of setter calls** `Relation::build(name).c1(..)….cn(..).build()`: it panics exactly when
    some `version` call has a text that does not parse (even a call that a later one overrides);
    otherwise the value has the given name, the argument of the LAST `archqual` call (none: `None`), of
    the LAST `architectures` call, the operator and parsed text of the LAST `version` call, and the
    arguments of ALL `profile` calls in call order -/
theorem C14_builder_script (name : Str) (cs : List Call) :
    runBuild name cs =
      if versionsParse cs then
        .ok { name := name
              archqual := (cs.filterMap Call.aq?).getLast?
              architectures := (cs.filterMap Call.archs?).getLast?
              version := (cs.filterMap Call.verParsed?).getLast?
              profiles := cs.filterMap Call.prof? }
      else .panic versionPanic := by
  rw [runBuild, run_eq]
  split <;> simp [Outcome.map, RelationBuilder.build, relationBuild, RelationBuilder.new]

/-- when every version text parses, the parsed version calls are the version calls -/
theorem verParsed_eq (cs : List Call) :
    cs.filterMap Call.verParsed? = (cs.filterMap Call.ver?).filterMap fun p => (Version.parse p.2).map fun v => (p.1, v) := by
  induction cs with
  | nil => rfl
  | cons c cs ih => cases c <;> simp [Call.verParsed?, Call.ver?, ih, List.filterMap_cons]

theorem versionsParse_eq (cs : List Call) :
    versionsParse cs = (cs.filterMap Call.ver?).all fun p => (Version.parse p.2).isSome := by
  induction cs with
  | nil => rfl
  | cons c cs ih =>
    simp only [versionsParse] at ih
    cases c <;> simp [versionsParse, Call.ver?, ih, List.filterMap_cons]

/-- **the order of the setter calls does not matter** as far as the API allows: two chains with the same
    `archqual` calls, the same `architectures` calls, the same `version` calls and the same `profile`
    calls — each kind in the same relative order, the kinds interleaved in any way — build the same
    value (or both panic) -/
theorem C14_builder_order_independent (name : Str) (cs cs' : List Call)
    (haq : cs.filterMap Call.aq? = cs'.filterMap Call.aq?)
    (har : cs.filterMap Call.archs? = cs'.filterMap Call.archs?)
    (hve : cs.filterMap Call.ver? = cs'.filterMap Call.ver?)
    (hpr : cs.filterMap Call.prof? = cs'.filterMap Call.prof?) :
    runBuild name cs = runBuild name cs' := by
  rw [C14_builder_script, C14_builder_script, versionsParse_eq cs, versionsParse_eq cs',
    verParsed_eq cs, verParsed_eq cs', haq, har, hve, hpr]

/-- `pkg:any (>= 1:2-3) [amd64 !i386] <x> <!y z>` with the calls in two different orders -/
example : runBuild "pkg".toList
      [.archqual "any".toList, .version .GreaterThanEqual "1:2-3".toList,
        .architectures ["amd64".toList, "!i386".toList], .profile [.Enabled ['x']],
        .profile [.Disabled ['y'], .Enabled ['z']]]
    = runBuild "pkg".toList
      [.profile [.Enabled ['x']], .architectures ["amd64".toList, "!i386".toList],
        .profile [.Disabled ['y'], .Enabled ['z']], .version .GreaterThanEqual "1:2-3".toList,
        .archqual "any".toList] :=
  C14_builder_order_independent _ _ _ rfl rfl rfl rfl

theorem run_append (xs ys : List Call) : ∀ b, run b (xs ++ ys) = (run b xs).bind fun b' => run b' ys := by
  induction xs with
  | nil => intro b; rfl
  | cons x xs ih =>
    intro b
    simp only [List.cons_append, run]
    cases x.apply b <;> simp [Outcome.bind, ih]

theorem run_profiles (ps : List (List BuildProfile)) : ∀ b : RelationBuilder,
    run b (ps.map Call.profile) = .ok { b with profiles := b.profiles ++ ps } := by
  induction ps with
  | nil => intro b; simp [run]
  | cons p ps ih => intro b; simp [run, Call.apply, Outcome.bind, ih, RelationBuilder.addProfile]

/-- **the builder applied to components returns exactly the record with those components** — the
    version being the parse of the text given; the only panic is a version text that does not parse -/
theorem C14_builder_record (c : Components) :
    assemble c =
      match c.version with
      | none => .ok ⟨c.name, c.archqual, c.architectures, none, c.profiles⟩
      | some (op, t) =>
        match Version.parse t with
        | some v => .ok ⟨c.name, c.archqual, c.architectures, some (op, v), c.profiles⟩
        | none => .panic versionPanic := by
  cases c with
  | mk name aq ver archs profs =>
    rcases ver with _ | ⟨op, t⟩
    · cases aq <;> cases archs <;>
        simp [assemble, runBuild, Components.calls, run, run_profiles, Call.apply, Outcome.bind, Outcome.map,
          RelationBuilder.build, relationBuild, RelationBuilder.new, RelationBuilder.setArchqual,
          RelationBuilder.setArchitectures]
    · cases hp : Version.parse t <;> cases aq <;> cases archs <;>
        simp [assemble, runBuild, Components.calls, run, run_profiles, Call.apply, Outcome.bind, Outcome.map,
          RelationBuilder.build, relationBuild, RelationBuilder.new, RelationBuilder.setArchqual,
          RelationBuilder.setArchitectures, RelationBuilder.setVersion, hp]

/-- `libc6:any (>= 1:2.3~rc1-4) [amd64 !i386] <!nocheck cross> <x>` -/
def exComponents : Components :=
  ⟨"libc6".toList, some "any".toList, some (.GreaterThanEqual, "1:2.3~rc1-4".toList),
    some ["amd64".toList, "!i386".toList], [[.Disabled "nocheck".toList, .Enabled "cross".toList], [.Enabled ['x']]]⟩

example : assemble exComponents = .ok ⟨"libc6".toList, some "any".toList, some ["amd64".toList, "!i386".toList],
    some (.GreaterThanEqual, ⟨some 1, "2.3~rc1".toList, some ['4']⟩),
    [[.Disabled "nocheck".toList, .Enabled "cross".toList], [.Enabled ['x']]]⟩ := by decide +kernel

/-- what the code does for repeated setters: the last `archqual` / `architectures` / `version` call
    wins, `profile` calls accumulate in call order (so their order DOES matter), and a `version` call
    with an unparsable text panics even when a later call would have replaced it -/
theorem C14_builder_last_wins :
    runBuild ['a'] [.archqual ['x'], .architectures [['p']], .archqual ['y'], .architectures [], .version .Equal ['1'],
        .version .LessThan ['2']]
      = .ok ⟨['a'], some ['y'], some [], some (.LessThan, ⟨none, ['2'], none⟩), []⟩
    ∧ runBuild ['a'] [.profile [.Enabled ['x']], .profile [.Enabled ['y']]]
      = .ok ⟨['a'], none, none, none, [[.Enabled ['x']], [.Enabled ['y']]]⟩
    ∧ runBuild ['a'] [.profile [.Enabled ['y']], .profile [.Enabled ['x']]]
      ≠ runBuild ['a'] [.profile [.Enabled ['x']], .profile [.Enabled ['y']]]
    ∧ runBuild ['a'] [.version .Equal [], .version .Equal ['1']] = .panic versionPanic := by decide +kernel

/-! ## (b) acceptance / panic of every constructor

`Relation::new`, `Relation::default`, `Relation::build`, `RelationBuilder::{new, archqual, architectures,
profile, build}`, `Relations::{new, default, iter, len, is_empty}` and the two `FromIterator` impls are
total functions of the model (their Lean type has no `Outcome`): no component is rejected or
validated. The functions that can panic: -/

theorem C14_builder_total_iff (name : Str) (cs : List Call) :
    (runBuild name cs).isOk = true ↔ ∀ c t, Call.version c t ∈ cs → (Version.parse t).isSome = true := by
  rw [C14_builder_script]
  have : versionsParse cs = true ↔ ∀ c t, Call.version c t ∈ cs → (Version.parse t).isSome = true := by
    simp only [versionsParse, List.all_eq_true]
    constructor
    · intro h c t hm; exact h _ hm
    · intro h x hx
      cases x <;> first | rfl | exact h _ _ hx
  rw [← this]
  split <;> simp_all [Outcome.isOk]

/-- assembling components panics exactly when a version is given whose text does not parse -/
theorem C14_assemble_total_iff (c : Components) :
    (assemble c).isOk = true ↔ ∀ op t, c.version = some (op, t) → (Version.parse t).isSome = true := by
  rw [C14_builder_record]
  cases c with
  | mk name aq ver archs profs =>
    rcases ver with _ | ⟨op, t⟩
    · simp [Outcome.isOk]
    · cases hp : Version.parse t <;> simp [Outcome.isOk, hp]

/-- the text has the shape `digits ':' rest` with `rest` non-empty and the number is 2^32 or more -/
def epochOverflow (t : Str) : Bool :=
  match t.dropWhile isAsciiDigit with
  | ':' :: rest =>
    !(t.takeWhile isAsciiDigit).isEmpty && !rest.isEmpty
      && decide (4294967296 ≤ digitsVal (t.takeWhile isAsciiDigit))
  | _ => false

theorem matchUpstreamRev_isSome (s : Str) :
    (matchUpstreamRev s).isSome = true ↔ s ≠ [] ∧ s.all isUpstreamChar = true := by
  unfold matchUpstreamRev
  by_cases hc : (s.isEmpty || !s.all isUpstreamChar) = true
  · rw [if_pos hc]
    simp only [Bool.or_eq_true, List.isEmpty_iff, Bool.not_eq_true'] at hc
    constructor
    · intro h; simp at h
    · rintro ⟨h1, h2⟩
      rcases hc with hc | hc
      · exact absurd hc h1
      · rw [h2] at hc; exact absurd hc (by decide)
  · rw [if_neg hc]
    simp only [Bool.or_eq_true, List.isEmpty_iff, Bool.not_eq_true', not_or, Bool.not_eq_false] at hc
    refine ⟨fun _ => hc, fun _ => ?_⟩
    split
    · rfl
    · split <;> rfl

theorem digit_upstream {c : Char} (h : isAsciiDigit c = true) : isUpstreamChar c = true := by
  simp only [isAsciiDigit, Bool.and_eq_true, decide_eq_true_eq] at h
  simp only [isUpstreamChar, isRevChar, isAsciiAlnum, Bool.or_eq_true, Bool.and_eq_true, decide_eq_true_eq]
  left; left; left; left; left
  omega

theorem mem_takeWhile {α} (p : α → Bool) (l : List α) : ∀ c ∈ l.takeWhile p, p c = true := by
  induction l with
  | nil => simp
  | cons x xs ih =>
    intro c hc
    simp only [List.takeWhile_cons] at hc
    split at hc
    · rename_i hx
      rcases List.mem_cons.1 hc with rfl | h
      · exact hx
      · exact ih c h
    · simp at hc

theorem parse_isSome_of_epochAlt_none (t : Str) (h : Version.epochAlt t = none) :
    (Version.parse t).isSome = (matchUpstreamRev t).isSome := by
  simp only [Version.parse, h]
  cases matchUpstreamRev t with
  | none => rfl
  | some p => obtain ⟨u, r⟩ := p; rfl

/-- **which version texts `RelationBuilder::version` accepts** (`debversion::Version::from_str` is `Ok`):
    exactly the non-empty texts over `[A-Za-z0-9.+:~-]` that do not start with a number of 2^32 or more
    followed by a colon and something -/
theorem C14_version_accept_iff (t : Str) :
    (Version.parse t).isSome = true ↔ t ≠ [] ∧ t.all isUpstreamChar = true ∧ epochOverflow t = false := by
  have hsplit := @List.takeWhile_append_dropWhile _ isAsciiDigit t
  have hdig : (t.takeWhile isAsciiDigit).all isUpstreamChar = true :=
    List.all_eq_true.2 fun c hc => digit_upstream (mem_takeWhile _ _ c hc)
  have hcolon : isUpstreamChar ':' = true := by decide
  by_cases hd : ∃ rest, t.dropWhile isAsciiDigit = ':' :: rest
  · obtain ⟨rest, hd⟩ := hd
    rw [hd] at hsplit
    have hne : t ≠ [] := by intro h; rw [h] at hd; simp at hd
    have hall : t.all isUpstreamChar = true ↔ rest.all isUpstreamChar = true := by
      rw [← hsplit, List.all_append, List.all_cons, hdig, hcolon]; simp
    by_cases hemp : (t.takeWhile isAsciiDigit).isEmpty = true
    · have he : Version.epochAlt t = none := by simp only [Version.epochAlt, hd, hemp, if_true]
      have ho : epochOverflow t = false := by simp only [epochOverflow, hd, hemp, Bool.not_true, Bool.false_and]
      rw [parse_isSome_of_epochAlt_none t he, matchUpstreamRev_isSome, ho]; simp
    · cases hm : matchUpstreamRev rest with
      | none =>
        have he : Version.epochAlt t = none := by simp only [Version.epochAlt, hd, hemp, hm]; rfl
        have hr := matchUpstreamRev_isSome rest
        simp only [hm, Option.isSome_none, Bool.false_eq_true, false_iff, not_and, Bool.not_eq_true] at hr
        rw [parse_isSome_of_epochAlt_none t he, matchUpstreamRev_isSome]
        constructor
        · rintro ⟨_, ha⟩
          refine ⟨hne, ha, ?_⟩
          have hre : rest = [] := by
            cases rest with
            | nil => rfl
            | cons x xs =>
              have := hr (by simp)
              rw [hall.1 ha] at this; exact absurd this (by decide)
          simp only [epochOverflow, hd, hre, List.isEmpty_nil, Bool.not_true, Bool.and_false, Bool.false_and]
        · rintro ⟨h1, h2, _⟩; exact ⟨h1, h2⟩
      | some p =>
        obtain ⟨u, r⟩ := p
        have hr := matchUpstreamRev_isSome rest
        simp only [hm, Option.isSome_some, true_iff] at hr
        have hrne : rest.isEmpty = false := by
          cases rest with
          | nil => exact absurd rfl hr.1
          | cons x xs => rfl
        have hemp' : (t.takeWhile isAsciiDigit).isEmpty = false := by simpa using hemp
        by_cases hlt : digitsVal (t.takeWhile isAsciiDigit) < 4294967296
        · have hp : (Version.parse t).isSome = true := by
            simp only [Version.parse, Version.epochAlt, hd, hemp, hm, hlt, if_true]; rfl
          have ho : epochOverflow t = false := by
            simp only [epochOverflow, hd, hemp', hrne, Bool.not_false, Bool.true_and, decide_eq_false_iff_not]
            omega
          simp [hp, hne, hall.2 hr.2, ho]
        · have hp : (Version.parse t).isSome = false := by
            simp only [Version.parse, Version.epochAlt, hd, hemp, hm, hlt, if_false]; rfl
          have ho : epochOverflow t = true := by
            simp only [epochOverflow, hd, hemp', hrne, Bool.not_false, Bool.true_and, decide_eq_true_eq]
            omega
          simp [hp, ho]
  · have hd' : ∀ rest, t.dropWhile isAsciiDigit ≠ ':' :: rest := fun rest h => hd ⟨rest, h⟩
    have he : Version.epochAlt t = none := by
      unfold Version.epochAlt
      split
      · rename_i rest h; exact absurd h (hd' rest)
      · rfl
    have ho : epochOverflow t = false := by
      unfold epochOverflow
      split
      · rename_i rest h; exact absurd h (hd' rest)
      · rfl
    rw [parse_isSome_of_epochAlt_none t he, matchUpstreamRev_isSome, ho]; simp

/-- accepted: `1`, `1:2-3`, `1-`, and also `1:`, `:1`, `x:1`, `1:2:` (a colon that is no epoch separator
    goes into the upstream part); rejected (the builder panics): the empty text, a space, an epoch of 2^32 -/
example : (["1", "1:2-3", "1-", "01:1", "1:", ":1", "x:1", "1:2:"].map fun s => (Version.parse s.toList).isSome)
      = [true, true, true, true, true, true, true, true]
    ∧ (["", "a b", "4294967296:1", "1_2"].map fun s => (Version.parse s.toList).isSome) = [false, false, false, false] := by
  decide +kernel


/-- `Vec::remove` / indexing: exactly the indices below the length are accepted -/
theorem C14_relations_remove_total_iff (rs : Relations) (i : Nat) :
    (remove rs i).isOk = true ↔ i < rs.length := by
  unfold remove; split <;> simp_all [Outcome.isOk]

theorem C14_relations_index_total_iff (rs : Relations) (i : Nat) (f : List Lossy.Relation → List Lossy.Relation) :
    ((index rs i).isOk = true ↔ i < rs.length) ∧ ((indexMut rs i f).isOk = true ↔ i < rs.length) := by
  unfold index indexMut
  by_cases h : i < rs.length
  · simp [h, Outcome.isOk]
  · have : rs[i]? = none := List.getElem?_eq_none (by omega)
    simp [h, this, Outcome.isOk]

/-! ## (c) composition: values assembled from valid components are in the domain of C14 -/

theorem splitColon_eq : ∀ {t e b : Str}, splitColon t = some (e, b) → t = e ++ ':' :: b := by
  intro t
  induction t with
  | nil => intro e b h; simp [splitColon] at h
  | cons c cs ih =>
    intro e b h
    simp only [splitColon] at h
    split at h
    · rename_i hc
      simp only [Option.some.injEq, Prod.mk.injEq] at h
      obtain ⟨rfl, rfl⟩ := h
      simp [hc]
    · split at h
      · rename_i a b' hs
        simp only [Option.some.injEq, Prod.mk.injEq] at h
        obtain ⟨rfl, rfl⟩ := h
        simp [ih hs]
      · simp at h

/-- the text read as `[epoch:]body` is the text -/
theorem versionAOfText_str (t : Str) : (versionAOfText t).str = t := by
  unfold versionAOfText
  cases h : splitColon t with
  | none => simp [VersionA.str]
  | some p =>
    obtain ⟨e, b⟩ := p
    simp [VersionA.str, splitColon_eq h]

/-- a valid version text is accepted by the builder, and its value is a valid version -/
theorem validVersionText_parse (t : Str) (h : validVersionText t = true) :
    Version.parse t = some (versionAOfText t).value ∧ validVersion (versionAOfText t).value = true := by
  have := Rel.Version.parse_written (versionAOfText t) h
  rw [versionAOfText_str] at this
  exact ⟨this, Rel.Wrap.value_valid _ h⟩

/-- the builder holds a valid value so far -/
def validB (b : RelationBuilder) : Bool := validR b.build

theorem apply_valid (b : RelationBuilder) (c : Call) (hb : validB b = true) (hc : validCall c = true) :
    ∃ b', c.apply b = .ok b' ∧ validB b' = true := by
  simp only [validB, validR, RelationBuilder.build, Bool.and_eq_true] at hb
  obtain ⟨⟨⟨⟨h1, h2⟩, h3⟩, h4⟩, h5⟩ := hb
  cases c with
  | archqual a =>
    refine ⟨_, rfl, ?_⟩
    simp only [validB, validR, RelationBuilder.build, RelationBuilder.setArchqual, Bool.and_eq_true]
    exact ⟨⟨⟨⟨h1, hc⟩, h3⟩, h4⟩, h5⟩
  | architectures as =>
    refine ⟨_, rfl, ?_⟩
    simp only [validB, validR, RelationBuilder.build, RelationBuilder.setArchitectures, Bool.and_eq_true,
      List.map_id']
    exact ⟨⟨⟨⟨h1, h2⟩, h3⟩, hc⟩, h5⟩
  | version k t =>
    obtain ⟨hp, hv⟩ := validVersionText_parse t hc
    refine ⟨{ b with version := some (k, (versionAOfText t).value) }, ?_, ?_⟩
    · simp only [Call.apply, RelationBuilder.setVersion, hp]
    · simp only [validB, validR, RelationBuilder.build, Bool.and_eq_true]
      exact ⟨⟨⟨⟨h1, h2⟩, hv⟩, h4⟩, h5⟩
  | profile p =>
    refine ⟨_, rfl, ?_⟩
    simp only [validB, validR, RelationBuilder.build, RelationBuilder.addProfile, Bool.and_eq_true,
      List.all_append, List.all_cons, List.all_nil, Bool.and_true]
    exact ⟨⟨⟨⟨h1, h2⟩, h3⟩, h4⟩, h5, hc⟩

theorem run_valid (cs : List Call) : ∀ b : RelationBuilder, validB b = true → cs.all validCall = true →
    ∃ b', run b cs = .ok b' ∧ validB b' = true := by
  induction cs with
  | nil => intro b hb _; exact ⟨b, rfl, hb⟩
  | cons c cs ih =>
    intro b hb hcs
    simp only [List.all_cons, Bool.and_eq_true] at hcs
    obtain ⟨b1, h1, hv1⟩ := apply_valid b c hb hcs.1
    obtain ⟨b2, h2, hv2⟩ := ih b1 hv1 hcs.2
    exact ⟨b2, by simp [run, h1, Outcome.bind, h2], hv2⟩

/-- **any chain of setter calls with a valid name and valid arguments** (in any order, setters repeated
    or not) does not panic and builds a value of the domain of C14 -/
theorem C14_assembled_valid_script (name : Str) (cs : List Call) (h : validCalls name cs = true) :
    ∃ r, runBuild name cs = .ok r ∧ ValidR r := by
  simp only [validCalls, Bool.and_eq_true] at h
  have h0 : validB (relationBuild name) = true := by
    simp [validB, validR, RelationBuilder.build, relationBuild, RelationBuilder.new, h.1]
  obtain ⟨b, hr, hv⟩ := run_valid cs _ h0 h.2
  exact ⟨b.build, by simp [runBuild, hr, Outcome.map], hv⟩

example : validCalls "pkg".toList
    [.profile [.Enabled ['x']], .archqual ['?'], .architectures ["amd64".toList, "!i386".toList], .profile [],
      .version .GreaterThanEqual "01:2:3-4".toList, .archqual "any".toList] = false
  ∧ validCalls "pkg".toList
    [.profile [.Enabled ['x']], .archqual ['q'], .architectures ["amd64".toList, "!i386".toList], .profile [],
      .version .GreaterThanEqual "01:2:3-4".toList, .archqual "any".toList] = true := by decide +kernel

theorem validCalls_of_components (c : Components) (h : validComponents c = true) :
    validCalls c.name c.calls = true := by
  cases c with
  | mk name aq ver archs profs =>
    simp only [validComponents, Bool.and_eq_true] at h
    obtain ⟨⟨⟨⟨h1, h2⟩, h3⟩, h4⟩, h5⟩ := h
    have h5' : (profs.map Call.profile).all validCall = true := by
      rw [List.all_map]; exact h5
    rcases ver with _ | ⟨op, t⟩ <;> cases aq <;> cases archs <;>
      simp_all [validCalls, Components.calls, validCall, List.all_append]

/-- **valid components assemble**: the builder does not panic and the value is in `ValidR` -/
theorem C14_assembled_valid (c : Components) (h : validComponents c = true) :
    ∃ r, assemble c = .ok r ∧ ValidR r :=
  C14_assembled_valid_script _ _ (validCalls_of_components c h)

example : validComponents exComponents = true ∧ validComponentsS exComponents = true := by decide +kernel

/-- the fields of the assembled value are the components (the version: the parse of the text) -/
theorem assemble_fields (c : Components) (r : Lossy.Relation) (h : assemble c = .ok r) :
    r.name = c.name ∧ r.archqual = c.archqual ∧ r.architectures = c.architectures ∧ r.profiles = c.profiles
      ∧ (match c.version with
          | none => r.version = none
          | some (op, t) => ∃ v, Version.parse t = some v ∧ r.version = some (op, v)) := by
  rw [C14_builder_record] at h
  cases c with
  | mk name aq ver archs profs =>
    rcases ver with _ | ⟨op, t⟩
    · simp only [Outcome.ok.injEq] at h
      subst h; simp
    · simp only at h
      cases hp : Version.parse t with
      | none => simp [hp] at h
      | some v =>
        simp only [hp, Outcome.ok.injEq] at h
        subst h; simp [hp]

theorem splitColon_none {t : Str} (h : ':' ∉ t) : splitColon t = none := by
  induction t with
  | nil => rfl
  | cons c cs ih =>
    simp only [List.mem_cons, not_or] at h
    simp [splitColon, Ne.symm h.1, ih h.2]

theorem splitColon_append {d rest : Str} (h : ':' ∉ d) : splitColon (d ++ ':' :: rest) = some (d, rest) := by
  induction d with
  | nil => simp [splitColon]
  | cons c cs ih =>
    simp only [List.mem_cons, not_or] at h
    simp [splitColon, Ne.symm h.1, ih h.2]

/-- conversely, a text the builder accepts into a VALID version is a valid version text -/
theorem validVersionText_of_parse (t : Str) (v : Version) (hp : Version.parse t = some v)
    (hv : validVersion v = true) : validVersionText t = true := by
  obtain ⟨hok, hval⟩ := (validVersion_iff v).1 hv
  obtain ⟨hf, hm, he⟩ := (VersionA.ok_iff _).1 hok
  unfold Version.parse at hp
  cases hea : Version.epochAlt t with
  | none =>
    rw [hea] at hp
    cases hm' : matchUpstreamRev t with
    | none => simp [hm'] at hp
    | some p =>
      obtain ⟨u, r⟩ := p
      simp only [hm', Option.some.injEq] at hp
      subst hp
      have hbody : (versionAOf ⟨none, u, r⟩).first = t := by
        have hb := matchUpstreamRev_display hm'
        simp only [versionAOf, VersionA.first, Option.map_none]
        cases r <;> exact hb
      rw [hbody] at hf
      have hnc : ':' ∉ t := by
        intro hc
        have := ((isIdent_iff _).1 hf).2 ':' hc
        exact absurd this (by decide)
      have : versionAOfText t = ⟨none, t⟩ := by simp [versionAOfText, splitColon_none hnc]
      rw [validVersionText, this, VersionA.ok_iff]
      exact ⟨hf, by simp [VersionA.more], by simp⟩
  | some o =>
    rw [hea] at hp
    simp only at hp
    subst hp
    unfold Version.epochAlt at hea
    split at hea
    · rename_i rest hd
      split at hea
      · simp at hea
      · rename_i hemp
        split at hea
        · simp at hea
        · rename_i u r hm'
          split at hea
          · rename_i hlt
            simp only [Option.some.injEq] at hea
            subst hea
            have hsplit := @List.takeWhile_append_dropWhile _ isAsciiDigit t
            rw [hd] at hsplit
            have hdig : ∀ c ∈ t.takeWhile isAsciiDigit, isAsciiDigit c = true := mem_takeWhile _ _
            have hnc : ':' ∉ t.takeWhile isAsciiDigit := by
              intro hc
              have := hdig ':' hc
              exact absurd this (by decide)
            have hT : versionAOfText t = ⟨some (t.takeWhile isAsciiDigit), rest⟩ := by
              have := splitColon_append (rest := rest) hnc
              rw [hsplit] at this
              simp [versionAOfText, this]
            have hisd : isDigits (t.takeWhile isAsciiDigit) = true := by
              simp only [isDigits, Bool.and_eq_true, List.all_eq_true]
              exact ⟨by simpa using hemp, hdig⟩
            have hbody : (versionAOf ⟨some (digitsVal (t.takeWhile isAsciiDigit)), u, r⟩).more
                = Text.splitOn ':' rest := by
              have hb := matchUpstreamRev_display hm'
              simp only [versionAOf, VersionA.more, Option.map_some]
              cases r <;> (simp only at hb ⊢; rw [hb])
            rw [hbody] at hm
            rw [validVersionText, hT, VersionA.ok_iff]
            refine ⟨isIdent_of_digits hisd, hm, ?_⟩
            intro e he'
            simp only [Option.some.injEq] at he'
            subst he'
            exact ⟨hisd, hlt⟩
          · simp at hea
    · simp at hea

/-- **exactly the valid components assemble to a value of the domain**: the builder returns a value
    of `ValidR` if and only if the components are valid (the builder itself rejects nothing but
    unparsable version texts) -/
theorem C14_assembled_valid_iff (c : Components) :
    (∃ r, assemble c = .ok r ∧ ValidR r) ↔ validComponents c = true := by
  refine ⟨?_, C14_assembled_valid c⟩
  rintro ⟨r, hr, hv⟩
  obtain ⟨hn, ha, har, hpr, hve⟩ := assemble_fields c r hr
  have hv' : validR r = true := hv
  simp only [validR, Bool.and_eq_true] at hv'
  obtain ⟨⟨⟨⟨h1, h2⟩, h3⟩, h4⟩, h5⟩ := hv'
  rw [hn] at h1; rw [ha] at h2; rw [har] at h4; rw [hpr] at h5
  simp only [validComponents, Bool.and_eq_true]
  refine ⟨⟨⟨⟨h1, h2⟩, ?_⟩, h4⟩, h5⟩
  cases hcv : c.version with
  | none => rfl
  | some p =>
    obtain ⟨op, t⟩ := p
    simp only [hcv] at hve
    obtain ⟨v, hp, hrv⟩ := hve
    rw [hrv] at h3
    exact validVersionText_of_parse t v hp h3

/-- **a value assembled from valid components round-trips**: it prints to a text that the lossy reader
    turns back into the same value and that the lossless single-relation reader reads without error,
    as a relation that prints the same text and whose accessors give back the value; the same holds
    for the field-level readers (`lossy::Relations::from_str`, tolerant and strict lossless parsers) -/
theorem C14_assembled_roundtrip (c : Components) (h : validComponents c = true) :
    ∃ r, assemble c = .ok r
      ∧ Lossy.readRelation (Lossy.showRelation r) = .ok r
      ∧ (∃ t, Rel.readRelation (Lossy.showRelation r) = .ok t ∧ t.text = Lossy.showRelation r
            ∧ Build.toLossy t = .ok r)
      ∧ Lossy.readRelations (Lossy.showRelations [[r]]) = .ok [[r]]
      ∧ ∀ allow, accEntries (readRelaxed (Lossy.showRelations [[r]]) allow).1 = some [[r]]
          ∧ (readRelaxed (Lossy.showRelations [[r]]) allow).2 = [] := by
  obtain ⟨r, hr, hv⟩ := C14_assembled_valid c h
  have hvs : ValidRs [[r]] := by
    have h' : validR r = true := hv
    simp [ValidRs, validRs, h']
  refine ⟨r, hr, C14_roundtrip_rel r hv, C14_lossless_reads_same_rel r hv, C14_roundtrip [[r]] hvs, ?_⟩
  intro allow
  obtain ⟨h1, h2, _, _⟩ := C14_lossless_reads_same [[r]] hvs allow
  exact ⟨h2, h1⟩

/-- the strong components give a value of the conversion domain -/
theorem assembled_validRS (c : Components) (h : validComponentsS c = true) :
    ∃ r, assemble c = .ok r ∧ ValidRS r := by
  simp only [validComponentsS, Bool.and_eq_true] at h
  obtain ⟨r, hr, hv⟩ := C14_assembled_valid c h.1.1
  refine ⟨r, hr, ?_⟩
  have h' : validR r = true := hv
  obtain ⟨_, _, har, _, _⟩ := assemble_fields c r hr
  simp only [ValidRS, validRS, h', Bool.true_and, har]
  exact h.1.2

/-- **a value assembled from the components the property lists converts faithfully**: converting it
    to the lossless form and back returns the original value, the lossless form prints the same text
    as the lossy one, and it is — tree for tree — what the lossless parser makes of that text -/
theorem C14_assembled_convert (c : Components) (h : validComponentsS c = true) :
    ∃ r, assemble c = .ok r
      ∧ Build.toLossy (Build.toLossless r) = .ok r
      ∧ (Build.toLossless r).text = Lossy.showRelation r
      ∧ Rel.readRelation (Lossy.showRelation r) = .ok (Build.toLossless r) := by
  obtain ⟨r, hr, hv⟩ := assembled_validRS c h
  exact ⟨r, hr, C14_convert_back r hv, C14_convert_text r hv, C14_parse_is_built r hv⟩

/-- … and for all valid components (an empty architecture list `architectures(vec![])` included) the
    conversion is exact up to `normArchs` (the lossless form has no empty architecture list) -/
theorem C14_assembled_convert_exact (c : Components) (h : validComponents c = true) :
    ∃ r, assemble c = .ok r
      ∧ Build.toLossy (Build.toLossless r) = .ok (normArchs r)
      ∧ (Build.toLossless r).text = Lossy.showRelation (normArchs r)
      ∧ Rel.readRelation (Lossy.showRelation (normArchs r)) = .ok (Build.toLossless r)
      ∧ (Build.toLossy (Build.toLossless r) = .ok r ↔ c.architectures ≠ some []) := by
  obtain ⟨r, hr, hv⟩ := C14_assembled_valid c h
  obtain ⟨_, _, har, _, _⟩ := assemble_fields c r hr
  obtain ⟨_, h2, h3⟩ := C14_convert_exact r hv
  refine ⟨r, hr, h3, h2, C14_parse_is_built_norm r hv, ?_⟩
  rw [C14_convert_back_iff r hv, har]

example : ∃ r, assemble exComponents = .ok r ∧ Build.toLossy (Build.toLossless r) = .ok r
    ∧ (Build.toLossless r).text = "libc6:any (>= 1:2.3~rc1-4) [amd64 !i386] <!nocheck cross> <x>".toList := by
  obtain ⟨r, hr, h1, h2, _⟩ := C14_assembled_convert exComponents (by decide +kernel)
  refine ⟨r, hr, h1, ?_⟩
  rw [h2]
  have : assemble exComponents = .ok ⟨"libc6".toList, some "any".toList, some ["amd64".toList, "!i386".toList],
      some (.GreaterThanEqual, ⟨some 1, "2.3~rc1".toList, some ['4']⟩),
      [[.Disabled "nocheck".toList, .Enabled "cross".toList], [.Enabled ['x']]]⟩ := by decide +kernel
  rw [this] at hr
  cases hr
  decide +kernel

/-- `a []`: valid in the weak sense only — `Relation::build("a").architectures(vec![]).build()` -/
example : validComponents ⟨['a'], none, none, some [], []⟩ = true
    ∧ validComponentsS ⟨['a'], none, none, some [], []⟩ = false
    ∧ assemble ⟨['a'], none, none, some [], []⟩ = .ok exEmptyArchs := by decide +kernel

/-- **components the builder ACCEPTS that are not valid**: `version(Equal, "1:")`, `(…, ":1")` do not panic
    (the colon goes into the upstream part); the value is outside `ValidR`, the lossy reader still reads
    the printed text back, but the lossless reader reports errors on it and for `:1` sees a different
    structure (two relations). `version(Equal, "")` panics. Other components are not checked at all:
    a name with a space builds, prints `a b` and does not read back. -/
theorem C14_builder_accepts_invalid :
    assemble ⟨['a'], none, some (.Equal, "1:".toList), none, []⟩
        = .ok ⟨['a'], none, none, some (.Equal, ⟨none, "1:".toList, none⟩), []⟩
      ∧ validVersionText "1:".toList = false
      ∧ ¬ ValidR ⟨['a'], none, none, some (.Equal, ⟨none, "1:".toList, none⟩), []⟩
      ∧ Lossy.showRelation ⟨['a'], none, none, some (.Equal, ⟨none, "1:".toList, none⟩), []⟩ = "a (= 1:)".toList
      ∧ Lossy.readRelation "a (= 1:)".toList = .ok ⟨['a'], none, none, some (.Equal, ⟨none, "1:".toList, none⟩), []⟩
      ∧ (readRelaxed "a (= 1:)".toList false).2.length = 2
      ∧ assemble ⟨['a'], none, some (.Equal, ":1".toList), none, []⟩
        = .ok ⟨['a'], none, none, some (.Equal, ⟨none, ":1".toList, none⟩), []⟩
      ∧ Lossy.readRelation "a (= :1)".toList = .ok ⟨['a'], none, none, some (.Equal, ⟨none, ":1".toList, none⟩), []⟩
      ∧ (readRelaxed "a (= :1)".toList false).2.length = 4
      ∧ ((entries (readRelaxed "a (= :1)".toList false).1).map fun e => (relations e).length) = [2]
      ∧ assemble ⟨['a'], none, some (.Equal, []), none, []⟩ = .panic versionPanic
      ∧ assemble ⟨"a b".toList, none, none, none, []⟩ = .ok ⟨"a b".toList, none, none, none, []⟩
      ∧ Lossy.readRelation (Lossy.showRelation ⟨"a b".toList, none, none, none, []⟩)
          ≠ .ok ⟨"a b".toList, none, none, none, []⟩ := by
  decide +kernel

/-! ### `Relations` values collected from assembled relations -/

/-- a relation that was assembled from valid components -/
def Assembled (r : Lossy.Relation) : Prop := ∃ c, validComponents c = true ∧ assemble c = .ok r

theorem assembled_valid {r : Lossy.Relation} (h : Assembled r) : ValidR r := by
  obtain ⟨c, hc, hr⟩ := h
  obtain ⟨r', hr', hv⟩ := C14_assembled_valid c hc
  rw [hr] at hr'
  cases hr'
  exact hv

/-- **`entries.into_iter().collect::<Relations>()` of vectors of assembled relations** prints to a text
    that the lossy reader turns back into the value without its empty entries — the value itself when
    no vector is empty — and that the strict lossless parser accepts -/
theorem C14_assembled_relations_roundtrip (es : List (List Lossy.Relation))
    (h : ∀ e ∈ es, ∀ r ∈ e, Assembled r) :
    Lossy.readRelations (Lossy.showRelations (fromIterEntries es)) = .ok (dropEmpty es)
      ∧ ((∀ e ∈ es, e ≠ []) → Lossy.readRelations (Lossy.showRelations (fromIterEntries es)) = .ok (fromIterEntries es))
      ∧ (∃ t, readStrict (Lossy.showRelations (fromIterEntries es)) = .ok t) := by
  have hv : ∀ e ∈ es, ∀ r ∈ e, ValidR r := fun e he r hr => assembled_valid (h e he r hr)
  have hid : fromIterEntries es = es := by simp [fromIterEntries]
  rw [hid]
  refine ⟨C14_roundtrip_exact es hv, fun hne => (C14_roundtrip_iff es hv).2 hne, _, C14_field_parse_tree es hv⟩

/-- **`relations.into_iter().collect::<Relations>()`** (every relation an entry of its own) of assembled
    relations: prints the relations joined by `, ` and reads back as the same value, by both readers -/
theorem C14_collected_relations_roundtrip (l : List Lossy.Relation) (h : ∀ r ∈ l, Assembled r) :
    Lossy.showRelations (fromIterRelations l) = Text.join [',', ' '] (l.map Lossy.showRelation)
      ∧ Lossy.readRelations (Lossy.showRelations (fromIterRelations l)) = .ok (fromIterRelations l)
      ∧ ∀ allow, accEntries (readRelaxed (Lossy.showRelations (fromIterRelations l)) allow).1
          = some (fromIterRelations l) := by
  have hvs : ValidRs (fromIterRelations l) := by
    simp only [ValidRs, validRs, fromIterRelations, List.all_map, List.all_eq_true]
    intro r hr
    have : validR r = true := assembled_valid (h r hr)
    simp [this]
  refine ⟨?_, C14_roundtrip _ hvs, fun allow => (C14_lossless_reads_same _ hvs allow).2.1⟩
  simp [Lossy.showRelations, fromIterRelations, List.map_map, Function.comp_def, Text.join]

example : Assembled ⟨"libc6".toList, some "any".toList, some ["amd64".toList, "!i386".toList],
    some (.GreaterThanEqual, ⟨some 1, "2.3~rc1".toList, some ['4']⟩),
    [[.Disabled "nocheck".toList, .Enabled "cross".toList], [.Enabled ['x']]]⟩ :=
  ⟨exComponents, by decide +kernel, by decide +kernel⟩

/-! ## (d) the container `Relations` against plain list operations -/

/-- `Relations::new()` / `default()` is the empty list: length 0, empty, prints the empty text;
    `Relation::new()` / `default()` is the builder's value for the EMPTY name — not a valid component,
    outside `ValidR`, it prints the empty text -/
theorem C14_relations_new :
    relationsNew = ([] : Relations) ∧ relationsDefault = relationsNew ∧ len relationsNew = 0
      ∧ isEmpty relationsNew = true ∧ iter relationsNew = [] ∧ Lossy.showRelations relationsNew = []
      ∧ relationDefault = relationNew ∧ relationNew = ⟨[], none, none, none, []⟩
      ∧ relationNew = (relationBuild []).build ∧ ¬ ValidR relationNew ∧ Lossy.showRelation relationNew = [] := by
  decide +kernel

/-- `len`, `is_empty`, `iter` -/
theorem C14_relations_len_empty_iter (rs : Relations) :
    len rs = rs.length ∧ (isEmpty rs = true ↔ rs = []) ∧ isEmpty rs = (len rs == 0) ∧ iter rs = rs
      ∧ (iter rs).length = len rs := by
  refine ⟨rfl, by simp [isEmpty], ?_, by simp [iter], by simp [iter, len]⟩
  cases rs <;> simp [isEmpty, len]

/-- `remove(i)` is `List.eraseIdx` below the length — one entry fewer, the entries before `i` unchanged,
    the later ones moved down by one — and a panic from the length on -/
theorem C14_relations_remove (rs : Relations) (i : Nat) :
    (i < rs.length → ∃ rs', remove rs i = .ok rs' ∧ rs' = rs.take i ++ rs.drop (i + 1)
        ∧ len rs' + 1 = len rs ∧ ∀ j, rs'[j]? = if j < i then rs[j]? else rs[j + 1]?)
      ∧ (rs.length ≤ i → remove rs i = .panic removePanic) := by
  constructor
  · intro h
    refine ⟨rs.eraseIdx i, by simp [remove, h], List.eraseIdx_eq_take_drop_succ rs i, ?_, fun j => List.getElem?_eraseIdx⟩
    simp only [len, List.length_eraseIdx, h, if_true]; omega
  · intro h
    simp [remove, Nat.not_lt.2 h]

/-- `rs[i]` is the `i`-th entry, a panic from the length on -/
theorem C14_relations_index (rs : Relations) (i : Nat) :
    (∀ e, index rs i = .ok e ↔ rs[i]? = some e) ∧ (rs.length ≤ i → index rs i = .panic indexPanic) := by
  constructor
  · intro e
    unfold index
    cases rs[i]? <;> simp
  · intro h
    simp [index, List.getElem?_eq_none h]

/-- `&mut rs[i]` used to replace the entry `e` by `f e`: the list with that one entry replaced -/
theorem C14_relations_index_mut (rs : Relations) (i : Nat) (f : List Lossy.Relation → List Lossy.Relation) :
    (i < rs.length → ∃ e rs', rs[i]? = some e ∧ indexMut rs i f = .ok rs' ∧ len rs' = len rs
        ∧ index rs' i = .ok (f e) ∧ ∀ j, j ≠ i → rs'[j]? = rs[j]?)
      ∧ (rs.length ≤ i → indexMut rs i f = .panic indexPanic) := by
  constructor
  · intro h
    have he : rs[i]? = some rs[i] := List.getElem?_eq_getElem h
    refine ⟨rs[i], rs.set i (f rs[i]), he, by simp [indexMut, he], by simp [len], ?_, ?_⟩
    · simp [index, List.getElem?_set, h]
    · intro j hj
      simp [List.getElem?_set, Ne.symm hj]
  · intro h
    simp [indexMut, List.getElem?_eq_none h]

/-- the two `FromIterator` impls: vectors of relations are the entries as they are; single relations
    become one entry each -/
theorem C14_relations_from_iter (es : List (List Lossy.Relation)) (l : List Lossy.Relation) :
    fromIterEntries es = es ∧ iter (fromIterEntries es) = es
      ∧ fromIterRelations l = l.map (fun r => [r]) ∧ len (fromIterRelations l) = l.length
      ∧ (∀ e ∈ fromIterRelations l, e.length = 1)
      ∧ ∀ i, index (fromIterRelations l) i = (match l[i]? with | some r => .ok [r] | none => .panic indexPanic) := by
  refine ⟨by simp [fromIterEntries], by simp [fromIterEntries, iter], rfl, by simp [fromIterRelations, len], ?_, ?_⟩
  · intro e he
    simp only [fromIterRelations, List.mem_map] at he
    obtain ⟨r, _, rfl⟩ := he
    rfl
  · intro i
    simp only [index, fromIterRelations, List.getElem?_map]
    cases l[i]? <;> rfl

/-- a non-empty entry of valid relations -/
def ValidEntry (e : List Lossy.Relation) : Prop := e ≠ [] ∧ ∀ r ∈ e, ValidR r

theorem validRs_iff (rs : Relations) : ValidRs rs ↔ ∀ e ∈ rs, ValidEntry e := by
  simp only [ValidRs, validRs, List.all_eq_true, Bool.and_eq_true, Bool.not_eq_true', List.isEmpty_eq_false_iff,
    ValidEntry, ValidR]

/-- **the container methods keep a value in the domain**: removing an entry, or replacing an entry
    through `&mut rs[i]` by a non-empty entry of valid relations (assigning one, pushing a valid relation),
    leaves a value of `ValidRs` — which therefore still round-trips (`C14_roundtrip`) -/
theorem C14_relations_valid_preserved (rs rs' : Relations) (i : Nat) (h : ValidRs rs) :
    (remove rs i = .ok rs' → ValidRs rs')
      ∧ (∀ f, (∀ e, ValidEntry e → ValidEntry (f e)) → indexMut rs i f = .ok rs' → ValidRs rs')
      ∧ (∀ r, ValidR r → indexMut rs i (fun e => e ++ [r]) = .ok rs' → ValidRs rs') := by
  rw [validRs_iff] at h
  have hmut : ∀ f, (∀ e, ValidEntry e → ValidEntry (f e)) → indexMut rs i f = .ok rs' → ValidRs rs' := by
    intro f hf hm
    rw [validRs_iff]
    unfold indexMut at hm
    cases he : rs[i]? with
    | none => simp [he] at hm
    | some e =>
      simp only [he, Outcome.ok.injEq] at hm
      subst hm
      intro x hx
      rcases List.mem_or_eq_of_mem_set hx with hx | rfl
      · exact h x hx
      · exact hf e (h e (List.mem_of_getElem? he))
  refine ⟨?_, hmut, ?_⟩
  · intro hr
    rw [validRs_iff]
    unfold remove at hr
    split at hr
    · simp only [Outcome.ok.injEq] at hr
      subst hr
      exact fun e he => h e (List.mem_of_mem_eraseIdx he)
    · simp at hr
  · intro r hr
    apply hmut
    rintro e ⟨_, he2⟩
    refine ⟨by simp, ?_⟩
    intro x hx
    rcases List.mem_append.1 hx with hx | hx
    · exact he2 x hx
    · simp only [List.mem_singleton] at hx; subst hx; exact hr

/-- … so a value of the domain still round-trips after `remove` -/
theorem C14_relations_remove_roundtrip (rs rs' : Relations) (i : Nat) (h : ValidRs rs)
    (hr : remove rs i = .ok rs') : Lossy.readRelations (Lossy.showRelations rs') = .ok rs' :=
  C14_roundtrip rs' ((C14_relations_valid_preserved rs rs' i h).1 hr)

example : ValidRs exRs ∧ (remove exRs 0).isOk = true := by decide +kernel

/-- the example of the module documentation (relations.rs:8-19): parse, `remove(1)`,
    `relations[0][0].archqual = Some("amd64")`, print -/
example :
    (match Lossy.readRelations "python3-dulwich (>= 0.19.0), python3-requests, python3-urllib3 (<< 1.26.0)".toList with
      | .ok rs =>
        ((remove rs 1).bind fun rs1 =>
          indexMut rs1 0 fun e => match e with
            | r :: t => { r with archqual := some "amd64".toList } :: t
            | [] => []).map Lossy.showRelations
      | .error _ => .panic "parse")
      = .ok "python3-dulwich:amd64 (>= 0.19.0), python3-urllib3 (<< 1.26.0)".toList := by decide +kernel

/-! ## (e) equality

Neither `PartialEq` nor `Ord` is hand-written for the lossy types: `Relation` and `Relations` carry
`#[derive(Debug, Clone, PartialEq, Eq, Hash)]` (relations.rs:28, 207) and there is no `Ord` / `PartialOrd`
at all. The derived `==` is structural except inside the version, where `debversion::Version::eq` is
`cmp(..) == Equal` (it identifies `1.0` and `1.00`, and it can panic, F-C12-1): `C14More.relEqO`.
On `Relations` the derived `==` is `Vec`'s: equal lengths first, then element by element, stopping at
the first difference. -/

/-- `<[T] as PartialEq>::eq` with an element comparison that may panic -/
def sliceEqO {α} (eq : α → α → Outcome Bool) (xs ys : List α) : Outcome Bool :=
  if xs.length ≠ ys.length then .ok false else go (xs.zip ys)
where
  go : List (α × α) → Outcome Bool
    | [] => .ok true
    | (a, b) :: r => (eq a b).bind fun t => if t then go r else .ok false

/-- the derived `PartialEq for lossy::Relations` as it runs -/
def relsEqO (rs ss : Relations) : Outcome Bool := sliceEqO (sliceEqO relEqO) rs ss

theorem sliceEqO_refl {α} (eq : α → α → Outcome Bool) (l : List α) (h : ∀ a ∈ l, eq a a = .ok true) :
    sliceEqO eq l l = .ok true := by
  simp only [sliceEqO, ne_eq, not_true_eq_false, if_false]
  induction l with
  | nil => rfl
  | cons a l ih =>
    simp only [List.zip_cons_cons, sliceEqO.go, h a (by simp), Outcome.bind, if_true]
    exact ih fun x hx => h x (by simp [hx])

/-- a `Relations` value is `==` to itself (without panic) when the numbers in its versions fit an `i32` -/
theorem C14_relations_eq_refl (rs : Relations) (h : ∀ e ∈ rs, ∀ r ∈ e, smallVersion r = true) :
    relsEqO rs rs = .ok true :=
  sliceEqO_refl _ rs fun e he => sliceEqO_refl _ e fun r hr => relEqO_refl r (h e he r hr)

example : ∀ e ∈ exRs, ∀ r ∈ e, smallVersion r = true := by decide +kernel

/-- the value the builder returns is `==` (Rust's derived `PartialEq`) to the struct literal of its
    components, and — for valid components — to what the lossy reader makes of its printed text -/
theorem C14_assembled_eq_refl (c : Components) (h : validComponents c = true) :
    ∃ r, assemble c = .ok r ∧ (smallVersion r = true →
      relEqO r r = .ok true
        ∧ ∃ r', Lossy.readRelation (Lossy.showRelation r) = .ok r' ∧ relEqO r' r = .ok true) := by
  obtain ⟨r, hr, hv⟩ := C14_assembled_valid c h
  exact ⟨r, hr, fun hs => ⟨relEqO_refl r hs, r, C14_roundtrip_rel r hv, relEqO_refl r hs⟩⟩

/-- lists of different lengths are unequal without any element comparison (no panic possible), and a
    difference found first hides a later panic -/
example :
    relsEqO [[⟨['a'], none, none, some (.Equal, ⟨none, "2147483648".toList, none⟩), []⟩]] [] = .ok false
      ∧ (relsEqO [[⟨['a'], none, none, some (.Equal, ⟨none, "2147483648".toList, none⟩), []⟩]]
            [[⟨['a'], none, none, some (.Equal, ⟨none, "2147483648".toList, none⟩), []⟩]]).isOk = false
      ∧ relsEqO [[exNoArchs], [⟨['a'], none, none, some (.Equal, ⟨none, "2147483648".toList, none⟩), []⟩]]
            [[exTwoGroups], [⟨['a'], none, none, some (.Equal, ⟨none, "2147483648".toList, none⟩), []⟩]] = .ok false
      ∧ relsEqO exRs exRs = .ok true := by decide +kernel

end Deb822Verif.Props.C14Build
