import Deb822Verif.Model.RelWrap
import Deb822Verif.Lemmas.RelWrapOrder
import Deb822Verif.Lemmas.RelWrapField
import Deb822Verif.Lemmas.RelWrapCanon
import Deb822Verif.Props.C10
/-!
# C13 — relation wrap-and-sort yields a canonical, sorted, meaning-preserving form

Model: `Rel.Wrap.relationsWrap` (Model/RelWrap.lean: `Relations::wrap_and_sort` with
`Entry::wrap_and_sort`, `Relation::wrap_and_sort`, the two `Ord` impls, `sort_by` as
`List.mergeSort`), on the tree `f.tree` the lossless parser builds for a well-formed field `f`
(`RelSpec.FieldA`, the domain of C10: any layout, empty entries, substitution variables, epochs,
negated architectures, multi-term profile groups).

Vocabulary (Lemmas/RelWrapField.lean, Lemmas/RelWrapCanon.lean):
`f.view` — the entries → alternatives → (name, archqual, version, architectures, profiles) the
accessors expose; `f.substvars` — the substitution variables as written;
`sortRels` / `sortEntries` / `sortStrs` — the sorts of the code on that level;
`canonText V S` — entries joined by `, `, alternatives by ` | `, each relation
`name[:archqual] (op version) [archs] <profiles>` with single spaces, then the substvars.

Outside the model: `debversion::Version::cmp` panics on numeric components above `i32::MAX`
(finding F-C12-1, third-party); the theorems are about the total order `DebVersion.compare`.
-/
namespace Deb822Verif.Props.C13
open Deb822Verif Rel Node RelSpec DebVersion Lossy Rel.Wrap

/-! ## the orderings -/

/-- **the `Ord for Relation` of the code is a total preorder** (swap-symmetric, transitive; hence
    reflexive and total) -/
theorem C13_relation_order : PreCmp relCmp := relCmp_pre

/-- **the `Ord for Entry` of the code is a total preorder** (a proper prefix sorts first) -/
theorem C13_entry_order : PreCmp entryCmp := entryCmp_pre

/-- the comparators actually handed to `sort_by` (order, then printed text) are total preorders
    too — what Rust's `sort_by` requires, and what `List.pairwise_mergeSort` needs -/
theorem C13_sort_keys : PreCmp relKeyCmp ∧ PreCmp entryKeyCmp := ⟨relKeyCmp_pre, entryKeyCmp_pre⟩

/-- before fix 27115b9 a proper prefix compared `Equal` (not transitive); now it is `Less` -/
example : entryCmp [⟨['a'], none, none, none, []⟩] [⟨['a'], none, none, none, []⟩, ⟨['b'], none, none, none, []⟩] = .lt := by
  decide +kernel

/-! ## the result -/

/-- the normalised structure wrap-and-sort produces for `f` -/
def outView (f : FieldA) : List (List RV) := sortEntries f.view
def outSubst (f : FieldA) : List Str := sortStrs f.substvars
/-- the tree it builds -/
def outTree (f : FieldA) : RNode := buildRoot ((outView f).map buildEntryV ++ sortedSubstNodes f.tree)

/-- wrap-and-sort of a well-formed field does not panic and builds `outTree f` -/
theorem C13_total (f : FieldA) (h : f.WF) : relationsWrap f.tree = .ok (outTree f) :=
  relationsWrap_field f h

theorem outTree_text (f : FieldA) : (outTree f).text = canonText (outView f) (outSubst f) := by
  simp only [outTree, buildRoot_text, List.map_append, List.map_map, canonText, outSubst]
  congr 1
  congr 1
  · apply List.map_congr_left
    intro e _
    exact buildEntryV_text e
  · exact sortedSubstNodes_text f

/-- **C13, canonical text.** For every well-formed field, the text of the normalised field is the
    canonical rendering of the normalised structure: entries joined by `, `, alternatives by ` | `,
    each relation `name[:archqual] (op version) [archs] <profiles>` with single spaces, the
    substitution variables last. -/
theorem C13_canonical (f : FieldA) (h : f.WF) :
    ∃ out, relationsWrap f.tree = .ok out ∧ out.text = canonText (outView f) (outSubst f) :=
  ⟨outTree f, C13_total f h, outTree_text f⟩

/-! ## sorted -/

theorem le_of_key {α} {c k : α → α → Ordering} {a b : α} (h : leOf (fun x y => (c x y).then (k x y)) a b = true) :
    c a b ≠ .gt := by
  simp only [leOf, bne_iff_ne, ne_eq] at h
  intro e; rw [e] at h; exact h rfl

/-- **C13, sorted.** In the normalised structure the entries are pairwise in order for
    `Ord for Entry` and the alternatives of every entry pairwise in order for `Ord for Relation`
    (ties are in the order of their text). -/
theorem C13_sorted (f : FieldA) :
    (outView f).Pairwise (fun a b => entryCmp a b ≠ .gt)
      ∧ (outView f).Pairwise (fun a b => leOf entryKeyCmp a b = true)
      ∧ ∀ e ∈ outView f, e.Pairwise (fun a b => relCmp a b ≠ .gt)
          ∧ e.Pairwise (fun a b => leOf relKeyCmp a b = true) := by
  refine ⟨(sortEntries_sorted f.view).imp (fun h => le_of_key (c := entryCmp) h),
    sortEntries_sorted f.view, ?_⟩
  intro e he
  obtain ⟨e', _, rfl⟩ := mem_sortEntries he
  exact ⟨(sortRels_sorted e').imp (fun h => le_of_key (c := relCmp) h), sortRels_sorted e'⟩

/-- the substitution variables are sorted by their text -/
theorem C13_sorted_substvars (f : FieldA) :
    (outSubst f).Pairwise fun a b => strCmp a b ≠ .gt := by
  have := pairwise_sort strCmp_pre f.substvars
  exact this.imp (fun h => by simpa [leOf] using h)

/-! ## meaning -/

/-- **C13, meaning.** The normalised tree denotes the same dependencies: its accessors expose a
    permutation of the entries of the input, each entry a permutation of its alternatives — with
    identical name, qualifier, operator, version, architecture list including negations and profile
    groups (the values themselves are unchanged) — no entry is empty, and its substitution variables
    are a permutation of those of the input. -/
theorem C13_meaning (f : FieldA) (h : f.WF) :
    accEntries (outTree f) = some (outView f)
      ∧ substvars (outTree f) = outSubst f
      ∧ (outView f).Perm (f.view.map sortRels)
      ∧ (∀ e, (sortRels e).Perm e)
      ∧ (∀ e ∈ outView f, e ≠ [])
      ∧ (outSubst f).Perm f.substvars := by
  have hval := field_view_valid f h
  have hval' := sortEntries_valid hval
  have hN : ∀ c ∈ sortedSubstNodes f.tree, (c.isNode && c.kind == .SUBSTVAR) = true :=
    fun c hc => substNodes_kind hc
  refine ⟨acc_out _ _ hN (fun e he => (hval' e he).2), ?_, List.mergeSort_perm _ _,
    fun e => List.mergeSort_perm _ _, fun e he => (hval' e he).1, List.mergeSort_perm _ _⟩
  simp only [substvars, outTree, substNodes_out _ _ hN]
  exact sortedSubstNodes_text f

/-- as multisets of multisets: every entry of the input is, up to the order of its alternatives,
    an entry of the output, and conversely -/
theorem C13_meaning_mem (f : FieldA) :
    (∀ e ∈ f.view, ∃ e' ∈ outView f, e'.Perm e) ∧ (∀ e' ∈ outView f, ∃ e ∈ f.view, e'.Perm e) := by
  constructor
  · intro e he
    refine ⟨sortRels e, ?_, List.mergeSort_perm _ _⟩
    exact (List.mergeSort_perm _ _).mem_iff.2 (List.mem_map.2 ⟨e, he, rfl⟩)
  · intro e' he'
    obtain ⟨e, he, rfl⟩ := mem_sortEntries he'
    exact ⟨e, he, List.mergeSort_perm _ _⟩

/-! ## the output is a well-formed field in canonical layout: it parses strictly, to itself -/

/-- the canonical field whose text the output is -/
def outField (f : FieldA) : FieldA := canonField (outView f) (sortSubstA (substA f))

theorem outField_wf (f : FieldA) (h : f.WF) : (outField f).WF :=
  canonField_wf _ _ (fun e he => (sortEntries_valid (field_view_valid f h) e he).2)
    (fun x hx => substA_ok f h x (mem_sortSubstA.1 hx))

theorem outField_str (f : FieldA) : (outField f).str = (outTree f).text := by
  rw [outField, canonField_str, outTree_text, sortSubstA_text, ← substvars_eq]
  rfl

theorem outField_view (f : FieldA) (h : f.WF) : (outField f).view = outView f :=
  canonField_view _ _ (sortEntries_valid (field_view_valid f h))

theorem outField_substvars (f : FieldA) : (outField f).substvars = outSubst f := by
  rw [outField, canonField_substvars, sortSubstA_text, ← substvars_eq]; rfl

/-- **C13, the result parses.** The text of the normalised field is read back by the lossless
    parser without error (substitution variables allowed), and the accessors on the re-parsed tree
    expose the normalised structure. -/
theorem C13_reparse (f : FieldA) (h : f.WF) :
    parse (outTree f).text true = ⟨(outField f).tree, []⟩
      ∧ accEntries (outField f).tree = some (outView f)
      ∧ substvars (outField f).tree = outSubst f := by
  have hwf := outField_wf f h
  refine ⟨?_, ?_, ?_⟩
  · rw [← outField_str]; exact C10.C10_parse_inverts _ hwf true (Or.inl rfl)
  · rw [accEntries_field _ hwf, outField_view f h]
  · rw [substvars_field, outField_substvars]

/-- **C13, strict.** When the field has no substitution variable, the text of the normalised field
    is accepted by the strict reader (`Relations::from_str`). -/
theorem C13_strict (f : FieldA) (h : f.WF) (hs : f.hasSubstvar = false) :
    readStrict (outTree f).text = .ok (outField f).tree := by
  have hnil : substA f = [] := by
    unfold substA
    apply List.filterMap_eq_nil_iff.2
    intro s hs'
    simp only [FieldA.hasSubstvar, List.any_eq_false] at hs
    have := hs s hs'
    cases he : s.entry <;> simp_all [substOf, EntryA.isSubstvar]
  have hf : outField f = canonField (outView f) [] := by
    unfold outField; rw [hnil]; simp [sortSubstA]
  rw [← outField_str]
  exact C10.C10_strict _ (outField_wf f h) (by rw [hf]; exact canonField_hasSubstvar _)

/-! ## idempotence -/

/-- **C13, idempotence on trees.** Normalising the normalised tree returns that very tree. -/
theorem C13_idem_tree (f : FieldA) (h : f.WF) : relationsWrap (outTree f) = .ok (outTree f) :=
  relationsWrap_out f.tree f.view (field_view_valid f h)

/-- **C13, idempotence through the text.** Re-parsing the text of the normalised field and
    normalising again gives identical text. -/
theorem C13_idem (f : FieldA) (h : f.WF) :
    ∃ out, relationsWrap (parse (outTree f).text true).tree = .ok out ∧ out.text = (outTree f).text := by
  have hwf := outField_wf f h
  rw [(C13_reparse f h).1]
  refine ⟨outTree (outField f), C13_total _ hwf, ?_⟩
  rw [outTree_text, outTree_text]
  unfold outView outSubst
  rw [outField_view f h, outField_substvars]
  unfold outView outSubst
  rw [sortEntries_idem, sortStrs_idem]

/-! ## non-vacuity: the example field of C10, which uses every construct of the grammar -/

/-- `libc6:any (>= 1:2.3~rc1-4 ) [amd64 !i386] < !nocheck stage1> <cross>\n | g++,\n ${shlibs:Depends}, ,x\n(<< 0),` -/
abbrev ex : FieldA := C10.exField

theorem ex_wf : ex.WF := by decide +kernel

/-- its normalised form exists and has the canonical text (the concrete text,
    `g++ | libc6:any (>= 1:2.3~rc1-4) [amd64 !i386] <!nocheck stage1> <cross>, x (<< 0), ${shlibs:Depends}`,
    is checked against the real crate and the model driver in corpus/C13/witness.req — the kernel
    does not evaluate the well-founded `List.mergeSort`) -/
example : ∃ out, relationsWrap ex.tree = .ok out ∧ out.text = canonText (outView ex) (outSubst ex) :=
  C13_canonical ex ex_wf

example : accEntries (outTree ex) = some (outView ex) := (C13_meaning ex ex_wf).1
example : relationsWrap (outTree ex) = .ok (outTree ex) := C13_idem_tree ex ex_wf
example : (parse (outTree ex).text true).errors = [] := by rw [(C13_reparse ex ex_wf).1]

/-- the hypotheses of `C13_strict` are satisfiable: the example without its substitution variable -/
example : C10.exFieldLossy.WF ∧ C10.exFieldLossy.hasSubstvar = false := by decide +kernel
example : readStrict (outTree C10.exFieldLossy).text = .ok (outField C10.exFieldLossy).tree :=
  C13_strict _ (by decide +kernel) (by decide +kernel)

end Deb822Verif.Props.C13
