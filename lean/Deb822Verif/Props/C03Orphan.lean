import Deb822Verif.Props.C03
import Deb822Verif.Lemmas.DebRejectOrphan
/-!
# C03 — rejection clause, orphan continuation lines

`C03_reject` (Props/C03.lean) covers lines that do not begin with indentation (`BadLine`). Here: a
line that *does* begin with indentation and carries text (`OrphanLine`: spaces / tabs, then non-empty
text not beginning with space / tab / '#') placed where there is no field it could continue — as the
first line of the document, after a blank line, or (general form) after any line that is not a field
or continuation line. `parse_entry` meets INDENT where it expects KEY ("expected key").
-/
namespace Deb822Verif.Props.C03
open Deb822Verif Deb Node Spec

/-- from an error of the parser to the failure of both readers, in the form of `C03_reject` -/
theorem readers_of_parse_error (s : Str) (h : (parse s).errors ≠ []) :
    (readRelaxed s).2 ≠ [] ∧ ∀ t, readStrict s ≠ .ok t := by
  refine ⟨h, ?_⟩
  intro t ht
  unfold readStrict at ht
  split at ht
  · rename_i he'
    exact h (by simpa [List.isEmpty_iff] using he')
  · simp at ht

/-- **rejection clause, orphan continuation line**: take any well-formed document all of whose lines
    are LF-terminated and which is empty or ends with a blank line (`EndsBlank`), append an orphan
    continuation line (`OrphanLine`: non-empty indentation, then non-empty text that begins neither
    with space / tab nor with '#'), and then anything at all after that line's end: the tolerant
    reader reports an error and the strict reader fails. -/
theorem C03_reject_orphan (d : DocS) (h : d.WF) (ha : DocTermAll d) (hb : EndsBlank d) (l tail : Str)
    (ho : OrphanLine l) (he : LineEnd tail) :
    (readRelaxed (d.str ++ (l ++ tail))).2 ≠ [] ∧ ∀ t, readStrict (d.str ++ (l ++ tail)) ≠ .ok t := by
  have := parse_orphan_line d h ha hb.closed l tail ho he
  exact readers_of_parse_error _ (List.ne_nil_of_mem this)

/-- the same with the message and the exact result of the strict reader: "expected key" is among the
    errors the tolerant reader reports, and the strict reader returns exactly those errors -/
theorem C03_reject_orphan_msg (d : DocS) (h : d.WF) (ha : DocTermAll d) (hb : EndsBlank d)
    (l tail : Str) (ho : OrphanLine l) (he : LineEnd tail) :
    "expected key" ∈ (readRelaxed (d.str ++ (l ++ tail))).2
    ∧ readStrict (d.str ++ (l ++ tail)) = .error (readRelaxed (d.str ++ (l ++ tail))).2 := by
  have := parse_orphan_line d h ha hb.closed l tail ho he
  refine ⟨this, ?_⟩
  have hne : (parse (d.str ++ (l ++ tail))).errors.isEmpty = false := by
    cases hq : (parse (d.str ++ (l ++ tail))).errors with
    | nil => rw [hq] at this; simp at this
    | cons x xs => rfl
  simp [readStrict, readRelaxed, hne]

/-- **general form**: the same for every well-formed, fully LF-terminated document whose last line is
    not a field or continuation line (`ClosedEnd`): no paragraph at all (only blank / comment lines,
    possibly none); or blank / comment lines after the last paragraph; or a comment line as the last
    line of the last paragraph. (If the last line is a field or continuation line the appended line
    *is* a continuation line and the document is accepted: `C03_orphan_needs_closed_end`.) -/
theorem C03_reject_orphan_general (d : DocS) (h : d.WF) (ha : DocTermAll d) (hc : ClosedEnd d)
    (l tail : Str) (ho : OrphanLine l) (he : LineEnd tail) :
    ((readRelaxed (d.str ++ (l ++ tail))).2 ≠ [] ∧ ∀ t, readStrict (d.str ++ (l ++ tail)) ≠ .ok t)
    ∧ "expected key" ∈ (readRelaxed (d.str ++ (l ++ tail))).2
    ∧ readStrict (d.str ++ (l ++ tail)) = .error (readRelaxed (d.str ++ (l ++ tail))).2 := by
  have := parse_orphan_line d h ha hc l tail ho he
  refine ⟨readers_of_parse_error _ (List.ne_nil_of_mem this), this, ?_⟩
  have hne : (parse (d.str ++ (l ++ tail))).errors.isEmpty = false := by
    cases hq : (parse (d.str ++ (l ++ tail))).errors with
    | nil => rw [hq] at this; simp at this
    | cons x xs => rfl
  simp [readStrict, readRelaxed, hne]

/-- the empty document -/
def emptyDoc : DocS := { lead := [], paras := [] }

theorem emptyDoc_ok : emptyDoc.WF ∧ DocTermAll emptyDoc ∧ EndsBlank emptyDoc ∧ emptyDoc.str = [] := by
  refine ⟨by decide, by decide, by decide, by decide⟩

/-- **first line**: a text whose first line is an orphan continuation line — whatever follows that
    line — is reported by the tolerant reader (with "expected key") and fails in the strict reader -/
theorem C03_reject_orphan_first (l tail : Str) (ho : OrphanLine l) (he : LineEnd tail) :
    ((readRelaxed (l ++ tail)).2 ≠ [] ∧ ∀ t, readStrict (l ++ tail) ≠ .ok t)
    ∧ "expected key" ∈ (readRelaxed (l ++ tail)).2
    ∧ readStrict (l ++ tail) = .error (readRelaxed (l ++ tail)).2 := by
  have := C03_reject_orphan_general emptyDoc emptyDoc_ok.1 emptyDoc_ok.2.1 emptyDoc_ok.2.2.1.closed
    l tail ho he
  simpa [emptyDoc_ok.2.2.2] using this

/-- **after a blank line**: the document's last paragraph is followed by blank / comment lines the
    last of which is a blank line -/
theorem C03_reject_orphan_after_blank (d : DocS) (h : d.WF) (ha : DocTermAll d)
    (p : ParaS) (g : List Gap) (hl : d.paras.getLast? = some (p, g ++ [.blank]))
    (l tail : Str) (ho : OrphanLine l) (he : LineEnd tail) :
    (readRelaxed (d.str ++ (l ++ tail))).2 ≠ [] ∧ ∀ t, readStrict (d.str ++ (l ++ tail)) ≠ .ok t := by
  apply C03_reject_orphan d h ha _ l tail ho he
  right
  simp [lastGap, hl]

/-! ### non-vacuity -/

/-- `" x"` -/
example : OrphanLine " x".toList :=
  ⟨by decide, [' '], 'x', [], rfl, by decide, by decide, by decide, by decide⟩

/-- `"\tfoo: bar"` — a would-be field, indented -/
theorem orphan_tab_field : OrphanLine "\tfoo: bar".toList :=
  ⟨by decide, ['\t'], 'f', "oo: bar".toList, rfl, by decide, by decide, by decide, by decide⟩

/-- `"  \t :x # y"`: mixed indentation; the text may begin with ':' and contain '#' -/
example : OrphanLine " \t:x # y".toList :=
  ⟨by decide, [' ', '\t'], ':', "x # y".toList, rfl, by decide, by decide, by decide, by decide⟩

/-- a two-paragraph document ending with a blank line -/
def exTwo : DocS :=
  { lead := [],
    paras := [
      ({ first := { key := "A".toList, ws := [' '], v := "b".toList, nl := true, conts := [] },
         rest := [] }, [.blank]),
      ({ first := { key := "C".toList, ws := [' '], v := "d".toList, nl := true,
                    conts := [{ indent := [' '], text := "e".toList, nl := true }] },
         rest := [] }, [.blank])] }

example : exTwo.str = "A: b\n\nC: d\n e\n\n".toList := by decide
example : exTwo.WF ∧ DocTermAll exTwo ∧ EndsBlank exTwo := by
  refine ⟨by decide, by decide, by decide⟩

/-- the hypothesis of `C03_reject_orphan_after_blank` on it -/
example : ∃ p g, exTwo.paras.getLast? = some (p, g ++ [.blank]) := ⟨_, [], rfl⟩

/-- the theorem fires on `"A: b\n\nC: d\n e\n\n x\n"` -/
example : ∀ t, readStrict "A: b\n\nC: d\n e\n\n x\n".toList ≠ .ok t :=
  (C03_reject_orphan exTwo (by decide) (by decide) (by decide) " x".toList "\n".toList
    ⟨by decide, [' '], 'x', [], rfl, by decide, by decide, by decide, by decide⟩
    (lineEnd_lf [])).2

/-- the theorem fires on the one-line text `"\tfoo: bar"` (no line terminator) -/
example : ∀ t, readStrict "\tfoo: bar".toList ≠ .ok t := by
  have := (C03_reject_orphan_first "\tfoo: bar".toList [] orphan_tab_field lineEnd_nil).1.2
  simpa using this

/-- what the model computes on the two texts (closed terms, kernel-checked) -/
example : (readRelaxed "\tfoo: bar".toList).2 = ["expected key", "expected ':', got None"] := by
  decide +kernel
example : (readRelaxed "A: b\n\nC: d\n e\n\n x\n".toList).2 =
    ["expected key", "expected ':', got Some(NEWLINE)"] := by decide +kernel

/-- general form: blank / comment lines only (last one a comment), and a paragraph whose last line is
    a comment line -/
def exLeadOnly : DocS := { lead := [.blank, .comment " c".toList true], paras := [] }
def exParaComment : DocS :=
  { lead := [],
    paras := [
      ({ first := { key := "A".toList, ws := [' '], v := "b".toList, nl := true, conts := [] },
         rest := [.comment " c".toList true] }, [])] }

example : exLeadOnly.str = "\n# c\n".toList ∧ exLeadOnly.WF ∧ DocTermAll exLeadOnly := by
  refine ⟨by decide, by decide, by decide⟩
example : ClosedEnd exLeadOnly ∧ ¬ EndsBlank exLeadOnly := by constructor <;> decide
example : exParaComment.str = "A: b\n# c\n".toList ∧ exParaComment.WF ∧ DocTermAll exParaComment := by
  refine ⟨by decide, by decide, by decide⟩
example : ClosedEnd exParaComment ∧ ¬ EndsBlank exParaComment := by constructor <;> decide

/-! ### sharpness: the hypothesis on the end of the document cannot be dropped -/

/-- directly after a field line the same line `" x"` is a continuation line: accepted -/
theorem C03_orphan_needs_closed_end :
    (parse "A: b\n x\n".toList).errors = [] ∧ (parse "A: b\n\n x\n".toList).errors ≠ [] := by
  constructor <;> decide +kernel

end Deb822Verif.Props.C03
