import Deb822Verif.Props.C13Panic
/-!
# C13 (continued) — an exact, algorithm-independent trigger for the panic of `Version::cmp` (F-C13-2)

`Props/C13Panic.lean` shows that `Relations::wrap_and_sort` as it runs (`relationsWrapO`, with the
panicking `DebVersion.compareO`) is the model when no version of the field has a numeric component
above `i32::MAX` (`hasBigNumber = false`).  That trigger fires on `a (>= 3000000000)` (nothing is
compared) and on `b (>= 3000000000), a (>= 3000000001)` (the names decide) where nothing panics.

Which comparisons Rust's `sort_by` makes is not modelled (only its result is: `List.mergeSort`).  The
criterion here is the one every comparison sort shares — a sort only ever compares two elements at
DISTINCT positions of its input:

* `sortMayPanic root = none`: an accessor panics (`relationsWrap root` is `.panic`: a relation whose
  operator is outside the five or whose version `Version::from_str` refuses) — the call panics whatever
  it compares;
* `sortMayPanic root = some false`: no two distinct rebuilt alternatives of one entry and no two
  distinct rebuilt entries make `Relation::cmp` / `Entry::cmp` panic.  Then (`C13_wrapO_pairs`) the
  call as it runs is exactly the model `relationsWrap` — proved for the merge sort of the model, and
  `sortO_pairs` holds for any algorithm that compares elements of its input only;
* `sortMayPanic root = some true`: some such pair exists; driver and worker both answer `BIGNUM`
  (the real call is still made, a panic is reported under F-C13-2 / F-C07-8).

The worker computes the same verdict on the real objects (`reledit::sort_may_panic`: `Relation::cmp` /
`Entry::cmp` under `catch_unwind` on every pair).
-/
set_option linter.unusedSimpArgs false
set_option linter.unusedVariables false
namespace Deb822Verif.Props.C13
open Deb822Verif Rel Node RelSpec DebVersion Lossy Rel.Wrap

/-! ## a panicking comparison that answers answers the total one -/

/-- when the computation does not panic its value is `y` -/
def Refines {α} (x : Outcome α) (y : α) : Prop := ∀ o, x = .ok o → o = y

theorem Refines.ok {α} (a : α) : Refines (.ok a) a := fun _ h => (Outcome.ok.inj h).symm

theorem Refines.eq_ok {α} {x : Outcome α} {y : α} (h : Refines x y) (hok : x.isOk = true) : x = .ok y := by
  cases x with
  | ok a => rw [h a rfl]
  | panic s => cases hok

theorem thenWithO_refines {a b : Outcome Ordering} {a' b' : Ordering} (ha : Refines a a') (hb : Refines b b') :
    Refines (thenWithO a b) (a'.then b') := by
  intro o h
  cases a with
  | panic s => cases h
  | ok x =>
    have hx := ha x rfl
    subst hx
    cases x
    · simp only [thenWithO] at h; cases h; rfl
    · simp only [thenWithO] at h; exact hb o h
    · simp only [thenWithO] at h; cases h; rfl

theorem parseI32_refines (d : Str) : Refines (parseI32 d) (runVal d) := by
  intro o h
  unfold parseI32 at h
  unfold runVal
  split at h
  · cases h
    cases d with
    | nil => rfl
    | cons c cs => rename_i he; simp at he
  · split at h
    · cases h; rfl
    · cases h

theorem chunkCmpO_refines (x y : Chunk) : Refines (chunkCmpO x y) (chunkCmp x y) := by
  intro o h
  unfold chunkCmpO at h
  unfold chunkCmp
  cases hn : nonDigitCmp x.1 y.1 with
  | eq =>
    rw [hn] at h
    simp only at h
    cases hx : parseI32 x.2 with
    | panic s => rw [hx] at h; cases h
    | ok a =>
      rw [hx] at h
      simp only at h
      cases hy : parseI32 y.2 with
      | panic s => rw [hy] at h; cases h
      | ok b =>
        rw [hy] at h
        simp only at h
        cases h
        rw [parseI32_refines _ a hx, parseI32_refines _ b hy]
        rfl
  | lt => rw [hn] at h; simp only at h; cases h; rfl
  | gt => rw [hn] at h; simp only at h; cases h; rfl

theorem lexPadNilO_refines {α} {cmpO : α → α → Outcome Ordering} {cmp : α → α → Ordering} (pad : α)
    (h : ∀ a b, Refines (cmpO a b) (cmp a b)) :
    ∀ l : List α, Refines (lexPadNilO cmpO pad l) (lexPadNil cmp pad l) := by
  intro l
  induction l with
  | nil => intro o ho; cases ho; rfl
  | cons b bs ih =>
    intro o ho
    simp only [lexPadNilO] at ho
    simp only [lexPadNil]
    cases hc : cmpO pad b with
    | panic s => rw [hc] at ho; cases ho
    | ok x =>
      rw [hc] at ho
      have hx := h pad b x hc
      rw [← hx]
      cases x
      · simp only at ho; cases ho; rfl
      · simp only at ho; exact ih o ho
      · simp only at ho; cases ho; rfl

theorem lexPadO_refines {α} {cmpO : α → α → Outcome Ordering} {cmp : α → α → Ordering} (pad : α)
    (h : ∀ a b, Refines (cmpO a b) (cmp a b)) :
    ∀ l1 l2 : List α, Refines (lexPadO cmpO pad l1 l2) (lexPad cmp pad l1 l2) := by
  intro l1
  induction l1 with
  | nil => intro l2; exact lexPadNilO_refines pad h l2
  | cons a as ih =>
    intro l2 o ho
    cases l2 with
    | nil =>
      simp only [lexPadO] at ho
      simp only [lexPad]
      cases hc : cmpO a pad with
      | panic s => rw [hc] at ho; cases ho
      | ok x =>
        rw [hc] at ho
        have hx := h a pad x hc
        rw [← hx]
        cases x
        · simp only at ho; cases ho; rfl
        · simp only at ho; exact ih [] o ho
        · simp only at ho; cases ho; rfl
    | cons b bs =>
      simp only [lexPadO] at ho
      simp only [lexPad]
      cases hc : cmpO a b with
      | panic s => rw [hc] at ho; cases ho
      | ok x =>
        rw [hc] at ho
        have hx := h a b x hc
        rw [← hx]
        cases x
        · simp only at ho; cases ho; rfl
        · simp only at ho; exact ih bs o ho
        · simp only at ho; cases ho; rfl

theorem cmpPartO_refines (a b : Str) : Refines (cmpPartO a b) (cmpPart a b) :=
  lexPadO_refines _ chunkCmpO_refines _ _

/-- **whenever the real `Version::cmp` answers, it answers the Debian order** -/
theorem compareO_refines (v w : Version) : Refines (compareO v w) (DebVersion.compare v w) := by
  intro o h
  unfold compareO at h
  unfold DebVersion.compare
  by_cases he : epochOf v = epochOf w
  · simp only [he, ne_eq, not_true_eq_false, if_false] at h
    have hn : natCmp (epochOf w) (epochOf w) = .eq := by simp [natCmp]
    rw [he, hn]
    simp only [Ordering.then]
    cases hu : cmpPartO v.upstream w.upstream with
    | panic s => rw [hu] at h; cases h
    | ok x =>
      rw [hu] at h
      have hx := cmpPartO_refines _ _ x hu
      rw [← hx]
      cases x
      · simp only at h; cases h; rfl
      · simp only at h; exact cmpPartO_refines _ _ o h
      · simp only at h; cases h; rfl
  · simp only [ne_eq, he, not_false_eq_true, if_true] at h
    cases h
    have : natCmp (epochOf v) (epochOf w) ≠ .eq := by
      unfold natCmp; (repeat' split) <;> simp_all
    cases hc : natCmp (epochOf v) (epochOf w) <;> simp_all [Ordering.then]

theorem lexCmpO_refines {α} {cmpO : α → α → Outcome Ordering} {cmp : α → α → Ordering}
    (h : ∀ a b, Refines (cmpO a b) (cmp a b)) :
    ∀ l1 l2 : List α, Refines (lexCmpO cmpO l1 l2) (lexCmp cmp l1 l2) := by
  intro l1
  induction l1 with
  | nil => intro l2 o ho; cases l2 <;> (cases ho; rfl)
  | cons a as ih =>
    intro l2
    cases l2 with
    | nil => intro o ho; cases ho; rfl
    | cons b bs => exact thenWithO_refines (h a b) (ih bs)

section refines
variable (vcmpO : Version → Version → Outcome Ordering)
  (H : ∀ v w, Refines (vcmpO v w) (DebVersion.compare v w))
include H

theorem versionCmpO_refines (a b : VC × Version) : Refines (versionCmpO vcmpO a b) (versionCmp a b) :=
  thenWithO_refines (Refines.ok _) (H _ _)

theorem optVersionCmpO_refines (a b : Option (VC × Version)) :
    Refines (optCmpO (versionCmpO vcmpO) a b) (optCmp versionCmp a b) := by
  cases a with
  | none => cases b <;> exact Refines.ok _
  | some p =>
    cases b with
    | none => exact Refines.ok _
    | some q => exact versionCmpO_refines vcmpO H p q

theorem relCmpO_refines (x y : RV) : Refines (relCmpO vcmpO x y) (relCmp x y) :=
  thenWithO_refines (Refines.ok _)
    (thenWithO_refines (optVersionCmpO_refines vcmpO H _ _) (Refines.ok _))

theorem relNodeOrdO_refines (a b : RNode) : Refines (relNodeOrdO vcmpO a b) (relNodeOrd a b) := by
  unfold relNodeOrdO relNodeOrd
  cases accRelation a with
  | none => exact Refines.ok _
  | some x =>
    cases accRelation b with
    | none => exact Refines.ok _
    | some y => exact relCmpO_refines vcmpO H x y

theorem relNodeCmpO_refines (a b : RNode) : Refines (relNodeCmpO vcmpO a b) (relNodeCmp a b) :=
  thenWithO_refines (relNodeOrdO_refines vcmpO H a b) (Refines.ok _)

theorem entryNodeCmpO_refines (a b : RNode) : Refines (entryNodeCmpO vcmpO a b) (entryNodeCmp a b) :=
  thenWithO_refines (lexCmpO_refines (relNodeOrdO_refines vcmpO H) _ _) (Refines.ok _)

end refines

/-! ## merge sort when the comparisons between distinct positions do not panic -/

theorem mergeSortO_pairs {α} (leO : α → α → Outcome Bool) (le : α → α → Bool) :
    ∀ (n : Nat) (l : List α), l.length ≤ n →
      l.Pairwise (fun x y => leO x y = .ok (le x y)) → mergeSortO leO n l = .ok (l.mergeSort le) := by
  intro n
  induction n with
  | zero =>
    intro l hlen _
    have : l = [] := List.length_eq_zero_iff.1 (by omega)
    subst this
    simp [mergeSortO]
  | succ n ih =>
    intro l hlen h
    match l, hlen, h with
    | [], _, _ => simp [mergeSortO]
    | [a], _, _ => simp [mergeSortO]
    | a :: b :: xs, hlen, h =>
      have hsplit : (a :: b :: xs).take ((xs.length + 1 + 1 + 1) / 2) ++ (a :: b :: xs).drop ((xs.length + 1 + 1 + 1) / 2)
          = a :: b :: xs := List.take_append_drop _ _
      have hp := h
      rw [← hsplit] at hp
      obtain ⟨hp1, hp2, hp3⟩ := List.pairwise_append.1 hp
      have h1 := ih ((a :: b :: xs).take ((xs.length + 1 + 1 + 1) / 2)) (by simp at hlen ⊢; omega) hp1
      have h2 := ih ((a :: b :: xs).drop ((xs.length + 1 + 1 + 1) / 2)) (by simp at hlen ⊢; omega) hp2
      have h3 := mergeO_ok leO le (xs.length + 1 + 1)
        (((a :: b :: xs).take ((xs.length + 1 + 1 + 1) / 2)).mergeSort le)
        (((a :: b :: xs).drop ((xs.length + 1 + 1 + 1) / 2)).mergeSort le)
        (by simp; omega)
        (fun x hx y hy => hp3 x (List.mem_mergeSort.1 hx) y (List.mem_mergeSort.1 hy))
      simp only [mergeSortO, h1, h2, h3]
      rw [List.mergeSort]
      simp only [List.MergeSort.Internal.splitInTwo_fst, List.MergeSort.Internal.splitInTwo_snd,
        List.length_cons]

/-- some two elements at distinct positions of the list satisfy `p`, in one order or the other -/
def anyPair {α} (p : α → α → Bool) : List α → Bool
  | [] => false
  | x :: xs => xs.any (fun y => p x y || p y x) || anyPair p xs

theorem pairwise_of_anyPair {α} (p : α → α → Bool) :
    ∀ l : List α, anyPair p l = false → l.Pairwise (fun x y => p x y = false ∧ p y x = false) := by
  intro l
  induction l with
  | nil => intro _; exact List.Pairwise.nil
  | cons x xs ih =>
    intro h
    simp only [anyPair, Bool.or_eq_false_iff, List.any_eq_false, Bool.or_eq_true, not_or,
      Bool.not_eq_true] at h
    exact List.Pairwise.cons (fun y hy => h.1 y hy) (ih h.2)

/-- the comparison of `a` with `b` panics -/
def cmpPanics {α} (cmpO : α → α → Outcome Ordering) (a b : α) : Bool := !(cmpO a b).isOk

/-- **a sort no two distinct elements of whose input make the comparison panic is `List.mergeSort`
    with the total comparison** (the comparison of an element with itself may panic: no sort makes it) -/
theorem sortO_pairs {α} (cmpO : α → α → Outcome Ordering) (cmp : α → α → Ordering) (l : List α)
    (href : ∀ a b, Refines (cmpO a b) (cmp a b))
    (h : anyPair (cmpPanics cmpO) l = false) : sortO cmpO l = .ok (l.mergeSort (leOf cmp)) := by
  apply mergeSortO_pairs _ _ _ l (Nat.le_refl _)
  refine (pairwise_of_anyPair _ l h).imp ?_
  intro x y hxy
  have hok : (cmpO x y).isOk = true := by simpa [cmpPanics] using hxy.1
  exact leOfO_ok ((href x y).eq_ok hok)

/-! ## the verdict on a field -/

/-- the non-empty entries: what `Relations::wrap_and_sort` rebuilds and sorts -/
def sortedEntries (root : RNode) : List RNode := (entries root).filter fun e => !(relations e).isEmpty

/-- two distinct rebuilt alternatives of the entry cannot be compared -/
def entryPairPanics (e : RNode) : Bool :=
  match mapO relationWrap (relations e) with
  | .ok rs => anyPair (cmpPanics (relNodeCmpO compareO)) rs
  | .panic _ => false

/-- **the trigger of F-C13-2 / F-C07-8**: `none` — an accessor panics, the call panics; `some true` — two
    distinct elements of a list that gets sorted (the rebuilt alternatives of one entry, the rebuilt
    entries of the field) make `Relation::cmp` / `Entry::cmp` panic; `some false` — no sort can panic -/
def sortMayPanic (root : RNode) : Option Bool :=
  match mapO entryWrap (sortedEntries root) with
  | .panic _ => none
  | .ok ws => some ((sortedEntries root).any entryPairPanics || anyPair (cmpPanics (entryNodeCmpO compareO)) ws)

theorem entryWrapO_pairs (e : RNode) (h : entryPairPanics e = false) : entryWrapO compareO e = entryWrap e := by
  unfold entryWrapO entryWrap
  unfold entryPairPanics at h
  cases hm : mapO relationWrap (relations e) with
  | panic s => rfl
  | ok rs =>
    rw [hm] at h
    simp only at h ⊢
    split
    · rw [sortO_pairs (relNodeCmpO compareO) relNodeCmp rs (relNodeCmpO_refines compareO compareO_refines) h]
      rfl
    · rfl

/-- `sortMayPanic` answers `none` exactly when the model's call panics (an accessor `unwrap`) -/
theorem C13_sortMayPanic_none (root : RNode) :
    sortMayPanic root = none ↔ ∃ s, relationsWrap root = .panic s := by
  unfold sortMayPanic relationsWrap sortedEntries
  cases mapO entryWrap ((entries root).filter fun e => !(relations e).isEmpty) with
  | panic s => simp
  | ok ws => simp

/-- **C13, exact trigger.** On every tree: when no two distinct elements of a list that gets sorted
    make the comparison panic, `Relations::wrap_and_sort` with the real, panicking `Version::cmp` is
    the model `relationsWrap` — result or accessor panic. -/
theorem C13_wrapO_pairs (root : RNode) (h : sortMayPanic root = some false) :
    relationsWrapO root = relationsWrap root := by
  unfold sortMayPanic at h
  unfold relationsWrapO relationsWrapWith relationsWrap
  rw [show ((entries root).filter fun e => !(relations e).isEmpty) = sortedEntries root from rfl]
  cases hm : mapO entryWrap (sortedEntries root) with
  | panic s => rw [hm] at h; cases h
  | ok ws =>
    rw [hm] at h
    simp only [Option.some.injEq, Bool.or_eq_false_iff, List.any_eq_false] at h
    rw [mapO_congr (sortedEntries root) (fun e he => entryWrapO_pairs e (by simpa using h.1 e he)), hm]
    simp only
    rw [sortO_pairs (entryNodeCmpO compareO) entryNodeCmp ws (entryNodeCmpO_refines compareO compareO_refines) h.2]

/-- with `none` the real call panics too (the accessor `unwrap` comes before any comparison of the
    entry it belongs to; an earlier entry may already have panicked in `Version::cmp`) -/
theorem C13_wrapO_none (root : RNode) (h : sortMayPanic root = none) : (relationsWrapO root).isOk = false := by
  have hgen : ∀ l : List RNode, (mapO entryWrap l).isOk = false → (mapO (entryWrapO compareO) l).isOk = false := by
    intro l
    induction l with
    | nil => intro h; cases h
    | cons e es ih =>
      intro h
      simp only [mapO] at h ⊢
      -- an entry on which the model panics panics as it runs; one on which it does not either
      -- panics in a comparison or returns
      have he : (entryWrap e).isOk = false → (entryWrapO compareO e).isOk = false := by
        intro h1
        unfold entryWrap at h1
        unfold entryWrapO
        cases hm : mapO relationWrap (relations e) with
        | panic s => rfl
        | ok rs =>
          rw [hm] at h1
          simp only at h1 ⊢
          split
          · rename_i hall; rw [if_pos hall] at h1; cases h1
          · rfl
      cases h1 : entryWrap e with
      | panic s =>
        have := he (by rw [h1]; rfl)
        cases h2 : entryWrapO compareO e with
        | panic s' => rfl
        | ok w => rw [h2] at this; cases this
      | ok w =>
        rw [h1] at h
        simp only at h
        cases h2 : entryWrapO compareO e with
        | panic s' => rfl
        | ok w' =>
          simp only
          have h3 : (mapO entryWrap es).isOk = false := by
            cases h4 : mapO entryWrap es with
            | panic s => rfl
            | ok ws => rw [h4] at h; cases h
          have := ih h3
          cases h5 : mapO (entryWrapO compareO) es with
          | panic s => rfl
          | ok ws => rw [h5] at this; cases this
  unfold sortMayPanic at h
  unfold relationsWrapO relationsWrapWith
  rw [show ((entries root).filter fun e => !(relations e).isEmpty) = sortedEntries root from rfl]
  have h0 : (mapO entryWrap (sortedEntries root)).isOk = false := by
    cases hm : mapO entryWrap (sortedEntries root) with
    | panic s => rfl
    | ok ws => rw [hm] at h; cases h
  have := hgen _ h0
  cases hm : mapO (entryWrapO compareO) (sortedEntries root) with
  | panic s => rfl
  | ok ws => rw [hm] at this; cases this

/-! ## on well-formed fields; the old trigger implies the new one -/

/-- on a well-formed field the accessors do not panic: the verdict is `some _` -/
theorem C13_sortMayPanic_field (f : FieldA) (h : f.WF) : ∃ b, sortMayPanic f.tree = some b := by
  cases hs : sortMayPanic f.tree with
  | some b => exact ⟨b, rfl⟩
  | none =>
    obtain ⟨s, hp⟩ := (C13_sortMayPanic_none f.tree).1 hs
    rw [C13_total f h] at hp
    cases hp

/-- **C13 on a well-formed field, exact trigger**: if no two distinct elements that get sorted make
    the comparison panic, the real call does not panic and builds the tree of `C13_total` -/
theorem C13_total_pairs (f : FieldA) (h : f.WF) (hb : sortMayPanic f.tree = some false) :
    relationsWrapO f.tree = .ok (outTree f) := by
  rw [C13_wrapO_pairs f.tree hb, C13_total f h]

/-! ## witnesses: the fields on which the old trigger (`hasBigNumber`) was not exact -/

/-- `b (>= 3000000000), a (>= 3000000001)`: two big numbers, distinct names -/
def exBigNames : FieldA :=
  ⟨[⟨[], .alts ⟨['b'], none, some ⟨[.ws [' ']], [], .GreaterThanEqual, [.ws [' ']], ⟨none, "3000000000".toList⟩, []⟩, none, []⟩ [], []⟩,
    segA "3000000001" [.ws [' ']]]⟩

/-- `a (>= 3000000000)`: one relation, nothing to compare -/
def exBigSingle : FieldA := ⟨[segA "3000000000" []]⟩

/-- **the trigger is exact on the audit's cases**: a single big number, a big number next to another
    package, two big numbers under distinct names — the old trigger fires, the new one does not, and
    the real call returns the model's tree; two versions of the same package that cannot be compared —
    both fire, the real call panics -/
theorem C13_pairs_witness :
    exBigSingle.WF ∧ exBigSingle.str = "a (>= 3000000000)".toList
      ∧ hasBigNumber exBigSingle.tree = true ∧ sortMayPanic exBigSingle.tree = some false
      ∧ exBigUnreached.WF ∧ hasBigNumber exBigUnreached.tree = true ∧ sortMayPanic exBigUnreached.tree = some false
      ∧ exBigNames.WF ∧ exBigNames.str = "b (>= 3000000000), a (>= 3000000001)".toList
      ∧ hasBigNumber exBigNames.tree = true ∧ sortMayPanic exBigNames.tree = some false
      ∧ relationsWrapO exBigNames.tree = .ok (outTree exBigNames)
      ∧ sortMayPanic exBig.tree = some true ∧ (relationsWrapO exBig.tree).isOk = false := by
  have h1 : exBigNames.WF := by decide +kernel
  have h2 : sortMayPanic exBigNames.tree = some false := by decide +kernel
  refine ⟨by decide +kernel, by decide +kernel, by decide +kernel, by decide +kernel, by decide +kernel,
    by decide +kernel, by decide +kernel, h1, by decide +kernel, by decide +kernel, h2,
    C13_total_pairs exBigNames h1 h2, by decide +kernel, by decide +kernel⟩

/-- non-vacuity of `C13_total_pairs` -/
example : relationsWrapO exBigSingle.tree = .ok (outTree exBigSingle) :=
  C13_total_pairs exBigSingle (by decide +kernel) (by decide +kernel)

/-- non-vacuity of `C13_wrapO_none` / `C13_sortMayPanic_none`: `a (> 1)` is read without error, the
    accessor `version()` panics on its operator -/
example : (parse "a (> 1)".toList false).errors = []
    ∧ sortMayPanic (parse "a (> 1)".toList false).tree = none := by
  refine ⟨by decide +kernel, by decide +kernel⟩

/-- non-vacuity of `sortO_pairs`: an element that cannot be compared with itself, but with the others -/
example :
    let cmpO : Nat → Nat → Outcome Ordering := fun a b => if a = 7 ∧ b = 7 then .panic "" else .ok (natCmp a b)
    anyPair (cmpPanics cmpO) [7, 3, 5] = false ∧ cmpPanics cmpO 7 7 = true
      ∧ sortO cmpO [7, 3, 5] = .ok ([7, 3, 5].mergeSort (leOf natCmp)) := by
  intro cmpO
  have href : ∀ a b, Refines (cmpO a b) (natCmp a b) := by
    intro a b o h
    simp only [cmpO] at h
    split at h
    · cases h
    · exact (Outcome.ok.inj h).symm
  have hp : anyPair (cmpPanics cmpO) [7, 3, 5] = false := by decide
  exact ⟨hp, by decide, sortO_pairs cmpO natCmp _ href hp⟩

end Deb822Verif.Props.C13
