import Deb822Verif.Props.C13
import Deb822Verif.Props.C12
/-!
# C13 (continued) — the panic of `Version::cmp` as a hypothesis (finding F-C13-2)

`Model/RelWrap.lean` compares versions with the total order `DebVersion.compare`; the real
`debversion::Version::cmp` panics when the comparison reaches a numeric component above `i32::MAX`
(`DebVersion.compareO`, finding F-C12-1).  Here wrap-and-sort is written once more with every
comparison `Outcome`-valued (`relationsWrapWith vcmpO`: `Ord for Relation`, `Ord for Entry`, the two
`sort_by` comparators and the merge sort itself thread the panic, evaluated lazily like the
`then_with` / early `return` of the code), and `relationsWrapO := relationsWrapWith compareO` is
wrap-and-sort as it runs.

* `relationsWrapWith_total`: with a version comparison that never panics it IS the model
  `relationsWrap`, on every tree.
* `C13_total_small`: on a well-formed field all of whose versions have numeric components within
  `i32` (`hasBigNumber f.tree = false`, the trigger predicate of the driver), `relationsWrapO` does
  not panic and returns the tree of `C13_total` — all C13 theorems apply to the real call.
* `C13_panic_witness`: `a (>= 3000000000), a (>= 3000000001), b` is well-formed, the total model
  normalises it, `relationsWrapO` panics (F-C13-2); the hypothesis of `C13_total_small` cannot be
  dropped.  It is sufficient, not necessary: `a (>= 3000000000), b` never compares the version.
  (A hypothesis "no two versions of the field make `compareO` panic" would not be weaker in any
  useful way: `compareO v v` panics as soon as `v` has a component above `i32::MAX`.)
-/
set_option linter.unusedSimpArgs false
set_option linter.unusedVariables false
namespace Deb822Verif.Props.C13
open Deb822Verif Rel Node RelSpec DebVersion Lossy Rel.Wrap

/-! ## `Outcome`-valued comparisons -/

/-- `a.then_with(|| b)` when either side may panic: `b` is only evaluated on `Equal` -/
def thenWithO (a b : Outcome Ordering) : Outcome Ordering :=
  match a with
  | .ok .eq => b
  | r => r

/-- `lexCmp`, stopping at the first difference or panic (`Ord for Entry`, relations.rs:744-763) -/
def lexCmpO {α} (cmp : α → α → Outcome Ordering) : List α → List α → Outcome Ordering
  | [], [] => .ok .eq
  | [], _ :: _ => .ok .lt
  | _ :: _, [] => .ok .gt
  | a :: as, b :: bs => thenWithO (cmp a b) (lexCmpO cmp as bs)

def optCmpO {α} (cmp : α → α → Outcome Ordering) : Option α → Option α → Outcome Ordering
  | none, none => .ok .eq
  | none, some _ => .ok .lt
  | some _, none => .ok .gt
  | some a, some b => cmp a b

/-- `self_vc.cmp(&other_vc).then_with(|| self_version.cmp(&other_version))` -/
def versionCmpO (vcmpO : Version → Version → Outcome Ordering) (a b : VC × Version) : Outcome Ordering :=
  thenWithO (.ok (natCmp (vcRank a.1) (vcRank b.1))) (vcmpO a.2 b.2)

/-- what `Ord for Relation` looks at after the version (no panic there) -/
def relCmpTail (a b : RV) : Ordering :=
  (optCmp strCmp a.archqual b.archqual).then
    ((optCmp (lexCmp strCmp) (sortedArchs a) (sortedArchs b)).then
      (lexCmp (lexCmp strCmp) (profStrs a) (profStrs b)))

/-- `PartialOrd for Relation` (relations.rs:1722-1768) with the version comparison `vcmpO` -/
def relCmpO (vcmpO : Version → Version → Outcome Ordering) (a b : RV) : Outcome Ordering :=
  thenWithO (.ok (strCmp a.name b.name))
    (thenWithO (optCmpO (versionCmpO vcmpO) a.version b.version) (.ok (relCmpTail a b)))

def relNodeOrdO (vcmpO : Version → Version → Outcome Ordering) (a b : RNode) : Outcome Ordering :=
  match accRelation a, accRelation b with
  | some x, some y => relCmpO vcmpO x y
  | _, _ => .ok .eq

/-- the comparator of `Entry::wrap_and_sort` -/
def relNodeCmpO (vcmpO : Version → Version → Outcome Ordering) (a b : RNode) : Outcome Ordering :=
  thenWithO (relNodeOrdO vcmpO a b) (.ok (strCmp a.text b.text))

def entryNodeOrdO (vcmpO : Version → Version → Outcome Ordering) (a b : RNode) : Outcome Ordering :=
  lexCmpO (relNodeOrdO vcmpO) (relations a) (relations b)

/-- the comparator of `Relations::wrap_and_sort` -/
def entryNodeCmpO (vcmpO : Version → Version → Outcome Ordering) (a b : RNode) : Outcome Ordering :=
  thenWithO (entryNodeOrdO vcmpO a b) (.ok (strCmp a.text b.text))

def leOfO {α} (cmp : α → α → Outcome Ordering) (a b : α) : Outcome Bool := (cmp a b).map (· != .gt)

/-! ## merge sort with a comparison that may panic

The algorithm of `List.merge` / `List.mergeSort` (core), by recursion on a fuel (so that the kernel
evaluates it); `sortO` supplies enough of it. -/

def mergeO {α} (leO : α → α → Outcome Bool) : Nat → List α → List α → Outcome (List α)
  | 0, xs, ys => .ok (xs ++ ys)
  | _ + 1, [], ys => .ok ys
  | _ + 1, x :: xs, [] => .ok (x :: xs)
  | n + 1, x :: xs, y :: ys =>
    match leO x y with
    | .panic s => .panic s
    | .ok true => (mergeO leO n xs (y :: ys)).map (x :: ·)
    | .ok false => (mergeO leO n (x :: xs) ys).map (y :: ·)

def mergeSortO {α} (leO : α → α → Outcome Bool) : Nat → List α → Outcome (List α)
  | 0, l => .ok l
  | _ + 1, [] => .ok []
  | _ + 1, [a] => .ok [a]
  | n + 1, a :: b :: xs =>
    match mergeSortO leO n ((a :: b :: xs).take ((xs.length + 1 + 1 + 1) / 2)) with
    | .panic s => .panic s
    | .ok ls =>
      match mergeSortO leO n ((a :: b :: xs).drop ((xs.length + 1 + 1 + 1) / 2)) with
      | .panic s => .panic s
      | .ok rs => mergeO leO (xs.length + 1 + 1) ls rs

/-- `sort_by` with a comparison that may panic -/
def sortO {α} (cmp : α → α → Outcome Ordering) (l : List α) : Outcome (List α) :=
  mergeSortO (leOfO cmp) l.length l

theorem mergeO_ok {α} (leO : α → α → Outcome Bool) (le : α → α → Bool) :
    ∀ (n : Nat) (xs ys : List α), xs.length + ys.length ≤ n →
      (∀ x ∈ xs, ∀ y ∈ ys, leO x y = .ok (le x y)) → mergeO leO n xs ys = .ok (List.merge xs ys le) := by
  intro n
  induction n with
  | zero =>
    intro xs ys hlen _
    have hx : xs = [] := List.length_eq_zero_iff.1 (by omega)
    have hy : ys = [] := List.length_eq_zero_iff.1 (by omega)
    subst hx; subst hy
    simp [mergeO]
  | succ n ih =>
    intro xs ys hlen h
    cases xs with
    | nil => simp [mergeO]
    | cons x xs =>
      cases ys with
      | nil => simp [mergeO]
      | cons y ys =>
        simp only [mergeO, h x (by simp) y (by simp)]
        rw [List.cons_merge_cons]
        cases hle : le x y with
        | true =>
          simp only [if_true]
          rw [ih xs (y :: ys) (by simp at hlen ⊢; omega)
            (fun a ha b hb => h a (by simp [ha]) b hb)]
          rfl
        | false =>
          simp only [Bool.false_eq_true, if_false]
          rw [ih (x :: xs) ys (by simp at hlen ⊢; omega)
            (fun a ha b hb => h a ha b (by simp [hb]))]
          rfl

theorem mergeSortO_ok {α} (leO : α → α → Outcome Bool) (le : α → α → Bool) :
    ∀ (n : Nat) (l : List α), l.length ≤ n →
      (∀ x ∈ l, ∀ y ∈ l, leO x y = .ok (le x y)) → mergeSortO leO n l = .ok (l.mergeSort le) := by
  intro n
  induction n with
  | zero =>
    intro l hlen _
    have : l = [] := List.length_eq_zero_iff.1 (by omega)
    subst this
    simp [mergeSortO]
  | succ n ih =>
    intro l hlen h
    match l, hlen, h with
    | [], _, _ => simp [mergeSortO]
    | [a], _, _ => simp [mergeSortO]
    | a :: b :: xs, hlen, h =>
      have h1 := ih ((a :: b :: xs).take ((xs.length + 1 + 1 + 1) / 2))
        (by simp at hlen ⊢; omega)
        (fun x hx y hy => h x (List.mem_of_mem_take hx) y (List.mem_of_mem_take hy))
      have h2 := ih ((a :: b :: xs).drop ((xs.length + 1 + 1 + 1) / 2))
        (by simp at hlen ⊢; omega)
        (fun x hx y hy => h x (List.mem_of_mem_drop hx) y (List.mem_of_mem_drop hy))
      have h3 := mergeO_ok leO le (xs.length + 1 + 1)
        (((a :: b :: xs).take ((xs.length + 1 + 1 + 1) / 2)).mergeSort le)
        (((a :: b :: xs).drop ((xs.length + 1 + 1 + 1) / 2)).mergeSort le)
        (by simp; omega)
        (fun x hx y hy => h x (List.mem_of_mem_take (List.mem_mergeSort.1 hx))
          y (List.mem_of_mem_drop (List.mem_mergeSort.1 hy)))
      simp only [mergeSortO, h1, h2, h3]
      rw [List.mergeSort]
      simp only [List.MergeSort.Internal.splitInTwo_fst, List.MergeSort.Internal.splitInTwo_snd,
        List.length_cons]

theorem leOfO_ok {α} {cmpO : α → α → Outcome Ordering} {cmp : α → α → Ordering} {a b : α}
    (h : cmpO a b = .ok (cmp a b)) : leOfO cmpO a b = .ok (leOf cmp a b) := by
  simp [leOfO, h, Outcome.map, leOf]

/-- **a sort none of whose possible comparisons panics is `List.mergeSort`** -/
theorem sortO_ok {α} (cmpO : α → α → Outcome Ordering) (cmp : α → α → Ordering) (l : List α)
    (h : ∀ x ∈ l, ∀ y ∈ l, cmpO x y = .ok (cmp x y)) : sortO cmpO l = .ok (l.mergeSort (leOf cmp)) :=
  mergeSortO_ok _ _ _ l (Nat.le_refl _) (fun x hx y hy => leOfO_ok (h x hx y hy))

/-! ## wrap-and-sort as it runs -/

/-- `Entry::wrap_and_sort` -/
def entryWrapO (vcmpO : Version → Version → Outcome Ordering) (e : RNode) : Outcome RNode :=
  match mapO relationWrap (relations e) with
  | .panic s => .panic s
  | .ok rs =>
    if rs.all fun r => (accRelation r).isSome then (sortO (relNodeCmpO vcmpO) rs).map buildEntry
    else .panic "relations.rs Relation::cmp: accessor unwrap on a wrapped relation"

/-- `Relations::wrap_and_sort` with the version comparison `vcmpO` (the substitution variables are
    sorted by their text: no panic there) -/
def relationsWrapWith (vcmpO : Version → Version → Outcome Ordering) (root : RNode) : Outcome RNode :=
  match mapO (entryWrapO vcmpO) ((entries root).filter fun e => !(relations e).isEmpty) with
  | .panic s => .panic s
  | .ok es =>
    match sortO (entryNodeCmpO vcmpO) es with
    | .panic s => .panic s
    | .ok ses =>
      .ok (buildRoot (ses ++ (childNodes .SUBSTVAR root).mergeSort fun a b => leOf strCmp a.text b.text))

/-- **`Relations::wrap_and_sort` with the real `Version::cmp`**, which panics on a numeric component
    above `i32::MAX` when the comparison reaches it -/
def relationsWrapO (root : RNode) : Outcome RNode := relationsWrapWith compareO root

/-! ## when the comparisons do not panic it is the model -/

theorem thenWithO_ok (a b : Ordering) : thenWithO (.ok a) (.ok b) = .ok (a.then b) := by
  cases a <;> rfl

theorem lexCmpO_ok {α} {cmpO : α → α → Outcome Ordering} {cmp : α → α → Ordering} :
    ∀ (l₁ l₂ : List α), (∀ x ∈ l₁, ∀ y ∈ l₂, cmpO x y = .ok (cmp x y)) →
      lexCmpO cmpO l₁ l₂ = .ok (lexCmp cmp l₁ l₂) := by
  intro l₁
  induction l₁ with
  | nil => intro l₂ _; cases l₂ <;> rfl
  | cons a as ih =>
    intro l₂ h
    cases l₂ with
    | nil => rfl
    | cons b bs =>
      simp only [lexCmpO, lexCmp, h a (by simp) b (by simp),
        ih bs (fun x hx y hy => h x (by simp [hx]) y (by simp [hy])), thenWithO_ok]

theorem mapO_congr {α β} {f g : α → Outcome β} : ∀ (l : List α), (∀ a ∈ l, f a = g a) → mapO f l = mapO g l
  | [], _ => rfl
  | a :: l, h => by
    simp only [mapO, h a (by simp), mapO_congr l (fun x hx => h x (by simp [hx]))]

section agree
variable (vcmpO : Version → Version → Outcome Ordering) (S : Version → Prop)

/-- the version of the relation (if any) is in `S` -/
def RVIn (x : RV) : Prop := ∀ c v, x.version = some (c, v) → S v
/-- what the accessors read on the node has its version in `S` -/
def NodeIn (n : RNode) : Prop := ∀ x, accRelation n = some x → RVIn S x

variable (H : ∀ v w, S v → S w → vcmpO v w = .ok (DebVersion.compare v w))
include H

theorem relCmpO_ok (x y : RV) (hx : RVIn S x) (hy : RVIn S y) : relCmpO vcmpO x y = .ok (relCmp x y) := by
  have hv : optCmpO (versionCmpO vcmpO) x.version y.version = .ok (optCmp versionCmp x.version y.version) := by
    cases hxv : x.version with
    | none => cases y.version <;> rfl
    | some p =>
      cases hyv : y.version with
      | none => rfl
      | some q =>
        obtain ⟨c, v⟩ := p
        obtain ⟨d, w⟩ := q
        simp only [optCmpO, optCmp, versionCmpO, versionCmp, H v w (hx c v hxv) (hy d w hyv), thenWithO_ok]
  simp only [relCmpO, hv, thenWithO_ok, relCmp, relCmpTail]

theorem relNodeOrdO_ok (a b : RNode) (ha : NodeIn S a) (hb : NodeIn S b) :
    relNodeOrdO vcmpO a b = .ok (relNodeOrd a b) := by
  unfold relNodeOrdO relNodeOrd
  cases hxa : accRelation a with
  | none => rfl
  | some x =>
    cases hxb : accRelation b with
    | none => rfl
    | some y => exact relCmpO_ok vcmpO S H x y (ha x hxa) (hb y hxb)

theorem relNodeCmpO_ok (a b : RNode) (ha : NodeIn S a) (hb : NodeIn S b) :
    relNodeCmpO vcmpO a b = .ok (relNodeCmp a b) := by
  simp only [relNodeCmpO, relNodeOrdO_ok vcmpO S H a b ha hb, thenWithO_ok, relNodeCmp]

theorem entryNodeCmpO_ok (a b : RNode) (ha : ∀ n ∈ relations a, NodeIn S n) (hb : ∀ n ∈ relations b, NodeIn S n) :
    entryNodeCmpO vcmpO a b = .ok (entryNodeCmp a b) := by
  have : entryNodeOrdO vcmpO a b = .ok (entryNodeOrd a b) :=
    lexCmpO_ok _ _ (fun x hx y hy => relNodeOrdO_ok vcmpO S H x y (ha x hx) (hb y hy))
  simp only [entryNodeCmpO, this, thenWithO_ok, entryNodeCmp]

/-- one entry: if the relation nodes that get sorted have their versions in `S`, the call is the model's -/
theorem entryWrapO_eq (e : RNode)
    (h : ∀ rs, mapO relationWrap (relations e) = .ok rs → ∀ n ∈ rs, NodeIn S n) :
    entryWrapO vcmpO e = entryWrap e := by
  unfold entryWrapO entryWrap
  cases hm : mapO relationWrap (relations e) with
  | panic s => rfl
  | ok rs =>
    simp only
    split
    · rw [sortO_ok (relNodeCmpO vcmpO) relNodeCmp rs
        (fun x hx y hy => relNodeCmpO_ok vcmpO S H x y (h rs hm x hx) (h rs hm y hy))]
      rfl
    · rfl

/-- the whole field: if every relation node that is compared — inside an entry, or between wrapped
    entries — has its version in `S`, the call is the model's -/
theorem relationsWrapWith_eq (root : RNode)
    (h1 : ∀ e ∈ entries root, ∀ rs, mapO relationWrap (relations e) = .ok rs → ∀ n ∈ rs, NodeIn S n)
    (h2 : ∀ es, mapO entryWrap ((entries root).filter fun e => !(relations e).isEmpty) = .ok es →
      ∀ e ∈ es, ∀ n ∈ relations e, NodeIn S n) :
    relationsWrapWith vcmpO root = relationsWrap root := by
  unfold relationsWrapWith relationsWrap
  rw [mapO_congr ((entries root).filter fun e => !(relations e).isEmpty)
    (fun e he => entryWrapO_eq vcmpO S H e (h1 e (List.mem_filter.1 he).1))]
  cases hm : mapO entryWrap ((entries root).filter fun e => !(relations e).isEmpty) with
  | panic s => rfl
  | ok es =>
    simp only
    rw [sortO_ok (entryNodeCmpO vcmpO) entryNodeCmp es
      (fun x hx y hy => entryNodeCmpO_ok vcmpO S H x y (h2 es hm x hx) (h2 es hm y hy))]

end agree

/-- **with a version comparison that never panics, the `Outcome`-threaded wrap-and-sort is the model
    of `Model/RelWrap.lean`, on every tree** -/
theorem relationsWrapWith_total (root : RNode) :
    relationsWrapWith (fun v w => .ok (DebVersion.compare v w)) root = relationsWrap root :=
  relationsWrapWith_eq _ (fun _ => True) (fun _ _ _ _ => rfl) root
    (fun _ _ _ _ _ _ _ _ _ _ _ => trivial) (fun _ _ _ _ _ _ _ _ _ _ _ => trivial)

/-! ## on a well-formed field -/

/-- the versions of the field: those of its relations, as the accessors return them -/
def FieldVersion (f : FieldA) (v : Version) : Prop := ∃ e ∈ f.view, ∃ r ∈ e, ∃ c, r.version = some (c, v)

theorem mapO_relationWrap_of_acc (e : RNode) (vs : List RV) (hacc : (relations e).mapM accRelation = some vs) :
    mapO relationWrap (relations e) = .ok (vs.map buildRel) :=
  mapO_of_mapM (P := fun _ => True) (fun a y hy _ => by simp [relationWrap, hy]) _ _ hacc (fun _ _ => trivial)

theorem mapM_some_mem_rev {α β} {g : α → Option β} :
    ∀ (l : List α) (ys : List β), l.mapM g = some ys → ∀ y ∈ ys, ∃ a ∈ l, g a = some y := by
  intro l
  induction l with
  | nil => intro ys h y hy; simp at h; subst h; simp at hy
  | cons b l ih =>
    intro ys h y hy
    obtain ⟨z, ys', rfl, hz, hrest⟩ := mapM_some_cons h
    rcases List.mem_cons.1 hy with rfl | hy
    · exact ⟨b, by simp, hz⟩
    · obtain ⟨a, ha, hga⟩ := ih ys' hrest y hy
      exact ⟨a, by simp [ha], hga⟩

/-- **if the version comparison does not panic on the versions of a well-formed field, wrap-and-sort
    as it runs is the model's** -/
theorem relationsWrapWith_field (vcmpO : Version → Version → Outcome Ordering) (f : FieldA) (h : f.WF)
    (H : ∀ v w, FieldVersion f v → FieldVersion f w → vcmpO v w = .ok (DebVersion.compare v w)) :
    relationsWrapWith vcmpO f.tree = .ok (outTree f) := by
  rw [← C13_total f h]
  have hacc := accEntries_field f h
  have hval := field_view_valid f h
  -- a built node of a relation of the view has its version among the versions of the field
  have hbuilt : ∀ e ∈ f.view, ∀ v ∈ e, NodeIn (FieldVersion f) (buildRel v) := by
    intro e he v hv x hx c w hw
    rw [acc_buildRel v ((hval e he).2 v hv)] at hx
    injection hx with hx
    subst hx
    exact ⟨e, he, v, hv, c, hw⟩
  apply relationsWrapWith_eq vcmpO (FieldVersion f) H
  · intro en hen rs hrs n hn
    obtain ⟨vs, hvs, hm⟩ := mapM_some_mem _ _ hacc en hen
    rw [mapO_relationWrap_of_acc en vs hm] at hrs
    injection hrs with hrs
    subst hrs
    obtain ⟨v, hv, rfl⟩ := List.mem_map.1 hn
    exact hbuilt vs hvs v hv
  · intro es hes en hen n hn
    have hfilter : (entries f.tree).filter (fun e => !(relations e).isEmpty) = entries f.tree := by
      apply List.filter_eq_self.2
      intro e he
      obtain ⟨vs, hvs, hm⟩ := mapM_some_mem _ _ hacc e he
      cases hr : relations e with
      | nil => rw [hr] at hm; simp at hm; exact absurd hm (hval vs hvs).1
      | cons x xs => rfl
    have h1 : mapO entryWrap (entries f.tree) = .ok (f.view.map fun vs => buildEntryV (sortRels vs)) :=
      mapO_of_mapM (P := fun vs => ∀ v ∈ vs, validR v = true)
        (fun e vs hvs hP => entryWrap_of_acc e vs hvs hP) _ _ hacc (fun vs hvs => (hval vs hvs).2)
    rw [hfilter, h1] at hes
    injection hes with hes
    subst hes
    obtain ⟨vs, hvs, rfl⟩ := List.mem_map.1 hen
    rw [relations_buildEntryV] at hn
    obtain ⟨v, hv, rfl⟩ := List.mem_map.1 hn
    exact hbuilt vs hvs v (mem_sortRels.1 hv)

/-- `hasBigNumber` (the driver's trigger of F-C13-2) is false: every version of the field is `small` -/
theorem fieldVersion_small (f : FieldA) (h : f.WF) (hb : hasBigNumber f.tree = false) :
    ∀ v, FieldVersion f v → small v = true := by
  rintro v ⟨e, he, r, hr, c, hv⟩
  have hacc := accEntries_field f h
  obtain ⟨en, hen, hm⟩ := mapM_some_mem_rev _ _ hacc e he
  obtain ⟨n, hn, hacn⟩ := mapM_some_mem_rev _ _ hm r hr
  simp only [hasBigNumber, List.any_eq_false] at hb
  have := hb en hen
  simp only [List.any_eq_true, not_exists, not_and] at this
  have hnb := this n hn
  unfold accRelation at hacn
  split at hacn
  · rename_i nm vv hname hver
    injection hacn with hacn
    subst hacn
    simp only at hv
    subst hv
    simpa [relBig, hver] using hnb
  · exact absurd hacn (by simp)

/-- **C13, no panic within `i32`.** For a well-formed field none of whose versions has a numeric
    component above `i32::MAX`, `Relations::wrap_and_sort` with the real, panicking `Version::cmp`
    does not panic and builds the tree of `C13_total` — so every C13 theorem (canonical text, sorted,
    meaning, reparse, idempotence, one text per meaning) is about the real call. -/
theorem C13_total_small (f : FieldA) (h : f.WF) (hb : hasBigNumber f.tree = false) :
    relationsWrapO f.tree = .ok (outTree f) :=
  relationsWrapWith_field compareO f h (fun v w hv hw =>
    C12.C12_compareO_small v w (fieldVersion_small f h hb v hv) (fieldVersion_small f h hb w hw))

/-- the same, the hypothesis on the values the accessors return -/
theorem C13_total_small_view (f : FieldA) (h : f.WF)
    (hb : ∀ e ∈ f.view, ∀ r ∈ e, ∀ c v, r.version = some (c, v) → small v = true) :
    relationsWrapO f.tree = .ok (outTree f) :=
  relationsWrapWith_field compareO f h (fun v w ⟨e, he, r, hr, c, hv⟩ ⟨e', he', r', hr', c', hw⟩ =>
    C12.C12_compareO_small v w (hb e he r hr c v hv) (hb e' he' r' hr' c' w hw))

/-! ## the hypothesis cannot be dropped (F-C13-2); non-vacuity -/

def segA (v : String) (pre : Gap) : Seg :=
  ⟨pre, .alts ⟨['a'], none, some ⟨[.ws [' ']], [], .GreaterThanEqual, [.ws [' ']], ⟨none, v.toList⟩, []⟩, none, []⟩ [], []⟩
def segB : Seg := ⟨[.ws [' ']], .alts ⟨['b'], none, none, none, []⟩ [], []⟩

/-- `a (>= 3000000000), a (>= 3000000001), b` -/
def exBig : FieldA := ⟨[segA "3000000000" [], segA "3000000001" [.ws [' ']], segB]⟩

/-- `a (>= 3000000000), b`: a big number that no comparison reaches -/
def exBigUnreached : FieldA := ⟨[segA "3000000000" [], segB]⟩

/-- **F-C13-2**: the field is well-formed and is read without error; the model with the total order
    normalises it (`C13_total`); `Relations::wrap_and_sort` with the real `Version::cmp` panics, at the
    `unwrap` of debversion.  The panic needs the comparison to reach the number: with `b` in place of
    the second `a` there is none. -/
theorem C13_panic_witness :
    exBig.WF ∧ exBig.str = "a (>= 3000000000), a (>= 3000000001), b".toList
      ∧ parse "a (>= 3000000000), a (>= 3000000001), b".toList false = ⟨exBig.tree, []⟩
      ∧ hasBigNumber exBig.tree = true
      ∧ relationsWrap exBig.tree = .ok (outTree exBig)
      ∧ (match relationsWrapO exBig.tree with
          | .panic site => site == "debversion lib.rs:137/143 unwrap: number too large to fit in target type"
          | .ok _ => false) = true
      ∧ exBigUnreached.str = "a (>= 3000000000), b".toList
      ∧ hasBigNumber exBigUnreached.tree = true
      ∧ (relationsWrapO exBigUnreached.tree).isOk = true := by
  have hwf : exBig.WF := by decide +kernel
  refine ⟨hwf, by decide +kernel, ?_, by decide +kernel, C13_total exBig hwf, by decide +kernel,
    by decide +kernel, by decide +kernel, by decide +kernel⟩
  have : exBig.str = "a (>= 3000000000), a (>= 3000000001), b".toList := by decide +kernel
  rw [← this]
  exact C10.C10_parse_inverts exBig hwf false (Or.inr (by decide +kernel))

/-- the hypotheses of `C13_total_small` are satisfiable: the example field of C13 -/
theorem ex_small : hasBigNumber ex.tree = false := by decide +kernel

example : relationsWrapO ex.tree = .ok (outTree ex) := C13_total_small ex ex_wf ex_small

example : ∀ e ∈ ex.view, ∀ r ∈ e, ∀ c v, r.version = some (c, v) → small v = true :=
  fun e he r hr c v hv => fieldVersion_small ex ex_wf ex_small v ⟨e, he, r, hr, c, hv⟩

/-- the real call on the example: canonical text, and idempotent -/
example : ∃ out, relationsWrapO ex.tree = .ok out ∧ out.text = canonText (outView ex) (outSubst ex) :=
  ⟨outTree ex, C13_total_small ex ex_wf ex_small, outTree_text ex⟩

example : relationsWrapO ex.tree = .ok (outTree ex) :=
  C13_total_small_view ex ex_wf
    (fun e he r hr c v hv => fieldVersion_small ex ex_wf ex_small v ⟨e, he, r, hr, c, hv⟩)

/-- `relationsWrapWith_field` also fires on the field with big numbers, for a comparison that does
    not panic -/
example : relationsWrapWith (fun v w => .ok (DebVersion.compare v w)) exBig.tree = .ok (outTree exBig) :=
  relationsWrapWith_field _ exBig (by decide +kernel) (fun _ _ _ _ => rfl)

example : sortO (fun a b : Nat => Outcome.ok (natCmp a b)) [3, 1, 2] = .ok ([3, 1, 2].mergeSort (leOf natCmp)) :=
  sortO_ok _ _ _ (fun _ _ _ _ => rfl)

/-- the fuel-driven merge sort is evaluated by the kernel -/
example : sortO (fun a b : Nat => Outcome.ok (natCmp a b)) [3, 1, 2, 5, 4] = .ok [1, 2, 3, 4, 5] := by
  decide +kernel

end Deb822Verif.Props.C13
