import Deb822Verif.Props.C15Rel
import Deb822Verif.Lemmas.RelLossyWide
/-!
# C15, additions after the audit of the property (logs/audit_C15.md)

1. the codec pair `(ws, nl)` (`Header::files_excluded` / `set_files_excluded`), which `sepCompat`
   allows since the repair of F-C15-20: `C15_codec_list_ws_nl`, lifted to the table pair by
   `C15_files_excluded_set_then_get`; `C15_table_list_pairs_covered`: every string-list pair of the
   table is one of the four separator combinations a codec theorem exists for.
2. set-then-get for the rows whose Rust type has no model in `Model/Typed.lean` (`Version`, `Url`,
   `DateTime<FixedOffset>`, `NaiveDate`): `RoundTrip` cannot be instantiated there.  The getter is
   `get(NAME).map(|s| s.parse().unwrap())`; `extGet` composes the text-level getter with ANY codec
   (`ExtCodec`: `parse`, `print`), `C15_table_set_then_get_ext` is the table theorem under the
   explicit hypothesis `hrt : parse (print v) = some v`.  For `debversion::Version` the hypothesis is
   discharged from the model of C12/C13 (`Rel.Version.parse_display_stable`): `C15_version_set_then_get`
   has no assumption left.  For `url::Url` and the two chrono types `hrt` stays (registry:
   assumption on url / chrono).
3. the re-read theorem for ALL pairs, `C15_set_reread`: after the setter with a value whose written
   text is a `ValidValue`, the printed paragraph is accepted by the strict lossless reader and the
   getter on the paragraph read back returns `decode` of that text (the value itself under the
   codec round trip: `C15_table_set_reread`).  Per shape: which values are written as a
   `ValidValue` (`validValue_*`).  Outside `ValidValue` the re-read value differs: four witnesses.
4. `debianNames`: a hand-written table of the Debian field name(s) of every accessor, from the
   specifications, independent of the method names; `C15_table_debian_names`.
5. list setters with the empty list: `C15_codec_list_empty` (comma and newline lists write an empty
   field that reads back as `[""]`), `C15_codec_list_empty_ok` (white-space and line lists read `[]`).
6. `Header::fix` with both `Format` and `Format-Specification` present: `C15_fix_both`.
8. field names are compared byte for byte: `C15_case_variant_duplicates`.

## Observations (recorded here, no finding)

* **letter case of field names** (audit D1).  `Paragraph::get / set / remove` compare names byte for
  byte, by design of the lossless library (a field `maintainer:` is preserved as written).  Every
  theorem of C15 therefore counts `maintainer` and `Maintainer` as two names, although Policy 5.1
  says field names are not case-sensitive: `set_maintainer` on a paragraph with `maintainer: old`
  appends a `Maintainer` field (`C15_case_variant_duplicates`), `Control::source()` does not find
  `source: a`.
* **empty list** (audit D4).  `set_uploaders(&[])`, `set_changelogs(vec![])`, `set_tags(t, vec![])`,
  `set_copyright(&[])` write an empty field; the getter then returns `[""]`.  The empty list is not a
  valid value of a comma / line list in the domain of the codec theorems (`hne : l ≠ []`): a comma
  list has at least one element (Policy 5.6.3 Uploaders, an absent list is an absent field).
* **`Header::fix` with both names** (audit D6).  `Format-Specification` is the pre-1.0 name of
  `Format`; a header with both is not a legal DEP-5 file.  `fix` renames the old field, so two
  `Format` fields remain (`C15_fix_both`, `C15_fix_both_witness`).
* **`Acked-by`**.  DEP-3 names `Reviewed-by` and `Acked-by` as alternative spellings of one field;
  `reviewed_by()` reads `Reviewed-by` only (as the lossy `PatchHeader` of the crate does).
* **`No-Support-for-Architecture-all`** has one defined value in the repository format, `Packages`;
  the getter compares the text with `yes` (`C15_release_nsaa_packages`): reported as a candidate.
-/
set_option linter.unusedSimpArgs false
set_option linter.unusedVariables false
namespace Deb822Verif.Props.C15More
open Deb822Verif Deb Node Text Typed
open Deb822Verif.Props.C04 Deb822Verif.Props.C15

/-! ## 1 — the (ws, nl) codec pair -/

theorem sw_cons_ws (t rest : Str) (w : Char) (hw : isWhitespace w = true) (h : C18.Tok t) :
    splitWhitespace (t ++ w :: rest) = t :: splitWhitespace rest := by
  have := C18.sw_go_tok t (w :: rest) [] h.2
  simp only [List.append_nil] at this
  unfold splitWhitespace
  rw [this]
  simp [splitWhitespace.go, hw, h.1]

theorem splitWs_join_nl (l : List Str) (h : ∀ x ∈ l, C18.Tok x) : splitWhitespace (join ['\n'] l) = l := by
  induction l with
  | nil => rfl
  | cons x xs ih =>
    cases xs with
    | nil => simp [join, C18.sw_single x (h x (by simp))]
    | cons y ys =>
      have e : join ['\n'] (x :: y :: ys) = x ++ '\n' :: join ['\n'] (y :: ys) := by simp [join]
      rw [e, sw_cons_ws x _ '\n' (by decide) (h x (by simp)), ih (fun z hz => h z (by simp [hz]))]

/-- lists written one element per line and read with `split_whitespace()` (`Files-Excluded`): any
    list of tokens (non-empty, free of white space), the empty list included -/
theorem C15_codec_list_ws_nl (l : List Str) (tr : Bool) (h : ∀ x ∈ l, C18.Tok x) :
    RoundTrip (.list .ws false .str) (.list .nl tr .str) (.list l) := by
  intro st a
  have : sepText .nl = ['\n'] := by decide
  simp [encode, decode, splitBy, this, splitWs_join_nl l h]

example : ∀ x ∈ ["debian/missing-sources".toList, "a".toList, "c/*".toList], C18.Tok x := by decide

/-- the side condition cannot be dropped: an element with a blank comes back as two elements -/
theorem C15_codec_list_ws_nl_needs_tokens :
    (encode (.list .nl false .str) (.list ["a b".toList, "c".toList])).map (decode (.list .ws false .str) false false)
      = some (.list ["a".toList, "b".toList, "c".toList]) := by decide +kernel

/-- … lifted to the table pair `copyright.Header.files_excluded` / `set_files_excluded`: on every
    prior paragraph, `set_files_excluded(l)` then `files_excluded()` is `l` -/
theorem C15_files_excluded_set_then_get (cs : List DNode) (l : List Str) (h : ∀ x ∈ l, C18.Tok x) (a : Bool) :
    findRow "copyright.Header".toList "files_excluded".toList = some (rowOf "copyright.Header" "files_excluded")
    ∧ setterOf (rowOf "copyright.Header" "files_excluded") = some (rowOf "copyright.Header" "set_files_excluded")
    ∧ ∃ cs', setSem (rowOf "copyright.Header" "set_files_excluded") (.list l) cs = some cs'
        ∧ getSem (rowOf "copyright.Header" "files_excluded") a cs' = .list l := by
  have hs : setterOf (rowOf "copyright.Header" "files_excluded")
      = some (rowOf "copyright.Header" "set_files_excluded") := by decide +kernel
  refine ⟨by decide +kernel, hs, ?_⟩
  have e1 : (rowOf "copyright.Header" "files_excluded").shape = .list .ws false .str := by decide +kernel
  have e2 : (rowOf "copyright.Header" "set_files_excluded").shape = .list .nl false .str := by decide +kernel
  apply C15_table_set_then_get _ (by decide +kernel) (by decide +kernel) (by decide +kernel) _ hs
    (by decide +kernel) (by decide +kernel) cs (.list l) a (by simp [clears])
  · rw [e2]; decide
  · rw [e2]; decide
  · rw [e1, e2]; exact C15_codec_list_ws_nl l false h

/-- the separator combinations of the string-list pairs of the table -/
def listPairCombos : List (Sep × Bool × Sep) :=
  Gen.Accessors.rows.filterMap fun g =>
    match g.kind, g.shape, setterOf g with
    | .get, .list gs gt .str, some s =>
      (match s.shape with
       | .list ss _ .str => some (gs, gt, ss)
       | _ => none)
    | _, _, _ => none

/-- every getter/setter pair of string lists is one of four combinations, each with its codec
    theorem: (comma+trim, comma) `C15_codec_list_comma`, (ws, space) `C15_codec_list_ws`,
    (ws, nl) `C15_codec_list_ws_nl`, (nl, nl) `C15_codec_list_nl` -/
theorem C15_table_list_pairs_covered :
    ∀ c ∈ listPairCombos, c ∈ [(Sep.comma, true, Sep.comma), (.ws, false, .space), (.ws, false, .nl), (.nl, false, .nl)] := by
  decide +kernel

/-! ## 5 — list setters called with the empty list -/

/-- what the model (and the code: audit run) does with `[]`: `join` gives the empty text, the
    setter writes an empty field, and `"".split(sep)` is `[""]` — for comma, newline and
    single-space readers the getter returns ONE empty element, not the empty list -/
theorem C15_codec_list_empty :
    (encode (.list .comma false .str) (.list [])).map (decode (.list .comma true .str) false false) = some (.list [[]])
    ∧ (encode (.list .nl false .str) (.list [])).map (decode (.list .nl false .str) false false) = some (.list [[]])
    ∧ (encode (.list .space false .str) (.list [])).map (decode (.list .space false .str) false false) = some (.list [[]])
    ∧ encode (.list .comma false .str) (.list []) = some [] := by decide +kernel

/-- readers built on `split_whitespace()` / `lines()` do return `[]` for the empty field: the pairs
    (ws, space), (ws, nl) and the typed line lists round-trip the empty list -/
theorem C15_codec_list_empty_ok (tr : Bool) (ty : Str) :
    RoundTrip (.list .ws false .str) (.list .space tr .str) (.list [])
    ∧ RoundTrip (.list .ws false .str) (.list .nl tr .str) (.list [])
    ∧ RoundTrip (.list .lines false (.typed ty)) (.list .nl tr (.typed ty)) (.list []) :=
  ⟨C15_codec_list_ws [] tr (by simp), C15_codec_list_ws_nl [] tr (by simp),
   C15_codec_list_lines ty [] tr (by simp) (by simp)⟩

/-- the getters whose pair does NOT return `[]` after `set_f([])` -/
def emptyListBad : List (Str × Str) :=
  Gen.Accessors.rows.filterMap fun g =>
    match g.kind, g.shape, setterOf g with
    | .get, .list gs _ _, some _ => if gs == .ws || gs == .lines then none else some (g.view, g.method)
    | _, _, _ => none

/-- exactly the comma lists (Uploaders twice, Changelogs, `tags(tag)`) and the Copyright lines -/
theorem C15_table_empty_list_rows :
    emptyListBad = [("control.Source".toList, "uploaders".toList), ("apt.Source".toList, "uploaders".toList),
      ("apt.Package".toList, "tags".toList), ("apt.Release".toList, "changelogs".toList),
      ("copyright.FilesParagraph".toList, "copyright".toList)] := by decide +kernel

/-! ## 2 — rows whose Rust type has no model in `Model/Typed.lean`: Version, Url, dates

`RoundTrip g s v` quantifies over `assume = false`, where `decode` of such a shape is `.unmodelled`:
it is false for every value, `C15_table_set_then_get` cannot be instantiated on these rows.  The
real getter is `self.0.get(NAME).map(|s| s.parse().unwrap())` (strict) or
`.and_then(|s| s.parse().ok())`; `extGet` is that composition for ANY reader `parse`. -/

/-- a Rust type by its `FromStr` / `Display` pair (`Url::parse` / `as_str`,
    `DateTime::parse_from_rfc2822` / `to_rfc2822`, `NaiveDate::parse_from_str(_, "%Y-%m-%d")` /
    `format("%Y-%m-%d")`) -/
structure ExtCodec (α : Type) where
  parse : Str → Option α
  print : α → Str

inductive ExtRes (α : Type)
  | absent            -- `None`
  | value (v : α)
  | panic             -- `unwrap()` on `Err`
  deriving DecidableEq, Repr

/-- the getter of a row over the codec of its Rust type -/
def extGet {α : Type} (C : ExtCodec α) (g : Row) (cs : List DNode) : ExtRes α :=
  match firstOf cs g.names with
  | none => .absent
  | some raw =>
    match C.parse raw with
    | some v => .value v
    | none => if g.strict then .panic else .absent

/-- the types `tyParse` has a model of -/
def modelledTypes : List Str :=
  ["Priority".toList, "MultiArch".toList, "Urgency".toList, "usize".toList] ++ checksumTypes
    ++ ["File".toList, "Forwarded".toList, "AppliedUpstream".toList]

theorem tyParse_unknown (ty : Str) (h : modelledTypes.contains ty = false) (raw : Str) :
    tyParse ty raw = .unknown := by
  simp only [modelledTypes, checksumTypes, List.contains_eq_mem, List.mem_append, List.mem_cons,
    List.not_mem_nil, or_false, decide_eq_false_iff_not, not_or] at h
  obtain ⟨⟨⟨h1, h2, h3, h4⟩, h5, h6, h7, h8⟩, h9, h10, h11⟩ := h
  have hc : checksumTypes.contains ty = false := by
    rw [List.contains_eq_mem]
    apply decide_eq_false
    intro hm
    simp only [checksumTypes, List.mem_cons, List.not_mem_nil, or_false] at hm
    rcases hm with hm | hm | hm | hm
    · exact h5 hm
    · exact h6 hm
    · exact h7 hm
    · exact h8 hm
  simp only [tyParse, h1, h2, h3, h4, h9, h10, h11, hc, ↓reduceIte, Bool.false_eq_true]

/-- shapes read through an external `FromStr` -/
def isExtShape : Shape → Bool
  | .typed ty => !modelledTypes.contains ty
  | .rfc2822 => true
  | .dateYmd => true
  | _ => false

/-- the text-level model (`assume = true`) and `extGet` look at the same field text -/
theorem extGet_refines {α : Type} (C : ExtCodec α) (g : Row) (hx : isExtShape g.shape = true) (hop : g.op = .get)
    (cs : List DNode) (raw : Str) (h : firstOf cs g.names = some raw) :
    getSem g true cs = .text raw
    ∧ extGet C g cs = (match C.parse raw with
        | some v => .value v
        | none => if g.strict then .panic else .absent) := by
  refine ⟨?_, by simp [extGet, h]⟩
  simp only [getSem, hop, h]
  cases hs : g.shape with
  | typed ty =>
    rw [hs] at hx
    have : modelledTypes.contains ty = false := by simpa [isExtShape] using hx
    simp [decode, tyVal, tyParse_unknown ty this]
  | rfc2822 => simp [decode]
  | dateYmd => simp [decode]
  | _ => rw [hs] at hx; simp [isExtShape] at hx

/-- the getter/setter pairs of the table with an external type, Relations (Props/C15Rel) aside -/
def extPairs : List (Str × Str × Shape) :=
  Gen.Accessors.rows.filterMap fun g =>
    if g.kind == .get && isExtShape g.shape && !isRelRow g && (setterOf g).isSome then
      some (g.view, g.method, g.shape) else none

/-- three `Version` pairs, three `Url` pairs, two RFC 2822 dates, one `%Y-%m-%d` date -/
theorem C15_table_ext_pairs :
    extPairs = [
      ("control.Source".toList, "homepage".toList, .typed "Url".toList),
      ("control.Binary".toList, "homepage".toList, .typed "Url".toList),
      ("apt.Source".toList, "version".toList, .typed "Version".toList),
      ("apt.Package".toList, "version".toList, .typed "Version".toList),
      ("apt.Package".toList, "homepage".toList, .typed "Url".toList),
      ("apt.Release".toList, "date".toList, .rfc2822),
      ("apt.Release".toList, "valid_until".toList, .rfc2822),
      ("buildinfo.Buildinfo".toList, "version".toList, .typed "Version".toList),
      ("dep3.PatchHeader".toList, "last_update".toList, .dateYmd)] := by decide +kernel

def extPairOk (g : Row) : Bool :=
  !(g.kind == .get && isExtShape g.shape) ||
    match setterOf g with
    | none => true
    | some s => s.shape == g.shape && g.op == .get

theorem ext_table_check : Gen.Accessors.rows.all extPairOk = true := by decide +kernel

theorem ext_row_facts (g : Row) (hg : g ∈ Gen.Accessors.rows) (hk : g.kind = .get) (hx : isExtShape g.shape = true)
    (s : Row) (hs : setterOf g = some s) : s.shape = g.shape ∧ g.op = .get := by
  have h := ext_table_check
  simp only [List.all_eq_true] at h
  have h := h g hg
  simp only [extPairOk, hk, hx, hs, beq_self_eq_true, Bool.and_self, Bool.not_true, Bool.false_or,
    Bool.and_eq_true, beq_iff_eq] at h
  exact h

/-- **set then get through an external type, on the generated table.**  For every `f` / `set_f`
    pair of an external type (outside `knownBad`), every codec `C`, every prior paragraph and every
    value `v` with `hrt : C.parse (C.print v) = some v`: the setter is one `Paragraph::set` of
    `C.print v` on the pair's one field, the getter's `get` finds exactly that text, the parse
    succeeds (no `unwrap()` panic) and the getter returns `v` -/
theorem C15_table_set_then_get_ext {α : Type} (C : ExtCodec α)
    (g : Row) (hg : g ∈ Gen.Accessors.rows) (hk : g.kind = .get) (ho : g.isOpaque = false)
    (hx : isExtShape g.shape = true)
    (s : Row) (hs : setterOf g = some s) (hb : isBad s = false) (hu : unmodelledShape s = false)
    (cs : List DNode) (v : α) (hrt : C.parse (C.print v) = some v) :
    ∃ k cs', k ∈ s.names ∧ setSem s (.text (C.print v)) cs = some cs' ∧ cs' = paraSet cs k (C.print v)
      ∧ firstOf cs' g.names = some (C.print v)
      ∧ getSem g true cs' = .text (C.print v)
      ∧ extGet C g cs' = .value v := by
  obtain ⟨hsh, hop⟩ := ext_row_facts g hg hk hx s hs
  have hp := C15_table_pairs' g hg hk ho s hs hb hu
  obtain ⟨k, hkt, hmem, hnames, h1, _⟩ := C15_pair_sound g s hp cs (.text (C.print v)) true
  have hw : writeText s.shape (firstOf cs s.names) (.text (C.print v)) = some (C.print v) := by
    rw [hsh]
    cases hgs : g.shape with
    | typed ty => rfl
    | rfc2822 => rfl
    | dateYmd => rfl
    | _ => rw [hgs] at hx; simp [isExtShape] at hx
  obtain ⟨e1, e2, e3⟩ := h1 _ (by simp [clears]) hw
  have hd : s.dflt ∈ s.names := by
    simp only [pairOk, Bool.and_eq_true, List.contains_eq_mem, decide_eq_true_eq] at hp
    exact hp.1.1.2
  have hf : firstOf (paraSet cs k (C.print v)) g.names = some (C.print v) := by
    rw [hnames, hkt]; exact C15_target_get cs s.names s.dflt _ hd
  obtain ⟨r1, r2⟩ := extGet_refines C g hx hop _ _ hf
  refine ⟨k, _, hmem, e1, rfl, hf, r1, ?_⟩
  rw [r2, hrt]

/-! ### `debversion::Version`: the hypothesis discharged from the model of C12 / C13 -/

/-- `Version::from_str` / `Display for Version` (`Model/RelAccess.lean`) -/
def versionCodec : ExtCodec Rel.Version := ⟨Rel.Version.parse, Rel.Version.display⟩

/-- **set_version(v) then version() is v** — for the three `Version` pairs (apt `Source`, apt
    `Package`, `Buildinfo`), every prior paragraph and EVERY value `v` of the type that
    `Version::from_str` can return (`hv`: `v` is the parse of some text; a `Version` built by hand
    with fields no text parses to is outside): the field holds `v.to_string()`, `from_str` accepts
    it, the `unwrap()` does not fire and the value is `v`.  No assumption on `debversion` beyond the
    model of `from_str` / `Display` tied to the crate by the C12 / C13 harness. -/
theorem C15_version_set_then_get (g : Row) (hg : g ∈ Gen.Accessors.rows) (hk : g.kind = .get)
    (hsh : g.shape = .typed "Version".toList) (s : Row) (hs : setterOf g = some s) (cs : List DNode)
    (raw : Str) (v : Rel.Version) (hv : Rel.Version.parse raw = some v) :
    ∃ k cs', k ∈ s.names ∧ setSem s (.text v.display) cs = some cs' ∧ cs' = paraSet cs k v.display
      ∧ firstOf cs' g.names = some v.display
      ∧ extGet versionCodec g cs' = .value v := by
  have hx : isExtShape g.shape = true := by rw [hsh]; decide
  have key : ∀ r ∈ Gen.Accessors.rows, r.kind = .get → r.shape = .typed "Version".toList →
      r.isOpaque = false ∧ ∀ s, setterOf r = some s → isBad s = false ∧ unmodelledShape s = false := by
    decide +kernel
  obtain ⟨ho, hset⟩ := key g hg hk hsh
  obtain ⟨hb, hu⟩ := hset s hs
  obtain ⟨k, cs', h1, h2, h3, h4, _, h6⟩ :=
    C15_table_set_then_get_ext versionCodec g hg hk ho hx s hs hb hu cs v (Rel.Version.parse_display_stable hv)
  exact ⟨k, cs', h1, h2, h3, h4, h6⟩

/-- non-vacuity: a version with epoch and revision; the pair `apt.Package.version` -/
example : Rel.Version.parse "2:1.0~rc1-1ubuntu1".toList = some ⟨some 2, "1.0~rc1".toList, some "1ubuntu1".toList⟩ := by
  decide +kernel

example (cs : List DNode) : ∃ k cs', k ∈ (rowOf "apt.Package" "set_version").names
    ∧ setSem (rowOf "apt.Package" "set_version") (.text "2:1.0~rc1-1ubuntu1".toList) cs = some cs'
    ∧ cs' = paraSet cs k "2:1.0~rc1-1ubuntu1".toList
    ∧ firstOf cs' (rowOf "apt.Package" "version").names = some "2:1.0~rc1-1ubuntu1".toList
    ∧ extGet versionCodec (rowOf "apt.Package" "version") cs'
        = .value ⟨some 2, "1.0~rc1".toList, some "1ubuntu1".toList⟩ := by
  have h := C15_version_set_then_get (rowOf "apt.Package" "version") (by decide +kernel) (by decide +kernel)
    (by decide +kernel) (rowOf "apt.Package" "set_version") (by decide +kernel) cs
    "2:1.0~rc1-1ubuntu1".toList ⟨some 2, "1.0~rc1".toList, some "1ubuntu1".toList⟩ (by decide +kernel)
  have e : (⟨some 2, "1.0~rc1".toList, some "1ubuntu1".toList⟩ : Rel.Version).display = "2:1.0~rc1-1ubuntu1".toList := by
    decide +kernel
  rw [e] at h
  exact h

/-- what the strict getter does with a text `from_str` rejects (F-C15-11): it panics -/
theorem C15_version_get_bad :
    Rel.Version.parse "1.0 beta".toList = none
    ∧ ∀ cs, firstOf cs (rowOf "apt.Package" "version").names = some "1.0 beta".toList →
        extGet versionCodec (rowOf "apt.Package" "version") cs = .panic := by
  have hp : Rel.Version.parse "1.0 beta".toList = none := by decide +kernel
  refine ⟨hp, fun cs h => ?_⟩
  have hst : (rowOf "apt.Package" "version").strict = true := by decide +kernel
  unfold extGet
  rw [h]
  simp only [versionCodec]
  rw [hp]
  simp [hst]

/-! ### `url::Url`, chrono: the round trip of the type is an explicit hypothesis

`C15_table_set_then_get_ext` with `hrt` is the statement for the three `Url` pairs and the three
date pairs; `hrt` (`Url::parse(u.as_str()) == Ok(u)`, `parse_from_rfc2822(d.to_rfc2822()) == Ok(d)`,
`parse_from_str(d.format("%Y-%m-%d"), "%Y-%m-%d") == Ok(d)`) is registered as an assumption about
the crates url and chrono.  The examples instantiate the theorem on the real table rows with a
sample codec (a stand-in satisfying the hypothesis, not a model of chrono). -/

/-- a sample `%Y-%m-%d` codec: exactly `dddd-dd-dd` -/
def sampleDate : ExtCodec (Nat × Nat × Nat) where
  parse s :=
    match s with
    | [y1, y2, y3, y4, '-', m1, m2, '-', d1, d2] =>
      if [y1, y2, y3, y4, m1, m2, d1, d2].all Rel.isAsciiDigit then
        some (Rel.digitsVal [y1, y2, y3, y4], Rel.digitsVal [m1, m2], Rel.digitsVal [d1, d2])
      else none
    | _ => none
  print v :=
    let pad (n w : Nat) : Str := List.replicate (w - (toString n).length) '0' ++ (toString n).toList
    pad v.1 4 ++ '-' :: pad v.2.1 2 ++ '-' :: pad v.2.2 2

example : sampleDate.print (2024, 2, 29) = "2024-02-29".toList
    ∧ sampleDate.parse (sampleDate.print (2024, 2, 29)) = some (2024, 2, 29) := by decide +kernel

/-- `set_last_update(d)` then `last_update()` is `d`, given the round trip of the date type -/
example (cs : List DNode) : ∃ k cs', k ∈ (rowOf "dep3.PatchHeader" "set_last_update").names
    ∧ setSem (rowOf "dep3.PatchHeader" "set_last_update") (.text (sampleDate.print (2024, 2, 29))) cs = some cs'
    ∧ cs' = paraSet cs k (sampleDate.print (2024, 2, 29))
    ∧ firstOf cs' (rowOf "dep3.PatchHeader" "last_update").names = some (sampleDate.print (2024, 2, 29))
    ∧ getSem (rowOf "dep3.PatchHeader" "last_update") true cs' = .text (sampleDate.print (2024, 2, 29))
    ∧ extGet sampleDate (rowOf "dep3.PatchHeader" "last_update") cs' = .value (2024, 2, 29) :=
  C15_table_set_then_get_ext sampleDate (rowOf "dep3.PatchHeader" "last_update") (by decide +kernel)
    (by decide +kernel) (by decide +kernel) (by decide +kernel) (rowOf "dep3.PatchHeader" "set_last_update")
    (by decide +kernel) (by decide +kernel) (by decide +kernel) cs (2024, 2, 29) (by decide +kernel)

/-- … and for ANY codec of `Url` satisfying the hypothesis, on `control.Source.homepage` -/
example {α : Type} (C : ExtCodec α) (u : α) (hrt : C.parse (C.print u) = some u) (cs : List DNode) :
    ∃ cs', setSem (rowOf "control.Source" "set_homepage") (.text (C.print u)) cs = some cs'
      ∧ extGet C (rowOf "control.Source" "homepage") cs' = .value u := by
  obtain ⟨k, cs', _, h2, _, _, _, h6⟩ :=
    C15_table_set_then_get_ext C (rowOf "control.Source" "homepage") (by decide +kernel)
      (by decide +kernel) (by decide +kernel) (by decide +kernel) (rowOf "control.Source" "set_homepage")
      (by decide +kernel) (by decide +kernel) (by decide +kernel) cs u hrt
  exact ⟨cs', h2, h6⟩

/-! ## 3 — set, print, parse, get: every pair

`observe_at` of the property: `to_string()` re-parsed.  `C15_pair_sound` says what the setter does to
the tree; `C04_reread_para_set` says that the printed paragraph reads back to `ListSpec.set` of the
old content when name and value are valid; a getter reading by `get` depends on the items only. -/

theorem pget_items_congr (cs cs' : List DNode) (h : pitems cs' = pitems cs) (k : Str) : pget cs' k = pget cs k := by
  rw [C15_refine_get, C15_refine_get, h]

theorem firstOf_items_congr (cs cs' : List DNode) (h : pitems cs' = pitems cs) (names : List Str) :
    firstOf cs' names = firstOf cs names :=
  firstOf_congr cs cs' names (fun n _ => pget_items_congr cs cs' h n)

/-- **set, print, parse, get.**  Any two rows satisfying the pair conditions whose names are valid
    deb822 field names; `p` a well-formed paragraph (the parse of its text); `v` any value whose
    written text `t` is a `ValidValue`.  After the setter, the printed paragraph is accepted by the
    strict lossless reader without error; it has ONE paragraph `q`; the fields of `q` are the old
    ones with field `k` (one of the names) set to `t`; the getter's `get` on `q` finds `t` and the
    getter returns `decode` of it; every other field reads as before. -/
theorem C15_set_reread (g s : Row) (hp : pairOk g s = true) (hkeys : ∀ n ∈ s.names, Spec.ValidKey n)
    (p : Spec.ParaS) (hpw : p.WF) (ht : p.Term false) (v : Val) (a : Bool) (hc : clears s v = false)
    (t : Str) (hw : writeText s.shape (firstOf p.node.children s.names) v = some t) (hv : Spec.ValidValue t) :
    ∃ k cs', k ∈ s.names ∧ setSem s v p.node.children = some cs'
      ∧ ∃ d : Spec.DocS, d.WF ∧ d.str = textList cs' ∧ Deb.parse (textList cs') = ⟨d.tree, []⟩
        ∧ readStrict (textList cs') = .ok d.tree
        ∧ ∃ q : Spec.ParaS, paragraphs d.tree = [q.node]
          ∧ pitems q.node.children = ListSpec.set p.content k t
          ∧ firstOf q.node.children g.names = some t
          ∧ getSem g a q.node.children = decode g.shape g.strict a t
          ∧ (∀ k', k' ≠ k → Deb.get q.node k' = Deb.get p.node k') := by
  obtain ⟨k, hkt, hmem, hnames, h1, _⟩ := C15_pair_sound g s hp p.node.children v a
  obtain ⟨e1, _, e3⟩ := h1 t hc hw
  obtain ⟨d, d1, d2, d3, d4, d5⟩ := C04_reread_para_set p hpw ht k t (hkeys k hmem) hv
  refine ⟨k, _, hmem, e1, d, d1, d2, d3, d4, ?_⟩
  have hpar : (d.paras.map fun pg => pg.1.node).map items = [ListSpec.set p.content k t] := by
    rw [← Deb.paragraphs_tree]; exact d5
  have hgop : g.op = .get := by
    simp only [pairOk, Bool.and_eq_true, beq_iff_eq] at hp
    exact hp.1.1.1.1.1.1.2
  have hd : s.dflt ∈ s.names := by
    simp only [pairOk, Bool.and_eq_true, List.contains_eq_mem, decide_eq_true_eq] at hp
    exact hp.1.1.2
  cases hps : d.paras with
  | nil => rw [hps] at hpar; simp at hpar
  | cons pg rest =>
    cases rest with
    | cons _ _ => rw [hps] at hpar; simp at hpar
    | nil =>
      rw [hps] at hpar
      simp only [List.map_cons, List.map_nil, List.cons.injEq, and_true] at hpar
      have hq : pitems pg.1.node.children = ListSpec.set p.content k t := hpar
      have hq' : pitems pg.1.node.children = pitems (paraSet p.node.children k t) := by
        rw [hq, C04_refine_set, pitems_para]
      have hf : firstOf pg.1.node.children g.names = some t := by
        rw [firstOf_items_congr _ _ hq', hnames, hkt]
        exact C15_target_get p.node.children s.names s.dflt t hd
      refine ⟨pg.1, by rw [Deb.paragraphs_tree, hps]; rfl, hq, hf, ?_, ?_⟩
      · simp only [getSem, hgop, hf]
      · intro k' hk'
        have a1 : Deb.get pg.1.node k' = lget (pitems pg.1.node.children) k' := C15_refine_get _ k'
        have a2 : Deb.get p.node k' = lget (pitems p.node.children) k' := C15_refine_get _ k'
        rw [a1, a2, hq, lget_set_other _ _ _ _ hk', pitems_para]

/-- every field-name literal of the table that is not a template is a valid deb822 field name
    (generalises `C15_rel_names_valid` to all 329 rows) -/
theorem C15_table_names_valid :
    ∀ r ∈ Gen.Accessors.rows, ∀ n ∈ r.names, isTemplate n = false → Spec.ValidKey n := by decide +kernel

/-- … and the two templates instantiated with a valid field name / a vendor made of field-name
    characters give a valid field name -/
theorem C15_template_names_valid (arg : Str) :
    (Spec.ValidKey arg → Spec.ValidKey (substName arg "{tag}".toList))
    ∧ ((∀ x ∈ arg, isKeyChar x = true) → Spec.ValidKey (substName arg "Bug-{vendor}".toList)) := by
  refine ⟨fun h => by rw [substName_tag]; exact h, fun h => ?_⟩
  rw [substName_vendor]
  refine ⟨'B', "ug-".toList ++ arg, rfl, by decide, by decide, ?_⟩
  intro x hx
  simp only [List.mem_append] at hx
  rcases hx with hx | hx
  · revert x; decide
  · exact h x hx

/-- **the re-read theorem on the generated table**: every `f` / `set_f` pair outside `knownBad`
    whose names are literals, every well-formed prior paragraph, every value `v` of the codec's
    domain (`hrt`) that is written as a `ValidValue` (`hv`): the printed paragraph re-reads without
    error to a paragraph on which the getter returns `v`; the other fields read as before -/
theorem C15_table_set_reread (g : Row) (hg : g ∈ Gen.Accessors.rows) (hk : g.kind = .get) (ho : g.isOpaque = false)
    (s : Row) (hs : setterOf g = some s) (hb : isBad s = false) (hu : unmodelledShape s = false)
    (hnt : ∀ n ∈ s.names, isTemplate n = false)
    (p : Spec.ParaS) (hpw : p.WF) (ht : p.Term false) (v : Val) (a : Bool) (hc : clears s v = false)
    (h1 : s.shape ≠ .firstLine) (h2 : s.shape ≠ .restLines)
    (hrt : RoundTrip g.shape s.shape v) (hv : ∀ t, encode s.shape v = some t → Spec.ValidValue t) :
    ∃ k cs', k ∈ s.names ∧ setSem s v p.node.children = some cs'
      ∧ ∃ d : Spec.DocS, d.WF ∧ d.str = textList cs' ∧ Deb.parse (textList cs') = ⟨d.tree, []⟩
        ∧ readStrict (textList cs') = .ok d.tree
        ∧ ∃ q : Spec.ParaS, paragraphs d.tree = [q.node]
          ∧ getSem g a q.node.children = v
          ∧ (∀ k', k' ≠ k → Deb.get q.node k' = Deb.get p.node k') := by
  have hp := C15_table_pairs' g hg hk ho s hs hb hu
  have hsrow : s ∈ Gen.Accessors.rows := by
    have := List.mem_of_find?_eq_some hs
    exact this
  have hkeys : ∀ n ∈ s.names, Spec.ValidKey n := fun n hn => C15_table_names_valid s hsrow n hn (hnt n hn)
  have hr := hrt g.strict a
  cases he : encode s.shape v with
  | none => rw [he] at hr; cases hr
  | some t =>
    rw [he] at hr
    simp only [Option.map_some, Option.some.injEq] at hr
    have hw : writeText s.shape (firstOf p.node.children s.names) v = some t := by
      rw [writeText_eq_encode _ _ _ h1 h2, he]
    obtain ⟨k, cs', m1, m2, d, d1, d2, d3, d4, q, q1, _, _, q4, q5⟩ :=
      C15_set_reread g s hp hkeys p hpw ht v a hc t hw (hv t he)
    exact ⟨k, cs', m1, m2, d, d1, d2, d3, d4, q, q1, by rw [q4, hr], q5⟩

/-! ### which values are written as a `ValidValue` -/

theorem validValue_iff (v x : Str) (xs : List Str) (h : splitOn '\n' v = x :: xs) :
    Spec.ValidValue v ↔ (x ≠ [] ∧ Spec.ValidFirst x ∧ ∀ t ∈ xs, Spec.ValidCont t) := by
  simp only [Spec.ValidValue, h]

theorem noNl_not_mem (x : Str) (h : Spec.NoNl x) : '\n' ∉ x := by
  intro hm
  have := h '\n' hm
  revert this; decide

/-- a one-line text: non-empty, no CR / LF, not starting with a blank -/
def OneLine (x : Str) : Prop := x ≠ [] ∧ Spec.ValidFirst x

instance (x : Str) : Decidable (OneLine x) := by unfold OneLine; exact inferInstance

theorem validCont_oneLine (x : Str) (h : Spec.ValidCont x) : OneLine x := by
  obtain ⟨h1, c, cs, rfl, h2, _⟩ := h
  refine ⟨by simp, h1, ?_⟩
  intro c' hc'
  simp only [List.head?_cons, Option.some.injEq] at hc'
  subst hc'
  exact h2

/-- a text whose lines are: a one-line first line, then continuation lines -/
theorem validValue_lines (x : Str) (xs : List Str) (hx : OneLine x) (hxs : ∀ y ∈ xs, Spec.ValidCont y) :
    Spec.ValidValue (join ['\n'] (x :: xs)) := by
  have hs : splitOn '\n' (join ['\n'] (x :: xs)) = x :: xs := by
    apply splitOn_join '\n' (x :: xs) (by simp)
    intro z hz
    simp only [List.mem_cons] at hz
    rcases hz with rfl | hz
    · exact noNl_not_mem _ hx.2.1
    · exact noNl_not_mem _ (hxs z hz).1
  exact (validValue_iff _ x xs hs).2 ⟨hx.1, hx.2, hxs⟩

theorem validValue_oneLine (x : Str) (h : OneLine x) : Spec.ValidValue x := by
  have := validValue_lines x [] h (by simp)
  simpa [join] using this

/-- **strings** (`str` shape, DEP-3 author, …): the value is the text; it re-reads iff it is a
    `ValidValue` — nothing to prove.  **Keyword types**: every printed keyword is a `ValidValue` -/
theorem validValue_enum :
    ∀ p ∈ [Gen.Enums.priority, Gen.Enums.multiArch, Gen.Enums.urgency],
      ∀ kw ∈ Enum.printed p, Spec.ValidValue kw := by decide +kernel

/-- **usize**: every decimal numeral -/
theorem validValue_usize (n : Nat) : Spec.ValidValue (Codec.decDigits n) := by
  apply validValue_oneLine
  have hd : ∀ d, d < 10 → isNewline (Codec.digitChar d) = false ∧ isIndent (Codec.digitChar d) = false := by decide
  refine ⟨C18.decDigits_ne_nil n, ?_, ?_⟩
  · intro c hc
    obtain ⟨d, hd', rfl⟩ := C18.decDigits_all_digit n c hc
    exact (hd d hd').1
  · intro c hc
    have hm : c ∈ Codec.decDigits n := by
      cases hl : Codec.decDigits n with
      | nil => rw [hl] at hc; cases hc
      | cons y ys => rw [hl] at hc; simp only [List.head?_cons, Option.some.injEq] at hc; subst hc; simp
    obtain ⟨d, hd', rfl⟩ := C18.decDigits_all_digit n c hm
    exact (hd d hd').2

/-- **flags**: `yes`, `no` -/
theorem validValue_flags : Spec.ValidValue yes ∧ Spec.ValidValue no := by decide +kernel

theorem noNl_append (a b : Str) (ha : Spec.NoNl a) (hb : Spec.NoNl b) : Spec.NoNl (a ++ b) := by
  intro c hc
  simp only [List.mem_append] at hc
  rcases hc with hc | hc
  · exact ha c hc
  · exact hb c hc

theorem noNl_join (sep : Str) (l : List Str) (hsep : Spec.NoNl sep) (h : ∀ x ∈ l, Spec.NoNl x) :
    Spec.NoNl (join sep l) := by
  induction l with
  | nil => intro c hc; simp [join] at hc
  | cons x xs ih =>
    cases xs with
    | nil => simpa [join] using h x (by simp)
    | cons y ys =>
      have e : join sep (x :: y :: ys) = x ++ (sep ++ join sep (y :: ys)) := by simp [join]
      rw [e]
      exact noNl_append _ _ (h x (by simp)) (noNl_append _ _ hsep (ih (fun z hz => h z (by simp [hz]))))

theorem head_join (sep x : Str) (xs : List Str) (hx : x ≠ []) : (join sep (x :: xs)).head? = x.head? := by
  cases x with
  | nil => exact absurd rfl hx
  | cons c cs =>
    cases xs with
    | nil => simp [join]
    | cons y ys => simp [join]

/-- **comma and space lists** (`Uploaders`, `Changelogs`, `Architectures`, `Binary`, …): a non-empty
    list of elements without CR / LF whose first element is non-empty and does not start with a
    blank is written on one line -/
theorem validValue_list_oneLine (sep : Sep) (hsep : sep = .comma ∨ sep = .space) (x : Str) (xs : List Str)
    (hx : OneLine x) (hxs : ∀ y ∈ xs, Spec.NoNl y) :
    Spec.ValidValue (join (sepText sep) (x :: xs)) := by
  apply validValue_oneLine
  have hs : Spec.NoNl (sepText sep) := by rcases hsep with rfl | rfl <;> decide
  refine ⟨?_, ?_, ?_⟩
  · intro e
    have := head_join (sepText sep) x xs hx.1
    rw [e] at this
    cases x with
    | nil => exact hx.1 rfl
    | cons c cs => simp at this
  · apply noNl_join _ _ hs
    intro z hz
    simp only [List.mem_cons] at hz
    rcases hz with rfl | hz
    · exact hx.2.1
    · exact hxs z hz
  · intro c hc
    rw [head_join _ x xs hx.1] at hc
    exact hx.2.2 c hc

/-- **line lists** (`Copyright`, `Files-Excluded` as written, `Files`, `Checksums-*`): first element
    one line, every further element a continuation line (non-empty, no CR / LF, not starting with
    a blank or `#`) -/
theorem validValue_list_nl (x : Str) (xs : List Str) (hx : OneLine x) (hxs : ∀ y ∈ xs, Spec.ValidCont y) :
    Spec.ValidValue (join (sepText .nl) (x :: xs)) := by
  have : sepText .nl = ['\n'] := by decide
  rw [this]
  exact validValue_lines x xs hx hxs

/-- a token (non-empty, free of white space) that does not start with `#` is a continuation line -/
theorem validCont_tok (x : Str) (h : C18.Tok x) (hh : x.head? ≠ some '#') : Spec.ValidCont x := by
  obtain ⟨hne, hws⟩ := h
  have hnw : ∀ c, isWhitespace c = false → isNewline c = false ∧ isIndent c = false := by
    intro c hc
    refine ⟨?_, ?_⟩
    · cases h : isNewline c with
      | false => rfl
      | true =>
        simp only [isNewline, Bool.or_eq_true, beq_iff_eq] at h
        rcases h with rfl | rfl <;> revert hc <;> decide
    · cases h : isIndent c with
      | false => rfl
      | true =>
        simp only [isIndent, Bool.or_eq_true, beq_iff_eq] at h
        rcases h with rfl | rfl <;> revert hc <;> decide
  cases x with
  | nil => exact absurd rfl hne
  | cons c cs =>
    refine ⟨fun z hz => (hnw z (hws z hz)).1, c, cs, rfl, (hnw c (hws c (by simp))).2, ?_⟩
    intro e
    apply hh
    simp [e]

/-- **environment maps**: a non-empty map all of whose `KEY=value` lines are continuation lines
    (no CR / LF, key not starting with a blank or `#`) -/
theorem validValue_env (m : List (Str × Str)) (hne : m ≠ []) (h : ∀ p ∈ m, Spec.ValidCont (envPiece p)) :
    ∀ t, encode .envMap (.map m) = some t → Spec.ValidValue t := by
  intro t ht
  simp only [encode, Option.some.injEq] at ht
  subst ht
  have hperm := sortStrs_perm (m.map envPiece)
  have hall : ∀ w ∈ sortStrs (m.map envPiece), Spec.ValidCont w := by
    intro w hw
    have : w ∈ m.map envPiece := hperm.subset hw
    simp only [List.mem_map] at this
    obtain ⟨p, hp, rfl⟩ := this
    exact h p hp
  cases hl : sortStrs (m.map envPiece) with
  | nil =>
    have := hperm.length_eq
    rw [hl] at this
    simp only [List.length_nil, List.length_map] at this
    exact absurd (List.length_eq_zero_iff.1 this.symm) hne
  | cons x xs =>
    rw [hl] at hall
    exact validValue_lines x xs (validCont_oneLine x (hall x (by simp))) (fun y hy => hall y (by simp [hy]))

/-- **DEP-3 synopsis**: a one-line synopsis written over a field whose old text is a `ValidValue`
    (or over no field) is a `ValidValue` -/
theorem validValue_firstLine (old : Option Str) (v : Str) (hv : OneLine v)
    (ho : ∀ o, old = some o → Spec.ValidValue o) :
    ∀ t, writeText .firstLine old (.text v) = some t → Spec.ValidValue t := by
  intro t ht
  simp only [writeText, Option.some.injEq] at ht
  subst ht
  cases old with
  | none => exact validValue_oneLine v hv
  | some o =>
    simp only
    cases hs : Codec.splitOnFirst ['\n'] o with
    | none => exact validValue_oneLine v hv
    | some r =>
      obtain ⟨h1, h2⟩ := (splitOnFirst_nl_spec o).1 r hs
      have hvo := ho o rfl
      have e1 : splitOn '\n' o = r.1 :: splitOn '\n' r.2 := by
        conv => lhs; rw [h2]
        exact Text.splitOn_cons '\n' r.1 r.2 h1
      have hcont := ((validValue_iff o _ _ e1).1 hvo).2.2
      have e2 : splitOn '\n' (v ++ '\n' :: r.2) = v :: splitOn '\n' r.2 :=
        Text.splitOn_cons '\n' v r.2 (noNl_not_mem _ hv.2.1)
      exact (validValue_iff _ _ _ e2).2 ⟨hv.1, hv.2, hcont⟩

/-- **DEP-3 long description**: over a field whose old text is a `ValidValue`, a long text all of
    whose lines are continuation lines (or the empty text, which keeps the synopsis alone) -/
theorem validValue_restLines (o v : Str) (ho : Spec.ValidValue o)
    (hv : v = [] ∨ ∀ l ∈ splitOn '\n' v, Spec.ValidCont l) :
    ∀ t, writeText .restLines (some o) (.text v) = some t → Spec.ValidValue t := by
  intro t ht
  simp only [writeText, Option.some.injEq] at ht
  subst ht
  -- the first line of a valid value is a one-line text
  have hfirst : OneLine (firstLineOf o) := by
    unfold firstLineOf
    cases hs : Codec.splitOnFirst ['\n'] o with
    | none =>
      have hn := (splitOnFirst_nl_spec o).2 hs
      have e := Text.splitOn_none '\n' o hn
      have := (validValue_iff o _ _ e).1 ho
      exact ⟨this.1, this.2.1⟩
    | some r =>
      obtain ⟨h1, h2⟩ := (splitOnFirst_nl_spec o).1 r hs
      have e1 : splitOn '\n' o = r.1 :: splitOn '\n' r.2 := by
        conv => lhs; rw [h2]
        exact Text.splitOn_cons '\n' r.1 r.2 h1
      have := (validValue_iff o _ _ e1).1 ho
      exact ⟨this.1, this.2.1⟩
  split
  · exact validValue_oneLine _ hfirst
  · rename_i hne
    rcases hv with hv | hv
    · exact absurd hv hne
    · have e2 : splitOn '\n' (firstLineOf o ++ '\n' :: v) = firstLineOf o :: splitOn '\n' v :=
        Text.splitOn_cons '\n' _ v (noNl_not_mem _ hfirst.2.1)
      exact (validValue_iff _ _ _ e2).2 ⟨hfirst.1, hfirst.2, hv⟩

/-- `License::Text(t)` is printed with an empty first line: never a `ValidValue` (the root of the
    open finding F-C15-9: the value has no text form that re-reads) -/
theorem C15_license_text_not_valid (t : Str) : ¬ Spec.ValidValue (Codec.License.print (.text t)) := by
  intro h
  have e : Codec.License.print (.text t) = [] ++ '\n' :: t := by simp [Codec.License.print]
  have hs : splitOn '\n' (Codec.License.print (.text t)) = [] :: splitOn '\n' t := by
    rw [e]; exact Text.splitOn_cons '\n' [] t (by simp)
  exact ((validValue_iff _ _ _ hs).1 h).1 rfl

/-! non-vacuity of the re-read theorems: `C04.exPara` (a multi-line field, a comment, a duplicated
    name, no final newline), the pair `control.Source.uploaders` / `set_uploaders`, two uploaders -/
example : ∃ g s, g ∈ Gen.Accessors.rows ∧ g.kind = .get ∧ g.isOpaque = false ∧ setterOf g = some s ∧ isBad s = false
    ∧ unmodelledShape s = false ∧ (∀ n ∈ s.names, isTemplate n = false)
    ∧ s.shape = .list .comma false .str ∧ g.shape = .list .comma true .str := by
  refine ⟨rowOf "control.Source" "uploaders", rowOf "control.Source" "set_uploaders", ?_⟩
  decide +kernel

example : C04.exPara.WF ∧ C04.exPara.Term false
    ∧ OneLine "Jo Doe <jo@x.org>".toList ∧ (∀ y ∈ ["Al B <al@y.org>".toList], Spec.NoNl y)
    ∧ Spec.ValidValue (join (sepText .comma) ["Jo Doe <jo@x.org>".toList, "Al B <al@y.org>".toList]) := by
  refine ⟨by decide, by decide, by decide, by decide, ?_⟩
  exact validValue_list_oneLine .comma (Or.inl rfl) _ _ (by decide) (by decide)

example : ∀ p ∈ [("A".toList, "1".toList), ("LANG".toList, "C.UTF-8".toList)], Spec.ValidCont (envPiece p) := by
  decide

/-! ### outside `ValidValue`: what the printed paragraph re-reads to

`Binary::set_description(v)` on the paragraph `Package: p`; printed text, errors of the reader and
the fields read back.  The real code gives the same results (worker run of these requests: the
oracle's re-parse clause reports `a\nb`, `x`, `a\nb`, `a`, "does not re-parse"); they are outside
the generated domain, so they are not corpus lines. -/

/-- the children of the first paragraph of a text -/
def firstParaKids (text : Str) : List DNode :=
  match paragraphs (Deb.parse text).tree with
  | p :: _ => p.children
  | [] => []

/-- the paragraph `Package: p` after `set_description(v)` -/
def afterDescription (v : Str) : Option (List DNode) :=
  setSem (rowOf "control.Binary" "set_description") (.text v) (firstParaKids "Package: p\n".toList)

/-- its printed text -/
def printedDescription (v : Str) : Option Str := (afterDescription v).map textList
/-- number of errors the lossless reader reports on the printed text -/
def rereadErrors (v : Str) : Option Nat := (printedDescription v).map fun t => (Deb.parse t).errors.length
/-- the fields the reader returns for the printed text -/
def rereadItems (v : Str) : Option (List (List (Str × Str))) :=
  (printedDescription v).map fun t => docItems (Deb.parse t).tree

/-- a valid two-line value for comparison: it re-reads as itself -/
theorem C15_reread_ok_witness :
    printedDescription "a\nb".toList = some "Package: p\nDescription: a\n b\n".toList
    ∧ rereadErrors "a\nb".toList = some 0
    ∧ rereadItems "a\nb".toList
        = some [[("Package".toList, "p".toList), ("Description".toList, "a\nb".toList)]] := by decide +kernel

/-- an EMPTY LINE inside the value is written as a line holding one space; the reader drops it:
    `a\n\nb` re-reads as `a\nb` -/
theorem C15_reread_empty_line_witness :
    printedDescription "a\n\nb".toList = some "Package: p\nDescription: a\n \n b\n".toList
    ∧ rereadErrors "a\n\nb".toList = some 0
    ∧ rereadItems "a\n\nb".toList
        = some [[("Package".toList, "p".toList), ("Description".toList, "a\nb".toList)]]
    ∧ ¬ Spec.ValidValue "a\n\nb".toList := by decide +kernel

/-- a value (or a line of it) STARTING WITH A BLANK loses the blank: ` x` re-reads as `x`,
    `a\n b` as `a\nb` -/
theorem C15_reread_leading_blank_witness :
    printedDescription " x".toList = some "Package: p\nDescription:  x\n".toList
    ∧ rereadErrors " x".toList = some 0
    ∧ rereadItems " x".toList = some [[("Package".toList, "p".toList), ("Description".toList, "x".toList)]]
    ∧ printedDescription "a\n b".toList = some "Package: p\nDescription: a\n  b\n".toList
    ∧ rereadErrors "a\n b".toList = some 0
    ∧ rereadItems "a\n b".toList
        = some [[("Package".toList, "p".toList), ("Description".toList, "a\nb".toList)]]
    ∧ ¬ Spec.ValidValue " x".toList ∧ ¬ Spec.ValidValue "a\n b".toList := by decide +kernel

/-- a further line STARTING WITH `#` becomes a comment line of the printed paragraph: `a\n#b`
    re-reads as `a` -/
theorem C15_reread_hash_line_witness :
    printedDescription "a\n#b".toList = some "Package: p\nDescription: a\n #b\n".toList
    ∧ rereadErrors "a\n#b".toList = some 0
    ∧ rereadItems "a\n#b".toList = some [[("Package".toList, "p".toList), ("Description".toList, "a".toList)]]
    ∧ ¬ Spec.ValidValue "a\n#b".toList := by decide +kernel

/-- a CARRIAGE RETURN inside the value: the printed paragraph is rejected by the strict reader
    (the reader reports an error) -/
theorem C15_reread_cr_witness :
    printedDescription "a\rb".toList = some "Package: p\nDescription: a\rb\n".toList
    ∧ (rereadErrors "a\rb".toList).map (fun n => decide (n = 0)) = some false
    ∧ ¬ Spec.ValidValue "a\rb".toList := by decide +kernel

/-- the EMPTY text is excluded by `ValidValue` but does re-read (`Description: ` with an empty value) -/
theorem C15_reread_empty_value_witness :
    printedDescription [] = some "Package: p\nDescription: \n".toList
    ∧ rereadErrors [] = some 0
    ∧ rereadItems [] = some [[("Package".toList, "p".toList), ("Description".toList, [])]]
    ∧ ¬ Spec.ValidValue [] := by decide +kernel

/-! ### re-read through an external type; methods with a field-name parameter -/

theorem vchar_line {c : Char} (h : Rel.isVChar c = true) : isNewline c = false ∧ isIndent c = false := by
  refine ⟨?_, ?_⟩
  · cases hn : isNewline c with
    | false => rfl
    | true =>
      simp only [isNewline, Bool.or_eq_true, beq_iff_eq] at hn
      rcases hn with rfl | rfl <;> revert h <;> decide
  · cases hn : isIndent c with
    | false => rfl
    | true =>
      simp only [isIndent, Bool.or_eq_true, beq_iff_eq] at hn
      rcases hn with rfl | rfl <;> revert h <;> decide

/-- the printed form of every version `Version::from_str` returns is a `ValidValue` -/
theorem validValue_version (raw : Str) (v : Rel.Version) (hv : Rel.Version.parse raw = some v) :
    Spec.ValidValue v.display := by
  obtain ⟨hne, hall⟩ := Rel.Version.parse_vtext (Rel.Version.parse_display_stable hv)
  apply validValue_oneLine
  refine ⟨hne, fun c hc => (vchar_line (hall c hc)).1, fun c hc => ?_⟩
  have hm : c ∈ v.display := by
    cases hl : v.display with
    | nil => rw [hl] at hc; cases hc
    | cons y ys => rw [hl] at hc; simp only [List.head?_cons, Option.some.injEq] at hc; subst hc; simp
  exact (vchar_line (hall c hm)).2

/-- **set_version(v), print, parse, version()**: on a well-formed paragraph, for every version `v`
    that `Version::from_str` returns, the printed paragraph re-reads without error and `version()`
    on the paragraph read back is `v`; every other field reads as before -/
theorem C15_version_set_reread (g : Row) (hg : g ∈ Gen.Accessors.rows) (hk : g.kind = .get)
    (hsh : g.shape = .typed "Version".toList) (s : Row) (hs : setterOf g = some s)
    (p : Spec.ParaS) (hpw : p.WF) (ht : p.Term false)
    (raw : Str) (v : Rel.Version) (hv : Rel.Version.parse raw = some v) :
    ∃ k cs', k ∈ s.names ∧ setSem s (.text v.display) p.node.children = some cs'
      ∧ ∃ d : Spec.DocS, d.WF ∧ d.str = textList cs' ∧ Deb.parse (textList cs') = ⟨d.tree, []⟩
        ∧ readStrict (textList cs') = .ok d.tree
        ∧ ∃ q : Spec.ParaS, paragraphs d.tree = [q.node]
          ∧ extGet versionCodec g q.node.children = .value v
          ∧ (∀ k', k' ≠ k → Deb.get q.node k' = Deb.get p.node k') := by
  have hx : isExtShape g.shape = true := by rw [hsh]; decide
  have key : ∀ r ∈ Gen.Accessors.rows, r.kind = .get → r.shape = .typed "Version".toList →
      r.isOpaque = false ∧ ∀ s, setterOf r = some s → isBad s = false ∧ unmodelledShape s = false
        ∧ ∀ n ∈ s.names, isTemplate n = false := by
    decide +kernel
  obtain ⟨ho, hset⟩ := key g hg hk hsh
  obtain ⟨hb, hu, hnt⟩ := hset s hs
  obtain ⟨hss, hop⟩ := ext_row_facts g hg hk hx s hs
  have hp := C15_table_pairs' g hg hk ho s hs hb hu
  have hsrow : s ∈ Gen.Accessors.rows := by
    have := List.mem_of_find?_eq_some hs
    exact this
  have hkeys : ∀ n ∈ s.names, Spec.ValidKey n := fun n hn => C15_table_names_valid s hsrow n hn (hnt n hn)
  have hw : writeText s.shape (firstOf p.node.children s.names) (.text v.display) = some v.display := by
    rw [hss, hsh]; rfl
  obtain ⟨k, cs', m1, m2, d, d1, d2, d3, d4, q, q1, _, q3, _, q5⟩ :=
    C15_set_reread g s hp hkeys p hpw ht (.text v.display) true (by simp [clears]) v.display hw
      (validValue_version raw v hv)
  refine ⟨k, cs', m1, m2, d, d1, d2, d3, d4, q, q1, ?_, q5⟩
  rw [(extGet_refines versionCodec g hx hop _ _ q3).2]
  have e : versionCodec.parse v.display = some v := Rel.Version.parse_display_stable hv
  rw [e]

example : C04.exPara.WF ∧ C04.exPara.Term false
    ∧ Rel.Version.parse "1.0-1".toList = some ⟨none, "1.0".toList, some "1".toList⟩ := by
  refine ⟨by decide, by decide, by decide +kernel⟩

/-- **`Package::set_tags(tag, l)`, print, parse, `tags(tag)`** for every valid field name `tag` and
    every list in the domain of the comma codec (non-empty, elements trimmed, free of `,` and of
    CR / LF, the first one non-empty): the printed paragraph re-reads without error and `tags(tag)`
    on the paragraph read back is `l`.  (For a `tag` that is not a field name — empty, with a
    blank, a colon, … — the printed paragraph does not read back: audit W6.) -/
theorem C15_tags_set_reread (tag : Str) (hkey : Spec.ValidKey tag) (p : Spec.ParaS) (hpw : p.WF) (ht : p.Term false)
    (x : Str) (xs : List Str) (a : Bool) (hx : OneLine x) (hxs : ∀ y ∈ xs, Spec.NoNl y)
    (hc : ∀ y ∈ x :: xs, ',' ∉ y) (htr : ∀ y ∈ x :: xs, trim y = y) :
    ∃ cs', setSem ((rowOf "apt.Package" "set_tags").inst tag) (.list (x :: xs)) p.node.children = some cs'
      ∧ ∃ d : Spec.DocS, d.WF ∧ d.str = textList cs' ∧ Deb.parse (textList cs') = ⟨d.tree, []⟩
        ∧ ∃ q : Spec.ParaS, paragraphs d.tree = [q.node]
          ∧ getSem ((rowOf "apt.Package" "tags").inst tag) a q.node.children = .list (x :: xs)
          ∧ (∀ k', k' ≠ tag → Deb.get q.node k' = Deb.get p.node k') := by
  obtain ⟨_, _, hp, hgn, hsn, _⟩ := C15_tags_pair tag
  have hgs : ((rowOf "apt.Package" "tags").inst tag).shape = .list .comma true .str := by
    show (rowOf "apt.Package" "tags").shape = _; decide +kernel
  have hss : ((rowOf "apt.Package" "set_tags").inst tag).shape = .list .comma false .str := by
    show (rowOf "apt.Package" "set_tags").shape = _; decide +kernel
  have hst : ((rowOf "apt.Package" "tags").inst tag).strict = false := by
    show (rowOf "apt.Package" "tags").strict = _; decide +kernel
  have hopt : ((rowOf "apt.Package" "set_tags").inst tag).optional = false := by
    show (rowOf "apt.Package" "set_tags").optional = _; decide +kernel
  have hkeys : ∀ n ∈ ((rowOf "apt.Package" "set_tags").inst tag).names, Spec.ValidKey n := by
    intro n hn; rw [hsn] at hn; simp only [List.mem_singleton] at hn; subst hn; exact hkey
  have hw : writeText ((rowOf "apt.Package" "set_tags").inst tag).shape
      (firstOf p.node.children ((rowOf "apt.Package" "set_tags").inst tag).names) (.list (x :: xs))
        = some (join (sepText .comma) (x :: xs)) := by
    rw [hss]; rfl
  obtain ⟨k, cs', m1, m2, d, d1, d2, d3, _, q, q1, _, _, q4, q5⟩ :=
    C15_set_reread _ _ hp hkeys p hpw ht (.list (x :: xs)) a (by simp [clears]) _ hw
      (validValue_list_oneLine .comma (Or.inl rfl) x xs hx hxs)
  have hk : k = tag := by rw [hsn] at m1; simpa using m1
  subst hk
  refine ⟨cs', m2, d, d1, d2, d3, q, q1, ?_, q5⟩
  rw [q4, hgs, hst]
  have := C15_codec_list_comma (x :: xs) false (by simp) hc htr false a
  simpa [encode] using this

example : Spec.ValidKey "Tag".toList ∧ OneLine "role::program".toList
    ∧ (∀ y ∈ ["uitoolkit::gtk".toList], Spec.NoNl y)
    ∧ (∀ y ∈ ["role::program".toList, "uitoolkit::gtk".toList], ',' ∉ y ∧ trim y = y) := by decide +kernel

/-! ## 6 — `Header::fix` when a `Format-Specification` field is present -/

theorem count_set_other (l : C15.Items) (k v k' : Str) (h : k' ≠ k) :
    count (ListSpec.set l k v) k' = count l k' := by
  induction l with
  | nil => simp [ListSpec.set, count, h.symm]
  | cons f fs ih =>
    simp only [ListSpec.set]
    split
    · rename_i hf
      have : f.1 ≠ k' := by rw [hf]; exact h.symm
      simp [count_cons, h.symm, this]
    · simp [count_cons, ih]

theorem count_rename (l : C15.Items) (k k' : Str) (hne : k ≠ k') (hp : lget l k ≠ none) :
    count (ListSpec.rename l k k') k' = count l k' + 1
    ∧ count (ListSpec.rename l k k') k + 1 = count l k
    ∧ ∀ j, j ≠ k → j ≠ k' → count (ListSpec.rename l k k') j = count l j := by
  induction l with
  | nil => simp [lget] at hp
  | cons f fs ih =>
    simp only [ListSpec.rename]
    split
    · rename_i hf
      have h1 : f.1 ≠ k' := by rw [hf]; exact hne
      refine ⟨?_, ?_, ?_⟩
      · simp only [count_cons, ↓reduceIte, h1]; omega
      · simp only [count_cons, hf, ↓reduceIte, hne.symm]; omega
      · intro j hj hj'
        have : f.1 ≠ j := by rw [hf]; exact hj.symm
        simp only [count_cons, this, ↓reduceIte, hj'.symm]
    · rename_i hf
      have hp' : lget fs k ≠ none := by
        rw [lget_cons] at hp
        simpa [hf] using hp
      obtain ⟨i1, i2, i3⟩ := ih hp'
      refine ⟨?_, ?_, ?_⟩
      · simp only [count_cons, i1]; omega
      · simp only [count_cons, hf, ↓reduceIte]; omega
      · intro j hj hj'
        simp only [count_cons, i3 j hj hj']

/-- **`Header::fix` with a `Format-Specification` field**: the first such field is renamed to
    `Format`, then the first `Format` field is normalised — so afterwards there is ONE MORE `Format`
    field than before and one `Format-Specification` field less.  On the file `fix` was written for
    (old name only) that is one `Format` field; with both names present there are two or more -/
theorem C15_fix_both (cs : List DNode) (hS : pget cs fFormatSpec ≠ none) :
    count (pitems (fixSem cs)) fFormat = count (pitems cs) fFormat + 1
    ∧ count (pitems (fixSem cs)) fFormatSpec + 1 = count (pitems cs) fFormatSpec
    ∧ (pget cs fFormat ≠ none → 2 ≤ count (pitems (fixSem cs)) fFormat) := by
  have hne : fFormatSpec ≠ fFormat := by decide
  have hS' : lget (pitems cs) fFormatSpec ≠ none := by rw [← C15_refine_get]; exact hS
  obtain ⟨r1, r2, _⟩ := count_rename (pitems cs) fFormatSpec fFormat hne hS'
  have hsome : (pget cs fFormatSpec).isSome = true := by
    cases h : pget cs fFormatSpec with
    | none => exact absurd h hS
    | some _ => rfl
  have hren := (C04_refine_rename cs fFormatSpec fFormat).1
  have key : count (pitems (fixSem cs)) fFormat = count (pitems cs) fFormat + 1
      ∧ count (pitems (fixSem cs)) fFormatSpec + 1 = count (pitems cs) fFormatSpec := by
    unfold fixSem
    simp only [hsome, ↓reduceIte]
    cases hf : pget (paraRename cs fFormatSpec fFormat).1 fFormat with
    | none =>
      -- impossible: the renamed field is a Format field
      have : count (pitems (paraRename cs fFormatSpec fFormat).1) fFormat = 0 := by
        rw [count_zero_iff, ← C15_refine_get]; exact hf
      rw [hren, r1] at this
      omega
    | some f =>
      simp only
      rw [C04_refine_set, hren]
      refine ⟨?_, ?_⟩
      · rw [count_set, r1]; simp
      · rw [count_set_other _ _ _ _ hne, r2]
  refine ⟨key.1, key.2, fun hF => ?_⟩
  have : count (pitems cs) fFormat ≠ 0 := by
    rw [Ne, count_zero_iff, ← C15_refine_get]; exact hF
  omega

/-- the text of the first paragraph of `text` after `Header::fix` -/
def fixText (text : Str) : Str := textList (fixSem (firstParaKids text))

/-- the actual results on files `Copyright::from_str` accepts (it wants the text to start with
    `Format:`); model = real code, requests in corpus/C15/more.req.  Both names present: two `Format`
    fields, the second not normalised; two old-name fields: one is left behind; the old name after
    other fields or after a comment: renamed in place -/
theorem C15_fix_both_witness :
    fixText "Format: http://a/b\nFormat-Specification: http://c/d\nSource: s\n".toList
      = "Format: https://a/b/\nFormat: http://c/d\nSource: s\n".toList
    ∧ fixText "Format: x\nFormat-Specification: a\nFormat-Specification: b\n".toList
      = "Format: x/\nFormat: a\nFormat-Specification: b\n".toList
    ∧ fixText "Format: x\nSource: s\nFormat-Specification: a\n".toList
      = "Format: x/\nSource: s\nFormat: a\n".toList
    ∧ fixText "Format: a\n# c\nFormat-Specification: b\n".toList
      = "Format: a/\n# c\nFormat: b\n".toList := by
  decide +kernel

/-- the case the rename branch was written for — a header with the old name only — at paragraph
    level: one normalised `Format` field.  (Not reachable through `Copyright::from_str`, which
    answers `NotMachineReadable` for a text that does not start with `Format:`.) -/
theorem C15_fix_old_name_only :
    fixText "Format-Specification: http://www.debian.org/doc/packaging-manuals/copyright-format/1.0\nSource: s\n".toList
      = "Format: https://www.debian.org/doc/packaging-manuals/copyright-format/1.0/\nSource: s\n".toList := by
  decide +kernel

example : pget (firstParaKids "Format: http://a/b\nFormat-Specification: http://c/d\nSource: s\n".toList) fFormatSpec ≠ none
    ∧ pget (firstParaKids "Format: http://a/b\nFormat-Specification: http://c/d\nSource: s\n".toList) fFormat ≠ none := by
  decide +kernel

/-! ## 8 — field names are compared byte for byte -/

def lowerName (k : Str) : Str := k.map Char.toLower

/-- **a field present under another letter case is another field**: with `k` absent and a field
    `k'` (equal to `k` up to letter case, e.g. `maintainer` for `Maintainer`) present, the setter
    appends a field `k` and leaves `k'` alone — afterwards the paragraph has two fields of one
    Debian (case-insensitive) name.  By design of the lossless library; recorded as an observation -/
theorem C15_case_variant_duplicates (cs : List DNode) (k k' old v : Str) (hne : k' ≠ k)
    (hcase : lowerName k' = lowerName k) (hk : pget cs k = none) (hold : (k', old) ∈ pitems cs) :
    pitems (paraSet cs k v) = pitems cs ++ [(k, v)]
    ∧ pget (paraSet cs k v) k = some v ∧ pget (paraSet cs k v) k' = pget cs k'
    ∧ 2 ≤ ((pitems (paraSet cs k v)).filter fun f => lowerName f.1 == lowerName k).length := by
  have h1 : pitems (paraSet cs k v) = pitems cs ++ [(k, v)] := by
    rw [← (C15_insert_absent cs k v hk).2, C04_refine_insert]; rfl
  refine ⟨h1, C15_set_get cs k v, (C15_set_frame cs k v).1 k' hne, ?_⟩
  rw [h1, List.filter_append]
  have a : 1 ≤ ((pitems cs).filter fun f => lowerName f.1 == lowerName k).length := by
    apply List.length_pos_of_mem (a := (k', old))
    simp [hold, hcase]
  simp only [List.length_append, List.filter_cons, List.filter_nil, beq_self_eq_true, ↓reduceIte, List.length_cons,
    List.length_nil]
  omega

/-- the paragraph text after a setter / the getter's answer, on the first paragraph of `text` -/
def afterSetter (view method : String) (v : Val) (text : Str) : Option Str :=
  (setSem (rowOf view method) v (firstParaKids text)).map textList

/-- actual results: `set_maintainer("new")` on `maintainer: old` appends a second field (and
    `maintainer()` then answers `new`); `set_section(None)` removes `Section` and leaves `section`;
    `Control::source()` / `binaries()` do not find `source:` / `package:` paragraphs -/
theorem C15_case_variant_witness :
    afterSetter "control.Source" "set_maintainer" (.text "new".toList) "Source: a\nmaintainer: old\n".toList
      = some "Source: a\nmaintainer: old\nMaintainer: new\n".toList
    ∧ (setSem (rowOf "control.Source" "set_maintainer") (.text "new".toList)
          (firstParaKids "Source: a\nmaintainer: old\n".toList)).map
        (getSem (rowOf "control.Source" "maintainer") false) = some (.text "new".toList)
    ∧ afterSetter "control.Source" "set_section" .absent "Source: a\nSection: x\nsection: z\n".toList
      = some "Source: a\nsection: z\n".toList
    ∧ findPara (Deb.parse "source: a\n\npackage: b\n".toList).tree "Source".toList = none
    ∧ filterPara (Deb.parse "source: a\n\npackage: b\n".toList).tree "Package".toList = [] := by
  decide +kernel

example : lowerName "maintainer".toList = lowerName "Maintainer".toList
    ∧ pget (firstParaKids "Source: a\nmaintainer: old\n".toList) "Maintainer".toList = none
    ∧ ("maintainer".toList, "old".toList) ∈ pitems (firstParaKids "Source: a\nmaintainer: old\n".toList) := by
  decide +kernel

/-! ## 4 — the Debian field name of every accessor, from the specifications

`C15_table_names` compares each literal with `docName`, which for most rows is a function of the
METHOD name (`build_depends` ↦ `Build-Depends`): a literal misspelt the way the method name suggests
(`Reviewed-By`, `No-Support-For-Architecture-All`: F-C15-18/19) passes.  `debianNames` is written by
hand from the specifications named per view, one entry per accessor (getter and `set_` share one),
without looking at the method-name rule.  A template `{tag}` / `Bug-{vendor}` stands for the
parameter of the method (`tags(tag)`, DEP-3 `Bug-<Vendor>`). -/

def debianNames : List ((Str × Str) × List Str) := [
  -- control.Control: Debian Policy 5.2 / 5.6.1, 5.6.7 (debian/control: the source paragraph has Source, binary paragraphs have Package)
  (("control.Control".toList, "source".toList), ["Source".toList]),
  (("control.Control".toList, "binaries".toList), ["Package".toList]),
  (("control.Control".toList, "add_source".toList), ["Source".toList]),
  (("control.Control".toList, "add_binary".toList), ["Package".toList]),
  -- control.Source: Debian Policy 5.2 (source package control: general paragraph), 5.6.1-5.6.26, 5.6.31 (Rules-Requires-Root), 5.6.30 (Testsuite); Vcs-Svk: developers-reference 6.2.5 (historical)
  (("control.Source".toList, "name".toList), ["Source".toList]),
  (("control.Source".toList, "section".toList), ["Section".toList]),
  (("control.Source".toList, "priority".toList), ["Priority".toList]),
  (("control.Source".toList, "maintainer".toList), ["Maintainer".toList]),
  (("control.Source".toList, "build_depends".toList), ["Build-Depends".toList]),
  (("control.Source".toList, "build_depends_indep".toList), ["Build-Depends-Indep".toList]),
  (("control.Source".toList, "build_depends_arch".toList), ["Build-Depends-Arch".toList]),
  (("control.Source".toList, "build_conflicts".toList), ["Build-Conflicts".toList]),
  (("control.Source".toList, "build_conflicts_indep".toList), ["Build-Conflicts-Indep".toList]),
  (("control.Source".toList, "build_conflicts_arch".toList), ["Build-Conflicts-Arch".toList]),
  (("control.Source".toList, "standards_version".toList), ["Standards-Version".toList]),
  (("control.Source".toList, "homepage".toList), ["Homepage".toList]),
  (("control.Source".toList, "vcs_git".toList), ["Vcs-Git".toList]),
  (("control.Source".toList, "vcs_svn".toList), ["Vcs-Svn".toList]),
  (("control.Source".toList, "vcs_bzr".toList), ["Vcs-Bzr".toList]),
  (("control.Source".toList, "vcs_arch".toList), ["Vcs-Arch".toList]),
  (("control.Source".toList, "vcs_svk".toList), ["Vcs-Svk".toList]),
  (("control.Source".toList, "vcs_darcs".toList), ["Vcs-Darcs".toList]),
  (("control.Source".toList, "vcs_mtn".toList), ["Vcs-Mtn".toList]),
  (("control.Source".toList, "vcs_cvs".toList), ["Vcs-Cvs".toList]),
  (("control.Source".toList, "vcs_hg".toList), ["Vcs-Hg".toList]),
  (("control.Source".toList, "vcs_browser".toList), ["Vcs-Browser".toList]),
  (("control.Source".toList, "uploaders".toList), ["Uploaders".toList]),
  (("control.Source".toList, "architecture".toList), ["Architecture".toList]),
  (("control.Source".toList, "rules_requires_root".toList), ["Rules-Requires-Root".toList]),
  (("control.Source".toList, "testsuite".toList), ["Testsuite".toList]),
  -- control.Binary: Debian Policy 5.2 (binary package paragraphs), 5.6.7-5.6.13, 7.1 (relationship fields), 7.8 (Built-Using), Multi-Arch: wiki.debian.org/Multiarch/Implementation
  (("control.Binary".toList, "name".toList), ["Package".toList]),
  (("control.Binary".toList, "section".toList), ["Section".toList]),
  (("control.Binary".toList, "priority".toList), ["Priority".toList]),
  (("control.Binary".toList, "architecture".toList), ["Architecture".toList]),
  (("control.Binary".toList, "depends".toList), ["Depends".toList]),
  (("control.Binary".toList, "recommends".toList), ["Recommends".toList]),
  (("control.Binary".toList, "suggests".toList), ["Suggests".toList]),
  (("control.Binary".toList, "enhances".toList), ["Enhances".toList]),
  (("control.Binary".toList, "pre_depends".toList), ["Pre-Depends".toList]),
  (("control.Binary".toList, "breaks".toList), ["Breaks".toList]),
  (("control.Binary".toList, "conflicts".toList), ["Conflicts".toList]),
  (("control.Binary".toList, "replaces".toList), ["Replaces".toList]),
  (("control.Binary".toList, "provides".toList), ["Provides".toList]),
  (("control.Binary".toList, "built_using".toList), ["Built-Using".toList]),
  (("control.Binary".toList, "multi_arch".toList), ["Multi-Arch".toList]),
  (("control.Binary".toList, "essential".toList), ["Essential".toList]),
  (("control.Binary".toList, "description".toList), ["Description".toList]),
  (("control.Binary".toList, "homepage".toList), ["Homepage".toList]),
  -- apt.Source: Debian repository format, "Sources" indices (the .dsc fields of Policy 5.4 with Source renamed Package, plus Directory, Priority, Section)
  (("apt.Source".toList, "package".toList), ["Package".toList]),
  (("apt.Source".toList, "version".toList), ["Version".toList]),
  (("apt.Source".toList, "maintainer".toList), ["Maintainer".toList]),
  (("apt.Source".toList, "uploaders".toList), ["Uploaders".toList]),
  (("apt.Source".toList, "standards_version".toList), ["Standards-Version".toList]),
  (("apt.Source".toList, "format".toList), ["Format".toList]),
  (("apt.Source".toList, "vcs_browser".toList), ["Vcs-Browser".toList]),
  (("apt.Source".toList, "vcs_git".toList), ["Vcs-Git".toList]),
  (("apt.Source".toList, "vcs_svn".toList), ["Vcs-Svn".toList]),
  (("apt.Source".toList, "vcs_hg".toList), ["Vcs-Hg".toList]),
  (("apt.Source".toList, "vcs_bzr".toList), ["Vcs-Bzr".toList]),
  (("apt.Source".toList, "vcs_arch".toList), ["Vcs-Arch".toList]),
  (("apt.Source".toList, "vcs_svk".toList), ["Vcs-Svk".toList]),
  (("apt.Source".toList, "vcs_darcs".toList), ["Vcs-Darcs".toList]),
  (("apt.Source".toList, "vcs_mtn".toList), ["Vcs-Mtn".toList]),
  (("apt.Source".toList, "vcs_cvs".toList), ["Vcs-Cvs".toList]),
  (("apt.Source".toList, "build_depends".toList), ["Build-Depends".toList]),
  (("apt.Source".toList, "build_depends_indep".toList), ["Build-Depends-Indep".toList]),
  (("apt.Source".toList, "build_depends_arch".toList), ["Build-Depends-Arch".toList]),
  (("apt.Source".toList, "build_conflicts".toList), ["Build-Conflicts".toList]),
  (("apt.Source".toList, "build_conflicts_indep".toList), ["Build-Conflicts-Indep".toList]),
  (("apt.Source".toList, "build_conflicts_arch".toList), ["Build-Conflicts-Arch".toList]),
  (("apt.Source".toList, "binary".toList), ["Binary".toList]),
  (("apt.Source".toList, "homepage".toList), ["Homepage".toList]),
  (("apt.Source".toList, "section".toList), ["Section".toList]),
  (("apt.Source".toList, "priority".toList), ["Priority".toList]),
  (("apt.Source".toList, "architecture".toList), ["Architecture".toList]),
  (("apt.Source".toList, "directory".toList), ["Directory".toList]),
  (("apt.Source".toList, "testsuite".toList), ["Testsuite".toList]),
  (("apt.Source".toList, "files".toList), ["Files".toList]),
  (("apt.Source".toList, "checksums_sha1".toList), ["Checksums-Sha1".toList]),
  (("apt.Source".toList, "checksums_sha256".toList), ["Checksums-Sha256".toList]),
  (("apt.Source".toList, "checksums_sha512".toList), ["Checksums-Sha512".toList]),
  -- apt.Package: Debian repository format, "Packages" indices (binary control fields of Policy 5.3 plus Filename, Size, MD5sum, SHA1, SHA256, Description-md5; Tag: debtags)
  (("apt.Package".toList, "name".toList), ["Package".toList]),
  (("apt.Package".toList, "version".toList), ["Version".toList]),
  (("apt.Package".toList, "installed_size".toList), ["Installed-Size".toList]),
  (("apt.Package".toList, "maintainer".toList), ["Maintainer".toList]),
  (("apt.Package".toList, "architecture".toList), ["Architecture".toList]),
  (("apt.Package".toList, "depends".toList), ["Depends".toList]),
  (("apt.Package".toList, "recommends".toList), ["Recommends".toList]),
  (("apt.Package".toList, "suggests".toList), ["Suggests".toList]),
  (("apt.Package".toList, "enhances".toList), ["Enhances".toList]),
  (("apt.Package".toList, "pre_depends".toList), ["Pre-Depends".toList]),
  (("apt.Package".toList, "breaks".toList), ["Breaks".toList]),
  (("apt.Package".toList, "conflicts".toList), ["Conflicts".toList]),
  (("apt.Package".toList, "replaces".toList), ["Replaces".toList]),
  (("apt.Package".toList, "provides".toList), ["Provides".toList]),
  (("apt.Package".toList, "section".toList), ["Section".toList]),
  (("apt.Package".toList, "priority".toList), ["Priority".toList]),
  (("apt.Package".toList, "description".toList), ["Description".toList]),
  (("apt.Package".toList, "homepage".toList), ["Homepage".toList]),
  (("apt.Package".toList, "source".toList), ["Source".toList]),
  (("apt.Package".toList, "description_md5".toList), ["Description-md5".toList]),
  (("apt.Package".toList, "tags".toList), ["{tag}".toList]),
  (("apt.Package".toList, "filename".toList), ["Filename".toList]),
  (("apt.Package".toList, "size".toList), ["Size".toList]),
  (("apt.Package".toList, "md5sum".toList), ["MD5sum".toList]),
  (("apt.Package".toList, "sha256".toList), ["SHA256".toList]),
  (("apt.Package".toList, "multi_arch".toList), ["Multi-Arch".toList]),
  -- apt.Release: Debian repository format, "Release" files: Origin Label Suite Codename Version Date Valid-Until NotAutomatic ButAutomaticUpgrades Acquire-By-Hash No-Support-for-Architecture-all Architectures Components Description MD5Sum SHA1 SHA256 SHA512 Signed-By Changelogs Snapshots
  (("apt.Release".toList, "origin".toList), ["Origin".toList]),
  (("apt.Release".toList, "label".toList), ["Label".toList]),
  (("apt.Release".toList, "suite".toList), ["Suite".toList]),
  (("apt.Release".toList, "codename".toList), ["Codename".toList]),
  (("apt.Release".toList, "changelogs".toList), ["Changelogs".toList]),
  (("apt.Release".toList, "date".toList), ["Date".toList]),
  (("apt.Release".toList, "valid_until".toList), ["Valid-Until".toList]),
  (("apt.Release".toList, "acquire_by_hash".toList), ["Acquire-By-Hash".toList]),
  (("apt.Release".toList, "no_support_for_architecture_all".toList), ["No-Support-for-Architecture-all".toList]),
  (("apt.Release".toList, "architectures".toList), ["Architectures".toList]),
  (("apt.Release".toList, "components".toList), ["Components".toList]),
  (("apt.Release".toList, "description".toList), ["Description".toList]),
  (("apt.Release".toList, "checksums_md5".toList), ["MD5Sum".toList]),
  (("apt.Release".toList, "checksums_sha1".toList), ["SHA1".toList]),
  (("apt.Release".toList, "checksums_sha256".toList), ["SHA256".toList]),
  (("apt.Release".toList, "checksums_sha512".toList), ["SHA512".toList]),
  -- changes.Changes: deb-changes(5), Policy 5.5: Format Date Source Binary Architecture Version Distribution Urgency Maintainer Changed-By Description Closes Changes Checksums-Sha1 Checksums-Sha256 Files
  (("changes.Changes".toList, "format".toList), ["Format".toList]),
  (("changes.Changes".toList, "source".toList), ["Source".toList]),
  (("changes.Changes".toList, "binary".toList), ["Binary".toList]),
  (("changes.Changes".toList, "architecture".toList), ["Architecture".toList]),
  (("changes.Changes".toList, "version".toList), ["Version".toList]),
  (("changes.Changes".toList, "distribution".toList), ["Distribution".toList]),
  (("changes.Changes".toList, "urgency".toList), ["Urgency".toList]),
  (("changes.Changes".toList, "maintainer".toList), ["Maintainer".toList]),
  (("changes.Changes".toList, "changed_by".toList), ["Changed-By".toList]),
  (("changes.Changes".toList, "description".toList), ["Description".toList]),
  (("changes.Changes".toList, "checksums_sha1".toList), ["Checksums-Sha1".toList]),
  (("changes.Changes".toList, "checksums_sha256".toList), ["Checksums-Sha256".toList]),
  (("changes.Changes".toList, "files".toList), ["Files".toList]),
  -- buildinfo.Buildinfo: deb-buildinfo(5): Format Source Binary Architecture Version Binary-Only-Changes Checksums-Md5 Checksums-Sha1 Checksums-Sha256 Build-Origin Build-Architecture Build-Date Build-Kernel-Version Build-Path Build-Tainted-By Installed-Build-Depends Environment
  (("buildinfo.Buildinfo".toList, "source".toList), ["Source".toList]),
  (("buildinfo.Buildinfo".toList, "binaries".toList), ["Binary".toList]),
  (("buildinfo.Buildinfo".toList, "version".toList), ["Version".toList]),
  (("buildinfo.Buildinfo".toList, "build_architecture".toList), ["Build-Architecture".toList]),
  (("buildinfo.Buildinfo".toList, "architecture".toList), ["Architecture".toList]),
  (("buildinfo.Buildinfo".toList, "checksums_sha256".toList), ["Checksums-Sha256".toList]),
  (("buildinfo.Buildinfo".toList, "checksums_sha1".toList), ["Checksums-Sha1".toList]),
  (("buildinfo.Buildinfo".toList, "checksums_md5".toList), ["Checksums-Md5".toList]),
  (("buildinfo.Buildinfo".toList, "build_origin".toList), ["Build-Origin".toList]),
  (("buildinfo.Buildinfo".toList, "build_date".toList), ["Build-Date".toList]),
  (("buildinfo.Buildinfo".toList, "build_tainted_by".toList), ["Build-Tainted-By".toList]),
  (("buildinfo.Buildinfo".toList, "format".toList), ["Format".toList]),
  (("buildinfo.Buildinfo".toList, "build_path".toList), ["Build-Path".toList]),
  (("buildinfo.Buildinfo".toList, "environment".toList), ["Environment".toList]),
  (("buildinfo.Buildinfo".toList, "installed_build_depends".toList), ["Installed-Build-Depends".toList]),
  -- copyright.Copyright: DEP-5 (copyright-format 1.0): a Files paragraph has a Files field, a stand-alone License paragraph has License and no Files
  (("copyright.Copyright".toList, "iter_files".toList), ["Files".toList]),
  (("copyright.Copyright".toList, "iter_licenses".toList), ["License".toList]),
  -- copyright.Header: DEP-5 header paragraph: Format Upstream-Name Upstream-Contact Source Disclaimer Comment License Copyright; Format-Specification: name of Format in the drafts before 1.0; Files-Excluded: uscan(1)
  (("copyright.Header".toList, "format_string".toList), ["Format".toList, "Format-Specification".toList]),
  (("copyright.Header".toList, "upstream_name".toList), ["Upstream-Name".toList]),
  (("copyright.Header".toList, "upstream_contact".toList), ["Upstream-Contact".toList]),
  (("copyright.Header".toList, "source".toList), ["Source".toList]),
  (("copyright.Header".toList, "files_excluded".toList), ["Files-Excluded".toList]),
  (("copyright.Header".toList, "fix".toList), ["Format".toList, "Format-Specification".toList]),
  -- copyright.FilesParagraph: DEP-5 Files paragraph: Files Copyright License Comment
  (("copyright.FilesParagraph".toList, "files".toList), ["Files".toList]),
  (("copyright.FilesParagraph".toList, "copyright".toList), ["Copyright".toList]),
  (("copyright.FilesParagraph".toList, "comment".toList), ["Comment".toList]),
  (("copyright.FilesParagraph".toList, "license".toList), ["License".toList]),
  -- copyright.LicenseParagraph: DEP-5 stand-alone License paragraph: License Comment
  (("copyright.LicenseParagraph".toList, "comment".toList), ["Comment".toList]),
  (("copyright.LicenseParagraph".toList, "name".toList), ["License".toList]),
  (("copyright.LicenseParagraph".toList, "text".toList), ["License".toList]),
  -- dep3.PatchHeader: DEP-3: Description|Subject Origin Bug Bug-<Vendor> Forwarded Author|From Reviewed-by|Acked-by Last-Update Applied-Upstream
  (("dep3.PatchHeader".toList, "origin".toList), ["Origin".toList]),
  (("dep3.PatchHeader".toList, "forwarded".toList), ["Forwarded".toList]),
  (("dep3.PatchHeader".toList, "author".toList), ["Author".toList, "From".toList]),
  (("dep3.PatchHeader".toList, "reviewed_by".toList), ["Reviewed-by".toList]),
  (("dep3.PatchHeader".toList, "last_update".toList), ["Last-Update".toList]),
  (("dep3.PatchHeader".toList, "applied_upstream".toList), ["Applied-Upstream".toList]),
  (("dep3.PatchHeader".toList, "upstream_bug".toList), ["Bug".toList]),
  (("dep3.PatchHeader".toList, "vendor_bug".toList), ["Bug-{vendor}".toList]),
  (("dep3.PatchHeader".toList, "description".toList), ["Description".toList, "Subject".toList]),
  (("dep3.PatchHeader".toList, "long_description".toList), ["Description".toList, "Subject".toList])
]


def debianLookup (view method : Str) : Option (List Str) :=
  (debianNames.find? fun e => e.1 == (view, baseName method)).map (·.2)

/-- the literals of a row are exactly the names the table gives for its accessor; a row may be
    missing from the table only if it touches no field by name -/
def debianOk (r : Row) : Bool :=
  match debianLookup r.view r.method with
  | some d => r.names.all d.contains && d.all r.names.contains
  | none => r.names.isEmpty

/-- accessors whose literal differs from the specification's spelling (each with a witness theorem
    and an entry in known_findings.json).  Empty since the repairs of F-C15-18 and F-C15-19. -/
def knownMisnamed : List (Str × Str) := []

/-- **every field-name literal of every accessor row is the Debian name of the specification** -/
theorem C15_table_debian_names :
    ∀ r ∈ Gen.Accessors.rows, knownMisnamed.contains (r.view, baseName r.method) = false → debianOk r = true := by
  decide +kernel

/-- the table has one entry per accessor and no stale entry: keys are pairwise different and each
    is the accessor of some row -/
theorem C15_debian_names_exact :
    (debianNames.map (·.1)).Nodup
    ∧ ∀ e ∈ debianNames, (Gen.Accessors.rows.any fun r => r.view == e.1.1 && baseName r.method == e.1.2) = true := by
  refine ⟨by decide +kernel, by decide +kernel⟩

/-- the two tables agree: for every row, the names `docNames` gives (rule + exceptions) are the
    names of `debianNames` — so the 290 rule-derived names of `C15_table_names` are now each
    confirmed by a hand-written entry -/
theorem C15_debian_names_agree_doc :
    ∀ r ∈ Gen.Accessors.rows, r.names.isEmpty = false →
      ∃ d, debianLookup r.view r.method = some d
        ∧ (docNames r.view r.method).all d.contains = true ∧ d.all (docNames r.view r.method).contains = true := by
  decide +kernel

/-- the check is live: the two literals the real code had before the repairs fail it (the rule-based
    `docName` of that time accepted both) -/
theorem C15_debian_names_catches :
    (∀ r, findRow "apt.Release".toList "no_support_for_architecture_all".toList = some r →
      debianOk { r with names := ["No-Support-For-Architecture-All".toList] } = false
      ∧ ruleName r.method = "No-Support-For-Architecture-All".toList)
    ∧ (∀ r, findRow "dep3.PatchHeader".toList "reviewed_by".toList = some r →
      debianOk { r with names := ["Reviewed-By".toList] } = false
      ∧ ruleName r.method = "Reviewed-By".toList) := by
  refine ⟨fun r h => ?_, fun r h => ?_⟩
  · have : r = rowOf "apt.Release" "no_support_for_architecture_all" := by
      have e : findRow "apt.Release".toList "no_support_for_architecture_all".toList
          = some (rowOf "apt.Release" "no_support_for_architecture_all") := by decide +kernel
      rw [e] at h; exact (Option.some.inj h).symm
    subst this
    decide +kernel
  · have : r = rowOf "dep3.PatchHeader" "reviewed_by" := by
      have e : findRow "dep3.PatchHeader".toList "reviewed_by".toList
          = some (rowOf "dep3.PatchHeader" "reviewed_by") := by decide +kernel
      rw [e] at h; exact (Option.some.inj h).symm
    subst this
    decide +kernel

/-- candidate (reported, not in the name table's scope): the repository format defines ONE value
    for `No-Support-for-Architecture-all`, `Packages`; the getter compares the field text with `yes`,
    so on the field of a real Release file it answers `false` -/
theorem C15_release_nsaa_packages :
    (findRow "apt.Release".toList "no_support_for_architecture_all".toList).map (·.shape) = some .flagYes
    ∧ decode .flagYes false false "Packages".toList = .flag false := by decide +kernel

end Deb822Verif.Props.C15More
