import Deb822Verif.Props.C05
import Deb822Verif.Props.C04Tokens
/-!
# C05 (tokens) — paragraph operations on documents whose root holds bare tokens

  The refinement / frame / whole-history theorems of `Props/C05.lean` about `add_paragraph` (and
  `insert_paragraph` beyond the end) carry the hypothesis "every child of the root is a node". It is
  true of parsed and of built documents and false of the live result of `Deb822::wrap_and_sort`
  (`deb822Wrap`), which keeps free-standing comment lines as bare COMMENT / NEWLINE tokens under the
  root. With the repaired `insert_empty_paragraph` (`children_with_tokens().count()`, F-C05-3) the
  hypothesis is not needed: here the generalised statements, for ANY root child list.
-/
namespace Deb822Verif.Props.C05Tokens
open Deb822Verif Deb Node Props.C04 Props.C05 Props.C04Tokens Spec

/-! ## refinement -/

theorem sep_not_para (n : Nat) :
    (if n > 0 then [emptyLine] else ([] : List DNode)).filter isParaNode = [] := by
  split <;> simp [emptyLine_not_para]

/-- the child list after `add_paragraph`, any document: the new paragraph goes to the very END of
    the child list (nodes and tokens alike), behind a blank line if the root has a child NODE -/
theorem addParagraph_kids (d : Doc) :
    (addParagraph d).kids = terminateLastLine d.kids
      ++ (if (d.kids.filter Node.isNode).length > 0 then [emptyLine] else [])
      ++ [.node .PARAGRAPH []] := by
  simp only [addParagraph, insertEmptyParagraph, insertAt]
  rw [List.take_length, List.drop_length]
  simp

/-- **appending a paragraph pushes an empty paragraph — ANY document** (`C05_refine_add` without
    its hypothesis): every other paragraph keeps its content -/
theorem C05_refine_add_any (d : Doc) : ditems (addParagraph d).kids = ditems d.kids ++ [[]] := by
  rw [addParagraph_kids]
  have := ditems_terminateLastLine d.kids
  simp only [ditems_eq] at this ⊢
  simp only [List.filter_append, List.map_append, sep_not_para, this, List.filter_cons,
    newPara_is_para, ↓reduceIte, List.filter_nil, List.map_cons, List.map_nil, items_newPara,
    List.append_nil]

theorem C05_refine_insert_beyond_any (d : Doc) (i : Nat) (hn : convertIndex d.kids i = none) :
    ditems (insertParagraph d i).kids = ditems d.kids ++ [[]] := by
  have := C05_refine_add_any d
  unfold insertParagraph
  rw [hn]; exact this

/-- **`insert(i)` on the list, in one statement — ANY document**: insertion beyond the end appends -/
theorem C05_refine_insert_any (d : Doc) (i : Nat) :
    ditems (insertParagraph d i).kids = (ditems d.kids).insertIdx (min i (ditems d.kids).length) [] := by
  cases hc : convertIndex d.kids i with
  | none =>
    have hle : (ditems d.kids).length ≤ i := by
      have := convertIndexAux_none _ _ _ hc
      simpa [ditems_eq] using this
    rw [C05_refine_insert_beyond_any d i hc, Nat.min_eq_right hle, List.insertIdx_length_self]
  | some p =>
    have hlt : i < (ditems d.kids).length := by
      obtain ⟨q, _, hq, hl, c, hc1, hc2⟩ := convertIndexAux_some _ _ _ _ hc
      have hs := take_drop_at d.kids q c hc1
      simp only [ditems_eq, List.length_map]
      rw [hs]
      simp [List.filter_append, List.filter_cons, hc2, hl]
    rw [C05_refine_insert_at d i p hc, Nat.min_eq_left (by omega)]

/-- the old statements are special cases -/
theorem C05_refine_add_of_any (d : Doc) (_h : ∀ c ∈ d.kids, c.isNode = true) :
    ditems (addParagraph d).kids = ditems d.kids ++ [[]] := C05_refine_add_any d

/-! ## frame -/

/-- **`add_paragraph`, ANY document**: all children stay, in order — the last one possibly with its
    line terminated (a NEWLINE token appended inside it, or behind it when it is itself a bare
    token); a blank line (iff the root has a child node) and the new empty PARAGRAPH node are
    appended at the very end. The text gains at most these two `\n`, at the end. -/
theorem C05_frame_add_any (d : Doc) :
    (addParagraph d).kids =
        terminateLastLine d.kids
          ++ (if (d.kids.filter Node.isNode).length > 0 then [emptyLine] else [])
          ++ [.node .PARAGRAPH []]
    ∧ (addParagraph d).root.text =
        d.root.text ++ (if needsNl d.kids then ['\n'] else [])
          ++ (if (d.kids.filter Node.isNode).length > 0 then ['\n'] else []) := by
  refine ⟨addParagraph_kids d, ?_⟩
  simp only [Doc.root, text_node, addParagraph_kids, textList_append, textList_terminateLastLine]
  split <;> split <;> simp [emptyLine]

/-- the children in front of the last one are untouched by `add_paragraph`; so are all of them when
    the document's last line is terminated -/
theorem C05_frame_add_prefix (d : Doc) :
    (needsNl d.kids = false → ∃ tail, (addParagraph d).kids = d.kids ++ tail
        ∧ ∀ c ∈ tail, c = emptyLine ∨ c = .node .PARAGRAPH [])
    ∧ ∀ init last, d.kids = init ++ [last] → ∃ tail, (addParagraph d).kids = init ++ tail := by
  constructor
  · intro h
    rw [addParagraph_kids, terminateLastLine_of_not_needs _ h]
    refine ⟨_, List.append_assoc .., ?_⟩
    intro c hc
    simp only [List.mem_append, List.mem_singleton] at hc
    rcases hc with hc | rfl
    · split at hc
      · simp at hc; exact Or.inl hc
      · simp at hc
    · exact Or.inr rfl
  · intro init last hk
    rw [addParagraph_kids]
    rcases terminateLastLine_shape d.kids with h | ⟨init', last', last'', h1, h2, _⟩
    · rw [h, hk]; exact ⟨_, by simp only [List.append_assoc]; rfl⟩
    · rw [h2]
      have : init' = init := by
        rw [hk] at h1
        exact (List.append_inj' h1 rfl).1.symm
      subst this
      exact ⟨_, by simp only [List.append_assoc]; rfl⟩

/-- **`terminate_last_line` when the last child of the root is a bare token**: `last.parent()` is
    the ROOT itself, so the NEWLINE token is appended to the root's children — the child list grows
    by one (this is what `terminateLastLine_length_allNodes` excluded); nothing happens when that
    token is a NEWLINE (every live result of `wrap_and_sort` whose last child is a token ends so) -/
theorem C05_terminate_root_token (init : List DNode) (k : Kind) (t : Str) :
    terminateLastLine (init ++ [.tok k t]) =
      if k = .NEWLINE then init ++ [.tok k t] else init ++ [.tok k t, .tok .NEWLINE ['\n']] := by
  unfold terminateLastLine lastLeafKind
  rw [lastTok_snoc_tok]
  simp only [Option.map_some]
  split
  · rfl
  · simp

/-- the node-only statement of `Props/C05.lean` follows -/
theorem C05_frame_add_of_any (d : Doc) (h : ∀ c ∈ d.kids, c.isNode = true) :
    (addParagraph d).kids =
        terminateLastLine d.kids ++ (if d.kids.length > 0 then [emptyLine] else []) ++ [.node .PARAGRAPH []]
    ∧ (addParagraph d).root.text =
        d.root.text ++ (if needsNl d.kids then ['\n'] else []) ++ (if d.kids.length > 0 then ['\n'] else []) := by
  have := C05_frame_add_any d
  rwa [filter_isNode_all _ h] at this

/-- what the handles read after `add_paragraph`, ANY document: a handle on a child in front of the
    last one reads the very same node; the returned handle (the next free number) reads the new
    empty paragraph -/
theorem C05_frame_handles_add_any (d : Doc) :
    (addParagraph d).para d.handles.length = some (.node .PARAGRAPH [])
    ∧ ∀ j s, d.handles[j]? = some (some s) → s + 1 < d.kids.length →
        (addParagraph d).para j = d.kids[s]? := by
  have hk := addParagraph_kids d
  have hh : (addParagraph d).handles =
      shiftIns d.handles (terminateLastLine d.kids).length
        (1 + (if (d.kids.filter Node.isNode).length > 0 then [emptyLine] else ([] : List DNode)).length)
      ++ [some ((terminateLastLine d.kids).length +
        (if (d.kids.filter Node.isNode).length > 0 then [emptyLine] else ([] : List DNode)).length)] := by
    simp [addParagraph, insertEmptyParagraph]
  constructor
  · unfold Doc.para
    rw [hh, List.getElem?_append_right (by simp [shiftIns])]
    simp only [shiftIns, List.length_map, Nat.sub_self, List.getElem?_cons_zero]
    rw [hk, List.getElem?_append_right (by simp)]
    simp
  · intro j s hj hs
    have hjl : j < d.handles.length := (List.getElem?_eq_some_iff.mp hj).1
    obtain ⟨kids1, extra, hT, _, hlen, _⟩ := terminateLastLine_decomp d.kids
    have hTlen : d.kids.length ≤ (terminateLastLine d.kids).length := by rw [hT]; simp; omega
    unfold Doc.para
    rw [hh, List.getElem?_append_left (by simpa [shiftIns] using hjl)]
    simp only [shiftIns, List.getElem?_map, hj, Option.map_some]
    have hlt : ¬ s ≥ (terminateLastLine d.kids).length := by omega
    simp only [hlt, ↓reduceIte]
    rw [hk, List.append_assoc, List.getElem?_append_left (by omega)]
    -- the children in front of the last one are untouched
    rcases terminateLastLine_shape d.kids with h | ⟨init, last, last', h1, h2, _⟩
    · rw [h]
    · rw [h2]
      have hil : init.length + 1 = d.kids.length := by rw [h1]; simp
      rw [List.getElem?_append_left (by omega)]
      conv => rhs; rw [h1]
      rw [List.getElem?_append_left (by omega)]

/-! ## whole histories against the oracle's list model, any start -/

/-- **start = ANY root child list** (bare tokens included; one handle per paragraph, in order), ANY
    history of field edits and paragraph operations through any handle numbers. With
    `M = mrun (LModel.init kids) ops` (the oracle's `ListModel` run alongside):
    (1) every handle number reads what the model says;
    (2) the paragraphs of the document, in order, are `M.order` looked up in `M.paras`;
    and every handle in `M.order` is live. -/
theorem C05_history_refines_any (kids : List DNode) (ops : List EditOp) :
    let d' := run (startOf kids) ops
    let M := mrun (LModel.init kids) ops
    (∀ j : Nat, match M.paras[j]? with
      | none => d'.handles.length ≤ j ∧ d'.para j = none
      | some none => d'.handles[j]? = some none ∧ d'.para j = none
      | some (some m) => ∃ n, d'.para j = some n ∧ isParaNode n = true ∧ items n = m)
    ∧ ditems d'.kids = M.order.map (fun h => ((M.paras[h]?).join).getD [])
    ∧ ∀ h ∈ M.order, ∃ m, M.paras[h]? = some (some m) :=
  C04_history_oracle_any kids ops

/-- **start = the live result of `Deb822::wrap_and_sort`** on the parse of ANY text, with any
    paragraph order and any per-paragraph callback (whenever the call does not panic): the history
    refinement holds of it — its root holds the free-standing comment lines as bare tokens -/
theorem C05_history_refines_wrapped (s : Str) (le : Option (DNode → DNode → Bool))
    (wrapPara : Option (DNode → Option DNode)) (w : DNode)
    (_hw : deb822Wrap le wrapPara (parse s).tree = some w) (ops : List EditOp) :
    let d' := run (startOf w.children) ops
    let M := mrun (LModel.init w.children) ops
    (∀ j : Nat, match M.paras[j]? with
      | none => d'.handles.length ≤ j ∧ d'.para j = none
      | some none => d'.handles[j]? = some none ∧ d'.para j = none
      | some (some m) => ∃ n, d'.para j = some n ∧ isParaNode n = true ∧ items n = m)
    ∧ ditems d'.kids = M.order.map (fun h => ((M.paras[h]?).join).getD [])
    ∧ ∀ h ∈ M.order, ∃ m, M.paras[h]? = some (some m) :=
  C04_history_oracle_any w.children ops


/-! ## paragraphs stay separated on wrapped documents: the re-read clause

  Start = the live result `w` of `Deb822::wrap_and_sort(None, None)` on a parsed well-formed
  document. Its root holds bare tokens, so the unit-list invariant `UWF` of `Lemmas/DebEditDoc.lean`
  (one node per unit) does not describe it; `Lemmas/DebEditTok.lean` extends it (`RUnit`, `RInv`):
  every edit keeps `RInv`, and a document satisfying `RInv` prints the text of a well-formed
  `DocS` with the same paragraphs (`rinv_flat`: a paragraph absorbs the bare comment lines behind
  it, as a reader does). -/

/-- `wrap_and_sort(None, None)` on the tree of a `DocS` never panics; its children are the root
    units `wrapUnits` -/
theorem C05_wrapped_exists (d0 : DocS) :
    ∃ w, deb822Wrap none none d0.tree = some w ∧ w.children = rkids (wrapUnits d0) :=
  ⟨_, deb822Wrap_runits d0, rfl⟩

/-- **whole histories on a wrapped document**, live form: `w` = the live result of
    `wrap_and_sort(None, None)` on a parsed well-formed document, ANY handles on it, any history of
    field edits and paragraph operations with valid arguments: the printed document is accepted by
    the strict reader without error and reads back to exactly the live paragraphs that have a field,
    in order — paragraphs never fuse, although free-standing comment lines are bare tokens and the
    blank lines around them were dropped. -/
theorem C05_reread_wrapped_live (d0 : DocS) (hwf : d0.WF) (w : DNode)
    (hw : deb822Wrap none none d0.tree = some w) (d : Doc) (hd : d.kids = w.children)
    (ops : List EditOp) (hv : ∀ o ∈ ops, o.Valid) :
    let d' := run d ops
    ∃ s : DocS, s.WF ∧ s.str = d'.root.text ∧ parse d'.root.text = ⟨s.tree, []⟩
      ∧ readStrict d'.root.text = .ok s.tree
      ∧ docItems s.tree = (ditems d'.kids).filter nonEmpty :=
  C04_reread_history_wrapped d0 hwf w hw d hd ops hv

/-- **oracle step (4) on a wrapped document, in terms of the list model** (`C05_history_reread_model`
    with start `w`): one handle per paragraph of `w`, any history with valid arguments; the printed
    document re-reads — strictly, without error — to exactly the model's paragraphs in the model's
    order, the empty ones left out -/
theorem C05_reread_wrapped (d0 : DocS) (hwf : d0.WF) (w : DNode)
    (hw : deb822Wrap none none d0.tree = some w) (ops : List EditOp) (hv : ∀ o ∈ ops, o.Valid) :
    let d' := run (startOf w.children) ops
    let M := mrun (LModel.init w.children) ops
    ∃ s : DocS, s.WF ∧ s.str = d'.root.text ∧ parse d'.root.text = ⟨s.tree, []⟩
      ∧ readStrict d'.root.text = .ok s.tree
      ∧ docItems s.tree = (M.order.map (fun h => ((M.paras[h]?).join).getD [])).filter nonEmpty := by
  obtain ⟨s, h1, h2, h3, h4, h5⟩ := C05_reread_wrapped_live d0 hwf w hw (startOf w.children) rfl ops hv
  refine ⟨s, h1, h2, h3, h4, ?_⟩
  rw [h5]
  have := (C04_history_oracle_any w.children ops).2.1
  exact congrArg (List.filter nonEmpty) this

/-- the wrapped document itself (empty history) re-reads to the paragraphs of the parsed one -/
theorem C05_reread_wrapped_start (d0 : DocS) (hwf : d0.WF) (w : DNode)
    (hw : deb822Wrap none none d0.tree = some w) :
    ∃ s : DocS, s.WF ∧ s.str = w.text ∧ parse w.text = ⟨s.tree, []⟩ ∧ readStrict w.text = .ok s.tree
      ∧ docItems s.tree = (docItems w).filter nonEmpty := by
  have hw' : w = .node .ROOT (rkids (wrapUnits d0)) := by
    have := deb822Wrap_runits d0
    rw [hw] at this; exact Option.some.inj this
  obtain ⟨s, h1, h2, h3, h4, h5⟩ := C05_reread_wrapped_live d0 hwf w hw ⟨w.children, []⟩ rfl [] (by simp)
  subst hw'
  exact ⟨s, h1, h2, h3, h4, h5⟩

/-! ### non-vacuity -/

example : C03.exDoc.WF := by decide
example : ∃ w, deb822Wrap none none C03.exDoc.tree = some w := ⟨_, (C05_wrapped_exists _).choose_spec.1⟩
example : (deb822Wrap none none (parse "# only\n".toList).tree).map (fun w =>
      (convertIndex w.children 0, (w.children.filter Node.isNode).length, w.children.length))
    = some (none, 0, 2) := by decide +kernel
/-- a root with bare tokens only: `add_paragraph` puts NO blank line in front of the new paragraph
    (`children().count()` counts nodes), the comment line then leads the new paragraph -/
example : (deb822Wrap none none (parse "# only\n".toList).tree).map (fun w =>
      ((addParagraph (startOf w.children)).onPara 0 (fun cs => paraSet cs "N".toList "n".toList)).root.text)
    = some "# only\nN: n\n".toList := by decide +kernel
example : RInv (wrapUnits C03.exDoc) := by decide +kernel
example : ∀ o ∈ C04.exOps, o.Valid := by decide
/-- the invariant admits what the operations make of a wrapped document: a paragraph directly
    followed by a bare comment line, an unterminated paragraph whose terminator is a bare NEWLINE
    token, an empty paragraph behind bare tokens — and rejects a paragraph behind a paragraph's
    comment line without a blank line in between -/
example : RInv [.ctok " top".toList, .nltok,
    .para [.entry { key := "A".toList, ws := [' '], v := "a".toList, nl := true, conts := [] }],
    .ctok " c".toList, .nltok, .gap .blank,
    .para [.entry { key := "B".toList, ws := [' '], v := "b".toList, nl := false, conts := [] }], .nltok,
    .nltok, .ctok " x".toList, .nltok, .para []] := by decide +kernel
example : ¬ RInv [.para [.entry { key := "A".toList, ws := [' '], v := "a".toList, nl := true, conts := [] }],
    .ctok " c".toList, .nltok, .para []] := by decide +kernel

/-! ## regression: F-C05-3 (`add_paragraph` on a document with bare tokens under the root) -/

/-- the witness of F-C05-3, on the repaired code: wrap `# top⏎⏎A: a⏎⏎# mid⏎⏎B: b⏎` (the comment
    lines become bare tokens, the blank lines around them go), `add_paragraph`, then `set N: n`
    through the returned handle (number 2): the paragraphs are `[A]`, `[B]`, `[N]` IN THIS ORDER and
    the text is as expected. (Before the repair the new paragraph landed between `A` and `B`.) -/
theorem C05_fixed_add_on_wrapped :
    (deb822Wrap none none (parse "# top\n\nA: a\n\n# mid\n\nB: b\n".toList).tree).map (fun w =>
      (w.text, (startOf w.children).handles.length))
      = some ("# top\nA: a\n\n# mid\nB: b\n".toList, 2)
    ∧ (deb822Wrap none none (parse "# top\n\nA: a\n\n# mid\n\nB: b\n".toList).tree).map (fun w =>
      let d := (addParagraph (startOf w.children)).onPara 2 (fun cs => paraSet cs "N".toList "n".toList)
      (ditems d.kids, d.root.text))
      = some ([[("A".toList, "a".toList)], [("B".toList, "b".toList)], [("N".toList, "n".toList)]],
              "# top\nA: a\n\n# mid\nB: b\n\nN: n\n".toList) := by
  decide +kernel

end Deb822Verif.Props.C05Tokens
