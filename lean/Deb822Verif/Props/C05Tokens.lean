import Deb822Verif.Props.C05
import Deb822Verif.Props.C04Tokens
import Deb822Verif.Model.DebWrap
/-!
# C05 (tokens) — paragraph operations on documents whose root holds bare tokens

  The refinement / frame / whole-history theorems of `Props/C05.lean` about `add_paragraph` (and
  `insert_paragraph` beyond the end) carry the hypothesis "every child of the root is a node". It is
  true of parsed and of built documents and false of the live result of `Deb822::wrap_and_sort`
  (`deb822Wrap`), which keeps free-standing comment lines as bare COMMENT / NEWLINE tokens under the
  root. With the repaired `insert_empty_paragraph` (`children_with_tokens().count()`, F-C05-3) the
  hypothesis is not needed: here the generalised statements, for ANY root child list.
-/
namespace Deb822Verif.Props.C05Tokens
open Deb822Verif Deb Node Props.C04 Props.C05 Props.C04Tokens Spec

/-! ## refinement -/

theorem sep_not_para (n : Nat) :
    (if n > 0 then [emptyLine] else ([] : List DNode)).filter isParaNode = [] := by
  split <;> simp [emptyLine_not_para]

/-- the child list after `add_paragraph`, any document: the new paragraph goes to the very END of
    the child list (nodes and tokens alike), behind a blank line if the root has a child NODE -/
theorem addParagraph_kids (d : Doc) :
    (addParagraph d).kids = terminateLastLine d.kids
      ++ (if (d.kids.filter Node.isNode).length > 0 then [emptyLine] else [])
      ++ [.node .PARAGRAPH []] := by
  simp only [addParagraph, insertEmptyParagraph, insertAt]
  rw [List.take_length, List.drop_length]
  simp

/-- **appending a paragraph pushes an empty paragraph — ANY document** (`C05_refine_add` without
    its hypothesis): every other paragraph keeps its content -/
theorem C05_refine_add_any (d : Doc) : ditems (addParagraph d).kids = ditems d.kids ++ [[]] := by
  rw [addParagraph_kids]
  have := ditems_terminateLastLine d.kids
  simp only [ditems_eq] at this ⊢
  simp only [List.filter_append, List.map_append, sep_not_para, this, List.filter_cons,
    newPara_is_para, ↓reduceIte, List.filter_nil, List.map_cons, List.map_nil, items_newPara,
    List.append_nil]

theorem C05_refine_insert_beyond_any (d : Doc) (i : Nat) (hn : convertIndex d.kids i = none) :
    ditems (insertParagraph d i).kids = ditems d.kids ++ [[]] := by
  have := C05_refine_add_any d
  unfold insertParagraph
  rw [hn]; exact this

/-- **`insert(i)` on the list, in one statement — ANY document**: insertion beyond the end appends -/
theorem C05_refine_insert_any (d : Doc) (i : Nat) :
    ditems (insertParagraph d i).kids = (ditems d.kids).insertIdx (min i (ditems d.kids).length) [] := by
  cases hc : convertIndex d.kids i with
  | none =>
    have hle : (ditems d.kids).length ≤ i := by
      have := convertIndexAux_none _ _ _ hc
      simpa [ditems_eq] using this
    rw [C05_refine_insert_beyond_any d i hc, Nat.min_eq_right hle, List.insertIdx_length_self]
  | some p =>
    have hlt : i < (ditems d.kids).length := by
      obtain ⟨q, _, hq, hl, c, hc1, hc2⟩ := convertIndexAux_some _ _ _ _ hc
      have hs := take_drop_at d.kids q c hc1
      simp only [ditems_eq, List.length_map]
      rw [hs]
      simp [List.filter_append, List.filter_cons, hc2, hl]
    rw [C05_refine_insert_at d i p hc, Nat.min_eq_left (by omega)]

/-- the old statements are special cases -/
theorem C05_refine_add_of_any (d : Doc) (_h : ∀ c ∈ d.kids, c.isNode = true) :
    ditems (addParagraph d).kids = ditems d.kids ++ [[]] := C05_refine_add_any d

/-! ## frame -/

/-- **`add_paragraph`, ANY document**: all children stay, in order — the last one possibly with its
    line terminated (a NEWLINE token appended inside it, or behind it when it is itself a bare
    token); a blank line (iff the root has a child node) and the new empty PARAGRAPH node are
    appended at the very end. The text gains at most these two `\n`, at the end. -/
theorem C05_frame_add_any (d : Doc) :
    (addParagraph d).kids =
        terminateLastLine d.kids
          ++ (if (d.kids.filter Node.isNode).length > 0 then [emptyLine] else [])
          ++ [.node .PARAGRAPH []]
    ∧ (addParagraph d).root.text =
        d.root.text ++ (if needsNl d.kids then ['\n'] else [])
          ++ (if (d.kids.filter Node.isNode).length > 0 then ['\n'] else []) := by
  refine ⟨addParagraph_kids d, ?_⟩
  simp only [Doc.root, text_node, addParagraph_kids, textList_append, textList_terminateLastLine]
  split <;> split <;> simp [emptyLine]

/-- the children in front of the last one are untouched by `add_paragraph`; so are all of them when
    the document's last line is terminated -/
theorem C05_frame_add_prefix (d : Doc) :
    (needsNl d.kids = false → ∃ tail, (addParagraph d).kids = d.kids ++ tail
        ∧ ∀ c ∈ tail, c = emptyLine ∨ c = .node .PARAGRAPH [])
    ∧ ∀ init last, d.kids = init ++ [last] → ∃ tail, (addParagraph d).kids = init ++ tail := by
  constructor
  · intro h
    rw [addParagraph_kids, terminateLastLine_of_not_needs _ h]
    refine ⟨_, List.append_assoc .., ?_⟩
    intro c hc
    simp only [List.mem_append, List.mem_singleton] at hc
    rcases hc with hc | rfl
    · split at hc
      · simp at hc; exact Or.inl hc
      · simp at hc
    · exact Or.inr rfl
  · intro init last hk
    rw [addParagraph_kids]
    rcases terminateLastLine_shape d.kids with h | ⟨init', last', last'', h1, h2, _⟩
    · rw [h, hk]; exact ⟨_, by simp only [List.append_assoc]; rfl⟩
    · rw [h2]
      have : init' = init := by
        rw [hk] at h1
        exact (List.append_inj' h1 rfl).1.symm
      subst this
      exact ⟨_, by simp only [List.append_assoc]; rfl⟩

/-- the node-only statement of `Props/C05.lean` follows -/
theorem C05_frame_add_of_any (d : Doc) (h : ∀ c ∈ d.kids, c.isNode = true) :
    (addParagraph d).kids =
        terminateLastLine d.kids ++ (if d.kids.length > 0 then [emptyLine] else []) ++ [.node .PARAGRAPH []]
    ∧ (addParagraph d).root.text =
        d.root.text ++ (if needsNl d.kids then ['\n'] else []) ++ (if d.kids.length > 0 then ['\n'] else []) := by
  have := C05_frame_add_any d
  rwa [filter_isNode_all _ h] at this

/-- what the handles read after `add_paragraph`, ANY document: a handle on a child in front of the
    last one reads the very same node; the returned handle (the next free number) reads the new
    empty paragraph -/
theorem C05_frame_handles_add_any (d : Doc) :
    (addParagraph d).para d.handles.length = some (.node .PARAGRAPH [])
    ∧ ∀ j s, d.handles[j]? = some (some s) → s + 1 < d.kids.length →
        (addParagraph d).para j = d.kids[s]? := by
  have hk := addParagraph_kids d
  have hh : (addParagraph d).handles =
      shiftIns d.handles (terminateLastLine d.kids).length
        (1 + (if (d.kids.filter Node.isNode).length > 0 then [emptyLine] else ([] : List DNode)).length)
      ++ [some ((terminateLastLine d.kids).length +
        (if (d.kids.filter Node.isNode).length > 0 then [emptyLine] else ([] : List DNode)).length)] := by
    simp [addParagraph, insertEmptyParagraph]
  constructor
  · unfold Doc.para
    rw [hh, List.getElem?_append_right (by simp [shiftIns])]
    simp only [shiftIns, List.length_map, Nat.sub_self, List.getElem?_cons_zero]
    rw [hk, List.getElem?_append_right (by simp)]
    simp
  · intro j s hj hs
    have hjl : j < d.handles.length := (List.getElem?_eq_some_iff.mp hj).1
    obtain ⟨kids1, extra, hT, _, hlen, _⟩ := terminateLastLine_decomp d.kids
    have hTlen : d.kids.length ≤ (terminateLastLine d.kids).length := by rw [hT]; simp; omega
    unfold Doc.para
    rw [hh, List.getElem?_append_left (by simpa [shiftIns] using hjl)]
    simp only [shiftIns, List.getElem?_map, hj, Option.map_some]
    have hlt : ¬ s ≥ (terminateLastLine d.kids).length := by omega
    simp only [hlt, ↓reduceIte]
    rw [hk, List.append_assoc, List.getElem?_append_left (by omega)]
    -- the children in front of the last one are untouched
    rcases terminateLastLine_shape d.kids with h | ⟨init, last, last', h1, h2, _⟩
    · rw [h]
    · rw [h2]
      have hil : init.length + 1 = d.kids.length := by rw [h1]; simp
      rw [List.getElem?_append_left (by omega)]
      conv => rhs; rw [h1]
      rw [List.getElem?_append_left (by omega)]

/-! ## whole histories against the oracle's list model, any start -/

/-- **start = ANY root child list** (bare tokens included; one handle per paragraph, in order), ANY
    history of field edits and paragraph operations through any handle numbers. With
    `M = mrun (LModel.init kids) ops` (the oracle's `ListModel` run alongside):
    (1) every handle number reads what the model says;
    (2) the paragraphs of the document, in order, are `M.order` looked up in `M.paras`;
    and every handle in `M.order` is live. -/
theorem C05_history_refines_any (kids : List DNode) (ops : List EditOp) :
    let d' := run (startOf kids) ops
    let M := mrun (LModel.init kids) ops
    (∀ j : Nat, match M.paras[j]? with
      | none => d'.handles.length ≤ j ∧ d'.para j = none
      | some none => d'.handles[j]? = some none ∧ d'.para j = none
      | some (some m) => ∃ n, d'.para j = some n ∧ isParaNode n = true ∧ items n = m)
    ∧ ditems d'.kids = M.order.map (fun h => ((M.paras[h]?).join).getD [])
    ∧ ∀ h ∈ M.order, ∃ m, M.paras[h]? = some (some m) :=
  C04_history_oracle_any kids ops

/-- **start = the live result of `Deb822::wrap_and_sort`** on the parse of ANY text, with any
    paragraph order and any per-paragraph callback (whenever the call does not panic): the history
    refinement holds of it — its root holds the free-standing comment lines as bare tokens -/
theorem C05_history_refines_wrapped (s : Str) (le : Option (DNode → DNode → Bool))
    (wrapPara : Option (DNode → Option DNode)) (w : DNode)
    (_hw : deb822Wrap le wrapPara (parse s).tree = some w) (ops : List EditOp) :
    let d' := run (startOf w.children) ops
    let M := mrun (LModel.init w.children) ops
    (∀ j : Nat, match M.paras[j]? with
      | none => d'.handles.length ≤ j ∧ d'.para j = none
      | some none => d'.handles[j]? = some none ∧ d'.para j = none
      | some (some m) => ∃ n, d'.para j = some n ∧ isParaNode n = true ∧ items n = m)
    ∧ ditems d'.kids = M.order.map (fun h => ((M.paras[h]?).join).getD [])
    ∧ ∀ h ∈ M.order, ∃ m, M.paras[h]? = some (some m) :=
  C04_history_oracle_any w.children ops

end Deb822Verif.Props.C05Tokens
