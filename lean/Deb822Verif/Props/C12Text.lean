import Deb822Verif.Props.C10
import Deb822Verif.Props.C12
/-!
# C12 end to end — satisfaction decided on the TEXT of a well-formed field

`Props/C12.lean` proves the specification of the two evaluators over a tree / over lossy records
under the hypothesis that the tree's accessors do not panic (`viewL root = .ok f`).
`Props/C10.lean` proves that on the text `f.str` of a well-formed field (`f : FieldA`, `f.WF`)
both readers return exactly the structure `f.view`. This file composes the two: the statements
below speak about `f.str` only.

Findings of the composition
* **Operators.** `FieldA.WF` needs no extra hypothesis on operators: the operator of a written
  version constraint is a `VC` (`VerPart.op`), one of `<<`, `<=`, `=`, `>=`, `>>`, so `version()`
  cannot hit its first `unwrap()` (`C12_accessor_panic_witness` lives outside `WF`), and
  `VersionA.ok` bounds the epoch by `u32`, so it cannot hit the second one either.
* **Empty entries and substitution variables.** `Relations::satisfied_by` iterates over
  `entries()`, i.e. the ENTRY child nodes of the root. An empty entry (`a, , b`, trailing comma)
  produces no ENTRY node and `${…}` produces a SUBSTVAR node, which `entries()` skips. Both are
  therefore *ignored*: they impose no requirement (a field consisting only of them is satisfied by
  every lookup — `C12_text_only_substvars`). This is `f.view`, which lists the non-empty entries
  only; `FieldA.SatisfiedBy` below says it on the syntax directly. The lossy reader drops empty
  entries the same way and refuses substitution variables (hence `hs` in the lossy statements).
* **Architecture qualifiers, architecture lists, profiles** are not looked at by either evaluator.
-/
namespace Deb822Verif.Props.C12
open Deb822Verif Rel RelSat DebVersion RelSpec

/-! ## from lossy records / the accessor view to what the evaluators read -/

/-- the two fields of `lossy::Relation` the evaluator reads -/
def recY (r : Lossy.Relation) : RelY := ⟨r.name, r.version⟩

/-- a list of entries of lossy records as the evaluator sees it -/
def fieldY (rs : List (List Lossy.Relation)) : FieldY := rs.map fun e => e.map recY

theorem viewRel_of_acc (r : RNode) (y : Lossy.Relation) (h : accRelation r = some y) :
    viewRel r = .ok (recY y) := by
  unfold accRelation at h
  unfold viewRel
  cases hn : name r with
  | none => simp [hn] at h
  | some n =>
    cases hv : version r with
    | error e => simp [hn, hv] at h
    | ok v =>
      simp only [hn, hv, Option.some.injEq] at h
      subst h
      rfl

theorem mapO_of_mapM {α β γ} {g : α → Option β} {g' : α → Outcome γ} {c : β → γ}
    (hg : ∀ a y, g a = some y → g' a = .ok (c y)) :
    ∀ (l : List α) (ys : List β), l.mapM g = some ys → mapO g' l = .ok (ys.map c) := by
  intro l
  induction l with
  | nil => intro ys h; simp at h; subst h; rfl
  | cons a as ih =>
    intro ys h
    simp only [List.mapM_cons, Option.bind_eq_bind] at h
    cases ha : g a with
    | none => simp [ha] at h
    | some y =>
      cases has : as.mapM g with
      | none => simp [ha, has] at h
      | some ys' =>
        simp [ha, has] at h; subst h
        simp [mapO, hg a y ha, ih ys' has]

/-- if all accessors succeed (`accEntries`, the C10 view), the tree denotes (`viewL`, the C12 view)
    the (name, version) projection of what they return -/
theorem viewL_of_accEntries (root : RNode) (l : List (List Lossy.Relation))
    (h : accEntries root = some l) : viewL root = .ok (fieldY l) := by
  unfold accEntries at h
  unfold viewL fieldY
  refine mapO_of_mapM (g := fun e => (relations e).mapM accRelation) ?_ (entries root) l h
  intro e ys hys
  exact mapO_of_mapM (fun r y hy => viewRel_of_acc r y hy) (relations e) ys hys

/-! ## lossless = lossy for a comparison that may panic -/

theorem relSatLO_view (cmpO : V → V → Outcome Ordering) (lk : Lookup) (r : RNode) (y : RelY)
    (h : viewRel r = .ok y) : relSatLO cmpO lk r = relSatYO cmpO lk y := by
  unfold viewRel at h
  unfold relSatLO relSatYO
  cases hn : name r with
  | none => simp [hn] at h
  | some n =>
    cases hv : version r with
    | error e => simp [hn, hv] at h
    | ok v =>
      simp only [hn, hv, Outcome.ok.injEq] at h
      subst h
      cases v with
      | none => rfl
      | some p => obtain ⟨vc, w⟩ := p; cases hl : lk n <;> simp [hl]

theorem anyO_of_mapO' {α β} {g : α → Outcome β} {p : α → Outcome Bool} {q : β → Outcome Bool}
    (hpq : ∀ a y, g a = .ok y → p a = q y) :
    ∀ (l : List α) (ys : List β), mapO g l = .ok ys → anyO p l = anyO q ys := by
  intro l
  induction l with
  | nil => intro ys h; simp only [mapO, Outcome.ok.injEq] at h; subst h; rfl
  | cons a as ih =>
    intro ys h
    obtain ⟨y, ys', rfl, hy, hrest⟩ := mapO_ok_cons h
    simp only [anyO, hpq a y hy, ih ys' hrest]

theorem allO_of_mapO' {α β} {g : α → Outcome β} {p : α → Outcome Bool} {q : β → Outcome Bool}
    (hpq : ∀ a y, g a = .ok y → p a = q y) :
    ∀ (l : List α) (ys : List β), mapO g l = .ok ys → allO p l = allO q ys := by
  intro l
  induction l with
  | nil => intro ys h; simp only [mapO, Outcome.ok.injEq] at h; subst h; rfl
  | cons a as ih =>
    intro ys h
    obtain ⟨y, ys', rfl, hy, hrest⟩ := mapO_ok_cons h
    simp only [allO, hpq a y hy, ih ys' hrest]

/-- **C12, lossless = lossy, panics included.** Generalises `C12_lossless_eq_lossy` to a
    comparison that may panic (`compareO`): if the lossy records are the accessor view of the tree,
    both evaluators return the same outcome — the same Boolean, or a panic at the same
    comparison (both walk entries and alternatives in the same order and stop at the same place). -/
theorem C12_losslessO_eq_lossyO (cmpO : V → V → Outcome Ordering) (lk : Lookup) (root : RNode)
    (f : FieldY) (hsame : viewL root = .ok f) :
    relationsSatLO cmpO lk root = relationsSatYO cmpO lk f := by
  unfold relationsSatLO relationsSatYO
  refine allO_of_mapO' (g := fun e => mapO viewRel (relations e)) ?_ (entries root) f hsame
  intro e ys hys
  unfold entrySatLO
  exact anyO_of_mapO' (fun r y hy => relSatLO_view cmpO lk r y hy) (relations e) ys hys

/-! ## satisfaction said on the syntax -/

/-- the alternative `a` as written is satisfied: its package is known to the lookup and, if a
    version constraint `(op ver)` is written, the installed version stands in relation `op` to `ver` -/
def RelASat (cmp : V → V → Ordering) (lk : Lookup) (a : RelA) : Prop :=
  ∃ v, lk a.name = some v ∧
    (a.version = none ∨ ∃ p, a.version = some p ∧ Stands p.op (cmp v p.ver.value))

/-- the field as written is satisfied: every segment that is a list of alternatives has a
    satisfied alternative. Empty segments and substitution variables impose nothing. -/
def FieldA.SatisfiedBy (cmp : V → V → Ordering) (lk : Lookup) (f : FieldA) : Prop :=
  ∀ s ∈ f.segs, ∀ r rest, s.entry = .alts r rest → ∃ a ∈ r :: rest.map AltA.rel, RelASat cmp lk a

theorem satisfiedRel_view (cmp : V → V → Ordering) (lk : Lookup) (a : RelA) :
    SatisfiedRel cmp lk (recY a.view) ↔ RelASat cmp lk a := by
  unfold SatisfiedRel RelASat recY RelA.view
  constructor
  · rintro ⟨v, hv, h⟩
    refine ⟨v, hv, ?_⟩
    cases hp : a.version with
    | none => exact Or.inl rfl
    | some p =>
      right
      rcases h with h | ⟨vc, w, h, hs⟩
      · simp [hp] at h
      · simp only [hp, Option.map_some, Option.some.injEq, Prod.mk.injEq] at h
        obtain ⟨rfl, rfl⟩ := h
        exact ⟨p, rfl, hs⟩
  · rintro ⟨v, hv, h⟩
    refine ⟨v, hv, ?_⟩
    rcases h with h | ⟨p, h, hs⟩
    · left; simp [h]
    · right; exact ⟨p.op, p.ver.value, by simp [h], hs⟩

/-- the right-hand side of `C12_spec` on `f.view` is satisfaction of the field as written -/
theorem satisfied_view_iff (cmp : V → V → Ordering) (lk : Lookup) (f : FieldA) :
    Satisfied cmp lk (fieldY f.view) ↔ FieldA.SatisfiedBy cmp lk f := by
  unfold Satisfied FieldA.SatisfiedBy fieldY FieldA.view
  constructor
  · intro h s hs r rest he
    have hm : (r.view :: rest.map fun a => a.rel.view).map recY ∈
        (f.segs.filterMap fun s => s.entry.view).map fun e => e.map recY := by
      refine List.mem_map.2 ⟨_, List.mem_filterMap.2 ⟨s, hs, ?_⟩, rfl⟩
      simp [he, EntryA.view]
    obtain ⟨y, hy, hsat⟩ := h _ hm
    simp only [List.map_cons, List.map_map, List.mem_cons, List.mem_map, Function.comp] at hy
    rcases hy with rfl | ⟨a, ha, rfl⟩
    · exact ⟨r, by simp, (satisfiedRel_view cmp lk r).1 hsat⟩
    · exact ⟨a.rel, by simp only [List.mem_cons, List.mem_map]; exact Or.inr ⟨a, ha, rfl⟩,
        (satisfiedRel_view cmp lk a.rel).1 hsat⟩
  · intro h e he
    obtain ⟨v, hv, rfl⟩ := List.mem_map.1 he
    obtain ⟨s, hs, hsv⟩ := List.mem_filterMap.1 hv
    cases hent : s.entry with
    | empty => simp [hent, EntryA.view] at hsv
    | substvar p ps => simp [hent, EntryA.view] at hsv
    | alts r rest =>
      simp only [hent, EntryA.view, Option.some.injEq] at hsv
      subst hsv
      obtain ⟨a, ha, hsat⟩ := h s hs r rest hent
      simp only [List.mem_cons, List.mem_map] at ha
      rcases ha with rfl | ⟨b, hb, rfl⟩
      · exact ⟨recY a.view, by simp, (satisfiedRel_view cmp lk a).2 hsat⟩
      · refine ⟨recY b.rel.view, ?_, (satisfiedRel_view cmp lk b.rel).2 hsat⟩
        simp only [List.map_cons, List.map_map, List.mem_cons, List.mem_map, Function.comp]
        exact Or.inr ⟨b, hb, rfl⟩

/-! ## 1. the lossless evaluator on the text -/

/-- the tree the parser returns for the text of a well-formed field denotes `f.view` -/
theorem viewL_text (f : FieldA) (h : f.WF) (allow : Bool) (ha : allow = true ∨ f.hasSubstvar = false) :
    viewL (parse f.str allow).tree = .ok (fieldY f.view) := by
  rw [C10.C10_parse_inverts f h allow ha]
  exact viewL_of_accEntries f.tree f.view (accEntries_field f h)

/-- **C12 on the text, lossless evaluator.** For a well-formed field `f` (no hypothesis on the
    operators is needed: `WF` fields carry one of the five), read with substitution variables
    allowed, or disallowed when it has none: the parser reports no error, and for every version
    order `cmp` and every lookup `lk` the lossless evaluator run on the tree the parser returns for
    `f.str` does not panic and answers `true` exactly when every non-empty entry of `f.view` has an
    alternative whose package `lk` knows and, if versioned, whose installed version stands in the
    stated relation to the required one (the right-hand side of `C12_spec`). Empty entries and
    substitution variables are not entries for the evaluator and impose nothing. -/
theorem C12_text_lossless (f : FieldA) (h : f.WF) (allow : Bool)
    (ha : allow = true ∨ f.hasSubstvar = false) (cmp : V → V → Ordering) (lk : Lookup) :
    (parse f.str allow).errors = [] ∧
    ∃ b, relationsSatL cmp lk (parse f.str allow).tree = .ok b ∧
      (b = true ↔ Satisfied cmp lk (fieldY f.view)) := by
  refine ⟨by rw [C10.C10_parse_inverts f h allow ha], relationsSatY cmp lk (fieldY f.view), ?_,
    C12_spec cmp lk (fieldY f.view)⟩
  exact C12_lossless_eq_lossy cmp lk _ _ (viewL_text f h allow ha)

/-- the same with the right-hand side said on the syntax of the field -/
theorem C12_text_lossless_syntax (f : FieldA) (h : f.WF) (allow : Bool)
    (ha : allow = true ∨ f.hasSubstvar = false) (cmp : V → V → Ordering) (lk : Lookup) :
    ∃ b, relationsSatL cmp lk (parse f.str allow).tree = .ok b ∧
      (b = true ↔ FieldA.SatisfiedBy cmp lk f) := by
  obtain ⟨b, hb, hiff⟩ := (C12_text_lossless f h allow ha cmp lk).2
  exact ⟨b, hb, hiff.trans (satisfied_view_iff cmp lk f)⟩

/-- through the strict reader (`Relations::from_str`): accepted, no panic, same answer -/
theorem C12_text_strict (f : FieldA) (h : f.WF) (hs : f.hasSubstvar = false)
    (cmp : V → V → Ordering) (lk : Lookup) :
    ∃ t b, readStrict f.str = .ok t ∧ relationsSatL cmp lk t = .ok b ∧
      (b = true ↔ Satisfied cmp lk (fieldY f.view)) := by
  obtain ⟨he, b, hb, hiff⟩ := C12_text_lossless f h false (Or.inr hs) cmp lk
  refine ⟨(parse f.str false).tree, b, ?_, hb, hiff⟩
  simp [readStrict, he]

/-! ## 2. the lossy evaluator on the text -/

/-- **C12 on the text, lossy evaluator.** For a well-formed field without substitution variables
    (the lossy reader refuses them) the lossy reader accepts `f.str`, and the lossy evaluator on the
    records it returns does not panic and answers `true` exactly when `f.view` is satisfied (same
    right-hand side as `C12_spec`). Empty entries are dropped by the reader and impose nothing. -/
theorem C12_text_lossy (f : FieldA) (h : f.WF) (hs : f.hasSubstvar = false)
    (cmp : V → V → Ordering) (lk : Lookup) :
    ∃ rs b, Lossy.readRelations f.str = .ok rs ∧
      relationsSatYO (total cmp) lk (fieldY rs) = .ok b ∧
      (b = true ↔ Satisfied cmp lk (fieldY f.view)) :=
  ⟨f.view, relationsSatY cmp lk (fieldY f.view), C10.C10_lossy f h hs,
    relationsSatYO_total cmp lk _, C12_spec cmp lk _⟩

/-! ## 3. both evaluators and all lookup forms agree on the text -/

/-- **C12 on the text, agreement.** On the text of a well-formed field without substitution
    variables, for every comparison (one that may panic included) and every lookup, the lossless
    evaluator on the parser's tree and the lossy evaluator on the lossy reader's records return the
    same outcome. -/
theorem C12_text_agree (f : FieldA) (h : f.WF) (hs : f.hasSubstvar = false) (allow : Bool)
    (cmpO : V → V → Outcome Ordering) (lk : Lookup) :
    ∃ rs, Lossy.readRelations f.str = .ok rs ∧
      relationsSatLO cmpO lk (parse f.str allow).tree = relationsSatYO cmpO lk (fieldY rs) :=
  ⟨f.view, C10.C10_lossy f h hs,
    C12_losslessO_eq_lossyO cmpO lk _ _ (viewL_text f h allow (Or.inr hs))⟩

/-- **C12 on the text, lookup forms.** A map, a closure and a pair that denote the same assignment
    give, on the text of a well-formed field without substitution variables, one and the same
    outcome in all six combinations (lossless / lossy × map / closure / pair), for every comparison. -/
theorem C12_text_agree_forms (f : FieldA) (h : f.WF) (hs : f.hasSubstvar = false) (allow : Bool)
    (cmpO : V → V → Outcome Ordering) (m : List (Str × V)) (g : Str → Option V) (p : Str × V)
    (hg : ∀ n, g n = Lookup.ofMap m n) (hp : m = [p]) :
    ∃ rs o, Lossy.readRelations f.str = .ok rs ∧
      relationsSatLO cmpO (Lookup.ofMap m) (parse f.str allow).tree = o ∧
      relationsSatLO cmpO (Lookup.ofFn g) (parse f.str allow).tree = o ∧
      relationsSatLO cmpO (Lookup.ofPair p) (parse f.str allow).tree = o ∧
      relationsSatYO cmpO (Lookup.ofMap m) (fieldY rs) = o ∧
      relationsSatYO cmpO (Lookup.ofFn g) (fieldY rs) = o ∧
      relationsSatYO cmpO (Lookup.ofPair p) (fieldY rs) = o := by
  have hv := viewL_text f h allow (Or.inr hs)
  have hL := C12_lookup_forms cmpO (fun _ _ => .eq) (parse f.str allow).tree (fieldY f.view) m g p hg hp
  refine ⟨f.view, relationsSatLO cmpO (Lookup.ofMap m) (parse f.str allow).tree,
    C10.C10_lossy f h hs, rfl, hL.1, hL.2.1, ?_, ?_, ?_⟩
  · exact (C12_losslessO_eq_lossyO cmpO _ _ _ hv).symm
  · rw [← C12_losslessO_eq_lossyO cmpO _ _ _ hv]; exact hL.1
  · rw [← C12_losslessO_eq_lossyO cmpO _ _ _ hv]; exact hL.2.1

/-- the map and the closure form for an arbitrary assignment (no pair) -/
theorem C12_text_agree_map_closure (f : FieldA) (h : f.WF) (hs : f.hasSubstvar = false) (allow : Bool)
    (cmpO : V → V → Outcome Ordering) (m : List (Str × V)) :
    ∃ rs o, Lossy.readRelations f.str = .ok rs ∧
      relationsSatLO cmpO (Lookup.ofMap m) (parse f.str allow).tree = o ∧
      relationsSatLO cmpO (Lookup.ofFn fun n => m.lookup n) (parse f.str allow).tree = o ∧
      relationsSatYO cmpO (Lookup.ofMap m) (fieldY rs) = o ∧
      relationsSatYO cmpO (Lookup.ofFn fun n => m.lookup n) (fieldY rs) = o := by
  have hv := viewL_text f h allow (Or.inr hs)
  have hL := (C12_lookup_map_closure cmpO (fun _ _ => .eq) (parse f.str allow).tree (fieldY f.view) m).1
  refine ⟨f.view, relationsSatLO cmpO (Lookup.ofMap m) (parse f.str allow).tree,
    C10.C10_lossy f h hs, rfl, hL, ?_, ?_⟩
  · exact (C12_losslessO_eq_lossyO cmpO _ _ _ hv).symm
  · rw [← C12_losslessO_eq_lossyO cmpO _ _ _ hv]; exact hL

/-! ## 4. with the real comparison -/

theorem mem_fieldY_view (f : FieldA) {e : List RelY} {y : RelY} (he : e ∈ fieldY f.view) (hy : y ∈ e) :
    ∃ a ∈ f.rels, y = recY a.view := by
  unfold fieldY FieldA.view at he
  obtain ⟨v, hv, rfl⟩ := List.mem_map.1 he
  obtain ⟨s, hs, hsv⟩ := List.mem_filterMap.1 hv
  obtain ⟨x, hx, rfl⟩ := List.mem_map.1 hy
  cases hent : s.entry with
  | empty => simp [hent, EntryA.view] at hsv
  | substvar p ps => simp [hent, EntryA.view] at hsv
  | alts r rest =>
    simp only [hent, EntryA.view, Option.some.injEq] at hsv
    subst hsv
    have hin : ∀ a ∈ r :: rest.map AltA.rel, a ∈ f.rels := by
      intro a ha
      unfold FieldA.rels
      exact List.mem_flatMap.2 ⟨s, hs, by simpa [hent, EntryA.rels] using ha⟩
    simp only [List.mem_cons, List.mem_map] at hx
    rcases hx with rfl | ⟨b, hb, rfl⟩
    · exact ⟨r, hin r (by simp), rfl⟩
    · exact ⟨b.rel, hin b.rel (by simp only [List.mem_cons, List.mem_map]; exact Or.inr ⟨b, hb, rfl⟩), rfl⟩

/-- the hypotheses of `C12_spec_real` from hypotheses on the relations as written -/
theorem small_view (f : FieldA) (lk : Lookup)
    (hf : ∀ a ∈ f.rels, ∀ p, a.version = some p → small p.ver.value = true)
    (hl : ∀ a ∈ f.rels, ((lk a.name).all small) = true) :
    (∀ e ∈ fieldY f.view, ∀ r ∈ e, (r.version.all fun p => small p.2) = true) ∧
    (∀ e ∈ fieldY f.view, ∀ r ∈ e, ((lk r.name).all small) = true) := by
  constructor
  · intro e he r hr
    obtain ⟨a, ha, rfl⟩ := mem_fieldY_view f he hr
    cases hp : a.version with
    | none => simp [recY, RelA.view, hp]
    | some p => simpa [recY, RelA.view, hp] using hf a ha p hp
  · intro e he r hr
    obtain ⟨a, ha, rfl⟩ := mem_fieldY_view f he hr
    exact hl a ha

/-- **C12 on the text with the real comparison, lossless evaluator.** If every version written in
    the field and every installed version of a package the field names has all numeric components
    within `i32` (the hypothesis of `C12_compareO_small`; outside it `Version::cmp` panics, finding
    F-C12-1), then `Relations::satisfied_by` on the tree parsed from `f.str`, with the real
    `Version::cmp`, does not panic and decides satisfaction under the Debian version order. -/
theorem C12_text_real_lossless (f : FieldA) (h : f.WF) (allow : Bool)
    (ha : allow = true ∨ f.hasSubstvar = false) (lk : Lookup)
    (hf : ∀ a ∈ f.rels, ∀ p, a.version = some p → small p.ver.value = true)
    (hl : ∀ a ∈ f.rels, ((lk a.name).all small) = true) :
    ∃ b, relationsSatLO compareO lk (parse f.str allow).tree = .ok b ∧
      (b = true ↔ Satisfied DebVersion.compare lk (fieldY f.view)) := by
  obtain ⟨h1, h2⟩ := small_view f lk hf hl
  obtain ⟨b, hb, hiff⟩ := C12_spec_real lk (fieldY f.view) h1 h2
  exact ⟨b, by rw [C12_losslessO_eq_lossyO compareO lk _ _ (viewL_text f h allow ha)]; exact hb, hiff⟩

/-- **C12 on the text with the real comparison, lossy evaluator**, and agreement with the
    lossless one (same Boolean). -/
theorem C12_text_real_lossy (f : FieldA) (h : f.WF) (hs : f.hasSubstvar = false) (allow : Bool)
    (lk : Lookup)
    (hf : ∀ a ∈ f.rels, ∀ p, a.version = some p → small p.ver.value = true)
    (hl : ∀ a ∈ f.rels, ((lk a.name).all small) = true) :
    ∃ rs b, Lossy.readRelations f.str = .ok rs ∧
      relationsSatYO compareO lk (fieldY rs) = .ok b ∧
      relationsSatLO compareO lk (parse f.str allow).tree = .ok b ∧
      (b = true ↔ Satisfied DebVersion.compare lk (fieldY f.view)) := by
  obtain ⟨h1, h2⟩ := small_view f lk hf hl
  obtain ⟨b, hb, hiff⟩ := C12_spec_real lk (fieldY f.view) h1 h2
  refine ⟨f.view, b, C10.C10_lossy f h hs, hb, ?_, hiff⟩
  rw [C12_losslessO_eq_lossyO compareO lk _ _ (viewL_text f h allow (Or.inr hs))]; exact hb

/-- the same with the right-hand side on the syntax -/
theorem C12_text_real_syntax (f : FieldA) (h : f.WF) (allow : Bool)
    (ha : allow = true ∨ f.hasSubstvar = false) (lk : Lookup)
    (hf : ∀ a ∈ f.rels, ∀ p, a.version = some p → small p.ver.value = true)
    (hl : ∀ a ∈ f.rels, ((lk a.name).all small) = true) :
    ∃ b, relationsSatLO compareO lk (parse f.str allow).tree = .ok b ∧
      (b = true ↔ FieldA.SatisfiedBy DebVersion.compare lk f) := by
  obtain ⟨b, hb, hiff⟩ := C12_text_real_lossless f h allow ha lk hf hl
  exact ⟨b, hb, hiff.trans (satisfied_view_iff _ lk f)⟩

/-! ## consequences: what is ignored -/

/-- a field made of empty entries and substitution variables only is satisfied by every lookup
    (even the empty one), under every comparison -/
theorem C12_text_only_substvars (f : FieldA) (h : f.WF)
    (hno : ∀ s ∈ f.segs, ∀ r rest, s.entry ≠ .alts r rest)
    (cmpO : V → V → Outcome Ordering) (lk : Lookup) :
    relationsSatLO cmpO lk (parse f.str true).tree = .ok true := by
  have hv : f.view = [] := by
    unfold FieldA.view
    apply List.filterMap_eq_nil_iff.2
    intro s hs
    cases he : s.entry with
    | alts r rest => exact absurd he (hno s hs r rest)
    | substvar p ps => rfl
    | empty => rfl
  rw [C12_losslessO_eq_lossyO cmpO lk _ _ (viewL_text f h true (Or.inl rfl)), hv]
  rfl

end Deb822Verif.Props.C12
