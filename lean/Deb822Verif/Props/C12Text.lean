import Deb822Verif.Props.C10
import Deb822Verif.Props.C12
/-!
# C12 end to end — satisfaction decided on the TEXT of a well-formed field

`Props/C12.lean` proves the specification of the two evaluators over a tree / over lossy records
under the hypothesis that the tree's accessors do not panic (`viewL root = .ok f`).
`Props/C10.lean` proves that on the text `f.str` of a well-formed field (`f : FieldA`, `f.WF`)
both readers return exactly the structure `f.view`. This file composes the two: the statements
below speak about `f.str` only.

Findings of the composition
* **Operators.** `FieldA.WF` needs no extra hypothesis on operators: the operator of a written
  version constraint is a `VC` (`VerPart.op`), one of `<<`, `<=`, `=`, `>=`, `>>`, so `version()`
  cannot hit its first `unwrap()` (`C12_accessor_panic_witness` lives outside `WF`), and
  `VersionA.ok` bounds the epoch by `u32`, so it cannot hit the second one either.
* **Empty entries and substitution variables.** `Relations::satisfied_by` iterates over
  `entries()`, i.e. the ENTRY child nodes of the root. An empty entry (`a, , b`, trailing comma)
  produces no ENTRY node and `${…}` produces a SUBSTVAR node, which `entries()` skips. Both are
  therefore *ignored*: they impose no requirement (a field consisting only of them is satisfied by
  every lookup — `C12_text_only_substvars`). This is `f.view`, which lists the non-empty entries
  only; `FieldA.SatisfiedBy` below says it on the syntax directly. The lossy reader drops empty
  entries the same way and refuses substitution variables (hence `hs` in the lossy statements).
* **Architecture qualifiers, architecture lists, profiles** are not looked at by either evaluator.
-/
namespace Deb822Verif.Props.C12
open Deb822Verif Rel RelSat DebVersion RelSpec

/-! ## from lossy records / the accessor view to what the evaluators read -/

/-- the two fields of `lossy::Relation` the evaluator reads -/
def recY (r : Lossy.Relation) : RelY := ⟨r.name, r.version⟩

/-- a list of entries of lossy records as the evaluator sees it -/
def fieldY (rs : List (List Lossy.Relation)) : FieldY := rs.map fun e => e.map recY

theorem viewRel_of_acc (r : RNode) (y : Lossy.Relation) (h : accRelation r = some y) :
    viewRel r = .ok (recY y) := by
  unfold accRelation at h
  unfold viewRel
  cases hn : name r with
  | none => simp [hn] at h
  | some n =>
    cases hv : version r with
    | error e => simp [hn, hv] at h
    | ok v =>
      simp only [hn, hv, Option.some.injEq] at h
      subst h
      rfl

theorem mapO_of_mapM {α β γ} {g : α → Option β} {g' : α → Outcome γ} {c : β → γ}
    (hg : ∀ a y, g a = some y → g' a = .ok (c y)) :
    ∀ (l : List α) (ys : List β), l.mapM g = some ys → mapO g' l = .ok (ys.map c) := by
  intro l
  induction l with
  | nil => intro ys h; simp at h; subst h; rfl
  | cons a as ih =>
    intro ys h
    simp only [List.mapM_cons, Option.bind_eq_bind] at h
    cases ha : g a with
    | none => simp [ha] at h
    | some y =>
      cases has : as.mapM g with
      | none => simp [ha, has] at h
      | some ys' =>
        simp [ha, has] at h; subst h
        simp [mapO, hg a y ha, ih ys' has]

/-- if all accessors succeed (`accEntries`, the C10 view), the tree denotes (`viewL`, the C12 view)
    the (name, version) projection of what they return -/
theorem viewL_of_accEntries (root : RNode) (l : List (List Lossy.Relation))
    (h : accEntries root = some l) : viewL root = .ok (fieldY l) := by
  unfold accEntries at h
  unfold viewL fieldY
  refine mapO_of_mapM (g := fun e => (relations e).mapM accRelation) ?_ (entries root) l h
  intro e ys hys
  exact mapO_of_mapM (fun r y hy => viewRel_of_acc r y hy) (relations e) ys hys

/-! ## lossless = lossy for a comparison that may panic -/

theorem relSatLO_view (cmpO : V → V → Outcome Ordering) (lk : Lookup) (r : RNode) (y : RelY)
    (h : viewRel r = .ok y) : relSatLO cmpO lk r = relSatYO cmpO lk y := by
  unfold viewRel at h
  unfold relSatLO relSatYO
  cases hn : name r with
  | none => simp [hn] at h
  | some n =>
    cases hv : version r with
    | error e => simp [hn, hv] at h
    | ok v =>
      simp only [hn, hv, Outcome.ok.injEq] at h
      subst h
      cases v with
      | none => rfl
      | some p => obtain ⟨vc, w⟩ := p; cases hl : lk n <;> simp [hl]

theorem anyO_of_mapO' {α β} {g : α → Outcome β} {p : α → Outcome Bool} {q : β → Outcome Bool}
    (hpq : ∀ a y, g a = .ok y → p a = q y) :
    ∀ (l : List α) (ys : List β), mapO g l = .ok ys → anyO p l = anyO q ys := by
  intro l
  induction l with
  | nil => intro ys h; simp only [mapO, Outcome.ok.injEq] at h; subst h; rfl
  | cons a as ih =>
    intro ys h
    obtain ⟨y, ys', rfl, hy, hrest⟩ := mapO_ok_cons h
    simp only [anyO, hpq a y hy, ih ys' hrest]

theorem allO_of_mapO' {α β} {g : α → Outcome β} {p : α → Outcome Bool} {q : β → Outcome Bool}
    (hpq : ∀ a y, g a = .ok y → p a = q y) :
    ∀ (l : List α) (ys : List β), mapO g l = .ok ys → allO p l = allO q ys := by
  intro l
  induction l with
  | nil => intro ys h; simp only [mapO, Outcome.ok.injEq] at h; subst h; rfl
  | cons a as ih =>
    intro ys h
    obtain ⟨y, ys', rfl, hy, hrest⟩ := mapO_ok_cons h
    simp only [allO, hpq a y hy, ih ys' hrest]

/-- **C12, lossless = lossy, panics included.** Generalises `C12_lossless_eq_lossy` to a
    comparison that may panic (`compareO`): if the lossy records are the accessor view of the tree,
    both evaluators return the same outcome — the same Boolean, or a panic at the same
    comparison (both walk entries and alternatives in the same order and stop at the same place). -/
theorem C12_losslessO_eq_lossyO (cmpO : V → V → Outcome Ordering) (lk : Lookup) (root : RNode)
    (f : FieldY) (hsame : viewL root = .ok f) :
    relationsSatLO cmpO lk root = relationsSatYO cmpO lk f := by
  unfold relationsSatLO relationsSatYO
  refine allO_of_mapO' (g := fun e => mapO viewRel (relations e)) ?_ (entries root) f hsame
  intro e ys hys
  unfold entrySatLO
  exact anyO_of_mapO' (fun r y hy => relSatLO_view cmpO lk r y hy) (relations e) ys hys

/-! ## satisfaction said on the syntax -/

/-- the alternative `a` as written is satisfied: its package is known to the lookup and, if a
    version constraint `(op ver)` is written, the installed version stands in relation `op` to `ver` -/
def RelASat (cmp : V → V → Ordering) (lk : Lookup) (a : RelA) : Prop :=
  ∃ v, lk a.name = some v ∧
    (a.version = none ∨ ∃ p, a.version = some p ∧ Stands p.op (cmp v p.ver.value))

/-- the field as written is satisfied: every segment that is a list of alternatives has a
    satisfied alternative. Empty segments and substitution variables impose nothing. -/
def FieldA.SatisfiedBy (cmp : V → V → Ordering) (lk : Lookup) (f : FieldA) : Prop :=
  ∀ s ∈ f.segs, ∀ r rest, s.entry = .alts r rest → ∃ a ∈ r :: rest.map AltA.rel, RelASat cmp lk a

theorem satisfiedRel_view (cmp : V → V → Ordering) (lk : Lookup) (a : RelA) :
    SatisfiedRel cmp lk (recY a.view) ↔ RelASat cmp lk a := by
  unfold SatisfiedRel RelASat recY RelA.view
  constructor
  · rintro ⟨v, hv, h⟩
    refine ⟨v, hv, ?_⟩
    cases hp : a.version with
    | none => exact Or.inl rfl
    | some p =>
      right
      rcases h with h | ⟨vc, w, h, hs⟩
      · simp [hp] at h
      · simp only [hp, Option.map_some, Option.some.injEq, Prod.mk.injEq] at h
        obtain ⟨rfl, rfl⟩ := h
        exact ⟨p, rfl, hs⟩
  · rintro ⟨v, hv, h⟩
    refine ⟨v, hv, ?_⟩
    rcases h with h | ⟨p, h, hs⟩
    · left; simp [h]
    · right; exact ⟨p.op, p.ver.value, by simp [h], hs⟩

/-- the right-hand side of `C12_spec` on `f.view` is satisfaction of the field as written -/
theorem satisfied_view_iff (cmp : V → V → Ordering) (lk : Lookup) (f : FieldA) :
    Satisfied cmp lk (fieldY f.view) ↔ FieldA.SatisfiedBy cmp lk f := by
  unfold Satisfied FieldA.SatisfiedBy fieldY FieldA.view
  constructor
  · intro h s hs r rest he
    have hm : (r.view :: rest.map fun a => a.rel.view).map recY ∈
        (f.segs.filterMap fun s => s.entry.view).map fun e => e.map recY := by
      refine List.mem_map.2 ⟨_, List.mem_filterMap.2 ⟨s, hs, ?_⟩, rfl⟩
      simp [he, EntryA.view]
    obtain ⟨y, hy, hsat⟩ := h _ hm
    simp only [List.map_cons, List.map_map, List.mem_cons, List.mem_map, Function.comp] at hy
    rcases hy with rfl | ⟨a, ha, rfl⟩
    · exact ⟨r, by simp, (satisfiedRel_view cmp lk r).1 hsat⟩
    · exact ⟨a.rel, by simp only [List.mem_cons, List.mem_map]; exact Or.inr ⟨a, ha, rfl⟩,
        (satisfiedRel_view cmp lk a.rel).1 hsat⟩
  · intro h e he
    obtain ⟨v, hv, rfl⟩ := List.mem_map.1 he
    obtain ⟨s, hs, hsv⟩ := List.mem_filterMap.1 hv
    cases hent : s.entry with
    | empty => simp [hent, EntryA.view] at hsv
    | substvar p ps => simp [hent, EntryA.view] at hsv
    | alts r rest =>
      simp only [hent, EntryA.view, Option.some.injEq] at hsv
      subst hsv
      obtain ⟨a, ha, hsat⟩ := h s hs r rest hent
      simp only [List.mem_cons, List.mem_map] at ha
      rcases ha with rfl | ⟨b, hb, rfl⟩
      · exact ⟨recY a.view, by simp, (satisfiedRel_view cmp lk a).2 hsat⟩
      · refine ⟨recY b.rel.view, ?_, (satisfiedRel_view cmp lk b.rel).2 hsat⟩
        simp only [List.map_cons, List.map_map, List.mem_cons, List.mem_map, Function.comp]
        exact Or.inr ⟨b, hb, rfl⟩

/-! ## 1. the lossless evaluator on the text -/

/-- the tree the parser returns for the text of a well-formed field denotes `f.view` -/
theorem viewL_text (f : FieldA) (h : f.WF) (allow : Bool) (ha : allow = true ∨ f.hasSubstvar = false) :
    viewL (parse f.str allow).tree = .ok (fieldY f.view) := by
  rw [C10.C10_parse_inverts f h allow ha]
  exact viewL_of_accEntries f.tree f.view (accEntries_field f h)

/-- **C12 on the text, lossless evaluator.** For a well-formed field `f` (no hypothesis on the
    operators is needed: `WF` fields carry one of the five), read with substitution variables
    allowed, or disallowed when it has none: the parser reports no error, and for every version
    order `cmp` and every lookup `lk` the lossless evaluator run on the tree the parser returns for
    `f.str` does not panic and answers `true` exactly when every non-empty entry of `f.view` has an
    alternative whose package `lk` knows and, if versioned, whose installed version stands in the
    stated relation to the required one (the right-hand side of `C12_spec`). Empty entries and
    substitution variables are not entries for the evaluator and impose nothing. -/
theorem C12_text_lossless (f : FieldA) (h : f.WF) (allow : Bool)
    (ha : allow = true ∨ f.hasSubstvar = false) (cmp : V → V → Ordering) (lk : Lookup) :
    (parse f.str allow).errors = [] ∧
    ∃ b, relationsSatL cmp lk (parse f.str allow).tree = .ok b ∧
      (b = true ↔ Satisfied cmp lk (fieldY f.view)) := by
  refine ⟨by rw [C10.C10_parse_inverts f h allow ha], relationsSatY cmp lk (fieldY f.view), ?_,
    C12_spec cmp lk (fieldY f.view)⟩
  exact C12_lossless_eq_lossy cmp lk _ _ (viewL_text f h allow ha)

/-- the same with the right-hand side said on the syntax of the field -/
theorem C12_text_lossless_syntax (f : FieldA) (h : f.WF) (allow : Bool)
    (ha : allow = true ∨ f.hasSubstvar = false) (cmp : V → V → Ordering) (lk : Lookup) :
    ∃ b, relationsSatL cmp lk (parse f.str allow).tree = .ok b ∧
      (b = true ↔ FieldA.SatisfiedBy cmp lk f) := by
  obtain ⟨b, hb, hiff⟩ := (C12_text_lossless f h allow ha cmp lk).2
  exact ⟨b, hb, hiff.trans (satisfied_view_iff cmp lk f)⟩

/-- through the strict reader (`Relations::from_str`): accepted, no panic, same answer -/
theorem C12_text_strict (f : FieldA) (h : f.WF) (hs : f.hasSubstvar = false)
    (cmp : V → V → Ordering) (lk : Lookup) :
    ∃ t b, readStrict f.str = .ok t ∧ relationsSatL cmp lk t = .ok b ∧
      (b = true ↔ Satisfied cmp lk (fieldY f.view)) := by
  obtain ⟨he, b, hb, hiff⟩ := C12_text_lossless f h false (Or.inr hs) cmp lk
  refine ⟨(parse f.str false).tree, b, ?_, hb, hiff⟩
  simp [readStrict, he]

/-! ## 2. the lossy evaluator on the text -/

/-- **C12 on the text, lossy evaluator.** For a well-formed field without substitution variables
    (the lossy reader refuses them) the lossy reader accepts `f.str`, and the lossy evaluator on the
    records it returns does not panic and answers `true` exactly when `f.view` is satisfied (same
    right-hand side as `C12_spec`). Empty entries are dropped by the reader and impose nothing. -/
theorem C12_text_lossy (f : FieldA) (h : f.WF) (hs : f.hasSubstvar = false)
    (cmp : V → V → Ordering) (lk : Lookup) :
    ∃ rs b, Lossy.readRelations f.str = .ok rs ∧
      relationsSatYO (total cmp) lk (fieldY rs) = .ok b ∧
      (b = true ↔ Satisfied cmp lk (fieldY f.view)) :=
  ⟨f.view, relationsSatY cmp lk (fieldY f.view), C10.C10_lossy f h hs,
    relationsSatYO_total cmp lk _, C12_spec cmp lk _⟩

/-! ## 3. both evaluators and all lookup forms agree on the text -/

/-- **C12 on the text, agreement.** On the text of a well-formed field without substitution
    variables, for every comparison (one that may panic included) and every lookup, the lossless
    evaluator on the parser's tree and the lossy evaluator on the lossy reader's records return the
    same outcome. -/
theorem C12_text_agree (f : FieldA) (h : f.WF) (hs : f.hasSubstvar = false) (allow : Bool)
    (cmpO : V → V → Outcome Ordering) (lk : Lookup) :
    ∃ rs, Lossy.readRelations f.str = .ok rs ∧
      relationsSatLO cmpO lk (parse f.str allow).tree = relationsSatYO cmpO lk (fieldY rs) :=
  ⟨f.view, C10.C10_lossy f h hs,
    C12_losslessO_eq_lossyO cmpO lk _ _ (viewL_text f h allow (Or.inr hs))⟩

/-- **C12 on the text, lookup forms.** A map, a closure and a pair that denote the same assignment
    give, on the text of a well-formed field without substitution variables, one and the same
    outcome in all six combinations (lossless / lossy × map / closure / pair), for every comparison. -/
theorem C12_text_agree_forms (f : FieldA) (h : f.WF) (hs : f.hasSubstvar = false) (allow : Bool)
    (cmpO : V → V → Outcome Ordering) (m : List (Str × V)) (g : Str → Option V) (p : Str × V)
    (hg : ∀ n, g n = Lookup.ofMap m n) (hp : m = [p]) :
    ∃ rs o, Lossy.readRelations f.str = .ok rs ∧
      relationsSatLO cmpO (Lookup.ofMap m) (parse f.str allow).tree = o ∧
      relationsSatLO cmpO (Lookup.ofFn g) (parse f.str allow).tree = o ∧
      relationsSatLO cmpO (Lookup.ofPair p) (parse f.str allow).tree = o ∧
      relationsSatYO cmpO (Lookup.ofMap m) (fieldY rs) = o ∧
      relationsSatYO cmpO (Lookup.ofFn g) (fieldY rs) = o ∧
      relationsSatYO cmpO (Lookup.ofPair p) (fieldY rs) = o := by
  have hv := viewL_text f h allow (Or.inr hs)
  have hL := C12_lookup_forms cmpO (fun _ _ => .eq) (parse f.str allow).tree (fieldY f.view) m g p hg hp
  refine ⟨f.view, relationsSatLO cmpO (Lookup.ofMap m) (parse f.str allow).tree,
    C10.C10_lossy f h hs, rfl, hL.1, hL.2.1, ?_, ?_, ?_⟩
  · exact (C12_losslessO_eq_lossyO cmpO _ _ _ hv).symm
  · rw [← C12_losslessO_eq_lossyO cmpO _ _ _ hv]; exact hL.1
  · rw [← C12_losslessO_eq_lossyO cmpO _ _ _ hv]; exact hL.2.1

/-- the map and the closure form for an arbitrary assignment (no pair) -/
theorem C12_text_agree_map_closure (f : FieldA) (h : f.WF) (hs : f.hasSubstvar = false) (allow : Bool)
    (cmpO : V → V → Outcome Ordering) (m : List (Str × V)) :
    ∃ rs o, Lossy.readRelations f.str = .ok rs ∧
      relationsSatLO cmpO (Lookup.ofMap m) (parse f.str allow).tree = o ∧
      relationsSatLO cmpO (Lookup.ofFn fun n => m.lookup n) (parse f.str allow).tree = o ∧
      relationsSatYO cmpO (Lookup.ofMap m) (fieldY rs) = o ∧
      relationsSatYO cmpO (Lookup.ofFn fun n => m.lookup n) (fieldY rs) = o := by
  have hv := viewL_text f h allow (Or.inr hs)
  have hL := (C12_lookup_map_closure cmpO (fun _ _ => .eq) (parse f.str allow).tree (fieldY f.view) m).1
  refine ⟨f.view, relationsSatLO cmpO (Lookup.ofMap m) (parse f.str allow).tree,
    C10.C10_lossy f h hs, rfl, hL, ?_, ?_⟩
  · exact (C12_losslessO_eq_lossyO cmpO _ _ _ hv).symm
  · rw [← C12_losslessO_eq_lossyO cmpO _ _ _ hv]; exact hL

/-! ## 4. with the real comparison -/

theorem mem_fieldY_view (f : FieldA) {e : List RelY} {y : RelY} (he : e ∈ fieldY f.view) (hy : y ∈ e) :
    ∃ a ∈ f.rels, y = recY a.view := by
  unfold fieldY FieldA.view at he
  obtain ⟨v, hv, rfl⟩ := List.mem_map.1 he
  obtain ⟨s, hs, hsv⟩ := List.mem_filterMap.1 hv
  obtain ⟨x, hx, rfl⟩ := List.mem_map.1 hy
  cases hent : s.entry with
  | empty => simp [hent, EntryA.view] at hsv
  | substvar p ps => simp [hent, EntryA.view] at hsv
  | alts r rest =>
    simp only [hent, EntryA.view, Option.some.injEq] at hsv
    subst hsv
    have hin : ∀ a ∈ r :: rest.map AltA.rel, a ∈ f.rels := by
      intro a ha
      unfold FieldA.rels
      exact List.mem_flatMap.2 ⟨s, hs, by simpa [hent, EntryA.rels] using ha⟩
    simp only [List.mem_cons, List.mem_map] at hx
    rcases hx with rfl | ⟨b, hb, rfl⟩
    · exact ⟨r, hin r (by simp), rfl⟩
    · exact ⟨b.rel, hin b.rel (by simp only [List.mem_cons, List.mem_map]; exact Or.inr ⟨b, hb, rfl⟩), rfl⟩

/-- the hypotheses of `C12_spec_real` from hypotheses on the relations as written -/
theorem small_view (f : FieldA) (lk : Lookup)
    (hf : ∀ a ∈ f.rels, ∀ p, a.version = some p → small p.ver.value = true)
    (hl : ∀ a ∈ f.rels, ((lk a.name).all small) = true) :
    (∀ e ∈ fieldY f.view, ∀ r ∈ e, (r.version.all fun p => small p.2) = true) ∧
    (∀ e ∈ fieldY f.view, ∀ r ∈ e, ((lk r.name).all small) = true) := by
  constructor
  · intro e he r hr
    obtain ⟨a, ha, rfl⟩ := mem_fieldY_view f he hr
    cases hp : a.version with
    | none => simp [recY, RelA.view, hp]
    | some p => simpa [recY, RelA.view, hp] using hf a ha p hp
  · intro e he r hr
    obtain ⟨a, ha, rfl⟩ := mem_fieldY_view f he hr
    exact hl a ha

/-- **C12 on the text with the real comparison, lossless evaluator.** If every version written in
    the field and every installed version of a package the field names has all numeric components
    within `i32` (the hypothesis of `C12_compareO_small`; outside it `Version::cmp` panics, finding
    F-C12-1), then `Relations::satisfied_by` on the tree parsed from `f.str`, with the real
    `Version::cmp`, does not panic and decides satisfaction under the Debian version order. -/
theorem C12_text_real_lossless (f : FieldA) (h : f.WF) (allow : Bool)
    (ha : allow = true ∨ f.hasSubstvar = false) (lk : Lookup)
    (hf : ∀ a ∈ f.rels, ∀ p, a.version = some p → small p.ver.value = true)
    (hl : ∀ a ∈ f.rels, ((lk a.name).all small) = true) :
    ∃ b, relationsSatLO compareO lk (parse f.str allow).tree = .ok b ∧
      (b = true ↔ Satisfied DebVersion.compare lk (fieldY f.view)) := by
  obtain ⟨h1, h2⟩ := small_view f lk hf hl
  obtain ⟨b, hb, hiff⟩ := C12_spec_real lk (fieldY f.view) h1 h2
  exact ⟨b, by rw [C12_losslessO_eq_lossyO compareO lk _ _ (viewL_text f h allow ha)]; exact hb, hiff⟩

/-- **C12 on the text with the real comparison, lossy evaluator**, and agreement with the
    lossless one (same Boolean). -/
theorem C12_text_real_lossy (f : FieldA) (h : f.WF) (hs : f.hasSubstvar = false) (allow : Bool)
    (lk : Lookup)
    (hf : ∀ a ∈ f.rels, ∀ p, a.version = some p → small p.ver.value = true)
    (hl : ∀ a ∈ f.rels, ((lk a.name).all small) = true) :
    ∃ rs b, Lossy.readRelations f.str = .ok rs ∧
      relationsSatYO compareO lk (fieldY rs) = .ok b ∧
      relationsSatLO compareO lk (parse f.str allow).tree = .ok b ∧
      (b = true ↔ Satisfied DebVersion.compare lk (fieldY f.view)) := by
  obtain ⟨h1, h2⟩ := small_view f lk hf hl
  obtain ⟨b, hb, hiff⟩ := C12_spec_real lk (fieldY f.view) h1 h2
  refine ⟨f.view, b, C10.C10_lossy f h hs, hb, ?_, hiff⟩
  rw [C12_losslessO_eq_lossyO compareO lk _ _ (viewL_text f h allow (Or.inr hs))]; exact hb

/-- the same with the right-hand side on the syntax -/
theorem C12_text_real_syntax (f : FieldA) (h : f.WF) (allow : Bool)
    (ha : allow = true ∨ f.hasSubstvar = false) (lk : Lookup)
    (hf : ∀ a ∈ f.rels, ∀ p, a.version = some p → small p.ver.value = true)
    (hl : ∀ a ∈ f.rels, ((lk a.name).all small) = true) :
    ∃ b, relationsSatLO compareO lk (parse f.str allow).tree = .ok b ∧
      (b = true ↔ FieldA.SatisfiedBy DebVersion.compare lk f) := by
  obtain ⟨b, hb, hiff⟩ := C12_text_real_lossless f h allow ha lk hf hl
  exact ⟨b, hb, hiff.trans (satisfied_view_iff _ lk f)⟩

/-! ## consequences: what is ignored -/

/-- a field made of empty entries and substitution variables only (no relation is written) is satisfied by every lookup
    (even the empty one), under every comparison -/
theorem C12_text_only_substvars (f : FieldA) (h : f.WF)
    (hno : f.rels = [])
    (cmpO : V → V → Outcome Ordering) (lk : Lookup) :
    relationsSatLO cmpO lk (parse f.str true).tree = .ok true := by
  have hv : f.view = [] := by
    unfold FieldA.view
    apply List.filterMap_eq_nil_iff.2
    intro s hs
    cases he : s.entry with
    | alts r rest =>
      have : r ∈ f.rels := List.mem_flatMap.2 ⟨s, hs, by simp [he, EntryA.rels]⟩
      rw [hno] at this; exact absurd this (by simp)
    | substvar p ps => rfl
    | empty => rfl
  rw [C12_losslessO_eq_lossyO cmpO lk _ _ (viewL_text f h true (Or.inl rfl)), hv]
  rfl

/-! ## non-vacuity: the hypotheses are satisfiable and the theorems fire -/

/-- one space -/
def sp : Gap := [.ws [' ']]

/-- `libc6 (>= 2.36) | libc6.1, debhelper-compat (= 13), foo:any (<< 1:2.0~rc1-1) [amd64]` -/
def exTextField : FieldA :=
  ⟨[ ⟨[], .alts ⟨"libc6".toList, none, some ⟨sp, [], .GreaterThanEqual, sp, ⟨none, "2.36".toList⟩, []⟩, none, []⟩
        [⟨sp, sp, ⟨"libc6.1".toList, none, none, none, []⟩⟩], []⟩,
     ⟨sp, .alts ⟨"debhelper-compat".toList, none, some ⟨sp, [], .Equal, sp, ⟨none, "13".toList⟩, []⟩, none, []⟩ [], []⟩,
     ⟨sp, .alts ⟨"foo".toList, some "any".toList,
        some ⟨sp, [], .LessThan, sp, ⟨some ['1'], "2.0~rc1-1".toList⟩, []⟩,
        some ⟨sp, [⟨[], false, "amd64".toList⟩], []⟩, []⟩ [], []⟩ ]⟩

theorem exTextField_str : exTextField.str =
    "libc6 (>= 2.36) | libc6.1, debhelper-compat (= 13), foo:any (<< 1:2.0~rc1-1) [amd64]".toList := by
  decide +kernel
theorem exTextField_wf : exTextField.WF := by decide +kernel
theorem exTextField_nosub : exTextField.hasSubstvar = false := by decide +kernel

/-- `libc6` too old, but the alternative `libc6.1` is installed; `foo` at `1:2.0~rc1-0` is below
    `1:2.0~rc1-1` -/
def exTextMap : List (Str × V) :=
  [("libc6".toList, ver "2.31-13"), ("libc6.1".toList, ver "2.36-9"),
   ("debhelper-compat".toList, ver "13"), ("foo".toList, ver "1:2.0~rc1-0")]
/-- `foo` at `1:2.0-1` is not `<< 1:2.0~rc1-1` -/
def exTextMapBad : List (Str × V) :=
  [("libc6".toList, ver "2.36-9"), ("debhelper-compat".toList, ver "13"), ("foo".toList, ver "1:2.0-1")]

-- the view the theorems speak about
example : fieldY exTextField.view =
    [[⟨"libc6".toList, some (.GreaterThanEqual, ver "2.36")⟩, ⟨"libc6.1".toList, none⟩],
     [⟨"debhelper-compat".toList, some (.Equal, ver "13")⟩],
     [⟨"foo".toList, some (.LessThan, ver "1:2.0~rc1-1")⟩]] := by decide +kernel

-- C12_text_lossless: the answer computed on the text is `true`, hence the field is satisfied …
example : Satisfied DebVersion.compare (Lookup.ofMap exTextMap) (fieldY exTextField.view) := by
  obtain ⟨_, b, hb, hiff⟩ := C12_text_lossless exTextField exTextField_wf false (Or.inr exTextField_nosub)
    DebVersion.compare (Lookup.ofMap exTextMap)
  have : relationsSatL DebVersion.compare (Lookup.ofMap exTextMap) (parse exTextField.str false).tree = .ok true := by
    decide +kernel
  rw [this] at hb
  exact hiff.1 (Outcome.ok.inj hb).symm

-- … and with `foo` at `1:2.0-1` it is `false`, hence not satisfied (said on the syntax)
example : ¬ FieldA.SatisfiedBy DebVersion.compare (Lookup.ofMap exTextMapBad) exTextField := by
  obtain ⟨b, hb, hiff⟩ := C12_text_lossless_syntax exTextField exTextField_wf true (Or.inl rfl)
    DebVersion.compare (Lookup.ofMap exTextMapBad)
  have : relationsSatL DebVersion.compare (Lookup.ofMap exTextMapBad) (parse exTextField.str true).tree = .ok false := by
    decide +kernel
  rw [this] at hb
  intro hsat
  have := hiff.2 hsat
  rw [← Outcome.ok.inj hb] at this
  exact absurd this (by decide)

-- C12_text_strict
example : ∃ t b, readStrict exTextField.str = .ok t ∧
    relationsSatL DebVersion.compare (Lookup.ofMap exTextMap) t = .ok b ∧
    (b = true ↔ Satisfied DebVersion.compare (Lookup.ofMap exTextMap) (fieldY exTextField.view)) :=
  C12_text_strict exTextField exTextField_wf exTextField_nosub _ _

-- C12_text_lossy: the lossy path on the same text gives `true` as well
example : ∃ rs, Lossy.readRelations exTextField.str = .ok rs ∧
    relationsSatYO (total DebVersion.compare) (Lookup.ofMap exTextMap) (fieldY rs) = .ok true := by
  obtain ⟨rs, b, hrs, hb, hiff⟩ := C12_text_lossy exTextField exTextField_wf exTextField_nosub
    DebVersion.compare (Lookup.ofMap exTextMap)
  refine ⟨rs, hrs, ?_⟩
  have : b = true := hiff.2 ((C12_spec _ _ _).1 (by decide +kernel))
  rw [hb, this]

-- C12_text_agree with the panicking comparison, C12_text_agree_forms on a one-binding assignment
example : ∃ rs, Lossy.readRelations exTextField.str = .ok rs ∧
    relationsSatLO compareO (Lookup.ofMap exTextMap) (parse exTextField.str false).tree
      = relationsSatYO compareO (Lookup.ofMap exTextMap) (fieldY rs) :=
  C12_text_agree exTextField exTextField_wf exTextField_nosub false compareO _

example : ∃ rs o, Lossy.readRelations exTextField.str = .ok rs ∧
    relationsSatLO compareO (Lookup.ofMap [("foo".toList, ver "1")]) (parse exTextField.str false).tree = o ∧
    relationsSatLO compareO (Lookup.ofFn fun n => if n = "foo".toList then some (ver "1") else none)
      (parse exTextField.str false).tree = o ∧
    relationsSatLO compareO (Lookup.ofPair ("foo".toList, ver "1")) (parse exTextField.str false).tree = o ∧
    relationsSatYO compareO (Lookup.ofMap [("foo".toList, ver "1")]) (fieldY rs) = o ∧
    relationsSatYO compareO (Lookup.ofFn fun n => if n = "foo".toList then some (ver "1") else none) (fieldY rs) = o ∧
    relationsSatYO compareO (Lookup.ofPair ("foo".toList, ver "1")) (fieldY rs) = o :=
  C12_text_agree_forms exTextField exTextField_wf exTextField_nosub false compareO
    [("foo".toList, ver "1")] _ ("foo".toList, ver "1") (fun n => by rw [← ofPair_eq_ofMap]; rfl) rfl

-- C12_text_real_*: the i32 hypotheses hold for the example, the real comparison answers `true`
theorem exText_small_f : ∀ a ∈ exTextField.rels, ∀ p, a.version = some p → small p.ver.value = true := by
  decide +kernel
theorem exText_small_lk : ∀ a ∈ exTextField.rels, (((Lookup.ofMap exTextMap) a.name).all small) = true := by
  decide +kernel

example : relationsSatLO compareO (Lookup.ofMap exTextMap) (parse exTextField.str false).tree = .ok true := by
  obtain ⟨b, hb, hiff⟩ := C12_text_real_lossless exTextField exTextField_wf false (Or.inr exTextField_nosub)
    (Lookup.ofMap exTextMap) exText_small_f exText_small_lk
  have : b = true := hiff.2 ((C12_spec _ _ _).1 (by decide +kernel))
  rw [hb, this]

example : ∃ rs b, Lossy.readRelations exTextField.str = .ok rs ∧
    relationsSatYO compareO (Lookup.ofMap exTextMap) (fieldY rs) = .ok b ∧
    relationsSatLO compareO (Lookup.ofMap exTextMap) (parse exTextField.str true).tree = .ok b ∧
    (b = true ↔ Satisfied DebVersion.compare (Lookup.ofMap exTextMap) (fieldY exTextField.view)) :=
  C12_text_real_lossy exTextField exTextField_wf exTextField_nosub true _ exText_small_f exText_small_lk

-- the hypothesis of `C12_text_real_*` cannot be dropped on well-formed fields either (F-C12-1):
-- `a (>= 2147483648)` is well-formed, and the real comparison panics on its text
def exBigField : FieldA :=
  ⟨[⟨[], .alts ⟨['a'], none, some ⟨sp, [], .GreaterThanEqual, sp, ⟨none, "2147483648".toList⟩, []⟩, none, []⟩ [], []⟩]⟩

theorem C12_text_real_panic_witness :
    exBigField.WF ∧ exBigField.str = "a (>= 2147483648)".toList ∧
    (relationsSatLO compareO (Lookup.ofMap [(['a'], ver "1")]) (parse exBigField.str false).tree).isOk = false ∧
    relationsSatL DebVersion.compare (Lookup.ofMap [(['a'], ver "1")]) (parse exBigField.str false).tree = .ok false := by
  decide +kernel

-- a field with a substitution variable, empty entries and a trailing comma (`C10.exField`):
-- `libc6:any (>= 1:2.3~rc1-4 ) [amd64 !i386] < !nocheck stage1> <cross>\n | g++,\n ${shlibs:Depends}, ,x\n(<< 0),`
example : ∃ b, relationsSatL DebVersion.compare (Lookup.ofMap [("g++".toList, ver "12"), (['x'], ver "0~")])
      (parse C10.exField.str true).tree = .ok b ∧
    (b = true ↔ FieldA.SatisfiedBy DebVersion.compare (Lookup.ofMap [("g++".toList, ver "12"), (['x'], ver "0~")]) C10.exField) :=
  C12_text_lossless_syntax C10.exField (by decide +kernel) true (Or.inl rfl) _ _

example : relationsSatL DebVersion.compare (Lookup.ofMap [("g++".toList, ver "12"), (['x'], ver "0~")])
    (parse C10.exField.str true).tree = .ok true := by decide +kernel

-- C12_text_agree_map_closure (an assignment with several bindings), C12_text_real_syntax
example : ∃ rs o, Lossy.readRelations exTextField.str = .ok rs ∧
    relationsSatLO compareO (Lookup.ofMap exTextMap) (parse exTextField.str false).tree = o ∧
    relationsSatLO compareO (Lookup.ofFn fun n => exTextMap.lookup n) (parse exTextField.str false).tree = o ∧
    relationsSatYO compareO (Lookup.ofMap exTextMap) (fieldY rs) = o ∧
    relationsSatYO compareO (Lookup.ofFn fun n => exTextMap.lookup n) (fieldY rs) = o :=
  C12_text_agree_map_closure exTextField exTextField_wf exTextField_nosub false compareO exTextMap

example : ∃ b, relationsSatLO compareO (Lookup.ofMap exTextMap) (parse exTextField.str false).tree = .ok b ∧
    (b = true ↔ FieldA.SatisfiedBy DebVersion.compare (Lookup.ofMap exTextMap) exTextField) :=
  C12_text_real_syntax exTextField exTextField_wf false (Or.inr exTextField_nosub) _
    exText_small_f exText_small_lk

-- helper statements: viewL_of_accEntries, viewL_text, C12_losslessO_eq_lossyO
example : viewL exTextField.tree = .ok (fieldY exTextField.view) :=
  viewL_of_accEntries _ _ (accEntries_field exTextField exTextField_wf)
example : viewL (parse exTextField.str false).tree = .ok (fieldY exTextField.view) :=
  viewL_text exTextField exTextField_wf false (Or.inr exTextField_nosub)
example : relationsSatLO compareO (Lookup.ofMap exMap) (field exText)
    = relationsSatYO compareO (Lookup.ofMap exMap) exField :=
  C12_losslessO_eq_lossyO compareO _ _ exField exView

-- `hs` of the lossy statements cannot be dropped: the lossy reader refuses a substitution variable
-- (on the well-formed `C10.exField`), while the lossless evaluator answers (example above)
theorem C12_text_lossy_substvar_witness :
    C10.exField.WF ∧ C10.exField.hasSubstvar = true ∧
    (match Lossy.readRelations C10.exField.str with | .ok _ => true | .error _ => false) = false := by
  decide +kernel

-- C12_text_only_substvars: `${misc:Depends}, , ${shlibs:Depends},`
def exOnlySubst : FieldA :=
  ⟨[⟨[], .substvar "misc".toList ["Depends".toList], []⟩, ⟨sp, .empty, []⟩,
    ⟨sp, .substvar "shlibs".toList ["Depends".toList], []⟩, ⟨[], .empty, []⟩]⟩

example : exOnlySubst.str = "${misc:Depends}, , ${shlibs:Depends},".toList := by decide +kernel
example : relationsSatLO compareO (fun _ => none) (parse exOnlySubst.str true).tree = .ok true :=
  C12_text_only_substvars exOnlySubst (by decide +kernel) (by decide +kernel) _ _

end Deb822Verif.Props.C12
