import Deb822Verif.Props.C05Collect
/-!
# C04 / C05 — the boundary of the operand domain, and the separator invariant

Follow-up of the read-only audits (audits/audit_C04.md, audit_C05.md):

1. **CR in operand values (D2).** `Entry::new` (model `entryNew`) splits a value at LF only, the
   lexer ends a line at LF *and* CR. `ValidValue` excludes CR (`C04_validValue_no_cr`), so the
   re-read theorems do not speak about such values; two closed witnesses record what happens there:
   `C04_cr_value_splits` (value `a\r`: one live paragraph re-reads as two) and
   `C04_cr_value_unreadable` (value `a\rb`: the strict reader rejects the printed document).
2. **The empty value** is outside `ValidValue` although the property holds for it:
   `ValidValueE v := v = "" ∨ ValidValue v`, `EditOp.ValidE`, and the re-read theorems over whole
   histories for this larger operand domain (`C04_reread_history_empty_ok`, `_built`), the
   single-step forms `C04_set_empty_value_rereads` / `C04_insert_empty_value_rereads`.
3. **Invalid names** (outside the property's domain; recorded observations on the model):
   `C04_invalid_key_witnesses` (insert) and `C04_invalid_key_rename_witnesses` (rename, evaluated
   directly on the parse).
4. **C05, separator invariant**: in a document satisfying the edit invariant `UWF` a PARAGRAPH
   child is followed by nothing or by the blank-line node `EMPTY_LINE[NEWLINE "\n"]`
   (`C05_paragraphs_separated`), hence never directly by another PARAGRAPH
   (`C05_no_adjacent_paragraphs`); lifted over all histories (`C05_paragraphs_separated_history`,
   `_built`).
-/
namespace Deb822Verif.Props.C04More
open Deb822Verif Deb Node Spec Props.C04 Props.C05 Props.C05Collect

/-! ## 1a. `ValidValue` excludes CR -/

theorem mem_splitOn (v : Str) (c : Char) (hc : c ∈ v) (hne : c ≠ '\n') :
    ∃ l ∈ Text.splitOn '\n' v, c ∈ l := by
  induction v with
  | nil => cases hc
  | cons x xs ih =>
    simp only [Text.splitOn]
    split
    · rename_i hx
      subst hx
      rcases List.mem_cons.mp hc with h | h
      · exact absurd h hne
      · obtain ⟨l, hl, hcl⟩ := ih h
        exact ⟨l, List.mem_cons_of_mem _ hl, hcl⟩
    · rcases List.mem_cons.mp hc with h | h
      · subst h
        split
        · exact ⟨[c], by simp, by simp⟩
        · exact ⟨_, List.mem_cons_self, List.mem_cons_self⟩
      · obtain ⟨l, hl, hcl⟩ := ih h
        split
        · rename_i hs; rw [hs] at hl; cases hl
        · rename_i l0 ls hs
          rw [hs] at hl
          rcases List.mem_cons.mp hl with rfl | hl
          · exact ⟨_, List.mem_cons_self, List.mem_cons_of_mem _ hcl⟩
          · exact ⟨l, List.mem_cons_of_mem _ hl, hcl⟩

/-- every line of a valid value is free of LF and CR -/
theorem validValue_lines_noNl (v : Str) (h : ValidValue v) : ∀ l ∈ Text.splitOn '\n' v, NoNl l := by
  unfold ValidValue at h
  cases hs : Text.splitOn '\n' v with
  | nil => rw [hs] at h; exact absurd h id
  | cons l ls =>
    rw [hs] at h
    intro t ht
    rcases List.mem_cons.mp ht with rfl | ht
    · exact h.2.1.1
    · exact (h.2.2 t ht).1

/-- **the domain of the re-read theorems excludes CR**: a value in `ValidValue` contains no
    carriage return (the property text says "non-empty lines that do not start with whitespace";
    lines are the pieces between LF, and the theorems add "free of CR") -/
theorem C04_validValue_no_cr (v : Str) (h : ValidValue v) : '\r' ∉ v := by
  intro hc
  obtain ⟨l, hl, hcl⟩ := mem_splitOn v '\r' hc (by decide)
  have := validValue_lines_noNl v h l hl '\r' hcl
  revert this; decide

example : ValidValue "l1\nl2".toList ∧ ¬ ValidValue "a\r".toList ∧ ¬ ValidValue "a\rb".toList
    ∧ ¬ ValidValue "l1\r\nl2".toList := by decide

/-! ## 1b. closed witnesses for CR inside a value (audit D2) -/

/-- the root children of the parse of a text -/
def kidsOf (s : Str) : List DNode := (parse s).tree.children

/-- apply a field edit to the first child of the root, a PARAGRAPH -/
def editFirst (f : List DNode → List DNode) : List DNode → List DNode
  | (.node .PARAGRAPH cs) :: r => .node .PARAGRAPH (f cs) :: r
  | r => r

def unreadable (t : Str) : Bool :=
  match readStrict t with
  | .error _ => true
  | .ok _ => false

theorem unreadable_error (t : Str) (h : unreadable t = true) : ∃ e, readStrict t = .error e := by
  unfold unreadable at h
  split at h
  · exact ⟨_, by assumption⟩
  · cases h

/-- the document of the two CR witnesses: `A: b\nB: c\n` after `set("A", v)` through its paragraph -/
def crDoc (v : Str) : DNode :=
  .node .ROOT (editFirst (fun cs => paraSet cs ['A'] v) (kidsOf "A: b\nB: c\n".toList))

/-- **D2, first witness**: `set("A", "a\r")` on the parse of `A: b\nB: c\n` (key present: the entry
    is replaced in place). The live document has ONE paragraph `[(A, "a\r"), (B, c)]`; it prints
    `A: a\r\nB: c\n`; the strict reader accepts that text without error and returns TWO paragraphs
    `[(A, a)]`, `[(B, c)]` (CR ends the line, LF is then a blank line). -/
theorem C04_cr_value_splits :
    docItems (crDoc "a\r".toList) = [[(['A'], "a\r".toList), (['B'], ['c'])]]
    ∧ (crDoc "a\r".toList).text = "A: a\r\nB: c\n".toList
    ∧ rereads (crDoc "a\r".toList) [[(['A'], ['a'])], [(['B'], ['c'])]] = true := by
  refine ⟨?_, ?_, ?_⟩ <;> decide +kernel

/-- **D2, second witness**: `set("A", "a\rb")`: the printed document `A: a\rb\nB: c\n` is rejected
    by the strict reader (`b` is lexed as a key without colon) -/
theorem C04_cr_value_unreadable :
    docItems (crDoc "a\rb".toList) = [[(['A'], "a\rb".toList), (['B'], ['c'])]]
    ∧ (crDoc "a\rb".toList).text = "A: a\rb\nB: c\n".toList
    ∧ ∃ e, readStrict (crDoc "a\rb".toList).text = .error e := by
  refine ⟨by decide +kernel, by decide +kernel, unreadable_error _ (by decide +kernel)⟩

/-- the start of both witnesses is a well-formed one-paragraph document (no error, two fields) -/
example : (parse "A: b\nB: c\n".toList).errors = []
    ∧ docItems (.node .ROOT (kidsOf "A: b\nB: c\n".toList)) = [[(['A'], ['b']), (['B'], ['c'])]] := by
  constructor <;> decide +kernel

/-! ## 2. the empty value -/

/-- the operand values for which the re-read clause is proved: `ValidValue`, or the empty string
    (`Entry::new(k, "")` lays out `k: \n` with an empty VALUE token: `LItem.bare`) -/
def ValidValueE (v : Str) : Prop := v = [] ∨ ValidValue v

instance (v : Str) : Decidable (ValidValueE v) := by unfold ValidValueE; exact inferInstance

example : ValidValueE [] ∧ ¬ ValidValue [] ∧ ValidValueE "l1\nl2".toList ∧ ¬ ValidValueE "a\n".toList := by
  decide

def insertBE (k : Str) (b : List LItem) : List LItem := b.map LItem.term ++ [.bare k]

def setBE (k : Str) (b : List LItem) : List LItem :=
  match replB k (fun _ => .bare k) b with
  | some b' => b'
  | none => insertBE k b

theorem bare_allNl (k : Str) : (LItem.bare k).toP.AllNl := ⟨rfl, by simp [bareS]⟩

theorem bodyOp_insert_empty (k : Str) (hk : ValidKey k) :
    BodyOp (fun cs => paraInsert cs k []) (insertBE k) where
  tree := by
    intro b hb _
    simp only [paraInsert, insertBE, lnodes_append, terminateLastLine_lnodes b hb]
    simp [lnodes, LItem.nodes]
  term := by
    intro b m _
    apply itemsTerm_of_allNl
    intro i hi
    simp only [insertBE, toPs_append, List.mem_append] at hi
    rcases hi with hi | hi
    · exact body_term_allNl b i hi
    · simp only [toPs, List.map_cons, List.map_nil, List.mem_singleton] at hi
      subst hi; exact bare_allNl k
  wf := by
    intro b hb i hi
    simp only [insertBE, toPs_append, List.mem_append] at hi
    rcases hi with hi | hi
    · exact body_term_wf b hb i hi
    · simp only [toPs, List.map_cons, List.map_nil, List.mem_singleton] at hi
      subst hi; exact bareS_wf k hk

theorem bodyOp_set_empty (k : Str) (hk : ValidKey k) :
    BodyOp (fun cs => paraSet cs k []) (setBE k) where
  tree := by
    intro b hb hwf
    have hr := replaceFirst_lnodes k (fun _ => entryNew k []) (fun _ => .bare k) b
      (by intro i _ _ n _; simp [LItem.nodes])
    simp only [paraSet, setBE, hr]
    cases replB k (fun _ => LItem.bare k) b with
    | some b' => rfl
    | none => exact (bodyOp_insert_empty k hk).tree b hb hwf
  term := by
    intro b m hb
    simp only [setBE]
    cases hr : replB k (fun _ => LItem.bare k) b with
    | some b' =>
      obtain ⟨pre, x, post, h1, _, h3⟩ := replB_some _ _ _ _ hr
      subst h1 h3
      exact itemsTerm_replace pre post x _ m (bare_allNl k) hb
    | none => exact (bodyOp_insert_empty k hk).term b m hb
  wf := by
    intro b hb
    simp only [setBE]
    cases hr : replB k (fun _ => LItem.bare k) b with
    | some b' =>
      obtain ⟨pre, x, post, h1, _, h3⟩ := replB_some _ _ _ _ hr
      subst h1 h3
      intro i hi
      rcases mem_toPs_replace pre post x _ i hi with rfl | hi
      · exact bareS_wf k hk
      · exact hb i hi
    | none => exact (bodyOp_insert_empty k hk).wf b hb

/-- valid operands, the empty value included -/
def EditOp.ValidE : EditOp → Prop
  | .set _ k v => ValidKey k ∧ ValidValueE v
  | .ins _ k v => ValidKey k ∧ ValidValueE v
  | .rm _ _ => True
  | .ren _ _ k' => ValidKey k'
  | .addp => True
  | .insp _ => True
  | .rmp _ => True

instance (o : EditOp) : Decidable (EditOp.ValidE o) := by
  cases o <;> simp only [EditOp.ValidE] <;> exact inferInstance

theorem validE_of_valid (o : EditOp) (h : o.Valid) : EditOp.ValidE o := by
  cases o <;> simp only [EditOp.Valid, EditOp.ValidE, ValidValueE] at h ⊢
  · exact ⟨h.1, Or.inr h.2⟩
  · exact ⟨h.1, Or.inr h.2⟩
  · exact h

/-- every edit with operands in the larger domain keeps the invariant -/
theorem step_unitsE (us : List EUnit) (hu : UWF us) (d : Doc) (hd : d.kids = unitsKids us)
    (o : EditOp) (ho : EditOp.ValidE o) : ∃ us', (step d o).kids = unitsKids us' ∧ UWF us' := by
  cases o with
  | set h k v =>
    rcases ho.2 with rfl | hv
    · exact onPara_units _ _ (bodyOp_set_empty k ho.1) us hu d hd h
    · exact step_units us hu d hd (.set h k v) ⟨ho.1, hv⟩
  | ins h k v =>
    rcases ho.2 with rfl | hv
    · exact onPara_units _ _ (bodyOp_insert_empty k ho.1) us hu d hd h
    · exact step_units us hu d hd (.ins h k v) ⟨ho.1, hv⟩
  | rm h k => exact step_units us hu d hd _ ho
  | ren h k k' => exact step_units us hu d hd (.ren h k k') ho
  | addp => exact step_units us hu d hd _ ho
  | insp i => exact step_units us hu d hd (.insp i) ho
  | rmp i => exact step_units us hu d hd (.rmp i) ho

theorem run_unitsE (ops : List EditOp) : ∀ (us : List EUnit) (d : Doc), UWF us → d.kids = unitsKids us →
    (∀ o ∈ ops, EditOp.ValidE o) → ∃ us', (run d ops).kids = unitsKids us' ∧ UWF us' := by
  induction ops with
  | nil => intro us d hu hd _; exact ⟨us, hd, hu⟩
  | cons o ops ih =>
    intro us d hu hd hv
    obtain ⟨us1, h1, h2⟩ := step_unitsE us hu d hd o (hv o (by simp))
    exact ih us1 (step d o) h2 h1 (fun x hx => hv x (by simp [hx]))

/-- **whole histories, the empty value allowed** (`C04_reread_history` with `ValidValueE` in place
    of `ValidValue`): after any sequence of field edits and paragraph operations on a parsed
    well-formed document, with valid names and values that are valid or EMPTY, the printed document is
    accepted by the strict reader without error and reads back to exactly the live paragraphs that
    have a field -/
theorem C04_reread_history_empty_ok (d0 : DocS) (hwf : d0.WF) (d : Doc) (hd : d.kids = d0.tree.children)
    (ops : List EditOp) (hv : ∀ o ∈ ops, EditOp.ValidE o) :
    let d' := run d ops
    ∃ s : DocS, s.WF ∧ s.str = d'.root.text ∧ parse d'.root.text = ⟨s.tree, []⟩
      ∧ readStrict d'.root.text = .ok s.tree
      ∧ docItems s.tree = (docItems d'.root).filter nonEmpty := by
  obtain ⟨us', h1, h2⟩ := run_unitsE ops (unitsOf d0) d (uwf_unitsOf d0 hwf)
    (by rw [hd, unitsKids_unitsOf]) hv
  exact rereads_of_units _ us' h1 h2

/-- the same from a document built with `FromIterator` from valid (name, value) pairs -/
theorem C04_reread_history_empty_ok_built (ps : List (List (Str × Str))) (hps : ∀ p ∈ ps, ValidPairs p)
    (d : Doc) (hd : d.kids = docOfParas (ps.map paraOfPairs))
    (ops : List EditOp) (hv : ∀ o ∈ ops, EditOp.ValidE o) :
    let d' := run d ops
    ∃ s : DocS, s.WF ∧ s.str = d'.root.text ∧ parse d'.root.text = ⟨s.tree, []⟩
      ∧ readStrict d'.root.text = .ok s.tree
      ∧ docItems s.tree = (docItems d'.root).filter nonEmpty := by
  obtain ⟨us', h1, h2⟩ := run_unitsE ops (builtUnits ps) d (uwf_built ps hps)
    (by rw [hd, unitsKids_built ps hps]) hv
  exact rereads_of_units _ us' h1 h2

/-- `set(k, "")` through a live handle of a parsed well-formed document: the printed document
    re-reads without error to the old paragraphs with the touched one replaced by the list-model
    result `ListSpec.set … k ""` -/
theorem C04_set_empty_value_rereads (d0 : DocS) (hwf : d0.WF) (d : Doc) (hd : d.kids = d0.tree.children)
    (h i : Nat) (cs : List DNode) (hi : d.handles[h]? = some (some i))
    (hc : d.kids[i]? = some (.node .PARAGRAPH cs)) (k : Str) (hk : ValidKey k) :
    let d' := d.onPara h (fun cs => paraSet cs k [])
    ∃ s : DocS, s.WF ∧ s.str = d'.root.text ∧ parse d'.root.text = ⟨s.tree, []⟩
      ∧ readStrict d'.root.text = .ok s.tree
      ∧ docItems s.tree = (docItems (.node .ROOT (d.kids.take i)) ++
          ListSpec.set (pitems cs) k [] :: docItems (.node .ROOT (d.kids.drop (i + 1)))).filter nonEmpty := by
  obtain ⟨s, h1, h2, h3, h4, h5⟩ := reread_onPara _ _ (bodyOp_set_empty k hk) d0 hwf d hd h
  refine ⟨s, h1, h2, h3, h4, ?_⟩
  rw [h5, content_onPara d h i cs _ hi hc, C04_refine_set]

/-- `insert(k, "")` -/
theorem C04_insert_empty_value_rereads (d0 : DocS) (hwf : d0.WF) (d : Doc) (hd : d.kids = d0.tree.children)
    (h i : Nat) (cs : List DNode) (hi : d.handles[h]? = some (some i))
    (hc : d.kids[i]? = some (.node .PARAGRAPH cs)) (k : Str) (hk : ValidKey k) :
    let d' := d.onPara h (fun cs => paraInsert cs k [])
    ∃ s : DocS, s.WF ∧ s.str = d'.root.text ∧ parse d'.root.text = ⟨s.tree, []⟩
      ∧ readStrict d'.root.text = .ok s.tree
      ∧ docItems s.tree = (docItems (.node .ROOT (d.kids.take i)) ++
          ListSpec.insert (pitems cs) k [] :: docItems (.node .ROOT (d.kids.drop (i + 1)))).filter nonEmpty := by
  obtain ⟨s, h1, h2, h3, h4, h5⟩ := reread_onPara _ _ (bodyOp_insert_empty k hk) d0 hwf d hd h
  refine ⟨s, h1, h2, h3, h4, ?_⟩
  rw [h5, content_onPara d h i cs _ hi hc, C04_refine_insert]

/-- non-vacuity: the example document and handles of Props/C04.lean, a history with empty values -/
def exOpsE : List EditOp :=
  [.set 0 "Source".toList [], .ins 1 "New".toList [], .ren 0 "Source".toList "Src".toList,
   .set 1 "New".toList "v".toList, .addp, .ins 2 "Z".toList []]

example : (∀ o ∈ exOpsE, EditOp.ValidE o) ∧ ¬ (∀ o ∈ exOpsE, o.Valid) := by decide
example : exEditDoc.kids = C03.exDoc.tree.children ∧ C03.exDoc.WF := ⟨rfl, by decide⟩

/-! ## 3. invalid names (outside the property's domain): what the model — and, by the audit's runs,
the code — does there. `insert` goes through `terminate_last_line` (`Node.lastTok` does not reduce
in the kernel), so the start paragraph is given as a body and tied to the parser with
`paraOfText_para`; the `rename` witnesses are evaluated directly on the parse. -/

/-- the paragraph `A: b\n` -/
def pA : ParaS := fld 'A' 'b' true
def bA : List LItem := paraBody pA

theorem start_A : paraOfText "A: b\n".toList = some (paraNode bA) := by
  have h := paraOfText_para pA (by decide) (by decide)
  have hs : (docOfPara pA).str = "A: b\n".toList := by decide
  rw [hs] at h
  rw [h]; exact congrArg some (paraNode_paraBody pA).symm

theorem bA_allNl : ∀ i ∈ toPs bA, i.AllNl := by
  intro i hi
  simp only [bA, toPs_paraBody, pA, fld, List.mem_cons, List.not_mem_nil, or_false] at hi
  subst hi
  exact ⟨rfl, by simp⟩

/-- the last line of `A: b\n` is terminated: `insert` appends the new entry, nothing else -/
theorem insert_A (k v : Str) : paraInsert (lnodes bA) k v = lnodes bA ++ [entryNew k v] := by
  unfold paraInsert
  rw [terminateLastLine_of_not_needs _ (needsNl_lnodes_allNl _ bA_allNl)]

/-- the document `A: b\n` after `insert(k, v)` through its paragraph -/
def insDoc (k v : Str) : DNode := .node .ROOT [.node .PARAGRAPH (lnodes bA ++ [entryNew k v])]

/-- **invalid names, closed witnesses** (start: the paragraph parsed from `A: b\n`; operation
    `insert(k, "v")`; live content, printed text, strict re-read):
    * ` A` (leading blank): live `[(A, b), (" A", v)]`, text `A: b\n A: v\n`, re-read ONE field
      `(A, "b\nA: v")` — the line joins the NEIGHBOUR field's value;
    * `#A`: text `A: b\n#A: v\n`, re-read `[(A, b)]` — the field is read as a comment and vanishes;
    * `A:B`: text `A: b\nA:B: v\n`, re-read `[(A, b), (A, "B: v")]` — name cut at the first colon;
    * `A ` (trailing blank): text `A: b\nA : v\n`, re-read `[(A, b), (A, v)]` — silently renamed.
    None of these names satisfies `ValidKey`. -/
theorem C04_invalid_key_witnesses :
    paraOfText "A: b\n".toList = some (paraNode bA)
    ∧ (∀ k v, Node.node Kind.ROOT [.node .PARAGRAPH (paraInsert (lnodes bA) k v)] = insDoc k v)
    ∧ (docItems (insDoc " A".toList ['v']) = [[(['A'], ['b']), (" A".toList, ['v'])]]
        ∧ (insDoc " A".toList ['v']).text = "A: b\n A: v\n".toList
        ∧ rereads (insDoc " A".toList ['v']) [[(['A'], "b\nA: v".toList)]] = true)
    ∧ (docItems (insDoc "#A".toList ['v']) = [[(['A'], ['b']), ("#A".toList, ['v'])]]
        ∧ (insDoc "#A".toList ['v']).text = "A: b\n#A: v\n".toList
        ∧ rereads (insDoc "#A".toList ['v']) [[(['A'], ['b'])]] = true)
    ∧ (docItems (insDoc "A:B".toList ['v']) = [[(['A'], ['b']), ("A:B".toList, ['v'])]]
        ∧ (insDoc "A:B".toList ['v']).text = "A: b\nA:B: v\n".toList
        ∧ rereads (insDoc "A:B".toList ['v']) [[(['A'], ['b']), (['A'], "B: v".toList)]] = true)
    ∧ (docItems (insDoc "A ".toList ['v']) = [[(['A'], ['b']), ("A ".toList, ['v'])]]
        ∧ (insDoc "A ".toList ['v']).text = "A: b\nA : v\n".toList
        ∧ rereads (insDoc "A ".toList ['v']) [[(['A'], ['b']), (['A'], ['v'])]] = true)
    ∧ ¬ ValidKey " A".toList ∧ ¬ ValidKey "#A".toList ∧ ¬ ValidKey "A:B".toList ∧ ¬ ValidKey "A ".toList := by
  refine ⟨start_A, fun k v => by rw [insert_A]; rfl, ⟨?_, ?_, ?_⟩, ⟨?_, ?_, ?_⟩, ⟨?_, ?_, ?_⟩,
    ⟨?_, ?_, ?_⟩, ?_, ?_, ?_, ?_⟩ <;> decide +kernel

/-- the document `A: b\nB: c\n` after `rename("B", k')` through its paragraph -/
def renDoc (k' : Str) : DNode :=
  .node .ROOT (editFirst (fun cs => (paraRename cs ['B'] k').1) (kidsOf "A: b\nB: c\n".toList))

/-- the same observations for `rename("B", k')` on the parse of `A: b\nB: c\n`, evaluated on the
    parser's tree directly: ` A` joins field A (`(A, "b\nA: c")`), `#A` vanishes, `X:Y` re-reads as
    `(X, "Y: c")` -/
theorem C04_invalid_key_rename_witnesses :
    (docItems (renDoc " A".toList) = [[(['A'], ['b']), (" A".toList, ['c'])]]
        ∧ (renDoc " A".toList).text = "A: b\n A: c\n".toList
        ∧ rereads (renDoc " A".toList) [[(['A'], "b\nA: c".toList)]] = true)
    ∧ (docItems (renDoc "#A".toList) = [[(['A'], ['b']), ("#A".toList, ['c'])]]
        ∧ (renDoc "#A".toList).text = "A: b\n#A: c\n".toList
        ∧ rereads (renDoc "#A".toList) [[(['A'], ['b'])]] = true)
    ∧ (docItems (renDoc "X:Y".toList) = [[(['A'], ['b']), ("X:Y".toList, ['c'])]]
        ∧ (renDoc "X:Y".toList).text = "A: b\nX:Y: c\n".toList
        ∧ rereads (renDoc "X:Y".toList) [[(['A'], ['b']), (['X'], "Y: c".toList)]] = true) := by
  refine ⟨⟨?_, ?_, ?_⟩, ⟨?_, ?_, ?_⟩, ⟨?_, ?_, ?_⟩⟩ <;> decide +kernel

/-! ## 4. C05: paragraphs stay separated -/

/-- a PARAGRAPH child is followed by nothing or by the blank-line node `EMPTY_LINE[NEWLINE "\n"]` -/
def Separated : List DNode → Prop
  | [] => True
  | [_] => True
  | x :: y :: r => (isParaNode x = true → y = emptyLine) ∧ Separated (y :: r)

theorem separated_of_term (us : List EUnit) (n : Option EUnit) (h : unitsTermN us n) :
    Separated (unitsKids us) := by
  induction us with
  | nil => trivial
  | cons x us ih =>
    cases us with
    | nil => trivial
    | cons y r =>
      simp only [unitsTermN] at h
      refine ⟨?_, ih h.2⟩
      intro hp
      obtain ⟨b, rfl⟩ := (isParaNode_unit x).mp hp
      rcases h.1.2 with h0 | h0
      · cases h0
      · cases h0; exact emptyLine_eq.symm

/-- **separator invariant** from the edit invariant: in a document of units satisfying `UWF`, every
    PARAGRAPH child of the root is the last child or is directly followed by the blank-line node -/
theorem C05_paragraphs_separated (us : List EUnit) (h : UWF us) : Separated (unitsKids us) :=
  separated_of_term us none h.term

/-- index form: the child behind a PARAGRAPH child is the blank-line node -/
theorem separated_next (kids : List DNode) (h : Separated kids) (i : Nat) (a b : DNode)
    (ha : kids[i]? = some a) (hb : kids[i + 1]? = some b) (hp : isParaNode a = true) : b = emptyLine := by
  induction kids generalizing i with
  | nil => cases ha
  | cons x r ih =>
    cases r with
    | nil => cases i <;> simp at hb
    | cons y r =>
      cases i with
      | zero =>
        simp only [List.getElem?_cons_zero, List.getElem?_cons_succ, Option.some.injEq] at ha hb
        subst ha hb
        exact h.1 hp
      | succ i => exact ih h.2 i (by simpa using ha) (by simpa using hb)

/-- two PARAGRAPH nodes are never adjacent children of the root -/
theorem C05_no_adjacent_paragraphs (us : List EUnit) (h : UWF us) (i : Nat) (a b : DNode)
    (ha : (unitsKids us)[i]? = some a) (hb : (unitsKids us)[i + 1]? = some b) :
    ¬ (isParaNode a = true ∧ isParaNode b = true) := by
  rintro ⟨hpa, hpb⟩
  have := separated_next _ (C05_paragraphs_separated us h) i a b ha hb hpa
  subst this
  revert hpb; decide

/-- **along histories**: after any sequence of the seven operations (valid names; values valid or
    empty; every paragraph index) on a parsed well-formed document, every PARAGRAPH child of the root
    is the last child or is directly followed by the blank-line node -/
theorem C05_paragraphs_separated_history (d0 : DocS) (hwf : d0.WF) (d : Doc)
    (hd : d.kids = d0.tree.children) (ops : List EditOp) (hv : ∀ o ∈ ops, EditOp.ValidE o) :
    Separated (run d ops).kids := by
  obtain ⟨us', h1, h2⟩ := run_unitsE ops (unitsOf d0) d (uwf_unitsOf d0 hwf)
    (by rw [hd, unitsKids_unitsOf]) hv
  rw [h1]; exact C05_paragraphs_separated us' h2

/-- the same from a document built with `FromIterator` from valid (name, value) pairs (the empty
    document for `ps = []`) -/
theorem C05_paragraphs_separated_history_built (ps : List (List (Str × Str)))
    (hps : ∀ p ∈ ps, ValidPairs p) (d : Doc) (hd : d.kids = docOfParas (ps.map paraOfPairs))
    (ops : List EditOp) (hv : ∀ o ∈ ops, EditOp.ValidE o) :
    Separated (run d ops).kids := by
  obtain ⟨us', h1, h2⟩ := run_unitsE ops (builtUnits ps) d (uwf_built ps hps)
    (by rw [hd, unitsKids_built ps hps]) hv
  rw [h1]; exact C05_paragraphs_separated us' h2

/-- the same from a document collected (`FromIterator<Paragraph> for Deb822`) from parsed paragraph
    bodies, possibly unterminated (`Props/C05Collect.lean`) -/
theorem C05_paragraphs_separated_history_collected (bs : List (List LItem)) (hbs : ∀ b ∈ bs, BodyOk b)
    (d : Doc) (hd : d.kids = docOfParas (bs.map paraNode))
    (ops : List EditOp) (hv : ∀ o ∈ ops, EditOp.ValidE o) :
    Separated (run d ops).kids := by
  obtain ⟨us', h1, h2⟩ := run_unitsE ops (collUnits bs) d (collect_uwf bs hbs)
    (by rw [hd, collect_kids bs (fun b hb => (hbs b hb).1)]) hv
  rw [h1]; exact C05_paragraphs_separated us' h2

/-- `Separated` is not trivially true: two adjacent PARAGRAPH nodes violate it, and so does a
    PARAGRAPH followed by a comment-line node -/
example : ¬ Separated [.node .PARAGRAPH [], .node .PARAGRAPH []] := by
  intro h; have := h.1 rfl; revert this; simp [emptyLine]
example : UWF (unitsOf C03.exDoc) ∧ ((unitsKids (unitsOf C03.exDoc)).filter isParaNode).length = 2 := by
  constructor <;> decide
example : ∀ b ∈ exBodies, BodyOk b := by decide

/-! ### `remove_paragraph` deletes no comment line outside the removed paragraph (audit_C05 W2)

`C05_frame_remove` lets the child behind the removed paragraph go "if it is an EMPTY_LINE node" —
by the model that could be a comment-line node. Under the separator invariant it never is. -/

/-- in a document with separated paragraphs, `remove_paragraph(i)` removes the i-th PARAGRAPH child
    and, if a child follows it, exactly the blank-line node `EMPTY_LINE[NEWLINE "\n"]` behind it;
    every other child — every comment line outside the removed paragraph — stays -/
theorem C05_remove_keeps_comments (d : Doc) (hs : Separated d.kids) (i : Nat) :
    match convertIndex d.kids i with
    | none => (removeParagraph d i).kids = d.kids
    | some p =>
      (d.kids[p + 1]? = none ∧ (removeParagraph d i).kids = d.kids.take p)
      ∨ (d.kids[p + 1]? = some emptyLine
          ∧ (removeParagraph d i).kids = d.kids.take p ++ d.kids.drop (p + 2)) := by
  have hf := C05_frame_remove d i
  cases hc : convertIndex d.kids i with
  | none => rw [hc] at hf; exact hf
  | some p =>
    rw [hc] at hf
    simp only at hf ⊢
    obtain ⟨q, c, h1, h2, h3⟩ := convertIndexAux_para _ _ _ _ hc
    simp only [Nat.zero_add] at h1; subst h1
    cases hn : d.kids[p + 1]? with
    | none =>
      left
      refine ⟨rfl, ?_⟩
      rw [hf, hn]
      have : d.kids.length ≤ p + 1 := List.getElem?_eq_none_iff.mp hn
      simp [List.drop_eq_nil_of_le this]
    | some n =>
      right
      have := separated_next _ hs p c n h2 hn h3
      subst this
      refine ⟨rfl, ?_⟩
      rw [hf, hn]
      rfl

/-- along histories from a parsed well-formed document: at every point `remove_paragraph` deletes
    the paragraph and at most the blank line behind it -/
theorem C05_remove_keeps_comments_history (d0 : DocS) (hwf : d0.WF) (d : Doc)
    (hd : d.kids = d0.tree.children) (ops : List EditOp) (hv : ∀ o ∈ ops, EditOp.ValidE o) (i : Nat) :
    match convertIndex (run d ops).kids i with
    | none => (removeParagraph (run d ops) i).kids = (run d ops).kids
    | some p =>
      ((run d ops).kids[p + 1]? = none ∧ (removeParagraph (run d ops) i).kids = (run d ops).kids.take p)
      ∨ ((run d ops).kids[p + 1]? = some emptyLine
          ∧ (removeParagraph (run d ops) i).kids =
              (run d ops).kids.take p ++ (run d ops).kids.drop (p + 2)) :=
  C05_remove_keeps_comments _ (C05_paragraphs_separated_history d0 hwf d hd ops hv) i

/-- non-vacuity: the example document of C03 has a comment line directly behind a blank line behind
    its first paragraph; its children are separated -/
example : Separated (unitsKids (unitsOf C03.exDoc)) :=
  C05_paragraphs_separated _ (by decide)

end Deb822Verif.Props.C04More
