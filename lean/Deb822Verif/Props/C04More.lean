import Deb822Verif.Props.C05Collect
/-!
# C04 / C05 — the boundary of the operand domain, and the separator invariant

Follow-up of the read-only audits (audits/audit_C04.md, audit_C05.md):

1. **CR in operand values (D2).** `Entry::new` (model `entryNew`) splits a value at LF only, the
   lexer ends a line at LF *and* CR. `ValidValue` excludes CR (`C04_validValue_no_cr`), so the
   re-read theorems do not speak about such values; two closed witnesses record what happens there:
   `C04_cr_value_splits` (value `a\r`: one live paragraph re-reads as two) and
   `C04_cr_value_unreadable` (value `a\rb`: the strict reader rejects the printed document).
2. **The empty value** is outside `ValidValue` although the property holds for it:
   `ValidValueE v := v = "" ∨ ValidValue v`, `EditOp.ValidE`, and the re-read theorems over whole
   histories for this larger operand domain (`C04_reread_history_empty_ok`, `_built`), the
   single-step forms `C04_set_empty_value_rereads` / `C04_insert_empty_value_rereads`.
3. **Invalid names** (outside the property's domain; recorded observations on the model):
   `C04_invalid_key_witnesses` (insert) and `C04_invalid_key_rename_witnesses` (rename, evaluated
   directly on the parse).
4. **C05, separator invariant**: in a document satisfying the edit invariant `UWF` a PARAGRAPH
   child is followed by nothing or by the blank-line node `EMPTY_LINE[NEWLINE "\n"]`
   (`C05_paragraphs_separated`), hence never directly by another PARAGRAPH
   (`C05_no_adjacent_paragraphs`); lifted over all histories (`C05_paragraphs_separated_history`,
   `_built`).
-/
namespace Deb822Verif.Props.C04More
open Deb822Verif Deb Node Spec Props.C04 Props.C05 Props.C05Collect

/-! ## 1a. `ValidValue` excludes CR -/

theorem mem_splitOn (v : Str) (c : Char) (hc : c ∈ v) (hne : c ≠ '\n') :
    ∃ l ∈ Text.splitOn '\n' v, c ∈ l := by
  induction v with
  | nil => cases hc
  | cons x xs ih =>
    simp only [Text.splitOn]
    split
    · rename_i hx
      subst hx
      rcases List.mem_cons.mp hc with h | h
      · exact absurd h hne
      · obtain ⟨l, hl, hcl⟩ := ih h
        exact ⟨l, List.mem_cons_of_mem _ hl, hcl⟩
    · rcases List.mem_cons.mp hc with h | h
      · subst h
        split
        · exact ⟨[c], by simp, by simp⟩
        · exact ⟨_, List.mem_cons_self, List.mem_cons_self⟩
      · obtain ⟨l, hl, hcl⟩ := ih h
        split
        · rename_i hs; rw [hs] at hl; cases hl
        · rename_i l0 ls hs
          rw [hs] at hl
          rcases List.mem_cons.mp hl with rfl | hl
          · exact ⟨_, List.mem_cons_self, List.mem_cons_of_mem _ hcl⟩
          · exact ⟨l, List.mem_cons_of_mem _ hl, hcl⟩

/-- every line of a valid value is free of LF and CR -/
theorem validValue_lines_noNl (v : Str) (h : ValidValue v) : ∀ l ∈ Text.splitOn '\n' v, NoNl l := by
  unfold ValidValue at h
  cases hs : Text.splitOn '\n' v with
  | nil => rw [hs] at h; exact absurd h id
  | cons l ls =>
    rw [hs] at h
    intro t ht
    rcases List.mem_cons.mp ht with rfl | ht
    · exact h.2.1.1
    · exact (h.2.2 t ht).1

/-- **the domain of the re-read theorems excludes CR**: a value in `ValidValue` contains no
    carriage return (the property text says "non-empty lines that do not start with whitespace";
    lines are the pieces between LF, and the theorems add "free of CR") -/
theorem C04_validValue_no_cr (v : Str) (h : ValidValue v) : '\r' ∉ v := by
  intro hc
  obtain ⟨l, hl, hcl⟩ := mem_splitOn v '\r' hc (by decide)
  have := validValue_lines_noNl v h l hl '\r' hcl
  revert this; decide

example : ValidValue "l1\nl2".toList ∧ ¬ ValidValue "a\r".toList ∧ ¬ ValidValue "a\rb".toList
    ∧ ¬ ValidValue "l1\r\nl2".toList := by decide

/-! ## 1b. closed witnesses for CR inside a value (audit D2) -/

/-- the root children of the parse of a text -/
def kidsOf (s : Str) : List DNode := (parse s).tree.children

/-- apply a field edit to the first child of the root, a PARAGRAPH -/
def editFirst (f : List DNode → List DNode) : List DNode → List DNode
  | (.node .PARAGRAPH cs) :: r => .node .PARAGRAPH (f cs) :: r
  | r => r

def unreadable (t : Str) : Bool :=
  match readStrict t with
  | .error _ => true
  | .ok _ => false

theorem unreadable_error (t : Str) (h : unreadable t = true) : ∃ e, readStrict t = .error e := by
  unfold unreadable at h
  split at h
  · exact ⟨_, by assumption⟩
  · cases h

/-- the document of the two CR witnesses: `A: b\nB: c\n` after `set("A", v)` through its paragraph -/
def crDoc (v : Str) : DNode :=
  .node .ROOT (editFirst (fun cs => paraSet cs ['A'] v) (kidsOf "A: b\nB: c\n".toList))

/-- **D2, first witness**: `set("A", "a\r")` on the parse of `A: b\nB: c\n` (key present: the entry
    is replaced in place). The live document has ONE paragraph `[(A, "a\r"), (B, c)]`; it prints
    `A: a\r\nB: c\n`; the strict reader accepts that text without error and returns TWO paragraphs
    `[(A, a)]`, `[(B, c)]` (CR ends the line, LF is then a blank line). -/
theorem C04_cr_value_splits :
    docItems (crDoc "a\r".toList) = [[(['A'], "a\r".toList), (['B'], ['c'])]]
    ∧ (crDoc "a\r".toList).text = "A: a\r\nB: c\n".toList
    ∧ rereads (crDoc "a\r".toList) [[(['A'], ['a'])], [(['B'], ['c'])]] = true := by
  refine ⟨?_, ?_, ?_⟩ <;> decide +kernel

/-- **D2, second witness**: `set("A", "a\rb")`: the printed document `A: a\rb\nB: c\n` is rejected
    by the strict reader (`b` is lexed as a key without colon) -/
theorem C04_cr_value_unreadable :
    docItems (crDoc "a\rb".toList) = [[(['A'], "a\rb".toList), (['B'], ['c'])]]
    ∧ (crDoc "a\rb".toList).text = "A: a\rb\nB: c\n".toList
    ∧ ∃ e, readStrict (crDoc "a\rb".toList).text = .error e := by
  refine ⟨by decide +kernel, by decide +kernel, unreadable_error _ (by decide +kernel)⟩

/-- the start of both witnesses is a well-formed one-paragraph document (no error, two fields) -/
example : (parse "A: b\nB: c\n".toList).errors = []
    ∧ docItems (.node .ROOT (kidsOf "A: b\nB: c\n".toList)) = [[(['A'], ['b']), (['B'], ['c'])]] := by
  constructor <;> decide +kernel

/-! ## 2. the empty value -/

/-- the operand values for which the re-read clause is proved: `ValidValue`, or the empty string
    (`Entry::new(k, "")` lays out `k: \n` with an empty VALUE token: `LItem.bare`) -/
def ValidValueE (v : Str) : Prop := v = [] ∨ ValidValue v

instance (v : Str) : Decidable (ValidValueE v) := by unfold ValidValueE; exact inferInstance

example : ValidValueE [] ∧ ¬ ValidValue [] ∧ ValidValueE "l1\nl2".toList ∧ ¬ ValidValueE "a\n".toList := by
  decide

def insertBE (k : Str) (b : List LItem) : List LItem := b.map LItem.term ++ [.bare k]

def setBE (k : Str) (b : List LItem) : List LItem :=
  match replB k (fun _ => .bare k) b with
  | some b' => b'
  | none => insertBE k b

theorem bare_allNl (k : Str) : (LItem.bare k).toP.AllNl := ⟨rfl, by simp [bareS]⟩

theorem bodyOp_insert_empty (k : Str) (hk : ValidKey k) :
    BodyOp (fun cs => paraInsert cs k []) (insertBE k) where
  tree := by
    intro b hb _
    simp only [paraInsert, insertBE, lnodes_append, terminateLastLine_lnodes b hb]
    simp [lnodes, LItem.nodes]
  term := by
    intro b m _
    apply itemsTerm_of_allNl
    intro i hi
    simp only [insertBE, toPs_append, List.mem_append] at hi
    rcases hi with hi | hi
    · exact body_term_allNl b i hi
    · simp only [toPs, List.map_cons, List.map_nil, List.mem_singleton] at hi
      subst hi; exact bare_allNl k
  wf := by
    intro b hb i hi
    simp only [insertBE, toPs_append, List.mem_append] at hi
    rcases hi with hi | hi
    · exact body_term_wf b hb i hi
    · simp only [toPs, List.map_cons, List.map_nil, List.mem_singleton] at hi
      subst hi; exact bareS_wf k hk

theorem bodyOp_set_empty (k : Str) (hk : ValidKey k) :
    BodyOp (fun cs => paraSet cs k []) (setBE k) where
  tree := by
    intro b hb hwf
    have hr := replaceFirst_lnodes k (fun _ => entryNew k []) (fun _ => .bare k) b
      (by intro i _ _ n _; simp [LItem.nodes])
    simp only [paraSet, setBE, hr]
    cases replB k (fun _ => LItem.bare k) b with
    | some b' => rfl
    | none => exact (bodyOp_insert_empty k hk).tree b hb hwf
  term := by
    intro b m hb
    simp only [setBE]
    cases hr : replB k (fun _ => LItem.bare k) b with
    | some b' =>
      obtain ⟨pre, x, post, h1, _, h3⟩ := replB_some _ _ _ _ hr
      subst h1 h3
      exact itemsTerm_replace pre post x _ m (bare_allNl k) hb
    | none => exact (bodyOp_insert_empty k hk).term b m hb
  wf := by
    intro b hb
    simp only [setBE]
    cases hr : replB k (fun _ => LItem.bare k) b with
    | some b' =>
      obtain ⟨pre, x, post, h1, _, h3⟩ := replB_some _ _ _ _ hr
      subst h1 h3
      intro i hi
      rcases mem_toPs_replace pre post x _ i hi with rfl | hi
      · exact bareS_wf k hk
      · exact hb i hi
    | none => exact (bodyOp_insert_empty k hk).wf b hb

/-- valid operands, the empty value included -/
def EditOp.ValidE : EditOp → Prop
  | .set _ k v => ValidKey k ∧ ValidValueE v
  | .ins _ k v => ValidKey k ∧ ValidValueE v
  | .rm _ _ => True
  | .ren _ _ k' => ValidKey k'
  | .addp => True
  | .insp _ => True
  | .rmp _ => True

instance (o : EditOp) : Decidable (EditOp.ValidE o) := by
  cases o <;> simp only [EditOp.ValidE] <;> exact inferInstance

theorem validE_of_valid (o : EditOp) (h : o.Valid) : EditOp.ValidE o := by
  cases o <;> simp only [EditOp.Valid, EditOp.ValidE, ValidValueE] at h ⊢
  · exact ⟨h.1, Or.inr h.2⟩
  · exact ⟨h.1, Or.inr h.2⟩
  · exact h

/-- every edit with operands in the larger domain keeps the invariant -/
theorem step_unitsE (us : List EUnit) (hu : UWF us) (d : Doc) (hd : d.kids = unitsKids us)
    (o : EditOp) (ho : EditOp.ValidE o) : ∃ us', (step d o).kids = unitsKids us' ∧ UWF us' := by
  cases o with
  | set h k v =>
    rcases ho.2 with rfl | hv
    · exact onPara_units _ _ (bodyOp_set_empty k ho.1) us hu d hd h
    · exact step_units us hu d hd (.set h k v) ⟨ho.1, hv⟩
  | ins h k v =>
    rcases ho.2 with rfl | hv
    · exact onPara_units _ _ (bodyOp_insert_empty k ho.1) us hu d hd h
    · exact step_units us hu d hd (.ins h k v) ⟨ho.1, hv⟩
  | rm h k => exact step_units us hu d hd _ ho
  | ren h k k' => exact step_units us hu d hd (.ren h k k') ho
  | addp => exact step_units us hu d hd _ ho
  | insp i => exact step_units us hu d hd (.insp i) ho
  | rmp i => exact step_units us hu d hd (.rmp i) ho

theorem run_unitsE (ops : List EditOp) : ∀ (us : List EUnit) (d : Doc), UWF us → d.kids = unitsKids us →
    (∀ o ∈ ops, EditOp.ValidE o) → ∃ us', (run d ops).kids = unitsKids us' ∧ UWF us' := by
  induction ops with
  | nil => intro us d hu hd _; exact ⟨us, hd, hu⟩
  | cons o ops ih =>
    intro us d hu hd hv
    obtain ⟨us1, h1, h2⟩ := step_unitsE us hu d hd o (hv o (by simp))
    exact ih us1 (step d o) h2 h1 (fun x hx => hv x (by simp [hx]))

/-- **whole histories, the empty value allowed** (`C04_reread_history` with `ValidValueE` in place
    of `ValidValue`): after any sequence of field edits and paragraph operations on a parsed
    well-formed document, with valid names and values that are valid or EMPTY, the printed document is
    accepted by the strict reader without error and reads back to exactly the live paragraphs that
    have a field -/
theorem C04_reread_history_empty_ok (d0 : DocS) (hwf : d0.WF) (d : Doc) (hd : d.kids = d0.tree.children)
    (ops : List EditOp) (hv : ∀ o ∈ ops, EditOp.ValidE o) :
    let d' := run d ops
    ∃ s : DocS, s.WF ∧ s.str = d'.root.text ∧ parse d'.root.text = ⟨s.tree, []⟩
      ∧ readStrict d'.root.text = .ok s.tree
      ∧ docItems s.tree = (docItems d'.root).filter nonEmpty := by
  obtain ⟨us', h1, h2⟩ := run_unitsE ops (unitsOf d0) d (uwf_unitsOf d0 hwf)
    (by rw [hd, unitsKids_unitsOf]) hv
  exact rereads_of_units _ us' h1 h2

/-- the same from a document built with `FromIterator` from valid (name, value) pairs -/
theorem C04_reread_history_empty_ok_built (ps : List (List (Str × Str))) (hps : ∀ p ∈ ps, ValidPairs p)
    (d : Doc) (hd : d.kids = docOfParas (ps.map paraOfPairs))
    (ops : List EditOp) (hv : ∀ o ∈ ops, EditOp.ValidE o) :
    let d' := run d ops
    ∃ s : DocS, s.WF ∧ s.str = d'.root.text ∧ parse d'.root.text = ⟨s.tree, []⟩
      ∧ readStrict d'.root.text = .ok s.tree
      ∧ docItems s.tree = (docItems d'.root).filter nonEmpty := by
  obtain ⟨us', h1, h2⟩ := run_unitsE ops (builtUnits ps) d (uwf_built ps hps)
    (by rw [hd, unitsKids_built ps hps]) hv
  exact rereads_of_units _ us' h1 h2

/-- `set(k, "")` through a live handle of a parsed well-formed document: the printed document
    re-reads without error to the old paragraphs with the touched one replaced by the list-model
    result `ListSpec.set … k ""` -/
theorem C04_set_empty_value_rereads (d0 : DocS) (hwf : d0.WF) (d : Doc) (hd : d.kids = d0.tree.children)
    (h i : Nat) (cs : List DNode) (hi : d.handles[h]? = some (some i))
    (hc : d.kids[i]? = some (.node .PARAGRAPH cs)) (k : Str) (hk : ValidKey k) :
    let d' := d.onPara h (fun cs => paraSet cs k [])
    ∃ s : DocS, s.WF ∧ s.str = d'.root.text ∧ parse d'.root.text = ⟨s.tree, []⟩
      ∧ readStrict d'.root.text = .ok s.tree
      ∧ docItems s.tree = (docItems (.node .ROOT (d.kids.take i)) ++
          ListSpec.set (pitems cs) k [] :: docItems (.node .ROOT (d.kids.drop (i + 1)))).filter nonEmpty := by
  obtain ⟨s, h1, h2, h3, h4, h5⟩ := reread_onPara _ _ (bodyOp_set_empty k hk) d0 hwf d hd h
  refine ⟨s, h1, h2, h3, h4, ?_⟩
  rw [h5, content_onPara d h i cs _ hi hc, C04_refine_set]

/-- `insert(k, "")` -/
theorem C04_insert_empty_value_rereads (d0 : DocS) (hwf : d0.WF) (d : Doc) (hd : d.kids = d0.tree.children)
    (h i : Nat) (cs : List DNode) (hi : d.handles[h]? = some (some i))
    (hc : d.kids[i]? = some (.node .PARAGRAPH cs)) (k : Str) (hk : ValidKey k) :
    let d' := d.onPara h (fun cs => paraInsert cs k [])
    ∃ s : DocS, s.WF ∧ s.str = d'.root.text ∧ parse d'.root.text = ⟨s.tree, []⟩
      ∧ readStrict d'.root.text = .ok s.tree
      ∧ docItems s.tree = (docItems (.node .ROOT (d.kids.take i)) ++
          ListSpec.insert (pitems cs) k [] :: docItems (.node .ROOT (d.kids.drop (i + 1)))).filter nonEmpty := by
  obtain ⟨s, h1, h2, h3, h4, h5⟩ := reread_onPara _ _ (bodyOp_insert_empty k hk) d0 hwf d hd h
  refine ⟨s, h1, h2, h3, h4, ?_⟩
  rw [h5, content_onPara d h i cs _ hi hc, C04_refine_insert]

/-- non-vacuity: the example document and handles of Props/C04.lean, a history with empty values -/
def exOpsE : List EditOp :=
  [.set 0 "Source".toList [], .ins 1 "New".toList [], .ren 0 "Source".toList "Src".toList,
   .set 1 "New".toList "v".toList, .addp, .ins 2 "Z".toList []]

example : (∀ o ∈ exOpsE, EditOp.ValidE o) ∧ ¬ (∀ o ∈ exOpsE, o.Valid) := by decide
example : exEditDoc.kids = C03.exDoc.tree.children ∧ C03.exDoc.WF := ⟨rfl, by decide⟩

end Deb822Verif.Props.C04More
