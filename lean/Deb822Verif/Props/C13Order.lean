import Deb822Verif.Props.C13
import Deb822Verif.Lemmas.SortUnique
/-!
# C13 (continued) — one text per meaning; independence of the sorting algorithm

* `C13_order_independent`: two well-formed fields with the same multiset of entries (each entry the
  same multiset of alternatives, `SameEntries`) and the same multiset of substitution variables
  normalise to the SAME text — whatever their layout, the order of their entries, of the
  alternatives inside an entry and of their substitution variables.  `C13_one_text_per_meaning` is
  the equivalence (the text also determines the meaning).
* `C13_sort_independent`: `Relations::wrap_and_sort` with ANY sorting function that returns a sorted
  permutation whenever the comparison it is given is a total preorder on the elements of the list
  (the contract of Rust's `sort_by`) prints what the model with `List.mergeSort` prints.
* `C13_meaning_multiset`: the multiset form of `C13_meaning_mem`.

The key facts: a tie under the comparators of the code (`cmp` THEN printed text) is a pair of
textually identical elements (`Lemmas/SortUnique.lean: sorted_unique`), and on the values the
accessors return for a well-formed field the printed text determines the value
(`showRelation_inj`, `entryText_inj`: through the parser, C10).
-/
set_option linter.unusedSimpArgs false
set_option linter.unusedVariables false
namespace Deb822Verif.Props.C13
open Deb822Verif Rel Node RelSpec DebVersion Lossy Rel.Wrap

/-! ## same meaning: the same multiset of entries, each the same multiset of alternatives -/

/-- entry by entry, the same alternatives up to their order -/
inductive PermEach {α : Type} : List (List α) → List (List α) → Prop
  | nil : PermEach [] []
  | cons {a b : List α} {as bs : List (List α)} : a.Perm b → PermEach as bs → PermEach (a :: as) (b :: bs)

/-- **the same dependencies**: the entries of `V` can be reordered so that, entry by entry, they have
    the same alternatives as those of `W` up to the order of the alternatives — i.e. `V` and `W` are the
    same multiset of multisets of relations -/
def SameEntries {α : Type} (V W : List (List α)) : Prop := ∃ W', V.Perm W' ∧ PermEach W' W

theorem PermEach.refl {α : Type} : ∀ (V : List (List α)), PermEach V V
  | [] => .nil
  | a :: as => .cons (List.Perm.refl a) (PermEach.refl as)

theorem PermEach.symm {α : Type} {V W : List (List α)} (h : PermEach V W) : PermEach W V := by
  induction h with
  | nil => exact .nil
  | cons hab _ ih => exact .cons hab.symm ih

theorem PermEach.trans {α : Type} {U V W : List (List α)} (h1 : PermEach U V) (h2 : PermEach V W) :
    PermEach U W := by
  induction h1 generalizing W with
  | nil => exact h2
  | cons hab _ ih =>
    cases h2 with
    | cons hbc h2' => exact .cons (hab.trans hbc) (ih h2')

theorem PermEach.map_of {α : Type} (g : List α → List α) (hg : ∀ e, (g e).Perm e) :
    ∀ (V : List (List α)), PermEach (V.map g) V
  | [] => .nil
  | a :: as => .cons (hg a) (PermEach.map_of g hg as)

/-- reordering the right-hand side can be done on the left-hand side instead -/
theorem PermEach.comm_perm {α : Type} {B C : List (List α)} (hp : B.Perm C) :
    ∀ {A : List (List α)}, PermEach A B → ∃ A', A.Perm A' ∧ PermEach A' C := by
  induction hp with
  | nil => intro A h; exact ⟨A, List.Perm.refl A, h⟩
  | cons x _ ih =>
    intro A h
    cases h with
    | cons hax h' =>
      obtain ⟨A', hp', he'⟩ := ih h'
      exact ⟨_ :: A', hp'.cons _, .cons hax he'⟩
  | swap x y l =>
    intro A h
    cases h with
    | cons hay h' =>
      cases h' with
      | cons hbx h'' => exact ⟨_, List.Perm.swap _ _ _, .cons hbx (.cons hay h'')⟩
  | trans _ _ ih1 ih2 =>
    intro A h
    obtain ⟨A', hp', he'⟩ := ih1 h
    obtain ⟨A'', hp'', he''⟩ := ih2 he'
    exact ⟨A'', hp'.trans hp'', he''⟩

theorem SameEntries.refl {α : Type} (V : List (List α)) : SameEntries V V :=
  ⟨V, List.Perm.refl V, PermEach.refl V⟩

theorem SameEntries.of_perm {α : Type} {V W : List (List α)} (h : V.Perm W) : SameEntries V W :=
  ⟨W, h, PermEach.refl W⟩

theorem SameEntries.of_each {α : Type} {V W : List (List α)} (h : PermEach V W) : SameEntries V W :=
  ⟨V, List.Perm.refl V, h⟩

theorem SameEntries.trans {α : Type} {U V W : List (List α)} (h1 : SameEntries U V) (h2 : SameEntries V W) :
    SameEntries U W := by
  obtain ⟨V', hp1, he1⟩ := h1
  obtain ⟨W', hp2, he2⟩ := h2
  obtain ⟨V'', hp3, he3⟩ := PermEach.comm_perm hp2 he1
  exact ⟨V'', hp1.trans hp3, he3.trans he2⟩

theorem SameEntries.symm {α : Type} {V W : List (List α)} (h : SameEntries V W) : SameEntries W V := by
  obtain ⟨W', hp, he⟩ := h
  exact (SameEntries.of_each he.symm).trans (SameEntries.of_perm hp.symm)

/-- membership form: every entry of one side is, up to the order of its alternatives, an entry of
    the other -/
theorem PermEach.mem_left {α : Type} {V W : List (List α)} (h : PermEach V W) :
    ∀ e ∈ V, ∃ e' ∈ W, e.Perm e' := by
  induction h with
  | nil => intro e he; simp at he
  | cons hab _ ih =>
    intro e he
    rcases List.mem_cons.1 he with rfl | he
    · exact ⟨_, by simp, hab⟩
    · obtain ⟨e', he', hp⟩ := ih e he
      exact ⟨e', by simp [he'], hp⟩

theorem SameEntries.mem_left {α : Type} {V W : List (List α)} (h : SameEntries V W) :
    ∀ e ∈ V, ∃ e' ∈ W, e.Perm e' := by
  obtain ⟨W', hp, he⟩ := h
  intro e hev
  exact he.mem_left e (hp.subset hev)

theorem SameEntries.length_eq {α : Type} {V W : List (List α)} (h : SameEntries V W) : V.length = W.length := by
  obtain ⟨W', hp, he⟩ := h
  rw [hp.length_eq]
  clear hp
  induction he with
  | nil => rfl
  | cons _ _ ih => simp [ih]

/-! ## on valid values the printed text determines the value -/

/-- the values of an entry are what the accessors can return on a well-formed field -/
def ValidEntry (e : List RV) : Prop := e ≠ [] ∧ ∀ v ∈ e, validR v = true

theorem canonText_single (e : List RV) : canonText [e] [] = entryText e := by
  simp [canonText, Text.join]

/-- **the text of an entry determines the entry** (it is read back by the parser, C10) -/
theorem entryText_inj {e₁ e₂ : List RV} (h₁ : ValidEntry e₁) (h₂ : ValidEntry e₂)
    (ht : entryText e₁ = entryText e₂) : e₁ = e₂ := by
  have wf : ∀ e, ValidEntry e → (canonField [e] []).WF := fun e he =>
    canonField_wf [e] [] (by intro x hx; simp at hx; subst hx; exact he.2) (by simp)
  have hp : ∀ e, ValidEntry e → parse (entryText e) true = ⟨(canonField [e] []).tree, []⟩ := by
    intro e he
    have hstr : (canonField [e] []).str = entryText e := by rw [canonField_str]; exact canonText_single e
    rw [← hstr]
    exact C10.C10_parse_inverts _ (wf e he) true (Or.inl rfl)
  have htree : (canonField [e₁] []).tree = (canonField [e₂] []).tree := by
    have h := hp e₁ h₁
    rw [ht, hp e₂ h₂] at h
    injection h with h _
    exact h.symm
  have hv : ∀ e, ValidEntry e → (canonField [e] []).view = [e] := fun e he =>
    canonField_view [e] [] (by intro x hx; simp at hx; subst hx; exact he)
  have h := accEntries_field _ (wf e₁ h₁)
  rw [htree, accEntries_field _ (wf e₂ h₂), hv e₁ h₁, hv e₂ h₂] at h
  simpa using h.symm

/-- **the text of a relation determines the relation** -/
theorem showRelation_inj {a b : RV} (ha : validR a = true) (hb : validR b = true)
    (ht : showRelation a = showRelation b) : a = b := by
  have h : entryText [a] = entryText [b] := by simpa [entryText, Text.join] using ht
  have := entryText_inj (e₁ := [a]) (e₂ := [b]) ⟨by simp, by simpa using ha⟩ ⟨by simp, by simpa using hb⟩ h
  simpa using this

theorem then_eq_right {a b : Ordering} (h : a.then b = .eq) : b = .eq := by
  cases a <;> simp_all [Ordering.then]

/-- a tie under the sort key of `Entry::wrap_and_sort` (`cmp` then text) is an identical relation -/
theorem relKeyCmp_tie {a b : RV} (ha : validR a = true) (hb : validR b = true)
    (h : relKeyCmp a b = .eq) : a = b :=
  showRelation_inj ha hb (strCmp_eq (then_eq_right h))

/-- a tie under the sort key of `Relations::wrap_and_sort` is an identical entry -/
theorem entryKeyCmp_tie {a b : List RV} (ha : ValidEntry a) (hb : ValidEntry b)
    (h : entryKeyCmp a b = .eq) : a = b :=
  entryText_inj ha hb (strCmp_eq (then_eq_right h))

/-! ## the sorts of the code do not depend on the order of their input -/

theorem validEntry_perm {e e' : List RV} (h : ValidEntry e) (hp : e.Perm e') : ValidEntry e' := by
  refine ⟨?_, fun v hv => h.2 v (hp.symm.subset hv)⟩
  intro hn; subst hn
  exact h.1 (List.Perm.eq_nil hp)

theorem validEntry_sortRels {e : List RV} (h : ValidEntry e) : ValidEntry (sortRels e) :=
  validEntry_perm h (List.mergeSort_perm _ _).symm

theorem sortRels_perm {e e' : List RV} (h : ValidEntry e) (hp : e.Perm e') : sortRels e = sortRels e' :=
  mergeSort_perm_eq relKeyCmp_pre e e' (fun a ha b hb => relKeyCmp_tie (h.2 a ha) (h.2 b hb)) hp

theorem map_sortRels_each {V W : List (List RV)} (hV : ∀ e ∈ V, ValidEntry e) (h : PermEach V W) :
    V.map sortRels = W.map sortRels := by
  induction h with
  | nil => rfl
  | cons hab _ ih =>
    simp only [List.map_cons]
    rw [sortRels_perm (hV _ (by simp)) hab, ih (fun e he => hV e (by simp [he]))]

theorem sortEntries_perm {V W : List (List RV)} (hV : ∀ e ∈ V, ValidEntry e) (hp : V.Perm W) :
    sortEntries V = sortEntries W := by
  unfold sortEntries
  apply mergeSort_perm_eq entryKeyCmp_pre _ _ _ (hp.map sortRels)
  intro a ha b hb
  obtain ⟨a', ha', rfl⟩ := List.mem_map.1 ha
  obtain ⟨b', hb', rfl⟩ := List.mem_map.1 hb
  exact entryKeyCmp_tie (validEntry_sortRels (hV a' ha')) (validEntry_sortRels (hV b' hb'))

/-- **the normalised structure depends on the meaning only** -/
theorem sortEntries_same {V W : List (List RV)} (hV : ∀ e ∈ V, ValidEntry e) (h : SameEntries V W) :
    sortEntries V = sortEntries W := by
  obtain ⟨W', hp, he⟩ := h
  rw [sortEntries_perm hV hp]
  unfold sortEntries
  rw [map_sortRels_each (fun e he' => hV e (hp.symm.subset he')) he]

theorem sortStrs_perm {S T : List Str} (hp : S.Perm T) : sortStrs S = sortStrs T :=
  mergeSort_perm_eq strCmp_pre S T (fun a _ b _ h => strCmp_eq h) hp

/-- `SameEntries` in terms of the per-entry sort of the code -/
theorem sameEntries_iff_perm_sortRels {V W : List (List RV)} (hV : ∀ e ∈ V, ValidEntry e) :
    SameEntries V W ↔ (V.map sortRels).Perm (W.map sortRels) := by
  constructor
  · rintro ⟨W', hp, he⟩
    rw [← map_sortRels_each (fun e he' => hV e (hp.symm.subset he')) he]
    exact hp.map sortRels
  · intro h
    have h1 : SameEntries V (V.map sortRels) :=
      (SameEntries.of_each (PermEach.map_of sortRels (fun e => List.mergeSort_perm _ _) V)).symm
    have h2 : SameEntries (W.map sortRels) W :=
      SameEntries.of_each (PermEach.map_of sortRels (fun e => List.mergeSort_perm _ _) W)
    exact (h1.trans (SameEntries.of_perm h)).trans h2

/-! ## C13: one text per meaning -/

theorem view_validEntry (f : FieldA) (h : f.WF) : ∀ e ∈ f.view, ValidEntry e := field_view_valid f h

/-- the normalised structure of two fields with the same meaning is the same -/
theorem C13_order_independent_view (f g : FieldA) (hf : f.WF)
    (hv : SameEntries f.view g.view) (hs : f.substvars.Perm g.substvars) :
    outView f = outView g ∧ outSubst f = outSubst g :=
  ⟨sortEntries_same (view_validEntry f hf) hv, sortStrs_perm hs⟩

/-- **C13, canonicity: one text per meaning.** Two well-formed fields that expose the same multiset of
    entries — each entry the same multiset of alternatives (name, qualifier, operator, version,
    architectures, profiles) — and the same multiset of substitution variables are normalised to the
    SAME text: layout, the order of the entries, the order of the alternatives inside an entry and
    the order of the substitution variables do not matter. -/
theorem C13_order_independent (f g : FieldA) (hf : f.WF) (hg : g.WF)
    (hv : SameEntries f.view g.view) (hs : f.substvars.Perm g.substvars) :
    (outTree f).text = (outTree g).text := by
  obtain ⟨h1, h2⟩ := C13_order_independent_view f g hf hv hs
  rw [outTree_text, outTree_text, h1, h2]

/-- the same with the hypothesis written with the per-entry sort of the code -/
theorem C13_order_independent' (f g : FieldA) (hf : f.WF) (hg : g.WF)
    (hv : (f.view.map sortRels).Perm (g.view.map sortRels)) (hs : f.substvars.Perm g.substvars) :
    (outTree f).text = (outTree g).text :=
  C13_order_independent f g hf hg ((sameEntries_iff_perm_sortRels (view_validEntry f hf)).2 hv) hs

/-- on the level of the calls: both normalisations succeed and print the same -/
theorem C13_order_independent_calls (f g : FieldA) (hf : f.WF) (hg : g.WF)
    (hv : SameEntries f.view g.view) (hs : f.substvars.Perm g.substvars) :
    ∃ o₁ o₂, relationsWrap f.tree = .ok o₁ ∧ relationsWrap g.tree = .ok o₂ ∧ o₁.text = o₂.text :=
  ⟨outTree f, outTree g, C13_total f hf, C13_total g hg, C13_order_independent f g hf hg hv hs⟩

/-- **C13, multiset form of the meaning.** The normalised structure is the same multiset of entries
    as the input, each entry the same multiset of alternatives; the substitution variables are the
    same multiset (this is what `C13_meaning` gives; `C13_meaning_mem` is its membership form). -/
theorem C13_meaning_multiset (f : FieldA) :
    SameEntries (outView f) f.view ∧ (outSubst f).Perm f.substvars :=
  ⟨⟨f.view.map sortRels, List.mergeSort_perm _ _,
      PermEach.map_of sortRels (fun e => List.mergeSort_perm _ _) f.view⟩,
    List.mergeSort_perm _ _⟩

/-- the multiset form read on the output tree -/
theorem C13_meaning_multiset_tree (f : FieldA) (h : f.WF) :
    ∃ V, accEntries (outTree f) = some V ∧ SameEntries V f.view
      ∧ (substvars (outTree f)).Perm f.substvars := by
  obtain ⟨h1, h2, _⟩ := C13_meaning f h
  exact ⟨outView f, h1, (C13_meaning_multiset f).1, h2 ▸ (C13_meaning_multiset f).2⟩

/-- the multiset form implies the membership form -/
example (f : FieldA) : ∀ e' ∈ outView f, ∃ e ∈ f.view, e'.Perm e := (C13_meaning_multiset f).1.mem_left

/-- **the text of the normalised field determines the meaning** -/
theorem C13_text_determines_meaning (f g : FieldA) (hf : f.WF) (hg : g.WF)
    (ht : (outTree f).text = (outTree g).text) :
    SameEntries f.view g.view ∧ f.substvars.Perm g.substvars := by
  obtain ⟨hpf, haf, hsf⟩ := C13_reparse f hf
  obtain ⟨hpg, hag, hsg⟩ := C13_reparse g hg
  have htree : (outField f).tree = (outField g).tree := by
    rw [ht, hpg] at hpf
    injection hpf with h _
    exact h.symm
  rw [htree, hag] at haf
  rw [htree, hsg] at hsf
  have hV : outView g = outView f := by simpa using haf
  refine ⟨?_, ?_⟩
  · have h1 := (C13_meaning_multiset f).1
    have h2 := (C13_meaning_multiset g).1
    rw [hV] at h2
    exact h1.symm.trans h2
  · have h1 := (C13_meaning_multiset f).2
    have h2 := (C13_meaning_multiset g).2
    rw [hsf] at h2
    exact h1.symm.trans h2

/-- **C13, canonical in the strong sense**: two well-formed fields are normalised to the same text
    exactly when they have the same meaning. -/
theorem C13_one_text_per_meaning (f g : FieldA) (hf : f.WF) (hg : g.WF) :
    (outTree f).text = (outTree g).text ↔ (SameEntries f.view g.view ∧ f.substvars.Perm g.substvars) :=
  ⟨C13_text_determines_meaning f g hf hg, fun h => C13_order_independent f g hf hg h.1 h.2⟩

/-! ## non-vacuity -/

/-- the example field of `Props/C13.lean`, reordered (entries, alternatives) and re-spaced:
    ` x (<< 0) ,${shlibs:Depends},  g++\n |libc6:any (>=1:2.3~rc1-4) [amd64 !i386] <!nocheck stage1> <cross>` -/
def ex2 : FieldA :=
  ⟨[ ⟨[.ws [' ']], .alts ⟨['x'], none, some ⟨[.ws [' ']], [], .LessThan, [.ws [' ']], ⟨none, ['0']⟩, []⟩, none, []⟩ [],
        [.ws [' ']]⟩,
     ⟨[], .substvar "shlibs".toList ["Depends".toList], []⟩,
     ⟨[.ws [' ', ' ']], .alts ⟨"g++".toList, none, none, none, []⟩
        [⟨[.nl, .ws [' ']], [],
          ⟨"libc6".toList, some "any".toList,
            some ⟨[.ws [' ']], [], .GreaterThanEqual, [], ⟨some ['1'], "2.3~rc1-4".toList⟩, []⟩,
            some ⟨[.ws [' ']], [⟨[], false, "amd64".toList⟩, ⟨[.ws [' ']], true, "i386".toList⟩], []⟩,
            [⟨[.ws [' ']], [⟨[], true, "nocheck".toList⟩, ⟨[.ws [' ']], false, "stage1".toList⟩], []⟩,
             ⟨[.ws [' ']], [⟨[], false, "cross".toList⟩], []⟩]⟩⟩], []⟩ ]⟩

example : ex2.str =
    " x (<< 0) ,${shlibs:Depends},  g++\n |libc6:any (>=1:2.3~rc1-4) [amd64 !i386] <!nocheck stage1> <cross>".toList := by
  decide +kernel

theorem ex2_wf : ex2.WF := by decide +kernel

/-- the two fields are different texts with their entries and alternatives in different orders … -/
example : ex.str ≠ ex2.str ∧ ex.view ≠ ex2.view := by decide +kernel

def rLibc : RV :=
  ⟨"libc6".toList, some "any".toList, some ["amd64".toList, "!i386".toList],
    some (.GreaterThanEqual, ⟨some 1, "2.3~rc1".toList, some ['4']⟩),
    [[.Disabled "nocheck".toList, .Enabled "stage1".toList], [.Enabled "cross".toList]]⟩
def rGpp : RV := ⟨"g++".toList, none, none, none, []⟩
def rX : RV := ⟨['x'], none, none, some (.LessThan, ⟨none, ['0'], none⟩), []⟩

theorem ex_view : ex.view = [[rLibc, rGpp], [rX]] := by decide +kernel
theorem ex2_view : ex2.view = [[rX], [rGpp, rLibc]] := by decide +kernel

/-- … but the same dependencies -/
theorem ex_same : SameEntries ex.view ex2.view ∧ ex.substvars.Perm ex2.substvars := by
  have h3 : ex.substvars = ex2.substvars := by decide +kernel
  refine ⟨?_, h3 ▸ List.Perm.refl _⟩
  rw [ex_view, ex2_view]
  exact ⟨[[rX], [rLibc, rGpp]], List.Perm.swap _ _ _,
    .cons (List.Perm.refl _) (.cons (List.Perm.swap _ _ _) .nil)⟩

/-- so they are normalised to the same text -/
example : (outTree ex).text = (outTree ex2).text :=
  C13_order_independent ex ex2 ex_wf ex2_wf ex_same.1 ex_same.2

example : ∃ o₁ o₂, relationsWrap ex.tree = .ok o₁ ∧ relationsWrap ex2.tree = .ok o₂ ∧ o₁.text = o₂.text :=
  C13_order_independent_calls ex ex2 ex_wf ex2_wf ex_same.1 ex_same.2

example : (ex.view.map sortRels).Perm (ex2.view.map sortRels) :=
  (sameEntries_iff_perm_sortRels (view_validEntry ex ex_wf)).1 ex_same.1

/-- the order of substitution variables: `${b}, a, ${a}` and `a,${a} , ${b}` -/
def exS1 : FieldA :=
  ⟨[⟨[], .substvar ['b'] [], []⟩, ⟨[.ws [' ']], .alts ⟨['a'], none, none, none, []⟩ [], []⟩,
    ⟨[.ws [' ']], .substvar ['a'] [], []⟩]⟩
def exS2 : FieldA :=
  ⟨[⟨[], .alts ⟨['a'], none, none, none, []⟩ [], []⟩, ⟨[], .substvar ['a'] [], [.ws [' ']]⟩,
    ⟨[.ws [' ']], .substvar ['b'] [], []⟩]⟩

example : exS1.str = "${b}, a, ${a}".toList ∧ exS2.str = "a,${a} , ${b}".toList := by decide +kernel

example : (outTree exS1).text = (outTree exS2).text := by
  refine C13_order_independent exS1 exS2 (by decide +kernel) (by decide +kernel) ?_ ?_
  · have : exS1.view = exS2.view := by decide +kernel
    rw [this]; exact SameEntries.refl _
  · have h1 : exS1.substvars = ["${b}".toList, "${a}".toList] := by decide +kernel
    have h2 : exS2.substvars = ["${a}".toList, "${b}".toList] := by decide +kernel
    rw [h1, h2]; exact List.Perm.swap _ _ _

/-- the hypotheses of `C13_text_determines_meaning` are satisfiable (by the pair above) -/
example : SameEntries ex.view ex2.view ∧ ex.substvars.Perm ex2.substvars :=
  C13_text_determines_meaning ex ex2 ex_wf ex2_wf
    (C13_order_independent ex ex2 ex_wf ex2_wf ex_same.1 ex_same.2)

/-- different meanings, different texts: `a | b` and `a, b` -/
example : ¬ SameEntries [[1, 2]] [[1], [2]] := fun h => by simpa using h.length_eq

example : (outTree ex).text = (outTree ex2).text :=
  C13_order_independent' ex ex2 ex_wf ex2_wf
    ((sameEntries_iff_perm_sortRels (view_validEntry ex ex_wf)).1 ex_same.1) ex_same.2

example : outView ex = outView ex2 ∧ outSubst ex = outSubst ex2 :=
  C13_order_independent_view ex ex2 ex_wf ex_same.1 ex_same.2

example : (outTree ex).text = (outTree ex2).text ↔ (SameEntries ex.view ex2.view ∧ ex.substvars.Perm ex2.substvars) :=
  C13_one_text_per_meaning ex ex2 ex_wf ex2_wf

example : ∃ V, accEntries (outTree ex) = some V ∧ SameEntries V ex.view
    ∧ (substvars (outTree ex)).Perm ex.substvars := C13_meaning_multiset_tree ex ex_wf

/-- ties under the sort keys are identical values: instances of the injectivity lemmas -/
example : sortRels [rLibc, rGpp] = sortRels [rGpp, rLibc] :=
  sortRels_perm (view_validEntry ex ex_wf _ (by rw [ex_view]; simp)) (List.Perm.swap _ _ _)

end Deb822Verif.Props.C13
