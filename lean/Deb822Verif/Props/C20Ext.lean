import Deb822Verif.Props.C20
import Deb822Verif.Props.C14
import Deb822Verif.Lemmas.RelLossyRange
/-!
# C20Ext — two of the five "external" leaf codecs of C20 / C16 are not external

`Props/C20.lean` proves the round trips `C20_roundtrip_*_shipped` under the ASSUMPTION `ExtOK E` about
five leaf codecs the harness answers from the real code (lossy `Relations`, `url::Url`,
`debversion::Version`, chrono dates, the URI list).  Two of them have Lean models in this framework,
tied to the real code by their own differential checks:

* lossy `debian_control::lossy::Relations` — `FromStr` / `Display`: `Lossy.readRelations` /
  `Lossy.showRelations` (Model/RelLossy.lean; properties C10, C14);
* `debversion::Version` — `FromStr` / `Display`: `Version.parse` / `Version.display`
  (Model/RelAccess.lean; harness op `rel.version`).

Here the assumption is DISCHARGED for these two: `Derive.relationsCodec`, `Derive.versionCodec`
(Model/DeriveCodecs.lean) are concrete `LeafCodec`s in the representation the E column uses (a value of an external codec is its canonical
printed text, `Val.ext`; `de t = ok (ext (print (read t)))`, `ser (ext c) = c`), and
`CodecOK relationsCodec`, `CodecOK versionCodec` are theorems, for ALL texts (not only good ones):

* RANGE: every value the lossy reader returns is in `ValidRWs` (`C20_ext_relations_range`).  This is
  wider than the domain `ValidRs` of C14: the reader hands any run of IDENT and COLON tokens to
  `Version::from_str`, which accepts `:1`, `1:`, `a:b`, `1::2` (`C20_ext_range_wider_than_C14`);
* ROUND TRIP on that range (`C20_ext_relations_roundtrip`, generalising `C14_roundtrip`);
* the printed text is one line that does not start with a blank (`C20_ext_relations_goodText`).

The family `C20_roundtrip_*_shipped_rv` restates the shipped-struct theorems with `ExtOK E` replaced by
`ExtOK3 E` (url, date, URI list only) for every `E` whose relations / version components are the
concrete codecs.
-/
set_option linter.unusedSimpArgs false
set_option linter.unusedVariables false
namespace Deb822Verif.Props.C20Ext
open Deb822Verif Deb Deb.Lossy Spec Derive TypedDoc Rel RelSpec
open Deb822Verif.Props.C20

/-! ## the two codecs -/

/- `Derive.relationsCodec`, `Derive.versionCodec` are defined in Model/DeriveCodecs.lean (the driver
   compares the answers of the real codecs with them on every `typed.*` request). -/

/-! ## good text: one line that does not start with a blank -/

theorem goodText_single (s : Str) (hl : AllC lineChar s) (hf : ∀ c, s.head? = some c → isIndent c = false) :
    GoodText s := by
  by_cases hne : s = []
  · subst hne; exact goodText_nil
  · have hnl : NoNl s := by
      intro c hc
      have := hl c hc
      simp only [lineChar, Bool.and_eq_true, bne_iff_ne, ne_eq] at this
      simp [isNewline, this.1, this.2]
    have h1 : '\n' ∉ s := by
      intro hm; have := hnl _ hm; simp [isNewline] at this
    refine goodText_of_line s (canon_single s hne hnl hf) ?_
    rw [splitOn_no_nl s h1]
    simpa using hne

theorem indent_ws {c : Char} (h : Text.isWhitespace c = false) : isIndent c = false := by
  cases hi : isIndent c with
  | false => rfl
  | true => rw [ws_of_indent c hi] at h; cases h

/-! ## lossy `Relations` -/

/-- **range of the lossy reader**: for EVERY text, an accepted text yields a value all of whose
    entries are non-empty and all of whose alternatives have identifier names / qualifiers /
    architectures / profile names and a version that re-reads from its printed form -/
theorem C20_ext_relations_range (t : Str) (rs : List (List Rel.Lossy.Relation))
    (h : Rel.Lossy.readRelations t = .ok rs) : ValidRWs rs :=
  readRelations_range h

/-- **round trip on the whole range** (`C14_roundtrip` is the restriction to `ValidRs`) -/
theorem C20_ext_relations_roundtrip (rs : List (List Rel.Lossy.Relation)) (h : ValidRWs rs) :
    Rel.Lossy.readRelations (Rel.Lossy.showRelations rs) = .ok rs :=
  readRelations_show rs h

/-- the domain of C14 is inside the range -/
theorem C20_ext_validRs_sub (rs : List (List Rel.Lossy.Relation)) (h : ValidRs rs) : ValidRWs rs :=
  validRWs_of_validRs h

/-- print ∘ parse ∘ print ∘ parse = print ∘ parse on every accepted text -/
theorem C20_ext_relations_idem (t : Str) (rs : List (List Rel.Lossy.Relation))
    (h : Rel.Lossy.readRelations t = .ok rs) :
    Rel.Lossy.readRelations (Rel.Lossy.showRelations rs) = .ok rs :=
  readRelations_reprint h

theorem head_showRelations (rs : List (List Rel.Lossy.Relation)) (h : ValidRWs rs) :
    ∀ c, (Rel.Lossy.showRelations rs).head? = some c → isIndent c = false := by
  have h' := h
  simp only [ValidRWs, validRWs, List.all_eq_true, Bool.and_eq_true, Bool.not_eq_true',
    List.isEmpty_eq_false_iff] at h'
  cases rs with
  | nil => intro c hc; simp [Rel.Lossy.showRelations, Text.join] at hc
  | cons e es =>
    cases he : e with
    | nil => exact absurd he (h' e (by simp)).1
    | cons r rs' =>
      obtain ⟨⟨c, t, ee, hc⟩, _⟩ := solid_showEntry r rs' (by rw [← he]; exact (h' e (by simp)).2)
      rw [showRelations_eq, List.map_cons, Wrap.join_cons, ← he] at *
      intro d hd
      rw [he, ee] at hd
      simp only [List.cons_append, List.head?_cons, Option.some.injEq] at hd
      subst hd
      exact indent_ws hc

/-- the printed text of a value in the range is good text: a single line (no LF, no CR) that does not
    start with a blank; the empty value prints the empty text -/
theorem C20_ext_relations_goodText (rs : List (List Rel.Lossy.Relation)) (h : ValidRWs rs) :
    GoodText (Rel.Lossy.showRelations rs) :=
  goodText_single _ (lineChars_showRelations rs h) (head_showRelations rs h)

/-- the representation of a value by its printed text is faithful: printing is injective on the range -/
theorem C20_ext_relations_faithful (rs rs' : List (List Rel.Lossy.Relation)) (h : ValidRWs rs) (h' : ValidRWs rs')
    (e : Rel.Lossy.showRelations rs = Rel.Lossy.showRelations rs') : rs = rs' := by
  have a := readRelations_show rs h
  have b := readRelations_show rs' h'
  rw [e, b] at a
  exact (Except.ok.inj a).symm

theorem relationsCodec_de_ok (t : Str) (y : Val) (h : relationsCodec.de t = .ok y) :
    ∃ rs, Rel.Lossy.readRelations t = .ok rs ∧ y = .ext (Rel.Lossy.showRelations rs) := by
  simp only [relationsCodec] at h
  cases hr : Rel.Lossy.readRelations t with
  | error e => rw [hr] at h; simp at h
  | ok rs =>
    rw [hr] at h
    exact ⟨rs, rfl, (Except.ok.inj h).symm⟩

/-- **the relations codec meets both per-field conditions** — for every text, good or not -/
theorem C20_ext_relations_ok : CodecOK relationsCodec := by
  refine ⟨?_, ?_⟩
  · intro t y _ h
    obtain ⟨rs, hr, rfl⟩ := relationsCodec_de_ok t y h
    have := readRelations_reprint hr
    show relationsCodec.de (Rel.Lossy.showRelations rs) = _
    simp only [relationsCodec, this]
  · intro t y _ h
    obtain ⟨rs, hr, rfl⟩ := relationsCodec_de_ok t y h
    exact C20_ext_relations_goodText rs (readRelations_range hr)

/-- what the codec returns is one of its canonical values -/
theorem C20_ext_relations_canon (t : Str) (y : Val) (h : relationsCodec.de t = .ok y) : relationsCodec.canon y := by
  obtain ⟨rs, hr, rfl⟩ := relationsCodec_de_ok t y h
  exact ⟨rs, readRelations_reprint hr, rfl⟩

/-- the canonical values of the codec are exactly the printed texts of the values in the range -/
theorem C20_ext_relations_canon_iff (v : Val) :
    relationsCodec.canon v ↔ ∃ rs, ValidRWs rs ∧ v = .ext (Rel.Lossy.showRelations rs) := by
  constructor
  · rintro ⟨rs, h, rfl⟩; exact ⟨rs, readRelations_range h, rfl⟩
  · rintro ⟨rs, h, rfl⟩; exact ⟨rs, readRelations_show rs h, rfl⟩

/-! ## `debversion::Version` -/

/-- `Version::from_str(&v.to_string()) == Ok(v)` for every `v` that `Version::from_str` returns (epoch
    `0` written explicitly stays `Some(0)` and prints; leading zeros of the epoch are dropped by the
    `u32` parse, and the value re-reads) -/
theorem C20_ext_version_roundtrip (t : Str) (v : Version) (h : Version.parse t = some v) :
    Version.parse v.display = some v :=
  Version.parse_display_stable h

theorem C20_ext_version_goodText (v : Version) (h : Version.parse v.display = some v) : GoodText v.display := by
  obtain ⟨hne, hall⟩ := Version.parse_vtext h
  apply goodText_single
  · intro c hc
    exact entry_lineChar (plain_entryChar (vchar_plain (hall c hc)))
  · intro c hc
    have hm : c ∈ v.display := List.mem_of_mem_head? hc
    have hv := hall c hm
    rcases vchar_cases hv with hi | rfl
    · exact indent_ws (identChar_not_whitespace hi)
    · decide

theorem versionCodec_de_ok (t : Str) (y : Val) (h : versionCodec.de t = .ok y) :
    ∃ v, Version.parse t = some v ∧ y = .ext v.display := by
  simp only [versionCodec] at h
  cases hr : Version.parse t with
  | none => rw [hr] at h; simp at h
  | some v =>
    rw [hr] at h
    exact ⟨v, rfl, (Except.ok.inj h).symm⟩

/-- **the version codec meets both per-field conditions** — for every text -/
theorem C20_ext_version_ok : CodecOK versionCodec := by
  refine ⟨?_, ?_⟩
  · intro t y _ h
    obtain ⟨v, hv, rfl⟩ := versionCodec_de_ok t y h
    have := Version.parse_display_stable hv
    show versionCodec.de v.display = _
    simp only [versionCodec, this]
  · intro t y _ h
    obtain ⟨v, hv, rfl⟩ := versionCodec_de_ok t y h
    exact C20_ext_version_goodText v (Version.parse_display_stable hv)

/-- printing is injective on the versions `from_str` returns -/
theorem C20_ext_version_faithful (v w : Version) (hv : Version.parse v.display = some v)
    (hw : Version.parse w.display = some w) (e : v.display = w.display) : v = w := by
  rw [e, hw] at hv
  exact (Option.some.inj hv).symm

/-- the two codecs in the form of the leaf-codec lemmas of C16 (`KindOK (.modelled c)`): a canonical
    value is read back from its serialisation -/
theorem C20_ext_kindOK : C16.KindOK (.modelled relationsCodec) ∧ C16.KindOK (.modelled versionCodec) := by
  refine ⟨?_, ?_⟩
  · rintro v ⟨rs, h, rfl⟩
    show relationsCodec.de (Rel.Lossy.showRelations rs) = _
    simp only [relationsCodec, h]
  · rintro v ⟨x, h, rfl⟩
    show versionCodec.de x.display = _
    simp only [versionCodec, h]

/-! ## three assumed codecs instead of five -/

/-- the remaining ASSUMPTION: `url::Url`, chrono dates, the URI list -/
def ExtOK3 (E : ExtCodecs) : Prop := CodecOK E.url ∧ CodecOK E.date ∧ CodecOK E.uris

/-- the relations and version components are the modelled codecs -/
def ModelledRV (E : ExtCodecs) : Prop := E.relations = relationsCodec ∧ E.version = versionCodec

/-- the external codecs with the two modelled ones filled in -/
def extRV (url date uris : LeafCodec) : ExtCodecs := ⟨relationsCodec, url, versionCodec, date, uris⟩

theorem modelledRV_extRV (url date uris : LeafCodec) : ModelledRV (extRV url date uris) := ⟨rfl, rfl⟩

/-- `ExtOK` from the assumption about the three codecs that remain external -/
theorem C20_extOK_of_rv (E : ExtCodecs) (hrv : ModelledRV E) (h3 : ExtOK3 E) : ExtOK E := by
  obtain ⟨r, v⟩ := hrv
  obtain ⟨a, b, c⟩ := h3
  exact ⟨r ▸ C20_ext_relations_ok, a, v ▸ C20_ext_version_ok, b, c⟩

theorem C20_table_specOK_rv (E : ExtCodecs) (hrv : ModelledRV E) (h3 : ExtOK3 E) :
    ∀ s ∈ Gen.Structs.all, ∀ spec, specOfRowE E s = some spec →
      (specKeys spec).Nodup ∧ specKeys spec = s.fields.map (·.key) ∧ ∀ f ∈ spec, FieldOKx exS exC f :=
  C20_table_specOK E (C20_extOK_of_rv E hrv h3)

/-- **debian/control, shipped structs**, relations and versions modelled -/
theorem C20_roundtrip_control_shipped_rv (E : ExtCodecs) (hrv : ModelledRV E) (h3 : ExtOK3 E) (S B : Spec)
    (hS : Shipped E (c!"control.Source") S) (hB : Shipped E (c!"control.Binary") B)
    (s : Str) (src : SV) (bins : List SV)
    (h : TypedDoc.parse (.control S B) s = .ok (.control src bins))
    (hVcsRead : ∀ fx ∈ S.zip src, fx.1.key = c!"Vcs-Git" → ∀ y, fx.2 = some y → fx.1.de (fx.1.ser y) = .ok y)
    (hVcsText : ∀ e ∈ paraOf S src, e.1 = c!"Vcs-Git" → GoodText e.2) :
    TypedDoc.parse (.control S B) (TypedDoc.print (.control S B) (.control src bins)) = .ok (.control src bins) :=
  C20_roundtrip_control_shipped E (C20_extOK_of_rv E hrv h3) S B hS hB s src bins h hVcsRead hVcsText

/-- **debian/copyright, shipped structs** -/
theorem C20_roundtrip_copyright_shipped_rv (E : ExtCodecs) (hrv : ModelledRV E) (h3 : ExtOK3 E) (H F L : Spec)
    (hH : Shipped E (c!"debiancopyright.Header") H) (hF : Shipped E (c!"debiancopyright.FilesParagraph") F)
    (hL : Shipped E (c!"debiancopyright.LicenseParagraph") L)
    (s : Str) (h : SV) (fs ls : List SV)
    (hparse : TypedDoc.parse (.copyright H F L) s = .ok (.copyright h fs ls))
    (hFilesLists : ∀ q ∈ docCopyright H F L h fs ls, ∀ e ∈ q, isFilesKey e.1 → GoodText e.2) :
    TypedDoc.parse (.copyright H F L) (TypedDoc.print (.copyright H F L) (.copyright h fs ls))
      = .ok (.copyright h fs ls) :=
  C20_roundtrip_copyright_shipped E (C20_extOK_of_rv E hrv h3) H F L hH hF hL s h fs ls hparse hFilesLists

/-- **ftp-master removals, shipped struct** -/
theorem C20_roundtrip_removal_shipped_rv (E : ExtCodecs) (hrv : ModelledRV E) (h3 : ExtOK3 E) (spec : Spec)
    (hS : Shipped E (c!"ftpmaster.Removal") spec) (s : Str) (v : SV)
    (h : TypedDoc.parse (.losslessPara spec) s = .ok (.single v)) :
    TypedDoc.parse (.losslessPara spec) (TypedDoc.print (.losslessPara spec) (.single v)) = .ok (.single v) :=
  C20_roundtrip_removal_shipped E (C20_extOK_of_rv E hrv h3) spec hS s v h

/-- **.buildinfo, shipped struct** (its `Version` and `Installed-Build-Depends` are now modelled) -/
theorem C20_roundtrip_buildinfo_shipped_rv (E : ExtCodecs) (hrv : ModelledRV E) (h3 : ExtOK3 E) (spec : Spec)
    (hS : Shipped E (c!"buildinfo.Buildinfo") spec) (s : Str) (v : SV)
    (h : TypedDoc.parse (.losslessPara spec) s = .ok (.single v))
    (hEnv : ∀ e ∈ paraOf spec v, e.1 = c!"Environment" → GoodText e.2) :
    TypedDoc.parse (.losslessPara spec) (TypedDoc.print (.losslessPara spec) (.single v)) = .ok (.single v) :=
  C20_roundtrip_buildinfo_shipped E (C20_extOK_of_rv E hrv h3) spec hS s v h hEnv

/-- **DEP-3 patch header, shipped struct** -/
theorem C20_roundtrip_dep3_shipped_rv (E : ExtCodecs) (hrv : ModelledRV E) (h3 : ExtOK3 E) (spec : Spec)
    (hS : Shipped E (c!"dep3.PatchHeader") spec) (s : Str) (v : SV)
    (h : TypedDoc.parse (.dep3 spec) s = .ok (.single v)) (hne : paraOf spec v ≠ []) :
    TypedDoc.parse (.dep3 spec) (TypedDoc.print (.dep3 spec) (.single v)) = .ok (.single v) :=
  C20_roundtrip_dep3_shipped E (C20_extOK_of_rv E hrv h3) spec hS s v h hne

/-- **deb822 sources (`.sources`), shipped struct** -/
theorem C20_roundtrip_repos_shipped_rv (E : ExtCodecs) (hrv : ModelledRV E) (h3 : ExtOK3 E) (R : Spec)
    (hS : Shipped E (c!"aptsources.Repository") R) (s : Str) (l : List SV)
    (h : TypedDoc.parse (.repos R) s = .ok (.repos l))
    (hSigned : ∀ r ∈ l, ∀ e ∈ paraOf R r, e.1 = c!"Signed-By" → GoodText e.2) :
    TypedDoc.parse (.repos R) (TypedDoc.print (.repos R) (.repos l)) = .ok (.repos l) :=
  C20_roundtrip_repos_shipped E (C20_extOK_of_rv E hrv h3) R hS s l h hSigned

/-! ## witnesses and non-vacuity -/

/-- `a (= :1)` -/
def exWide : List (List Rel.Lossy.Relation) :=
  [[⟨['a'], none, none, some (.Equal, ⟨none, [':', '1'], none⟩), []⟩]]

/-- the range of the lossy reader is strictly wider than the domain `ValidRs` of C14: `a (= :1)` is
    accepted (a version without epoch whose upstream part is `:1`), its value is not `ValidRs`, it is
    `ValidRWs`, and it prints as the same text -/
theorem C20_ext_range_wider_than_C14 :
    Rel.Lossy.readRelations (c!"a (= :1)") = .ok exWide ∧ ¬ ValidRs exWide ∧ ValidRWs exWide
      ∧ Rel.Lossy.showRelations exWide = c!"a (= :1)" := by decide +kernel

/-- the realistic value of `Props/C14.exRs` is in the range, and the codec returns its text unchanged -/
example : ValidRWs C14.exRs := by decide +kernel

def exDepends : Str := c!"libc6:any (>= 1:2.3~rc1-4) [amd64 !i386] <!nocheck cross> | g++, x (<< 0)"

example : relationsCodec.de exDepends = .ok (.ext exDepends) := by decide +kernel
example : GoodText exDepends := by decide +kernel

/-- a text in another layout, with an empty entry, a leading-zero epoch and a colon-initial version:
    accepted, normalised by printing, and the printed text re-reads to the same value -/
def exMessy : Str := c!"libc6:any(>=01:2.3~rc1-4)[ amd64 !i386 ]<!nocheck  cross>|g++ ,, x (<<\t:0)"
def exMessyCanon : Str := c!"libc6:any (>= 1:2.3~rc1-4) [amd64 !i386] <!nocheck cross> | g++, x (<< :0)"

example : relationsCodec.de exMessy = .ok (.ext exMessyCanon)
    ∧ relationsCodec.de exMessyCanon = .ok (.ext exMessyCanon) := by decide +kernel

/-- rejected shapes stay rejected (so the codec is not vacuous the other way) -/
example : (relationsCodec.de (c!"a (= 4294967296:1)")).toBool = false
    ∧ (relationsCodec.de (c!"a | | b")).toBool = false ∧ (relationsCodec.de (c!"a (= )")).toBool = false := by
  decide +kernel

/-- the empty list: blank and comma-only texts read as the empty value, which prints the empty text -/
example : relationsCodec.de (c!" ,, ") = .ok (.ext []) ∧ relationsCodec.de [] = .ok (.ext []) := by decide +kernel

example : versionCodec.de (c!"01:2.3~rc1-4") = .ok (.ext (c!"1:2.3~rc1-4"))
    ∧ versionCodec.de (c!"0:1") = .ok (.ext (c!"0:1")) ∧ versionCodec.de (c!"1-") = .ok (.ext (c!"1-"))
    ∧ (versionCodec.de (c!" 1")).toBool = false ∧ (versionCodec.de (c!"4294967296:1")).toBool = false := by
  decide +kernel

/-! ### the corollaries on concrete documents: relations and versions by the modelled codecs, the three
    remaining external codecs instantiated by the identity codec -/

def E1 : ExtCodecs := extRV extCodec extCodec extCodec
theorem E1_rv : ModelledRV E1 := modelledRV_extRV _ _ _
theorem E1_ok3 : ExtOK3 E1 := ⟨ext_codecOK, ext_codecOK, ext_codecOK⟩

def spec1 (id : Str) : Spec := ((rowOf id).bind (specOfRowE E1)).getD []

theorem shipped1 (id : Str) (h : ((rowOf id).bind (specOfRowE E1)).isSome = true) : Shipped E1 id (spec1 id) := by
  unfold spec1
  cases hr : rowOf id with
  | none => simp [hr] at h
  | some r =>
    simp only [hr, Option.bind_some] at h ⊢
    cases hs : specOfRowE E1 r with
    | none => simp [hs] at h
    | some sp => exact ⟨r, hr, by simp [hs]⟩

def controlDoc : Str :=
  c!"Source: foo\nBuild-Depends: debhelper-compat (= 13), g++ [amd64] <!nocheck>\nStandards-Version: 4.6.2\n\nPackage: foo\nArchitecture: any\nDepends: libc6:any (>= 1:2.3~rc1-4) [amd64 !i386] <!nocheck cross> | g++, x (<< 0)\nRecommends: libc6:any(>=01:2.3~rc1-4)[ amd64 !i386 ]<!nocheck  cross>|g++ ,, x (<< :0)\nDescription: x\n"

abbrev controlKind : DocKind := .control (spec1 (c!"control.Source")) (spec1 (c!"control.Binary"))

def controlSrc : SV := match TypedDoc.parse controlKind controlDoc with | .ok (.control s _) => s | _ => []
def controlBins : List SV := match TypedDoc.parse controlKind controlDoc with | .ok (.control _ b) => b | _ => []

theorem controlDoc_parses : TypedDoc.parse controlKind controlDoc = .ok (.control controlSrc controlBins) := by
  decide +kernel

def controlPrinted : Str :=
  c!"Source: foo\nBuild-Depends: debhelper-compat (= 13), g++ [amd64] <!nocheck>\nStandards-Version: 4.6.2\n\nPackage: foo\nDepends: libc6:any (>= 1:2.3~rc1-4) [amd64 !i386] <!nocheck cross> | g++, x (<< 0)\nRecommends: libc6:any (>= 1:2.3~rc1-4) [amd64 !i386] <!nocheck cross> | g++, x (<< :0)\nArchitecture: any\nDescription: x\n"

/-- the control file is accepted with one binary paragraph; its value is read back from its printed
    form, in which the `Recommends` field is normalised (fields in declaration order) -/
example : controlBins.length = 1
    ∧ TypedDoc.print controlKind (.control controlSrc controlBins) = controlPrinted
    ∧ TypedDoc.parse controlKind (TypedDoc.print controlKind (.control controlSrc controlBins))
        = .ok (.control controlSrc controlBins) := by
  refine ⟨by decide +kernel, by decide +kernel, ?_⟩
  have hv : ∀ fx ∈ (spec1 (c!"control.Source")).zip controlSrc, fx.1.key = c!"Vcs-Git" → fx.2 = none := by
    decide +kernel
  exact C20_roundtrip_control_shipped_rv E1 E1_rv E1_ok3 _ _ (shipped1 _ (by decide +kernel))
    (shipped1 _ (by decide +kernel)) controlDoc _ _ controlDoc_parses
    (fun fx hfx hk y hy => by rw [hv fx hfx hk] at hy; cases hy) (by decide +kernel)

def buildinfoDoc : Str :=
  c!"Format: 1.0\nBuild-Architecture: amd64\nSource: s\nArchitecture: all\nVersion: 01:1.0-1\nInstalled-Build-Depends: gcc (= 4:12.2.0-3),\n libc6 (>= 2.36)\n"

abbrev buildinfoKind : DocKind := .losslessPara (spec1 (c!"buildinfo.Buildinfo"))

def buildinfoVal : SV := match TypedDoc.parse buildinfoKind buildinfoDoc with | .ok (.single v) => v | _ => []

theorem buildinfoDoc_parses : TypedDoc.parse buildinfoKind buildinfoDoc = .ok (.single buildinfoVal) := by
  decide +kernel

/-- a .buildinfo with a leading-zero epoch and a two-line dependency list: accepted; printed with the
    version and the list normalised; the value is read back from the printed form -/
example : TypedDoc.print buildinfoKind (.single buildinfoVal)
      = c!"Format: 1.0\nBuild-Architecture: amd64\nSource: s\nArchitecture: all\nVersion: 1:1.0-1\nInstalled-Build-Depends: gcc (= 4:12.2.0-3), libc6 (>= 2.36)\n"
    ∧ TypedDoc.parse buildinfoKind (TypedDoc.print buildinfoKind (.single buildinfoVal)) = .ok (.single buildinfoVal) :=
  ⟨by decide +kernel, C20_roundtrip_buildinfo_shipped_rv E1 E1_rv E1_ok3 _ (shipped1 _ (by decide +kernel))
    buildinfoDoc _ buildinfoDoc_parses (by decide +kernel)⟩

/-- the other four kinds have a shipped spec with the modelled codecs as well (the hypotheses
    `Shipped E1 …` of their `_rv` theorems are met) -/
example : Shipped E1 (c!"ftpmaster.Removal") (spec1 (c!"ftpmaster.Removal"))
    ∧ Shipped E1 (c!"dep3.PatchHeader") (spec1 (c!"dep3.PatchHeader"))
    ∧ Shipped E1 (c!"aptsources.Repository") (spec1 (c!"aptsources.Repository"))
    ∧ Shipped E1 (c!"debiancopyright.Header") (spec1 (c!"debiancopyright.Header"))
    ∧ Shipped E1 (c!"debiancopyright.FilesParagraph") (spec1 (c!"debiancopyright.FilesParagraph"))
    ∧ Shipped E1 (c!"debiancopyright.LicenseParagraph") (spec1 (c!"debiancopyright.LicenseParagraph")) :=
  ⟨shipped1 _ (by decide +kernel), shipped1 _ (by decide +kernel), shipped1 _ (by decide +kernel),
   shipped1 _ (by decide +kernel), shipped1 _ (by decide +kernel), shipped1 _ (by decide +kernel)⟩

end Deb822Verif.Props.C20Ext
