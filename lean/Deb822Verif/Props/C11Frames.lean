import Deb822Verif.Props.C11
/-!
# C11 — the frames that were missing, and "an untouched entry keeps its node" over histories

* `C11_gone_entryRemove`, `C11_gone_relationRemove`: exactly which children `Entry::remove` /
  `Relation::remove` take away besides the node itself: blanks and at most ONE separator token.
* `C11_frame_removeRelation`: `Relation::remove()` / `Entry::remove_relation(j)` on the tree.
* `C11_frame_entryReplace`: `Entry::replace(j, rel)` on the tree.
* `C11_step_untouched`, `C11_history_untouched`, `C11_ihistory_untouched`: every root child that is an
  ENTRY / SUBSTVAR node and is not the entry a call addresses is the identical node after the call, at
  the position the model's position map gives; composed over `run` and `irun`.
-/
set_option linter.unusedSimpArgs false
set_option linter.unusedVariables false
namespace Deb822Verif.Props.C11Frames
open Deb822Verif Rel Node RelSpec Lossy Build Edit
open Deb822Verif.Props.C11

/-- a blank or a token of kind `k` (`,` for the root, `|` inside an entry) -/
def isSepOf (k : Kind) (y : RNode) : Bool := isWsElem y || y.kind == k

private theorem mem_tw {α} {p : α → Bool} {l : List α} {x : α} (h : x ∈ l.takeWhile p) : p x = true := by
  induction l with
  | nil => simp at h
  | cons a as ih =>
    simp only [List.takeWhile_cons] at h
    split at h
    · rcases List.mem_cons.1 h with e | e
      · subst e; assumption
      · exact ih e
    · simp at h

/-- `dropWhile` takes blanks only -/
theorem dw_split (l : List RNode) : ∃ ws, l = ws ++ l.dropWhile isWsElem ∧ ∀ y ∈ ws, isWsElem y = true :=
  ⟨l.takeWhile isWsElem, List.takeWhile_append_dropWhile.symm, fun _ hy => mem_tw hy⟩

theorem count_ws (k : Kind) (hk : k ≠ .WHITESPACE ∧ k ≠ .NEWLINE) (ws : List RNode)
    (h : ∀ y ∈ ws, isWsElem y = true) : ws.countP (fun y => y.kind == k) = 0 := by
  rw [List.countP_eq_zero]
  intro y hy
  have := h y hy
  simp only [isWsElem, Bool.or_eq_true, beq_iff_eq] at this
  simp only [beq_iff_eq]
  intro hkx
  rcases this with e | e <;> (rw [hkx] at e; first | exact hk.1 e | exact hk.2 e)

theorem sep_of_ws (k : Kind) (ws : List RNode) (h : ∀ y ∈ ws, isWsElem y = true) :
    ∀ y ∈ ws, isSepOf k y = true := fun y hy => by simp [isSepOf, h y hy]

/-- a list of blanks with at most one token of kind `k` among them -/
def SepRun (k : Kind) (l : List RNode) : Prop :=
  (∀ y ∈ l, isSepOf k y = true) ∧ l.countP (fun y => y.kind == k) ≤ 1

theorem sepRun_ws (k : Kind) (hk : k ≠ .WHITESPACE ∧ k ≠ .NEWLINE) (ws : List RNode)
    (h : ∀ y ∈ ws, isWsElem y = true) : SepRun k ws :=
  ⟨sep_of_ws k ws h, by rw [count_ws k hk ws h]; omega⟩

theorem sepRun_mid (k : Kind) (hk : k ≠ .WHITESPACE ∧ k ≠ .NEWLINE) (w1 w2 : List RNode) (x : RNode)
    (h1 : ∀ y ∈ w1, isWsElem y = true) (h2 : ∀ y ∈ w2, isWsElem y = true) (hx : (x.kind == k) = true) :
    SepRun k (w1 ++ x :: w2) := by
  refine ⟨?_, ?_⟩
  · intro y hy
    rcases List.mem_append.1 hy with e | e
    · exact sep_of_ws k w1 h1 y e
    · rcases List.mem_cons.1 e with e | e
      · subst e; simp [isSepOf, hx]
      · exact sep_of_ws k w2 h2 y e
  · rw [List.countP_append, List.countP_cons, count_ws k hk w1 h1, count_ws k hk w2 h2]
    simp [hx]

/-! ### what the two removals take away -/

/-- `Entry::remove` on the root's children: besides the entry, a run of blanks with at most one `,`
    directly before it and directly after it goes — nothing else -/
theorem C11_gone_entryRemove (cs : List RNode) (p : Nat) (c : Cut) (h : entryRemove cs p = .ok c) :
    ∃ A wsA wsB B, c = ⟨A ++ B, Remap.cut A.length (cs.length - B.length)⟩ ∧ cs.take p = A ++ wsA
      ∧ cs.drop (p + 1) = wsB ++ B ∧ SepRun .COMMA (wsA ++ wsB) := by
  have hK : Kind.COMMA ≠ .WHITESPACE ∧ Kind.COMMA ≠ .NEWLINE := by decide
  unfold entryRemove at h
  simp only at h
  obtain ⟨w1, hw1, hw1P⟩ := dw_split (cs.drop (p + 1))
  obtain ⟨wb, hwb, hwbP⟩ := dropTrailing_spec isWsElem (cs.take p)
  split at h
  · split at h
    · rename_i x' rest hdw hx'
      simp only [Outcome.ok.injEq] at h
      rw [hdw] at hw1
      obtain ⟨w2, hw2, hw2P⟩ := dw_split rest
      cases hb : List.any (List.take p cs) isItemNode
      · -- first
        simp only [hb, Bool.not_false, Bool.not_true, Bool.false_eq_true, if_false, hdw, List.drop_succ_cons, List.drop_zero] at h
        refine ⟨cs.take p, [], w1 ++ x' :: w2, rest.dropWhile isWsElem, ?_, by simp, ?_, ?_⟩
        · rw [← h]
        · conv => lhs; rw [hw1, hw2]
          simp
        · simpa using sepRun_mid .COMMA hK w1 w2 x' hw1P hw2P hx'
      · simp only [hb, Bool.not_false, Bool.not_true, if_true, hdw, List.drop_succ_cons, List.drop_zero] at h
        refine ⟨((cs.take p).reverse.dropWhile isWsElem).reverse, wb, w1 ++ [x'], rest, ?_, hwb, ?_, ?_⟩
        · rw [← h]
        · conv => lhs; rw [hw1]
          simp
        · have := sepRun_mid .COMMA hK (wb ++ w1) [] x'
            (by intro y hy; rcases List.mem_append.1 hy with e | e; exact hwbP y e; exact hw1P y e) (by simp) hx'
          simpa using this
    · cases h
  · rename_i hdw
    simp only [Outcome.ok.injEq] at h
    rw [hdw, List.append_nil] at hw1
    cases hb : List.any (List.take p cs) isItemNode
    · simp only [hb, Bool.not_false, Bool.not_true, Bool.false_eq_true, if_false] at h
      refine ⟨cs.take p, [], w1, [], ?_, by simp, by simpa using hw1, ?_⟩
      · rw [← h]; simp
      · simpa using sepRun_ws .COMMA hK w1 hw1P
    · simp only [hb, Bool.not_false, Bool.not_true, if_true] at h
      split at h
      · rename_i y r hb1
        rw [hb1, List.reverse_cons] at hwb
        split at h
        · rename_i hy
          refine ⟨r.reverse, y :: wb, w1, [], ?_, by rw [hwb]; simp, by simpa using hw1, ?_⟩
          · rw [← h]; simp
          · have := sepRun_mid .COMMA hK [] (wb ++ w1) y (by simp)
              (by intro z hz; rcases List.mem_append.1 hz with e | e; exact hwbP z e; exact hw1P z e) hy
            simpa using this
        · refine ⟨(y :: r).reverse, wb, w1, [], ?_, by rw [hwb]; simp, by simpa using hw1, ?_⟩
          · rw [← h, hb1]; simp
          · exact sepRun_ws .COMMA hK _
              (by intro z hz; rcases List.mem_append.1 hz with e | e; exact hwbP z e; exact hw1P z e)
      · rename_i hb1
        rw [hb1] at hwb
        refine ⟨[], wb, w1, [], ?_, by simpa using hwb, by simpa using hw1, ?_⟩
        · rw [← h]; simp
        · exact sepRun_ws .COMMA hK _
            (by intro z hz; rcases List.mem_append.1 hz with e | e; exact hwbP z e; exact hw1P z e)

/-- what `Relation::remove` leaves of the children before a non-first relation: the blanks, one `|`
    and the blanks before it go -/
theorem stripBack_gone (l : List RNode) : ∃ ws, l = stripBack l ++ ws ∧ SepRun .PIPE ws := by
  have hK : Kind.PIPE ≠ .WHITESPACE ∧ Kind.PIPE ≠ .NEWLINE := by decide
  obtain ⟨wb, hwb, hwbP⟩ := dropTrailing_spec isWsElem l
  unfold stripBack
  split
  · rename_i y r hb1
    rw [hb1, List.reverse_cons] at hwb
    split
    · rename_i hy
      obtain ⟨w2, hw2, hw2P⟩ := dw_split r
      refine ⟨w2.reverse ++ y :: wb, ?_, ?_⟩
      · conv => lhs; rw [hwb, hw2]
        simp
      · exact sepRun_mid .PIPE hK _ _ y (by intro z hz; exact hw2P z (by simpa using hz)) hwbP hy
    · obtain ⟨w2, hw2, hw2P⟩ := dw_split (List.dropWhile isWsElem l.reverse)
      refine ⟨w2.reverse ++ wb, ?_, ?_⟩
      · conv => lhs; rw [hwb, ← List.reverse_cons, ← hb1, hw2]
        simp
      · exact sepRun_ws .PIPE hK _ (by
          intro z hz; rcases List.mem_append.1 hz with e | e
          · exact hw2P z (by simpa using e)
          · exact hwbP z e)
  · rename_i hb1
    rw [hb1] at hwb
    exact ⟨wb, by simpa using hwb, sepRun_ws .PIPE hK _ hwbP⟩

/-- `Relation::remove` on an entry's children: besides the relation, a run of blanks with at most one
    `|` goes — directly before it when another relation precedes, directly after it otherwise -/
theorem C11_gone_relationRemove (es : List RNode) (q : Nat) (r : RNode) (hr : es[q]? = some r) (c : Cut)
    (h : relationRemoveIn es q = .ok c) :
    ∃ A wsA wsB B, c = ⟨A ++ B, Remap.cut A.length (A.length + wsA.length + 1 + wsB.length)⟩
      ∧ es.take q = A ++ wsA ∧ es.drop (q + 1) = wsB ++ B ∧ SepRun .PIPE (wsA ++ wsB)
      ∧ (wsA = [] ∨ wsB = [])
      ∧ ((es.take q).any (isNodeOf .RELATION) = true → wsB = [])
      ∧ ((es.take q).any (isNodeOf .RELATION) = false → wsA = []) := by
  have hK : Kind.PIPE ≠ .WHITESPACE ∧ Kind.PIPE ≠ .NEWLINE := by decide
  have hq : q < es.length := by
    rcases Nat.lt_or_ge q es.length with h' | h'
    · exact h'
    · rw [List.getElem?_eq_none_iff.2 h'] at hr; cases hr
  have htl : (es.take q).length = q := by simp [Nat.min_eq_left (Nat.le_of_lt hq)]
  have hlen : es.length = (es.take q).length + 1 + (es.drop (q + 1)).length := by
    simp only [List.length_take, List.length_drop]; omega
  unfold relationRemoveIn at h
  simp only at h
  cases hb : List.any (List.take q es) (isNodeOf .RELATION)
  · simp only [hb, Bool.not_false, Bool.not_true, Bool.false_eq_true, if_false] at h
    obtain ⟨w1, hw1, hw1P⟩ := dw_split (es.drop (q + 1))
    split at h
    · split at h
      · rename_i x' r' heq hx'
        simp only [Outcome.ok.injEq] at h
        rw [heq] at hw1
        obtain ⟨w2, hw2, hw2P⟩ := dw_split r'
        have hd : es.drop (q + 1) = (w1 ++ x' :: w2) ++ r'.dropWhile isWsElem := by
          conv => lhs; rw [hw1, hw2]
          simp
        refine ⟨es.take q, [], w1 ++ x' :: w2, r'.dropWhile isWsElem, ?_, by simp, hd, ?_, Or.inl rfl,
          (by intro h'; cases h'), fun _ => rfl⟩
        · rw [← h, htl]
          congr 2
          rw [hd] at hlen
          simp only [List.length_append, List.length_cons, List.length_nil] at hlen ⊢
          omega
        · simpa using sepRun_mid .PIPE hK w1 w2 x' hw1P hw2P hx'
      · cases h
    · rename_i heq
      simp only [Outcome.ok.injEq] at h
      rw [heq, List.append_nil] at hw1
      refine ⟨es.take q, [], w1, [], ?_, by simp, by simpa using hw1, ?_, Or.inl rfl,
        (by intro h'; cases h'), fun _ => rfl⟩
      · rw [← h, htl]
        simp only [List.append_nil, List.length_nil]
        congr 2
        rw [hw1] at hlen
        omega
      · simpa using sepRun_ws .PIPE hK w1 hw1P
  · simp only [hb, Bool.not_false, Bool.not_true, if_true] at h
    simp only [Outcome.ok.injEq] at h
    have h' : (⟨stripBack (es.take q) ++ es.drop (q + 1), Remap.cut (stripBack (es.take q)).length (q + 1)⟩ : Cut) = c := h
    obtain ⟨ws, hws, hwsP⟩ := stripBack_gone (es.take q)
    refine ⟨stripBack (es.take q), ws, [], es.drop (q + 1), ?_, hws, by simp, by simpa using hwsP, Or.inr rfl,
      fun _ => rfl, (by intro h'; cases h')⟩
    rw [← h']
    congr 2
    have := congrArg List.length hws
    simp only [List.length_append, htl] at this
    simp only [List.length_nil]
    omega

/-! ### the two missing frames -/

theorem kids_split (f : Field) (p : Nat) (e : RNode) (he : f.kids[p]? = some e) :
    f.kids = f.kids.take p ++ e :: f.kids.drop (p + 1) ∧ (f.kids.take p).length = p := by
  have hp : p < f.kids.length := by
    rcases Nat.lt_or_ge p f.kids.length with h' | h'
    · exact h'
    · rw [List.getElem?_eq_none_iff.2 h'] at he; cases he
  exact ⟨textList_split f.kids p e he, by simp [Nat.min_eq_left (Nat.le_of_lt hp)]⟩

theorem take_mid {α} (pre : List α) (x : α) (post : List α) (p : Nat) (hl : pre.length = p) :
    (pre ++ [x] ++ post).take p = pre ∧ (pre ++ [x] ++ post).drop (p + 1) = post := by
  subst hl; simp

/-- `Relation::remove()` (= `Entry::remove_relation(j)`) on the relation `r` at position `q` of the entry
    `e` at root position `p`. Inside the entry the children are `A ++ wsA ++ r :: wsB ++ B` and become
    `A ++ B`: the relation goes with a run of blanks holding at most one `|`, which stands before it
    when another relation precedes (`wsB = []`) and after it otherwise (`wsA = []`). Then
    * a relation is left: every other root child is where it was, the entry node has the children `A ++ B`;
    * none is left: the entry goes too, by `Entry::remove`: the root children become `A' ++ B'` where
      `take p = A' ++ wA`, `drop (p + 1) = wB ++ B'` and `wA ++ wB` are blanks with at most one `,`. -/
theorem C11_frame_removeRelation (f f' : Field) (p q : Nat) (e r : RNode)
    (he : f.kids[p]? = some e) (hr : e.children[q]? = some r) (h : f.removeRelationAt p q = .ok f') :
    ∃ A wsA wsB B, e.children = A ++ wsA ++ r :: wsB ++ B ∧ A.length + wsA.length = q
      ∧ SepRun .PIPE (wsA ++ wsB)
      ∧ ((e.children.take q).any (isNodeOf .RELATION) = true → wsB = [])
      ∧ ((e.children.take q).any (isNodeOf .RELATION) = false → wsA = [])
      ∧ (((A ++ B).any (isNodeOf .RELATION) = true
            ∧ f'.kids = f.kids.take p ++ .node e.kind (A ++ B) :: f.kids.drop (p + 1))
        ∨ ((A ++ B).any (isNodeOf .RELATION) = false
            ∧ ∃ A' wA wB B', f.kids.take p = A' ++ wA ∧ f.kids.drop (p + 1) = wB ++ B'
                ∧ SepRun .COMMA (wA ++ wB) ∧ f'.kids = A' ++ B')) := by
  obtain ⟨hk, hl⟩ := kids_split f p e he
  have hek : f.entryKids p = e.children := by simp [Field.entryKids, he]
  unfold Field.removeRelationAt at h
  rw [hek] at h
  cases hc : relationRemoveIn e.children q with
  | panic s => rw [hc] at h; simp [Outcome.bind] at h
  | ok c =>
    rw [hc] at h
    simp only [Outcome.bind] at h
    obtain ⟨A, wsA, wsB, B, rfl, hA, hB, hsep, _, h1, h2⟩ := C11_gone_relationRemove e.children q r hr c hc
    have hk1 := entryEdit_kids f p ⟨A ++ B, Remap.cut A.length (A.length + wsA.length + 1 + wsB.length)⟩
      (fun _ => none) _ e _ hk hl
    have hek1 : (f.entryEdit p ⟨A ++ B, Remap.cut A.length (A.length + wsA.length + 1 + wsB.length)⟩).entryKids p
        = A ++ B := by
      have := entryKids_split (f.entryEdit p ⟨A ++ B, Remap.cut A.length (A.length + wsA.length + 1 + wsB.length)⟩)
        (f.kids.take p) (.node e.kind (A ++ B)) (f.kids.drop (p + 1)) (by rw [hk1]; simp)
      rw [hl] at this
      exact this
    have hq : q < e.children.length := by
      rcases Nat.lt_or_ge q e.children.length with h' | h'
      · exact h'
      · rw [List.getElem?_eq_none_iff.2 h'] at hr; cases hr
    have hsplit := textList_split e.children q r hr
    refine ⟨A, wsA, wsB, B, by rw [hsplit, hA, hB]; simp, ?_, hsep, h1, h2, ?_⟩
    · have := congrArg List.length hA
      simp only [List.length_take, List.length_append] at this
      omega
    · rw [hek1] at h
      cases hb : (A ++ B).any (isNodeOf .RELATION)
      · right
        simp only [hb, Bool.not_false, if_true] at h
        refine ⟨rfl, ?_⟩
        unfold Field.removeEntryAt at h
        cases hc' : entryRemove (f.entryEdit p ⟨A ++ B, Remap.cut A.length (A.length + wsA.length + 1 + wsB.length)⟩).kids p with
        | panic s => rw [hc'] at h; simp [Outcome.map] at h
        | ok c' =>
          rw [hc'] at h
          simp only [Outcome.map, Outcome.ok.injEq] at h
          obtain ⟨A', wA, wB, B', rfl, hA', hB', hsep'⟩ := C11_gone_entryRemove _ p c' hc'
          rw [hk1] at hA' hB'
          refine ⟨A', wA, wB, B', ?_, ?_, hsep', by rw [← h]; rfl⟩
          · rw [← hA', (take_mid _ _ _ p hl).1]
          · rw [← hB', (take_mid _ _ _ p hl).2]
      · left
        simp only [hb, Bool.not_true, Bool.false_eq_true, if_false, Outcome.ok.injEq] at h
        refine ⟨rfl, ?_⟩
        rw [← h, hk1]; simp

/-- `Entry::replace(j, rel)` on the entry `e` at root position `p`: every other root child is where it
    was; inside the entry `A ++ old :: B` becomes `A ++ new' :: B`, where `new'` has the kind of the
    operand and as children the leading blanks of `old`, a contiguous middle part of the operand's
    children (all of them when the operand has no edge blanks) and the trailing blanks of `old` -/
theorem C11_frame_entryReplace (f f' : Field) (p j : Nat) (rel e : RNode) (he : f.kids[p]? = some e)
    (h : f.entryReplaceAt p j rel = .ok f') :
    ∃ q old new' mid, nthNode .RELATION e.children j = some q ∧ e.children[q]? = some old
      ∧ f'.kids = f.kids.take p
          ++ .node e.kind (e.children.take q ++ new' :: e.children.drop (q + 1)) :: f.kids.drop (p + 1)
      ∧ new' = .node rel.kind (old.children.takeWhile isWsElem ++ mid
          ++ (old.children.reverse.takeWhile isWsElem).reverse)
      ∧ mid <:+: rel.children ∧ (trimmed rel → mid = rel.children) := by
  obtain ⟨hk, hl⟩ := kids_split f p e he
  have hek : f.entryKids p = e.children := by simp [Field.entryKids, he]
  unfold Field.entryReplaceAt at h
  rw [hek] at h
  cases hq : nthNode .RELATION e.children j with
  | none => rw [hq] at h; simp at h
  | some q =>
    rw [hq] at h
    obtain ⟨pre', r, post', hk', hl', hr', hcnt'⟩ := nthPos_some hq
    subst hl'
    simp only [entryReplaceIn, hk', getElem?_split, Outcome.map, Outcome.ok.injEq] at h
    have hf1 := entryEdit_kids f p
      ⟨List.take pre'.length (pre' ++ r :: post') ++ List.drop (pre'.length + 1) (pre' ++ r :: post'),
        Remap.cut pre'.length (pre'.length + 1)⟩
      (fun x => if x = pre'.length then some (graftWs r rel).2.text else none) _ e _ hk hl
    have hk2 : f'.kids = f.kids.take p ++ [.node e.kind (replaceAt (pre' ++ r :: post') pre'.length
        [(graftWs r rel).1])] ++ f.kids.drop (p + 1) := by
      rw [← h]
      rw [entryEdit_kids _ p _ _ (f.kids.take p) (Node.node e.kind (List.take pre'.length (pre' ++ r :: post')
        ++ List.drop (pre'.length + 1) (pre' ++ r :: post'))) (f.kids.drop (p + 1)) (by rw [hf1]; simp) hl]
      rfl
    refine ⟨pre'.length, r, (graftWs r rel).1,
      ((rel.children.drop (rel.children.takeWhile isWsElem).length).take
        ((rel.children.drop (rel.children.takeWhile isWsElem).length).length
          - (rel.children.reverse.takeWhile isWsElem).length)),
      rfl, by rw [hk']; exact getElem?_split _ _ _, ?_, rfl, ?_, ?_⟩
    · rw [hk2, hk', replaceAt_split]; simp
    · exact List.IsInfix.trans (List.take_prefix _ _).isInfix (List.drop_suffix _ _).isInfix
    · intro ht
      simp [ht.1, ht.2]

/-! ### an entry / substvar that a call does not address keeps its node -/

/-- the position map of `Entry::remove` at `p` on the root -/
def rmEntryRemap (f : Field) (p : Nat) : Remap :=
  match entryRemove f.kids p with
  | .ok c => c.remap
  | .panic _ => Remap.id

/-- the position map of `Relation::remove` at `(p, q)` on the root: the identity, unless the entry
    goes with its last relation -/
def rmRelRemap (f : Field) (p q : Nat) : Remap :=
  match relationRemoveIn (f.entryKids p) q with
  | .ok c =>
    if !(((f.entryEdit p c).entryKids p).any (isNodeOf .RELATION)) then rmEntryRemap (f.entryEdit p c) p
    else Remap.id
  | .panic _ => Remap.id

/-- the root child a call addresses (through a handle at `p`, or `get_entry(i)`) -/
def _root_.Deb822Verif.Rel.Edit.Op.target (f : Field) : Op → Option Nat
  | .setArchqual p _ _ => some p
  | .setVersion p _ _ => some p
  | .dropConstraint p _ => some p
  | .setArchitectures p _ _ => some p
  | .addProfile p _ _ => some p
  | .entryPush p _ => some p
  | .entryReplace p _ _ => some p
  | .removeRelationAt p _ => some p
  | .removeRelation i _ => nthNode .ENTRY f.kids i
  | .insert _ _ => none
  | .push _ => none
  | .replace i _ => nthNode .ENTRY f.kids i
  | .removeEntry i => nthNode .ENTRY f.kids i
  | .removeEntryAt p => some p

/-- where a call moves the root's children (the map the model's handles follow) -/
def _root_.Deb822Verif.Rel.Edit.Op.rootRemap (f : Field) : Op → Remap
  | .removeRelationAt p q => rmRelRemap f p q
  | .removeRelation i j =>
    (match nthNode .ENTRY f.kids i with
      | some p => (match nthNode .RELATION (f.entryKids p) j with
        | some q => rmRelRemap f p q
        | none => Remap.id)
      | none => Remap.id)
  | .insert i e => (relationsInsert f.kids i e).remap
  | .push e => (relationsPush f.kids e).remap
  | .replace i _ =>
    (match nthNode .ENTRY f.kids i with
      | some p => Remap.comp (Remap.ins p 1) (Remap.cut p (p + 1))
      | none => Remap.id)
  | .removeEntry i =>
    (match nthNode .ENTRY f.kids i with
      | some p => rmEntryRemap f p
      | none => Remap.id)
  | .removeEntryAt p => rmEntryRemap f p
  | _ => Remap.id

theorem item_not_sep (k : Kind) (hk : k ≠ .ENTRY ∧ k ≠ .SUBSTVAR) (x : RNode) (hi : isItemNode x = true) :
    isSepOf k x = false := by
  simp only [isItemNode, Bool.and_eq_true, Bool.or_eq_true, beq_iff_eq] at hi
  simp only [isSepOf, isWsElem, Bool.or_eq_false_iff, beq_eq_false_iff_ne]
  rcases hi.2 with e | e <;> rw [e] <;> refine ⟨⟨by decide, by decide⟩, ?_⟩
  · exact fun h => hk.1 h.symm
  · exact fun h => hk.2 h.symm

theorem getElem?_lt {α} {l : List α} {i : Nat} {x : α} (h : l[i]? = some x) : i < l.length := by
  rcases Nat.lt_or_ge i l.length with h' | h'
  · exact h'
  · rw [List.getElem?_eq_none_iff.2 h'] at h; cases h

/-- `Entry::remove` at `p`: an ENTRY / SUBSTVAR node elsewhere stays, the identical node -/
theorem keeps_entryRemove (cs : List RNode) (p : Nat) (c : Cut) (h : entryRemove cs p = .ok c)
    (p0 : Nat) (x : RNode) (hx : cs[p0]? = some x) (hi : isItemNode x = true) (hne : p0 ≠ p) :
    ∃ p', c.remap p0 = some p' ∧ c.kids[p']? = some x := by
  have hf := faithful_entryRemove cs p c h
  obtain ⟨A, wsA, wsB, B, rfl, hA, hB, hsep⟩ := C11_gone_entryRemove cs p c h
  have hp0 := getElem?_lt hx
  have hns := item_not_sep .COMMA (by decide) x hi
  have hlA := congrArg List.length hA
  have hlB := congrArg List.length hB
  simp only [List.length_take, List.length_drop, List.length_append] at hlA hlB
  suffices hs : ∃ p', Remap.cut A.length (cs.length - B.length) p0 = some p' by
    obtain ⟨p', hp'⟩ := hs
    exact ⟨p', hp', hf p0 x hx p' hp'⟩
  simp only [Remap.cut]
  split
  · exact ⟨_, rfl⟩
  · split
    · rename_i h1 h2
      exfalso
      have hmem : x ∈ wsA ++ wsB := by
        rcases Nat.lt_or_ge p0 p with hlt | hge
        · have : (cs.take p)[p0]? = some x := by rw [List.getElem?_take_of_lt hlt]; exact hx
          rw [hA, List.getElem?_append_right (by omega)] at this
          exact List.mem_append_left _ (List.mem_of_getElem? this)
        · have : (cs.drop (p + 1))[p0 - (p + 1)]? = some x := by
            rw [List.getElem?_drop, show p + 1 + (p0 - (p + 1)) = p0 by omega]; exact hx
          rw [hB, List.getElem?_append_left (by omega)] at this
          exact List.mem_append_right _ (List.mem_of_getElem? this)
      have := hsep.1 x hmem
      rw [hns] at this; cases this
    · exact ⟨_, rfl⟩

theorem keeps_removeEntryAt (f f' : Field) (p : Nat) (h : f.removeEntryAt p = .ok f')
    (p0 : Nat) (x : RNode) (hx : f.kids[p0]? = some x) (hi : isItemNode x = true) (hne : p0 ≠ p) :
    ∃ p', rmEntryRemap f p p0 = some p' ∧ f'.kids[p']? = some x := by
  unfold Field.removeEntryAt at h
  unfold rmEntryRemap
  cases hc : entryRemove f.kids p with
  | panic s => rw [hc] at h; simp [Outcome.map] at h
  | ok c =>
    rw [hc] at h
    simp only [Outcome.map, Outcome.ok.injEq] at h
    rw [← h]
    exact keeps_entryRemove f.kids p c hc p0 x hx hi hne

theorem replaceAt_other (cs : List RNode) (p : Nat) (y : RNode) (p0 : Nat) (hne : p0 ≠ p) (hp : p < cs.length) :
    (replaceAt cs p [y])[p0]? = cs[p0]? := by
  have : replaceAt cs p [y] = cs.set p y := by
    simp only [replaceAt]
    rw [List.set_eq_take_append_cons_drop, if_pos hp]; simp
  rw [this, List.getElem?_set_ne (Ne.symm hne)]

theorem keeps_entryEdit (f : Field) (p : Nat) (c : Cut) (lost : Nat → Option Str) (p0 : Nat) (hne : p0 ≠ p) :
    (f.entryEdit p c lost).kids[p0]? = f.kids[p0]? := by
  simp only [Field.entryEdit]
  split
  · rename_i e he
    exact replaceAt_other _ _ _ _ hne (getElem?_lt he)
  · rfl

theorem keeps_relEdit (f : Field) (p q : Nat) (g : RNode → RNode) (p0 : Nat) (hne : p0 ≠ p) :
    (f.relEdit p q g).kids[p0]? = f.kids[p0]? := by
  simp only [Field.relEdit]
  split
  · rename_i e he
    split
    · exact replaceAt_other _ _ _ _ hne (getElem?_lt he)
    · rfl
  · rfl

theorem keeps_removeRelationAt (f f' : Field) (p q : Nat) (h : f.removeRelationAt p q = .ok f')
    (p0 : Nat) (x : RNode) (hx : f.kids[p0]? = some x) (hi : isItemNode x = true) (hne : p0 ≠ p) :
    ∃ p', rmRelRemap f p q p0 = some p' ∧ f'.kids[p']? = some x := by
  unfold Field.removeRelationAt at h
  unfold rmRelRemap
  cases hc : relationRemoveIn (f.entryKids p) q with
  | panic s => rw [hc] at h; simp [Outcome.bind] at h
  | ok c =>
    rw [hc] at h
    simp only [Outcome.bind] at h
    have hx1 : (f.entryEdit p c).kids[p0]? = some x := by rw [keeps_entryEdit f p c _ p0 hne]; exact hx
    simp only
    split at h
    · rename_i hb
      rw [if_pos hb]
      exact keeps_removeEntryAt _ f' p h p0 x hx1 hi hne
    · rename_i hb
      rw [if_neg hb]
      simp only [Outcome.ok.injEq] at h
      exact ⟨p0, rfl, by rw [← h]; exact hx1⟩

theorem keeps_insert (cs : List RNode) (i : Nat) (e : RNode) (p0 : Nat) (x : RNode) (hx : cs[p0]? = some x) :
    ∃ p', (relationsInsert cs i e).remap p0 = some p' ∧ (relationsInsert cs i e).kids[p']? = some x := by
  have hf := faithful_relationsInsert cs i e
  suffices hs : ∃ p', (relationsInsert cs i e).remap p0 = some p' by
    obtain ⟨p', hp'⟩ := hs
    exact ⟨p', hp', hf p0 x hx p' hp'⟩
  have hins : ∀ a k, ∃ p', Remap.ins a k p0 = some p' := by
    intro a k; simp only [Remap.ins]; split <;> exact ⟨_, rfl⟩
  unfold relationsInsert
  split
  · exact hins _ _
  · split
    · exact hins _ _
    · simp only
      split <;> exact hins _ _

theorem replace_remap (a p0 : Nat) (h : p0 ≠ a) :
    Remap.comp (Remap.ins a 1) (Remap.cut a (a + 1)) p0 = some p0 := by
  unfold Remap.comp Remap.cut Remap.ins
  by_cases h1 : p0 < a
  · simp [h1]
  · have h2 : ¬ p0 < a + 1 := by omega
    simp [h1, h2]
    rw [if_neg (by omega)]
    congr 1; omega

/-- ONE call, every operation of `Op`: a root child that is an ENTRY or SUBSTVAR node and is not the
    entry the call addresses survives the call and is the identical node (same kind, same children,
    hence the same text) at the position the call's position map gives -/
theorem C11_step_untouched (f f' : Field) (op : Op) (h : step f op = .ok f')
    (p0 : Nat) (x : RNode) (hx : f.kids[p0]? = some x) (hi : isItemNode x = true)
    (hne : op.target f ≠ some p0) :
    ∃ p', op.rootRemap f p0 = some p' ∧ f'.kids[p']? = some x := by
  have hid : ∀ p (g : Field), (p0 ≠ p → g.kids[p0]? = f.kids[p0]?) → some p ≠ some p0 → Outcome.ok g = Outcome.ok f' →
      ∃ p', Remap.id p0 = some p' ∧ f'.kids[p']? = some x := by
    intro p g hg hn he
    simp only [Outcome.ok.injEq] at he
    refine ⟨p0, rfl, ?_⟩
    rw [← he, hg (fun e => hn (by rw [e]))]; exact hx
  cases op with
  | setArchqual p q aq => exact hid p _ (keeps_relEdit f p q _ p0) hne h
  | setVersion p q vc => exact hid p _ (keeps_relEdit f p q _ p0) hne h
  | dropConstraint p q => exact hid p _ (keeps_relEdit f p q _ p0) hne h
  | setArchitectures p q as => exact hid p _ (keeps_relEdit f p q _ p0) hne h
  | addProfile p q g => exact hid p _ (keeps_relEdit f p q _ p0) hne h
  | entryPush p rel => exact hid p _ (keeps_entryEdit f p _ _ p0) hne h
  | entryReplace p j rel =>
    have hn : p0 ≠ p := fun e => hne (by rw [e]; rfl)
    simp only [step, Field.entryReplaceAt] at h
    split at h
    · cases h
    · rename_i q hq
      cases hr : entryReplaceIn (f.entryKids p) q rel with
      | panic s => rw [hr] at h; simp [Outcome.map] at h
      | ok kr =>
        rw [hr] at h
        simp only [Outcome.map, Outcome.ok.injEq] at h
        refine ⟨p0, rfl, ?_⟩
        rw [← h, keeps_entryEdit _ p _ _ p0 hn, keeps_entryEdit _ p _ _ p0 hn]; exact hx
  | removeRelationAt p q =>
    exact keeps_removeRelationAt f f' p q h p0 x hx hi (fun e => hne (by rw [e]; rfl))
  | removeRelation i j =>
    simp only [step, Field.removeRelation] at h
    simp only [Op.target] at hne
    simp only [Op.rootRemap]
    split at h
    · cases h
    · rename_i p hp
      split at h
      · cases h
      · rename_i q hq
        simp only [hp, hq]
        exact keeps_removeRelationAt f f' p q h p0 x hx hi (fun e => hne (by rw [hp, e]))
  | insert i e =>
    simp only [step, Outcome.ok.injEq] at h
    rw [← h]
    exact keeps_insert f.kids i e p0 x hx
  | push e =>
    simp only [step, Outcome.ok.injEq] at h
    rw [← h]
    exact keeps_insert f.kids _ e p0 x hx
  | replace i e =>
    simp only [step] at h
    obtain ⟨A, old, B, hk, hk', hn⟩ := frame_replace f f' i e h
    simp only [Op.target, hn] at hne
    have hn0 : p0 ≠ A.length := fun e => hne (by rw [e])
    simp only [Op.rootRemap, hn]
    refine ⟨p0, ?_, ?_⟩
    · exact replace_remap _ _ hn0
    · rw [hk'] ; rw [hk] at hx
      by_cases h1 : p0 < A.length
      · rw [List.getElem?_append_left h1] at hx ⊢; exact hx
      · rw [List.getElem?_append_right (by omega)] at hx ⊢
        have : p0 - A.length = (p0 - A.length - 1) + 1 := by omega
        rw [this] at hx ⊢
        simpa using hx
  | removeEntry i =>
    simp only [step, Field.removeEntry] at h
    simp only [Op.target] at hne
    simp only [Op.rootRemap]
    split at h
    · rename_i p hp
      simp only [hp]
      exact keeps_removeEntryAt f f' p h p0 x hx hi (fun e => hne (by rw [hp, e]))
    · cases h
  | removeEntryAt p =>
    exact keeps_removeEntryAt f f' p h p0 x hx hi (fun e => hne (by rw [e]; rfl))

/-! ### composed over histories -/

/-- no call of the history addresses the root child that starts at position `p` (followed through the
    position maps of the calls) -/
def NotAddressed (f : Field) : List Op → Nat → Prop
  | [], _ => True
  | op :: ops, p => op.target f ≠ some p
      ∧ ∀ f1 p1, step f op = .ok f1 → op.rootRemap f p = some p1 → NotAddressed f1 ops p1

/-- where the root child at `p` is after the history -/
def track (f : Field) : List Op → Nat → Option Nat
  | [], p => some p
  | op :: ops, p =>
    match step f op with
    | .ok f1 => (op.rootRemap f p).bind (track f1 ops)
    | .panic _ => none

/-- any executed history of `Op`s: an ENTRY / SUBSTVAR child of the root that no call addressed is
    still in the tree afterwards, the identical node, at the position the composed position maps give -/
theorem C11_history_untouched (f f' : Field) (ops : List Op) (h : run f ops = .ok f')
    (p0 : Nat) (x : RNode) (hx : f.kids[p0]? = some x) (hi : isItemNode x = true)
    (hn : NotAddressed f ops p0) :
    ∃ p', track f ops p0 = some p' ∧ f'.kids[p']? = some x := by
  induction ops generalizing f p0 with
  | nil =>
    simp only [run, Outcome.ok.injEq] at h
    exact ⟨p0, rfl, by rw [← h]; exact hx⟩
  | cons op ops ih =>
    simp only [run] at h
    cases hs : step f op with
    | panic s => rw [hs] at h; simp [Outcome.bind] at h
    | ok f1 =>
      rw [hs] at h
      simp only [Outcome.bind] at h
      obtain ⟨p1, hp1, hx1⟩ := C11_step_untouched f f1 op hs p0 x hx hi hn.1
      obtain ⟨p', hp', hx'⟩ := ih f1 h p1 hx1 (hn.2 f1 p1 hs hp1)
      exact ⟨p', by simp only [track, hs, hp1, Option.bind_some]; exact hp', hx'⟩

/-- the same for calls addressed by index (`irun`, the histories of `C11_history_refines`) -/
def INotAddressed (f : Field) : List IOp → Nat → Prop
  | [], _ => True
  | o :: os, p => ∀ op, o.resolve f = some op → op.target f ≠ some p
      ∧ ∀ f1 p1, step f op = .ok f1 → op.rootRemap f p = some p1 → INotAddressed f1 os p1

def itrack (f : Field) : List IOp → Nat → Option Nat
  | [], p => some p
  | o :: os, p =>
    match o.resolve f with
    | some op =>
      (match step f op with
        | .ok f1 => (op.rootRemap f p).bind (itrack f1 os)
        | .panic _ => none)
    | none => none

theorem C11_ihistory_untouched (f f' : Field) (os : List IOp) (h : irun f os = .ok f')
    (p0 : Nat) (x : RNode) (hx : f.kids[p0]? = some x) (hi : isItemNode x = true)
    (hn : INotAddressed f os p0) :
    ∃ p', itrack f os p0 = some p' ∧ f'.kids[p']? = some x ∧ childText f'.kids p' = x.text := by
  induction os generalizing f p0 with
  | nil =>
    simp only [irun, Outcome.ok.injEq] at h
    exact ⟨p0, rfl, by rw [← h]; exact hx, by rw [← h]; simp [childText, hx]⟩
  | cons o os ih =>
    simp only [irun, istep] at h
    cases hr : o.resolve f with
    | none => rw [hr] at h; simp [Outcome.bind] at h
    | some op =>
      rw [hr] at h
      simp only at h
      cases hs : step f op with
      | panic s => rw [hs] at h; simp [Outcome.bind] at h
      | ok f1 =>
        rw [hs] at h
        simp only [Outcome.bind] at h
        obtain ⟨hn1, hn2⟩ := hn op hr
        obtain ⟨p1, hp1, hx1⟩ := C11_step_untouched f f1 op hs p0 x hx hi hn1
        obtain ⟨p', hp', hx'⟩ := ih f1 h p1 hx1 (hn2 f1 p1 hs hp1)
        exact ⟨p', by simp only [itrack, hr, hs, hp1, Option.bind_some]; exact hp', hx'⟩

/-! ### non-vacuity -/

/-- `a | b, ${v}, c`: both alternatives of the first entry removed through their handles (the entry
    goes with the second), `Entry::replace` on `c`: the substvar is never addressed, moves from position
    3 to position 0 and is the same node -/
def exF : Field := ⟨(readRelaxed "a | b, ${v}, c".toList true).1.children, [], []⟩
def exRel : RNode := toLossless ⟨"n".toList, none, none, none, []⟩
def exOps : List Op := [.removeRelationAt 0 0, .removeRelationAt 0 0, .entryReplace 3 0 exRel]

def okText (o : Outcome Field) : Option Str := match o with | .ok f => some f.root.text | .panic _ => none
def cutText (o : Outcome Cut) : Option Str := match o with | .ok c => some (textList c.kids) | .panic _ => none

/-- a decision procedure for `NotAddressed` -/
def notAddressedB (f : Field) : List Op → Nat → Bool
  | [], _ => true
  | op :: ops, p => decide (op.target f ≠ some p) &&
    (match step f op, op.rootRemap f p with
      | .ok f1, some p1 => notAddressedB f1 ops p1
      | _, _ => true)

theorem notAddressedB_sound (f : Field) (ops : List Op) (p : Nat) (h : notAddressedB f ops p = true) :
    NotAddressed f ops p := by
  induction ops generalizing f p with
  | nil => trivial
  | cons op ops ih =>
    simp only [notAddressedB, Bool.and_eq_true, decide_eq_true_eq] at h
    refine ⟨h.1, fun f1 p1 h1 hp1 => ?_⟩
    have h2 := h.2
    rw [h1, hp1] at h2
    exact ih f1 p1 h2

example : okText (run exF exOps) = some "${v}, n".toList ∧ (exF.kids[3]?).map (·.text) = some "${v}".toList
    ∧ (exF.kids[3]?).map isItemNode = some true ∧ track exF exOps 3 = some 0 := by
  decide +kernel

example : NotAddressed exF exOps 3 := notAddressedB_sound _ _ _ (by decide +kernel)

/-- the frames on a concrete field: `Relation::remove` of `a` in `a | b, ${v}, c`, `Entry::replace` of `b` -/
example : okText (exF.removeRelationAt 0 0) = some "b, ${v}, c".toList
    ∧ okText (exF.entryReplaceAt 0 1 exRel) = some "a | n, ${v}, c".toList
    ∧ cutText (entryRemove exF.kids 0) = some "${v}, c".toList
    ∧ cutText (relationRemoveIn (exF.entryKids 0) 0) = some "b".toList := by
  decide +kernel

end Deb822Verif.Props.C11Frames
