import Deb822Verif.Props.C05
/-!
# C05 — documents collected from PARSED paragraphs (`FromIterator<Paragraph> for Deb822`)

A `Paragraph` parsed from text may lack the terminator of its last line (`"A: 1".parse()`). Since
fix b4e3d7f (F-C05-4) the collector terminates the last line of every paragraph that is followed by
another one (`terminatePara`) before it writes the blank line; before, the single newline of the
blank line only ended that line and the two paragraphs fused on re-reading.

* General part: for ANY list of paragraph bodies in which every line but possibly the last one is
  terminated (what the parser produces for one paragraph), the collected document satisfies the edit
  invariant `UWF`, hence prints to a text the strict reader accepts and reads back to the same
  paragraphs in the same order with the same fields (`C05_collect_reread`); the same for paragraphs
  of the `ParaS` grammar (`C05_collect_reread_paras`) and for paragraphs taken out of the parse of
  well-formed documents (`C05_collect_reread_parsed`).
* Closed witnesses (kernel-evaluated on the model; the harness start family `b.` runs the same
  inputs on the real code).

The statement for paragraphs built from pairs is `C05_history_refines_built` /
`C04_reread_history_built` (those paragraphs are terminated: `terminatePara_built`).
-/
namespace Deb822Verif.Props.C05Collect
open Deb822Verif Deb Node Spec Props.C04 Props.C05

/-! ## the general statement -/

/-- the PARAGRAPH node of a body -/
def paraNode (b : List LItem) : DNode := .node .PARAGRAPH (lnodes b)

/-- the collected document in terms of units: every body but the last one with all its lines
    terminated (`LItem.term`), one blank line between two paragraphs, the last body as it is -/
def collUnits : List (List LItem) → List EUnit
  | [] => []
  | [b] => [.para b]
  | b :: c :: bs => .para (b.map LItem.term) :: .gap .blank :: collUnits (c :: bs)

/-- the bodies the parser can produce for one paragraph: valid lines, every line terminated except
    possibly the last one -/
def BodyOk (b : List LItem) : Prop := itemsTerm (toPs b) false ∧ ∀ i ∈ toPs b, i.WF

instance (b : List LItem) : Decidable (BodyOk b) := by unfold BodyOk; exact inferInstance

theorem collect_kids (bs : List (List LItem)) (h : ∀ b ∈ bs, itemsTerm (toPs b) false) :
    docOfParas (bs.map paraNode) = unitsKids (collUnits bs) := by
  induction bs with
  | nil => rfl
  | cons b bs ih =>
    cases bs with
    | nil => rfl
    | cons c cs =>
      have := ih (fun x hx => h x (by simp [hx]))
      simp only [List.map_cons, docOfParas, collUnits, unitsKids, EUnit.node, paraNode,
        terminatePara] at this ⊢
      rw [this, terminateLastLine_lnodes b (h b (by simp))]; rfl

theorem collect_uwf (bs : List (List LItem)) (h : ∀ b ∈ bs, BodyOk b) : UWF (collUnits bs) := by
  induction bs with
  | nil => exact ⟨by simp [collUnits], trivial⟩
  | cons b bs ih =>
    cases bs with
    | nil =>
      refine ⟨?_, ?_⟩
      · intro u hu; simp [collUnits] at hu; subst hu; exact (h b (by simp)).2
      · exact ⟨(h b (by simp)).1, Or.inl rfl⟩
    | cons c cs =>
      obtain ⟨ih1, ih2⟩ := ih (fun x hx => h x (by simp [hx]))
      refine ⟨?_, ?_⟩
      · intro u hu
        simp only [collUnits, List.mem_cons] at hu
        rcases hu with rfl | rfl | hu
        · exact body_term_wf b (h b (by simp)).2
        · trivial
        · exact ih1 u (by simpa [collUnits] using hu)
      · simp only [collUnits]
        rw [unitsTermN_cons, unitsTermN_cons]
        exact ⟨⟨itemsTerm_of_allNl _ _ (body_term_allNl b), Or.inr rfl⟩, trivial, ih2⟩

theorem isParaNode_terminatePara (p : DNode) : isParaNode (terminatePara p) = isParaNode p := by
  cases p <;> rfl

theorem items_terminatePara (p : DNode) : items (terminatePara p) = items p := by
  cases p with
  | tok k t => rfl
  | node k cs => exact pitems_terminateLastLine cs

/-- **content of a collected document, ANY paragraph nodes** (no hypothesis on their shape): the
    paragraphs of the collected tree are the given ones, in order, with their fields -/
theorem C05_collect_items (ps : List DNode) (h : ∀ p ∈ ps, isParaNode p = true) :
    docItems (.node .ROOT (docOfParas ps)) = ps.map items := by
  show ditems (docOfParas ps) = _
  induction ps with
  | nil => rfl
  | cons p ps ih =>
    cases ps with
    | nil => simp [docOfParas, ditems_eq, h p (by simp)]
    | cons q qs =>
      have := ih (fun x hx => h x (by simp [hx]))
      rw [ditems_eq] at this ⊢
      simp only [docOfParas, List.filter_cons, isParaNode_terminatePara, h p (by simp),
        emptyLine_not_para, if_true, List.map_cons, items_terminatePara] at this ⊢
      simp [this]

theorem items_paraNode (b : List LItem) : items (paraNode b) = bodyContent b := by
  rw [paraNode, items_node, itemsOf_lnodes]

/-- **documents collected from parsed paragraphs re-read.** For any paragraph bodies with valid
    lines of which every one but possibly the last is terminated, the collected document
    (`from_iter`) is the unit list `collUnits bs` — every paragraph but the last fully terminated,
    one blank line between two —, satisfies the edit invariant, and its printed text is accepted by
    the strict reader, without error, and reads back to the same paragraphs in the same order with
    the same fields (a body without any field, e.g. only comments, prints no paragraph). -/
theorem C05_collect_reread (bs : List (List LItem)) (h : ∀ b ∈ bs, BodyOk b) :
    let kids := docOfParas (bs.map paraNode)
    kids = unitsKids (collUnits bs) ∧ UWF (collUnits bs)
    ∧ docItems (.node .ROOT kids) = bs.map bodyContent
    ∧ ∃ s : DocS, s.WF ∧ s.str = (Node.node Kind.ROOT kids).text
      ∧ parse (Node.node Kind.ROOT kids).text = ⟨s.tree, []⟩
      ∧ readStrict (Node.node Kind.ROOT kids).text = .ok s.tree
      ∧ docItems s.tree = (bs.map bodyContent).filter nonEmpty := by
  intro kids
  have hk : kids = unitsKids (collUnits bs) := collect_kids bs (fun b hb => (h b hb).1)
  have hu := collect_uwf bs h
  have hi : docItems (.node .ROOT kids) = bs.map bodyContent := by
    have := C05_collect_items (bs.map paraNode) (by
      intro p hp; simp only [List.mem_map] at hp; obtain ⟨b, _, rfl⟩ := hp; rfl)
    rw [List.map_map] at this
    rw [this]
    exact List.map_congr_left (fun b _ => items_paraNode b)
  refine ⟨hk, hu, hi, ?_⟩
  obtain ⟨s, h1, h2, h3, h4, h5⟩ := rereads_of_units kids _ hk hu
  exact ⟨s, h1, h2, h3, h4, by rw [h5, hi]⟩

/-! ### paragraphs of the grammar (`ParaS`): no body is empty, nothing is filtered -/

theorem bodyOk_para (p : ParaS) (hp : p.WF) (ht : p.Term false) : BodyOk (paraBody p) := by
  refine ⟨?_, ?_⟩
  · rw [toPs_paraBody]; exact ht
  · rw [toPs_paraBody]
    intro i hi
    rcases List.mem_cons.mp hi with rfl | hi
    · exact hp.first_ok
    · exact hp.rest_ok i hi

theorem paraNode_paraBody (p : ParaS) : paraNode (paraBody p) = p.node := node_paraBody p

theorem content_nonEmpty_paras (ps : List ParaS) :
    (ps.map ParaS.content).filter nonEmpty = ps.map ParaS.content := by
  apply List.filter_eq_self.mpr
  intro c hc
  simp only [List.mem_map] at hc
  obtain ⟨p, _, rfl⟩ := hc
  simp [nonEmpty, ParaS.content]

/-- the same for paragraphs of the grammar: a list of well-formed paragraphs whose last lines may
    lack the terminator, collected, re-reads to exactly their contents -/
theorem C05_collect_reread_paras (ps : List ParaS) (h : ∀ p ∈ ps, p.WF ∧ p.Term false) :
    let kids := docOfParas (ps.map ParaS.node)
    ∃ s : DocS, s.WF ∧ s.str = (Node.node Kind.ROOT kids).text
      ∧ parse (Node.node Kind.ROOT kids).text = ⟨s.tree, []⟩
      ∧ readStrict (Node.node Kind.ROOT kids).text = .ok s.tree
      ∧ docItems s.tree = ps.map ParaS.content
      ∧ docItems (.node .ROOT kids) = ps.map ParaS.content := by
  intro kids
  have hb : ∀ b ∈ ps.map paraBody, BodyOk b := by
    intro b hb; simp only [List.mem_map] at hb; obtain ⟨p, hp, rfl⟩ := hb
    exact bodyOk_para p (h p hp).1 (h p hp).2
  have hkids : kids = docOfParas ((ps.map paraBody).map paraNode) := by
    simp only [kids, List.map_map]
    congr 1
    exact List.map_congr_left (fun p _ => (paraNode_paraBody p).symm)
  have hc : (ps.map paraBody).map bodyContent = ps.map ParaS.content := by
    rw [List.map_map]
    apply List.map_congr_left
    intro p _
    show bodyContent (paraBody p) = _
    rw [← items_paraNode, paraNode_paraBody, items_para]
  obtain ⟨_, _, h3, s, h4, h5, h6, h7, h8⟩ := C05_collect_reread (ps.map paraBody) hb
  rw [← hkids] at h3 h5 h6 h7
  rw [hc] at h3
  rw [hc, content_nonEmpty_paras] at h8
  exact ⟨s, h4, h5, h6, h7, h8, h3⟩

/-! ### paragraphs taken out of parsed well-formed documents -/

theorem paraTerm_false_of_parasTerm (l : List (ParaS × List Gap)) (h : parasTerm l) :
    ∀ pg ∈ l, pg.1.Term false := by
  induction l with
  | nil => intro pg hpg; cases hpg
  | cons x l ih =>
    obtain ⟨p, g⟩ := x
    have hmono : ∀ m, p.Term m → p.Term false := fun m hm =>
      ⟨EntryS.term_mono _ _ _ (by simp; intro hh; simp [hh]) hm.1,
       itemsTerm_mono _ _ _ (by simp) hm.2⟩
    cases l with
    | nil =>
      intro pg hpg
      simp only [List.mem_singleton] at hpg; subst hpg
      exact hmono _ h.1
    | cons q qs =>
      intro pg hpg
      rcases List.mem_cons.mp hpg with rfl | hpg
      · exact hmono _ h.1
      · exact ih h.2.2.2 pg hpg

/-- the paragraphs the parser returns for the text of a well-formed document are the nodes of the
    document's `ParaS` -/
theorem parsed_paragraphs (d : DocS) (hwf : d.WF) :
    paragraphs (parse d.str).tree = d.paras.map (·.1.node) := by
  rw [C03.C03_parse_inverts d hwf, paragraphs_tree]

/-- **start family `b.`**: take any paragraphs out of the parses of any well-formed documents (each
    `p` is a paragraph of some well-formed `d`, so `p.node` is among `paragraphs (parse d.str).tree`
    — `parsed_paragraphs`), in any order and multiplicity, and collect them: the printed document is
    accepted by the strict reader without error and reads back to exactly those paragraphs' fields,
    in order. -/
theorem C05_collect_reread_parsed (ps : List ParaS)
    (h : ∀ p ∈ ps, ∃ d : DocS, d.WF ∧ p ∈ d.paras.map (·.1)) :
    let kids := docOfParas (ps.map ParaS.node)
    (∀ p ∈ ps, ∃ d : DocS, d.WF ∧ p.node ∈ paragraphs (parse d.str).tree)
    ∧ ∃ s : DocS, s.WF ∧ s.str = (Node.node Kind.ROOT kids).text
      ∧ parse (Node.node Kind.ROOT kids).text = ⟨s.tree, []⟩
      ∧ readStrict (Node.node Kind.ROOT kids).text = .ok s.tree
      ∧ docItems s.tree = ps.map ParaS.content
      ∧ docItems (.node .ROOT kids) = ps.map ParaS.content := by
  intro kids
  refine ⟨?_, ?_⟩
  · intro p hp
    obtain ⟨d, hd, hm⟩ := h p hp
    refine ⟨d, hd, ?_⟩
    rw [parsed_paragraphs d hd]
    simp only [List.mem_map] at hm ⊢
    obtain ⟨pg, hpg, rfl⟩ := hm
    exact ⟨pg, hpg, rfl⟩
  · apply C05_collect_reread_paras
    intro p hp
    obtain ⟨d, hd, hm⟩ := h p hp
    simp only [List.mem_map] at hm
    obtain ⟨pg, hpg, rfl⟩ := hm
    exact ⟨(hd.paras_ok pg hpg).1, paraTerm_false_of_parasTerm _ hd.paras_term pg hpg⟩

/-! ### non-vacuity -/

/-- `A: 1\n c` (last line, a continuation line, unterminated), `C: 3\n# x` (last line a comment,
    unterminated), `D: 4` -/
def exBodies : List (List LItem) :=
  [[.entry ⟨['A'], [' '], ['1'], true, [⟨[' '], ['c'], false⟩]⟩],
   [.entry ⟨['C'], [' '], ['3'], true, []⟩, .comment " x".toList false],
   [.entry ⟨['D'], [' '], ['4'], false, []⟩]]

example : ∀ b ∈ exBodies, BodyOk b := by decide
example : exBodies.map (·.map LItem.term) ≠ exBodies := by decide
example : (Node.node Kind.ROOT (unitsKids (collUnits exBodies))).text = "A: 1\n c\n\nC: 3\n# x\n\nD: 4".toList := by
  decide +kernel

def exParas : List ParaS :=
  [⟨⟨['A'], [' '], ['1'], true, [⟨[' '], ['c'], false⟩]⟩, []⟩,
   ⟨⟨['C'], [' '], ['3'], true, []⟩, [.comment " x".toList false]⟩]

example : ∀ p ∈ exParas, p.WF ∧ p.Term false := by decide
/-- both paragraphs of the C03 example document, the second one first -/
example : ∀ p ∈ (C03.exDoc.paras.map (·.1)).reverse, ∃ d : DocS, d.WF ∧ p ∈ d.paras.map (·.1) := by
  intro p hp
  exact ⟨C03.exDoc, by decide, by simpa using hp⟩
example : (C03.exDoc.paras.map (·.1)).reverse.length = 2 := by decide

/-! ## closed witnesses (F-C05-4, fixed in b4e3d7f)

`Node.lastTok` (well-founded recursion inside a mutual block) does not reduce in the kernel, so the
witnesses go in three steps (`collects_of`): the texts are the texts of explicit well-formed
paragraphs, so the parser returns their nodes (`paraOfText_para`, by `C03_parse_inverts`);
`terminatePara` on them is rewritten with `terminateLastLine_lnodes` (`collect_kids`); the printed
text / the strict re-read of the explicit tree are evaluated in the kernel. -/

/-- `Paragraph::from_str(t)`: the first paragraph of the parsed text -/
def paraOfText (t : Str) : Option DNode := ((parse t).tree.children.filter isParaNode).head?

def collectParas : List Str → Option (List DNode)
  | [] => some []
  | t :: ts => match paraOfText t, collectParas ts with
    | some p, some ps => some (p :: ps)
    | _, _ => none

def rereads (root : DNode) (want : List (List (Str × Str))) : Bool :=
  match readStrict root.text with
  | .ok t => docItems t == want
  | .error _ => false

/-- the collected document prints `text` and re-reads, strictly, to `want` -/
def collects (ts : List Str) (text : Str) (want : List (List (Str × Str))) : Bool :=
  match collectParas ts with
  | some ps => (Node.node Kind.ROOT (docOfParas ps)).text == text && rereads (.node .ROOT (docOfParas ps)) want
  | none => false

/-- `Paragraph::from_str` on the text of a well-formed paragraph (last line with or without
    terminator) returns that paragraph's node -/
theorem paraOfText_para (p : ParaS) (hp : p.WF) (ht : p.Term false) :
    paraOfText (docOfPara p).str = some p.node := by
  unfold paraOfText
  rw [C03.C03_parse_inverts _ (docOfPara_wf p hp ht)]
  have := paragraphs_tree (docOfPara p)
  rw [paragraphs] at this
  show (List.filter (fun n => n.isNode && n.kind == .PARAGRAPH) (docOfPara p).tree.children).head? = _
  rw [this]; rfl

/-- collecting the paragraphs parsed from the texts of well-formed paragraphs -/
theorem collectParas_paras (ps : List ParaS) (h : ∀ p ∈ ps, p.WF ∧ p.Term false) :
    collectParas (ps.map fun p => (docOfPara p).str) = some ((ps.map paraBody).map paraNode) := by
  induction ps with
  | nil => rfl
  | cons p ps ih =>
    simp only [List.map_cons, collectParas, ih (fun x hx => h x (by simp [hx])),
      paraOfText_para p (h p (by simp)).1 (h p (by simp)).2, paraNode_paraBody]

/-- **from texts to texts**: parse each of the texts of well-formed paragraphs (last line with or
    without terminator) with `Paragraph::from_str`, collect the results: the printed document is
    accepted by the strict reader without error and reads back to exactly those paragraphs' fields,
    in order -/
theorem C05_collect_reread_texts (ps : List ParaS) (h : ∀ p ∈ ps, p.WF ∧ p.Term false) :
    ∃ nodes, collectParas (ps.map fun p => (docOfPara p).str) = some nodes ∧ nodes = ps.map ParaS.node
      ∧ ∃ s : DocS, s.WF ∧ s.str = (Node.node Kind.ROOT (docOfParas nodes)).text
        ∧ parse (Node.node Kind.ROOT (docOfParas nodes)).text = ⟨s.tree, []⟩
        ∧ readStrict (Node.node Kind.ROOT (docOfParas nodes)).text = .ok s.tree
        ∧ docItems s.tree = ps.map ParaS.content := by
  have hn : (ps.map paraBody).map paraNode = ps.map ParaS.node := by
    rw [List.map_map]; exact List.map_congr_left (fun p _ => paraNode_paraBody p)
  refine ⟨_, collectParas_paras ps h, hn, ?_⟩
  rw [hn]
  obtain ⟨s, h1, h2, h3, h4, h5, _⟩ := C05_collect_reread_paras ps h
  exact ⟨s, h1, h2, h3, h4, h5⟩

example : exParas.map (fun p => (docOfPara p).str) = ["A: 1\n c".toList, "C: 3\n# x".toList] := by
  decide +kernel

/-- a witness in three closed steps: the texts are the texts of explicit well-formed paragraphs
    (so the parser returns their nodes: `C03_parse_inverts`), every line but the last is terminated
    (so `terminatePara` is `LItem.term`: `collect_kids`), and the explicit tree prints / re-reads -/
theorem collects_of (ts : List Str) (ps : List ParaS) (text : Str) (want : List (List (Str × Str)))
    (hts : ts = ps.map fun p => (docOfPara p).str)
    (hp : ∀ p ∈ ps, p.WF ∧ p.Term false)
    (h : ((Node.node Kind.ROOT (unitsKids (collUnits (ps.map paraBody)))).text == text
      && rereads (.node .ROOT (unitsKids (collUnits (ps.map paraBody)))) want) = true) :
    collects ts text want = true := by
  unfold collects
  rw [hts, collectParas_paras ps hp]
  have hb : ∀ b ∈ ps.map paraBody, itemsTerm (toPs b) false := by
    intro b hb; simp only [List.mem_map] at hb; obtain ⟨p, hpp, rfl⟩ := hb
    exact (bodyOk_para p (hp p hpp).1 (hp p hpp).2).1
  simp only [collect_kids _ hb]
  exact h

def fld (k v : Char) (nl : Bool) : ParaS := ⟨⟨[k], [' '], [v], nl, []⟩, []⟩

/-- F-C05-4 (fixed in b4e3d7f): `[A: 1, B: 2]` without final newlines prints `A: 1\n\nB: 2` and
    re-reads as two paragraphs -/
theorem C05_fixed_collect_unterminated :
    collects ["A: 1".toList, "B: 2".toList] "A: 1\n\nB: 2".toList
      [[(['A'], ['1'])], [(['B'], ['2'])]] = true :=
  collects_of _ [fld 'A' '1' false, fld 'B' '2' false] _ _
    (by decide +kernel) (by decide) (by decide +kernel)

/-- four paragraphs: a continuation line and a comment as unterminated last lines, one terminated -/
theorem C05_fixed_collect_mixed :
    collects ["A: 1\n c".toList, "B: 2\n".toList, "C: 3\n# x".toList, "D: 4".toList]
      "A: 1\n c\n\nB: 2\n\nC: 3\n# x\n\nD: 4".toList
      [[(['A'], "1\nc".toList)], [(['B'], ['2'])], [(['C'], ['3'])], [(['D'], ['4'])]] = true :=
  collects_of _
    [⟨⟨['A'], [' '], ['1'], true, [⟨[' '], ['c'], false⟩]⟩, []⟩, fld 'B' '2' true,
     ⟨⟨['C'], [' '], ['3'], true, []⟩, [.comment " x".toList false]⟩, fld 'D' '4' false] _ _
    (by decide +kernel) (by decide) (by decide +kernel)

/-- what the terminator is needed for: with the paragraphs joined by the blank line alone (the
    collector before the fix b4e3d7f of F-C05-4) the text is `A: 1\nB: 2`, which re-reads as ONE
    paragraph -/
theorem C05_collect_needs_terminator :
    (match paraOfText "A: 1".toList, paraOfText "B: 2".toList with
     | some a, some b =>
       (Node.node Kind.ROOT [a, emptyLine, b]).text == "A: 1\nB: 2".toList
         && rereads (.node .ROOT [a, emptyLine, b]) [[(['A'], ['1']), (['B'], ['2'])]]
     | _, _ => false) = true := by decide +kernel

/-- the last paragraph is left as it is (no terminator is invented at the end of the document), and
    a single paragraph is copied unchanged (F-C05-4 fix b4e3d7f touches only paragraphs that are
    followed by another one) -/
theorem C05_collect_last_untouched :
    collects ["A: 1".toList] "A: 1".toList [[(['A'], ['1'])]] = true
      ∧ collects ["A: 1\n".toList, "B: 2".toList] "A: 1\n\nB: 2".toList
          [[(['A'], ['1'])], [(['B'], ['2'])]] = true :=
  ⟨collects_of _ [fld 'A' '1' false] _ _ (by decide +kernel) (by decide) (by decide +kernel),
   collects_of _ [fld 'A' '1' true, fld 'B' '2' false] _ _
    (by decide +kernel) (by decide) (by decide +kernel)⟩

end Deb822Verif.Props.C05Collect
