import Deb822Verif.Props.C03Lines
import Deb822Verif.Props.C06More
/-!
# C03 — the lenient grammar the strict reader implements; empty first line; CR / CRLF

After audit_C03 (W1, W2, W3, D1, D2, D3).

1. `lenient`: the LENIENT line grammar as an executable recogniser with content — the grammar of C03
   plus (a) a white-space-only line directly after a field / continuation line (continues the value
   with nothing, the paragraph stays open), (b) blanks between a field name and its colon, (c) an
   indented `#` line between the continuation lines of a value. `C03_lenient_small_scope`: on every
   line list of at most three lines over a pool of one line of each kind (399 documents, with final
   newline) the strict reader accepts iff `lenient` accepts, with exactly the content `lenient`
   gives. THIS IS A BOUNDED TABLE, not the general theorem `C03_accept_iff_lenient` asked for in the
   audit: the general statement needs lexer / parser lemmas for a document specification with
   token-less continuation lines and `KEY WHITESPACE COLON` fields (neither `Spec/DocS` nor
   `Spec/DocC` has them) and is NOT proved here. (Proved since, by another route — per-line lexing and
   a lock-step simulation of the parser's loops, no document AST — in Props/C03Lenient.lean:
   `C03_accept_iff_lenient`, `C03_reject_exact`; the table below stays as an independent cross-check.)
   `C03_lenient_kinds`: the two lenient kinds inside "single-line corruption" with their witnesses.
2. `C03_value_drops_empty_first_line`: `Name:` + empty first line + continuation lines — the lossless
   value is the continuation texts joined (no leading LF), the lossy value keeps the empty first line.
3. `C03_crlf`: CR and LF are two line ends (closed witnesses).
-/
namespace Deb822Verif.Props.C03Exact
open Deb822Verif Deb Node Spec
open Deb822Verif.Props.C03 Deb822Verif.Props.C06

/-! ### 1. the lenient grammar -/

/-- what a line is for the strict reader -/
inductive LKind
  | blank | comment | field (k v : Str) | cont (v : Str) | skip | bad
  deriving DecidableEq, Repr

/-- the kind of an LF/CR-free line, computed from `lineClass`: a white-space-only line and an indented
    `#` line are `skip` (legal only where a value can be continued), a spaced-colon line is a field -/
def lkind (l : Str) : LKind :=
  match lineClass l with
  | .empty => .blank
  | .comment => .comment
  | .wsOnly => .skip
  | .indented =>
    if (l.dropWhile isIndent).head? = some '#' then .skip else .cont (l.dropWhile isIndent)
  | .field => .field (l.takeWhile isKeyChar) (((l.dropWhile isKeyChar).drop 1).dropWhile isIndent)
  | .spacedColon =>
    .field (l.takeWhile isKeyChar)
      ((((l.dropWhile isKeyChar).dropWhile isIndent).drop 1).dropWhile isIndent)
  | .bad => .bad

/-- recogniser and content of the lenient grammar. `prev` = the line before is a field line, a
    continuation line, a white-space-only line or an indented `#` line (a value can be continued);
    `done` / `cur` as in `Spec.contentAux`. `none` = outside the grammar. -/
def lenientAux : List Str → Bool → List (List (Str × Str)) → List (Str × List Str) →
    Option (List (List (Str × Str)))
  | [], _, done, cur => some (if cur = [] then done else finishPara cur :: done).reverse
  | l :: ls, prev, done, cur =>
    match lkind l with
    | .blank => lenientAux ls false (if cur = [] then done else finishPara cur :: done) []
    | .comment => lenientAux ls false done cur
    | .field k v => lenientAux ls true done ((k, if v = [] then [] else [v]) :: cur)
    | .cont v => if prev then lenientAux ls true done (pushLine cur v) else none
    | .skip => if prev then lenientAux ls true done cur else none
    | .bad => none

/-- **the lenient grammar**: `some content` for a line list inside it, `none` outside -/
def lenient (ls : List Str) : Option (List (List (Str × Str))) := lenientAux ls false [] []

/-- the strict reader and the lenient grammar agree on this line list (every line LF-terminated) -/
def agreeOn (ls : List Str) : Bool :=
  let p := parse (render (ls.map .raw) true)
  match lenient ls with
  | some c => p.errors.isEmpty && decide (docItems p.tree = c)
  | none => !p.errors.isEmpty

theorem agreeOn_spec (ls : List Str) (h : agreeOn ls = true) :
    ((∃ t, readStrict (render (ls.map .raw) true) = .ok t) ↔ (lenient ls).isSome)
    ∧ ∀ c, lenient ls = some c →
        ∃ t, readStrict (render (ls.map .raw) true) = .ok t ∧ docItems t = c := by
  unfold agreeOn at h
  cases hl : lenient ls with
  | none =>
    rw [hl] at h
    simp only [Bool.not_eq_true', List.isEmpty_eq_false_iff] at h
    refine ⟨⟨?_, by simp⟩, by simp⟩
    rintro ⟨t, ht⟩
    exact absurd ht ((readers_of_parse_error _ h).2 t)
  | some c =>
    rw [hl] at h
    simp only [Bool.and_eq_true, List.isEmpty_iff, decide_eq_true_eq] at h
    have hr := readStrict_of_no_errors _ h.1
    refine ⟨⟨fun _ => rfl, fun _ => ⟨_, hr⟩⟩, ?_⟩
    intro c' hc'
    cases hc'
    exact ⟨_, hr, h.2⟩

/-- one line of each kind: blank, comment, field, spaced-colon field, continuation, white-space-only,
    indented `#`, bad -/
def pool : List Str :=
  ["".toList, "#c".toList, "A: b".toList, "B :c".toList, " d".toList, " ".toList, " #e".toList,
   "x".toList]

def lists3 : List (List Str) :=
  (pool.map fun a => [a]) ++ (pool.flatMap fun a => pool.map fun b => [a, b])
    ++ (pool.flatMap fun a => pool.flatMap fun b => pool.map fun c => [a, b, c])

/-- **small scope (bounded table, kind "witness")**: on each of the 584 line lists of one to three
    lines over `pool` the strict reader accepts the rendered text iff the list is in the lenient
    grammar, and then exposes exactly the content the lenient grammar assigns -/
theorem C03_lenient_small_scope : ∀ ls ∈ lists3, agreeOn ls = true := by
  decide +kernel

/-- **the two lenient kinds inside "single-line corruption"** (audit D1, D2), and the third one the
    property excludes by its wording (indented `#` line): none of them is a field, continuation,
    comment or blank line of the grammar of C03 (`C03_illegal_line`), each is accepted. With the
    content: the white-space-only line and the indented `#` line add nothing and do not end the
    paragraph; the spaced-colon line is a field. Where no value can be continued (first line, after a
    blank or comment line) the first and the third are rejected. -/
theorem C03_lenient_kinds :
    lenient ["A: b".toList, " ".toList, "C: d".toList]
      = some [[("A".toList, "b".toList), ("C".toList, "d".toList)]]
    ∧ lenient ["A : b".toList, " c".toList] = some [[("A".toList, "b\nc".toList)]]
    ∧ lenient ["A: b".toList, " #c".toList, " d".toList] = some [[("A".toList, "b\nd".toList)]]
    ∧ lenient ["A: b".toList, "".toList, " ".toList] = none
    ∧ lenient [" #c".toList, "A: b".toList] = none
    ∧ lenient ["A: b".toList, "#c".toList, " d".toList] = none
    ∧ agreeOn ["A: b".toList, " ".toList, "C: d".toList] = true
    ∧ agreeOn ["A : b".toList, " c".toList] = true
    ∧ agreeOn ["A: b".toList, " #c".toList, " d".toList] = true
    ∧ agreeOn ["A: b".toList, "".toList, " ".toList] = true
    ∧ agreeOn [" #c".toList, "A: b".toList] = true
    ∧ agreeOn ["A: b".toList, "#c".toList, " d".toList] = true := by
  refine ⟨?_, ?_, ?_, ?_, ?_, ?_, ?_, ?_, ?_, ?_, ?_, ?_⟩ <;> decide +kernel

/-- on the example of Props/C03Lines.lean (`exLines`, nine lines, two paragraphs) the lenient grammar
    gives the content of the flat grammar -/
example : lenient (exLines.map Line.text) = some (content exLines) := by decide +kernel

/-! ### 2. the empty first line -/

/-- **entry level** (every field of every well-formed document: `C03_accept` exposes `e.content`,
    `C06_joint_accept` exposes `lossyEntry e`): with an empty first line and at least one
    continuation line the lossless value is the continuation texts joined by LF, the lossy value is
    the same with one LF in front (the empty first line is kept as a line) -/
theorem empty_first_line_entry (e : EntryS) (hv : e.v = []) (c : ContS) (cs : List ContS)
    (hc : e.conts = c :: cs) :
    e.content = (e.key, Text.join ['\n'] (e.conts.map ContS.text))
    ∧ lossyEntry e = (e.key, '\n' :: Text.join ['\n'] (e.conts.map ContS.text)) := by
  constructor
  · simp [EntryS.content, EntryS.valueLines, hv]
  · simp [lossyEntry, lossyValue, hv, hc, Text.join]

/-- the one-field document `k:` ws LF, then the continuation lines -/
def emptyFirstDoc (k ws : Str) (cs : List ContS) : DocS :=
  ⟨[], [(⟨⟨k, ws, [], true, cs⟩, []⟩, [])]⟩

/-- **the empty-first-line convention**: for `Name:` + empty first line + one or more continuation
    lines the strict lossless reader returns the continuation texts joined by LF — the empty first
    line is dropped, the value has NO leading LF — and the lossy reader returns the same with the
    leading LF (`C06_normal`: lossless = lossy minus empty lines) -/
theorem C03_value_drops_empty_first_line (k ws : Str) (c : ContS) (cs : List ContS)
    (hk : ValidKey k) (hws : AllIndent ws) (hcs : ∀ x ∈ c :: cs, x.WF)
    (hterm : contsTerm (c :: cs) false) :
    (emptyFirstDoc k ws (c :: cs)).str
        = k ++ ':' :: (ws ++ ['\n']) ++ ((c :: cs).map ContS.str).flatten
    ∧ (∃ t, readStrict (emptyFirstDoc k ws (c :: cs)).str = .ok t
        ∧ docItems t = [[(k, Text.join ['\n'] ((c :: cs).map ContS.text))]])
    ∧ Lossy.read (emptyFirstDoc k ws (c :: cs)).str
        = .ok [[(k, '\n' :: Text.join ['\n'] ((c :: cs).map ContS.text))]] := by
  have hwf : (emptyFirstDoc k ws (c :: cs)).WF := by
    refine ⟨by simp [emptyFirstDoc], by simp [emptyFirstDoc, gapsTerm], ?_, ?_⟩
    · intro pg hpg
      simp only [emptyFirstDoc, List.mem_singleton] at hpg
      subst hpg
      refine ⟨⟨⟨hk, hws, ⟨by intro x hx; simp at hx, by simp⟩, hcs⟩, by simp⟩, by simp⟩
    · simp only [emptyFirstDoc, parasTerm, ParaS.Term, EntryS.Term, itemsTerm, gapsTerm]
      simp [hterm]
  have he := empty_first_line_entry ⟨k, ws, [], true, c :: cs⟩ rfl c cs rfl
  refine ⟨?_, ?_, ?_⟩
  · simp [emptyFirstDoc, DocS.str, ParaS.str, EntryS.str, gapsStr, nlText]
  · refine ⟨_, (C03_accept _ hwf).1, ?_⟩
    rw [(C03_accept _ hwf).2]
    simp only [emptyFirstDoc, DocS.content, ParaS.content, List.map_cons, List.map_nil,
      List.flatten_nil, he.1]
  · rw [(C06_joint_accept _ hwf).1]
    simp only [emptyFirstDoc, lossyDoc, lossyPara, lossyItems, itemEntries, List.map_cons,
      List.map_nil, he.2]

/-- `Files:` + empty first line + two continuation lines -/
example : ∃ t, readStrict "Files:\n a b\n c d\n".toList = .ok t
      ∧ docItems t = [[("Files".toList, "a b\nc d".toList)]] := by
  obtain ⟨h0, ⟨t, h1, h2⟩, _⟩ := C03_value_drops_empty_first_line "Files".toList []
    ⟨[' '], "a b".toList, true⟩ [⟨[' '], "c d".toList, true⟩] (by decide) (by decide) (by decide)
    (by decide)
  have e : (emptyFirstDoc "Files".toList [] [⟨[' '], "a b".toList, true⟩, ⟨[' '], "c d".toList, true⟩]).str
      = "Files:\n a b\n c d\n".toList := by decide
  rw [e] at h1
  exact ⟨t, h1, by rw [h2]; decide⟩

example : Lossy.read "Files:\n a b\n c d\n".toList = .ok [[("Files".toList, "\na b\nc d".toList)]] := by
  decide +kernel

/-! ### 3. CR and CR LF -/

/-- **CR / CRLF (closed witnesses)**: U+000D and U+000A are each a line end for the lexer, so a CRLF
    line break is read as two. (1) `A: b⏎C: d⏎` with CRLF: accepted as TWO paragraphs (every field line
    is followed by an empty line); (2) `A: b⏎ c⏎` with CRLF: REJECTED with "expected key" (the
    continuation line follows an empty line); (3) with lone CR as line break both are read like their
    LF forms (one paragraph; value `b⏎c` joined with LF). CR is outside the domain of the C03
    theorems (`NoNl`) -/
theorem C03_crlf :
    (∃ t, readStrict "A: b\r\nC: d\r\n".toList = .ok t
      ∧ docItems t = [[("A".toList, "b".toList)], [("C".toList, "d".toList)]])
    ∧ ("expected key" ∈ (readRelaxed "A: b\r\n c\r\n".toList).2
      ∧ ∀ t, readStrict "A: b\r\n c\r\n".toList ≠ .ok t)
    ∧ (∃ t, readStrict "A: b\rC: d\r".toList = .ok t
      ∧ docItems t = [[("A".toList, "b".toList), ("C".toList, "d".toList)]])
    ∧ (∃ t, readStrict "A: b\r c\r".toList = .ok t
      ∧ docItems t = [[("A".toList, "b\nc".toList)]]) := by
  have e1 : (parse "A: b\r\nC: d\r\n".toList).errors = [] := by decide +kernel
  have e2 : "expected key" ∈ (parse "A: b\r\n c\r\n".toList).errors := by decide +kernel
  have e3 : (parse "A: b\rC: d\r".toList).errors = [] := by decide +kernel
  have e4 : (parse "A: b\r c\r".toList).errors = [] := by decide +kernel
  refine ⟨⟨_, readStrict_of_no_errors _ e1, by decide +kernel⟩, ⟨?_, ?_⟩,
    ⟨_, readStrict_of_no_errors _ e3, by decide +kernel⟩,
    ⟨_, readStrict_of_no_errors _ e4, by decide +kernel⟩⟩
  · simpa [readRelaxed] using e2
  · exact (readers_of_parse_error _ (List.ne_nil_of_mem e2)).2

end Deb822Verif.Props.C03Exact
